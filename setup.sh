#!/bin/sh
# Build the framework from files on disk only (offline): Lean model + proofs + driver, Rust harness.
set -e
cd "$(dirname "$0")"
export CARGO_NET_OFFLINE=true
( cd lean && lake build )
( cd harness && cargo build --release --offline )
echo "setup ok"
