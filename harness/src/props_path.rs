//! Generators for C11 (distances/paths) and C14 (sub-ontologies).
use crate::gen::*;
use crate::rng::Rng;
use std::collections::{BTreeMap, BTreeSet};

/// render the facts through the Builder API (2/5) or the binary format v1-v3 (3/5) into slot 0
fn construct(rng: &mut Rng, path: u64, f: &mut Facts, c: &mut Case, with_roots: bool, force_defaults: bool) {
    if path < 2 {
        c.tag = format!("{}-builder", c.tag);
        facts_to_prog(rng, f, &ProgOpts { shuffle: true, failing_permille: 0, build_defaults: with_roots || force_defaults, slot: 0 }, c);
    } else {
        let fv = if force_defaults { rng.range(2, 3) as u8 } else { (path - 1) as u8 };
        c.tag = format!("{}-bytes", c.tag);
        let flags = gen_flags(rng, f);
        c.stat(&format!("binary_v{fv}"), 1);
        c.stat("obsolete_or_replaced_terms", flags.len() as u64);
        facts_to_fops(rng, f, &flags, fv, 0, true, c);
    }
}

fn parents_of(f: &Facts) -> BTreeMap<u32, Vec<u32>> {
    let mut m: BTreeMap<u32, Vec<u32>> = f.terms.iter().map(|t| (t.0, vec![])).collect();
    for (p, c) in &f.edges {
        m.entry(*c).or_default().push(*p);
    }
    m
}

/// (shortest upward distance, number of shortest chains) from `from` to every ancestor
fn up_counts(par: &BTreeMap<u32, Vec<u32>>, from: u32) -> BTreeMap<u32, (usize, u64)> {
    let mut d: BTreeMap<u32, (usize, u64)> = BTreeMap::new();
    d.insert(from, (0, 1));
    let mut frontier = vec![from];
    let mut level = 0usize;
    while !frontier.is_empty() {
        level += 1;
        let mut next: Vec<u32> = vec![];
        for x in &frontier {
            let cx = d[x].1;
            for p in par.get(x).map(|v| v.as_slice()).unwrap_or(&[]) {
                match d.get_mut(p) {
                    None => {
                        d.insert(*p, (level, cx));
                        next.push(*p);
                    }
                    Some(e) if e.0 == level => e.1 = e.1.saturating_add(cx),
                    _ => {}
                }
            }
        }
        frontier = next;
    }
    d
}

// ---------------------------------------------------------------- C11

/// graft "long chain + shortcut over a higher common ancestor": a chain of `len` links from t up
/// to a, and a shared parent s of t and a (so d(t,a) = 2 although a is an ancestor of t)
fn graft_detour(rng: &mut Rng, f: &mut Facts, len: usize) {
    let used: Vec<u32> = f.terms.iter().map(|t| t.0).collect();
    let ids = gen_ids(rng, len + 2, &used);
    for id in &ids {
        f.terms.push((*id, gen_name(rng)));
    }
    // ids[0] = t, ids[1..len] = inner chain, ids[len] = a, ids[len+1] = s
    for i in 0..len {
        f.edges.push((ids[i + 1], ids[i]));
    }
    let (t, a, s) = (ids[0], ids[len], ids[len + 1]);
    f.edges.push((s, t));
    f.edges.push((s, a));
    // hang it below an existing term now and then
    if !used.is_empty() && rng.chance(1, 2) {
        f.edges.push((*rng.pick(&used), s));
    }
}

pub fn c11(rng: &mut Rng, _tier: &str, idx: usize) -> Case {
    if idx == 3 {
        // more than 65 535 terms (implementation against the harness oracle only): lookups, links,
        // distances, set operations, common ancestors, sub-ontology and comparison on terms in arena
        // slots beyond 65 535
        let mut c = Case::new("big-arena");
        c.op(format!("bigarena 70000 {}", rng.next()));
        c.stat("big_arena_terms", 70000);
        c.nontrivial = true;
        return c;
    }
    if idx == 2 {
        // a single-parent chain far deeper than any shipped ontology (distances beyond 255 and
        // beyond the 30-entry inline group size), queried for selected pairs only
        let mut c = Case::new("very-deep-chain");
        let n = 300 + rng.below(60) as usize;
        let ids = gen_ids(rng, n + 1, &[]);
        c.op("new".to_string());
        for id in &ids {
            c.op(format!("term {} -", id));
        }
        c.op("complete".to_string());
        for i in 1..n {
            c.op(format!("parent {} {}", ids[i - 1], ids[i]));
        }
        // a sibling of the chain head's child: distance to a deep term goes up and one down
        c.op(format!("parent {} {}", ids[0], ids[n]));
        c.op("connect".to_string());
        c.op("ic".to_string());
        c.op("build min 0".to_string());
        let deep = [n - 1, n - 2, 256, 257, 255, 254, 200, 31, 30, 1];
        for d in deep {
            c.op(format!("dist1 0 {} {}", ids[d], ids[n]));
            c.op(format!("dist1 0 {} {}", ids[n], ids[d]));
            c.op(format!("dist1 0 {} {}", ids[d], ids[0]));
        }
        c.stat("very_deep_chain_terms", n as u64);
        c.nontrivial = true;
        return c;
    }
    if idx % 25 == 11 {
        // more than 30 common ancestors, shortcuts to high ancestors, a term with > 10 parents
        let mut c = Case::new("trunk");
        let mut f = gen_trunk(rng);
        let path = rng.below(5);
        construct(rng, path, &mut f, &mut c, true, false);
        facts_stats(&f, &mut c);
        c.stat("trunk_cases", 1);
        c.op("dist 0".to_string());
        c.op("oracle paths 0".to_string());
        c.nontrivial = true;
        return c;
    }
    let mut c = Case::new("dist");
    let path = rng.below(5);
    let with_roots = path >= 2 || rng.chance(1, 3); // `from_bytes` needs HP:1 and HP:118
    // path_to_ancestor walks every upward route: keep the DAGs small enough for all ordered pairs
    let max_terms = *rng.pick(&[3usize, 6, 10, 14]);
    let (mut f, shape) = gen_facts(rng, &DagOpts { max_terms, with_roots, max_recs: 2 });
    c.stat(&format!("shape_{shape:?}"), 1);
    if rng.chance(1, 4) {
        let len = rng.range(3, 6) as usize;
        graft_detour(rng, &mut f, len);
        c.stat("grafted_chain_plus_shortcut", 1);
    }
    f.edges.sort_unstable();
    f.edges.dedup();
    construct(rng, path, &mut f, &mut c, with_roots, false);
    let (multi, _) = facts_stats(&f, &mut c);
    // structure statistics: ties, ancestor pairs with a shorter route over a higher ancestor, disconnected pairs
    let par = parents_of(&f);
    let ids: Vec<u32> = par.keys().copied().collect();
    let up: BTreeMap<u32, BTreeMap<u32, (usize, u64)>> = ids.iter().map(|i| (*i, up_counts(&par, *i))).collect();
    let (mut ties, mut detours, mut disconnected, mut anc_pairs) = (0u64, 0u64, 0u64, 0u64);
    for a in &ids {
        for b in &ids {
            if a == b {
                continue;
            }
            if let Some((d, n)) = up[a].get(b) {
                anc_pairs += 1;
                if *n > 1 {
                    ties += 1;
                }
                let best = up[a].iter().filter_map(|(x, (da, _))| up[b].get(x).map(|(db, _)| da + db)).min().unwrap();
                if best < *d {
                    detours += 1;
                }
            }
            if !up[a].keys().any(|x| up[b].contains_key(x)) {
                disconnected += 1;
            }
        }
    }
    c.stat("ordered_pairs", (ids.len() * ids.len()) as u64);
    c.stat("ancestor_pairs", anc_pairs);
    c.stat("ancestor_pairs_with_tied_shortest_chains", ties);
    c.stat("ancestor_pairs_with_shorter_route_over_higher_ancestor", detours);
    c.stat("pairs_without_common_ancestor", disconnected);
    c.op("dist 0".to_string());
    c.op("oracle paths 0".to_string());
    if rng.chance(1, 4) && f.edges.len() >= 2 {
        // a second ontology with the same ids and one link fewer, measured by the same objects
        let mut f2 = f.clone();
        let i = rng.below(f2.edges.len() as u64) as usize;
        let e = f2.edges.remove(i);
        if e == (1, 118) {
            f2.edges.push(e);
        }
        facts_to_prog(rng, &f2, &ProgOpts { shuffle: true, failing_permille: 0, build_defaults: with_roots, slot: 1 }, &mut c);
        c.op("dist 1".to_string());
        c.op("oracle paths 1".to_string());
        c.stat("second_ontology_same_ids", 1);
    }
    c.nontrivial = multi > 0;
    c
}

// ---------------------------------------------------------------- C14

pub fn c14(rng: &mut Rng, _tier: &str, idx: usize) -> Case {
    if idx == 3 {
        // more than 65 535 terms (implementation against the harness oracle only): lookups, links,
        // distances, set operations, common ancestors, sub-ontology and comparison on terms in arena
        // slots beyond 65 535
        let mut c = Case::new("big-arena");
        c.op(format!("bigarena 70000 {}", rng.next()));
        c.stat("big_arena_terms", 70000);
        c.nontrivial = true;
        return c;
    }
    if idx % 6 == 4 {
        // a random DAG on 5 nodes with EVERY root and EVERY leaf set below it (several leaves,
        // cuts above retained terms)
        let mut c = crate::props::small_dag_case("C14", 5, rng.below(1024) as usize, rng.below(120) as usize);
        c.tag = "five-nodes-all-queries".to_string();
        return c;
    }
    if idx % 60 == 7 {
        // a retained term with 9..13 / 31..33 RETAINED direct parents: all the middle terms of a
        // fan and the term below them are leaves (every chain is unique, so the result is compared
        // exactly)
        let mut c = Case::new("sub-fan");
        let p = *rng.pick(&[9usize, 10, 11, 12, 13, 31, 33]);
        let f = gen_fan(rng, p);
        facts_to_prog(rng, &f, &ProgOpts { shuffle: true, failing_permille: 0, build_defaults: true, slot: 0 }, &mut c);
        facts_stats(&f, &mut c);
        c.op("dump 0".to_string());
        // f.terms: 1, 118, the p middle terms, the two low terms
        let mids: Vec<u32> = f.terms[2..2 + p].iter().map(|t| t.0).collect();
        let low0 = f.terms[2 + p].0;
        let mut leaves = mids.clone();
        leaves.push(low0);
        rng.shuffle(&mut leaves);
        let ls = crate::proto::ids(leaves.iter().copied());
        c.op(format!("sub 0 1 118 {ls}"));
        c.op(format!("oracle sub 0 118 {ls}"));
        c.op("dump 1".to_string());
        c.op("oracle closure 1".to_string());
        c.op("oracle inherit 1".to_string());
        c.op("oracle ic 1".to_string());
        c.stat(&format!("fan_{p}"), 1);
        c.stat("sub_ontology_calls", 1);
        c.nontrivial = true;
        return c;
    }
    let mut c = Case::new("sub");
    let max_terms = *rng.pick(&[4usize, 8, 12, 16]);
    let (mut f, shape) = gen_facts(rng, &DagOpts { max_terms, with_roots: true, max_recs: 5 });
    c.stat(&format!("shape_{shape:?}"), 1);
    // modifier branches (children of HP:1 other than HP:118) and more phenotype branches
    let others: Vec<u32> = f.terms.iter().map(|t| t.0).filter(|x| *x != 1 && *x != 118).collect();
    for o in &others {
        if rng.chance(1, 5) {
            f.edges.push((1, *o));
        }
        if rng.chance(1, 3) {
            f.edges.push((118, *o));
        }
    }
    f.edges.sort_unstable();
    f.edges.dedup();
    // more annotations, aimed at modifier roots and their descendants as well
    let par0 = parents_of(&f);
    let mod_roots: Vec<u32> = f.edges.iter().filter(|e| e.0 == 1 && e.1 != 118).map(|e| e.1).collect();
    let ids0: Vec<u32> = par0.keys().copied().collect();
    let up0: BTreeMap<u32, BTreeMap<u32, (usize, u64)>> = ids0.iter().map(|i| (*i, up_counts(&par0, *i))).collect();
    let is_mod = |t: u32| mod_roots.iter().any(|m| up0[&t].contains_key(m));
    let mod_terms: Vec<u32> = ids0.iter().copied().filter(|t| is_mod(*t)).collect();
    for k in 0..3 {
        let rv: Vec<u32> = f.recs[k].iter().map(|r| r.0).collect();
        if rv.is_empty() {
            continue;
        }
        for _ in 0..rng.below(4) {
            if !mod_terms.is_empty() {
                f.links[k].push((*rng.pick(&rv), *rng.pick(&mod_terms)));
                c.stat("links_to_modifier_terms", 1);
            }
            if !mod_roots.is_empty() && rng.chance(1, 2) {
                f.links[k].push((*rng.pick(&rv), *rng.pick(&mod_roots)));
                c.stat("links_to_modifier_roots", 1);
            }
        }
    }
    let path = rng.below(5);
    construct(rng, path, &mut f, &mut c, true, true);
    facts_stats(&f, &mut c);
    c.stat("modifier_roots", mod_roots.len() as u64);
    c.stat("modifier_terms", mod_terms.len() as u64);
    let par = parents_of(&f);
    let ids: Vec<u32> = par.keys().copied().collect();
    let up: BTreeMap<u32, BTreeMap<u32, (usize, u64)>> = ids.iter().map(|i| (*i, up_counts(&par, *i))).collect();
    c.op("dump 0".to_string());
    let ncalls = if idx % 3 == 0 { rng.range(3, 4) } else { rng.range(2, 4) };
    let mut nontrivial = false;
    for call in 0..ncalls {
        let dst = 1 + call as u32;
        // every third case: the roots are cleared (or replaced) before the second call and set back
        // to the defaults before the third one, on the same ontology object
        let scripted = idx % 3 == 0 && (call == 1 || call == 2);
        if call >= 1 && (rng.chance(1, 3) || scripted) {
            // the modifier roots change between two calls on the same ontology object
            let pick = if scripted { if call == 1 { 1 + rng.below(2) } else { 0 } } else { rng.below(4) };
            let v = match pick {
                0 => "def".to_string(),
                1 => "-".to_string(),
                _ => crate::proto::ids(ids.iter().copied().filter(|x| *x != 1 && *x != 118 && rng.chance(1, 4))),
            };
            c.op(format!("setmod 0 {v}"));
            c.stat("modifier_changed_between_calls", 1);
        }
        let root = match rng.below(6) {
            0 => 1,
            1 | 2 => 118,
            3 if !mod_roots.is_empty() => *rng.pick(&mod_roots),
            _ => *rng.pick(&ids),
        };
        let below: Vec<u32> = ids.iter().copied().filter(|t| up[t].contains_key(&root)).collect(); // root included
        let outside: Vec<u32> = ids.iter().copied().filter(|t| !up[t].contains_key(&root)).collect();
        let mut leaves: Vec<u32> = vec![];
        let mode = rng.below(10);
        let k = match mode {
            0 => 1,
            _ => rng.range(1, 4) as usize,
        };
        for _ in 0..k {
            leaves.push(*rng.pick(&below));
        }
        match mode {
            1 => {
                leaves.push(root); // leaf == root
                c.stat("leaf_is_root", 1);
            }
            2 => {
                let l = leaves[0]; // duplicate
                leaves.push(l);
                c.stat("duplicate_leaf", 1);
            }
            3 => {
                // a leaf that is an ancestor of another leaf (on some chain to root)
                let l = leaves[0];
                let mids: Vec<u32> = up[&l].keys().copied().filter(|x| *x != l && up[x].contains_key(&root)).collect();
                if !mids.is_empty() {
                    leaves.push(*rng.pick(&mids));
                    c.stat("leaf_ancestor_of_leaf", 1);
                }
            }
            4 if !outside.is_empty() => {
                let pos = rng.below(leaves.len() as u64 + 1) as usize;
                leaves.insert(pos, *rng.pick(&outside)); // -> refused
                c.stat("leaf_outside_root", 1);
            }
            5 if !outside.is_empty() && rng.chance(1, 2) => {
                leaves = vec![*rng.pick(&outside)];
                c.stat("leaf_outside_root", 1);
            }
            6 if rng.chance(1, 6) => {
                leaves.clear(); // empty collection: outside the property, must still agree with the model
                c.stat("no_leaves", 1);
            }
            _ => {}
        }
        rng.shuffle(&mut leaves);
        let refused = leaves.iter().any(|l| !up[l].contains_key(&root));
        if leaves.iter().collect::<BTreeSet<_>>().len() < leaves.len() {
            c.stat("calls_with_repeated_leaves", 1);
        }
        c.stat(if refused { "calls_refused" } else { "calls_accepted" }, 1);
        // which of several equally short chains is kept is the implementation's choice: the
        // result is compared exactly only when every leaf has ONE shortest chain to root
        let unique = !refused && leaves.iter().all(|l| up[l][&root].1 == 1);
        let ls = crate::proto::ids(leaves.iter().copied());
        c.op(format!("sub 0 {dst} {root} {ls}"));
        c.op(format!("oracle sub 0 {root} {ls}"));
        if !refused {
            if unique {
                c.op(format!("dump {dst}"));
                c.stat("results_compared_exactly", 1);
            } else {
                c.stat("results_with_tied_chains_validated_by_predicate_only", 1);
            }
            // the result again satisfies the closure / inheritance / information-content properties
            c.op(format!("oracle closure {dst}"));
            c.op(format!("oracle inherit {dst}"));
            c.op(format!("oracle ic {dst}"));
            if leaves.iter().any(|l| up[l][&root].0 >= 2) {
                nontrivial = true;
            }
        }
    }
    c.stat("sub_ontology_calls", ncalls);
    c.nontrivial = nontrivial;
    c
}
