//! Per-property case generators. `cases(prop, tier, seed)` is deterministic in its arguments.
use crate::gen::*;
use crate::proto::*;
use crate::rng::Rng;

pub struct Plan {
    pub n_cases: usize,
}

/// properties with a second small-scope sweep in the thorough tier (`small_scope2`)
const SMALL2_PROPS: [&str; 5] = ["C04", "C11", "C12", "C14", "C19"];
/// every DAG on 4 (then 3) nodes x every assignment of the ids
pub const SMALL2: usize = 64 * 24 + 8 * 6;

pub fn n_cases(prop: &str, tier: &str) -> usize {
    if tier != "quick" && SMALL2_PROPS.contains(&prop) {
        return SMALL2 + n_cases_base(prop, tier);
    }
    n_cases_base(prop, tier)
}

fn n_cases_base(prop: &str, tier: &str) -> usize {
    let quick = tier == "quick";
    match prop {
        "C12" => if quick { 9000 } else { 100_000 },
        "C20" => if quick { 1200 } else { 4100 },
        "C01" | "C02" => if quick { 1200 } else { SMALL_SCOPE + 40_000 },
        "C03" => if quick { 900 } else { SMALL_SCOPE + 20_000 },
        "C15" => if quick { 1800 } else { 30_000 },
        "C16" => if quick { 450 } else { 4000 },
        "C19" => if quick { 900 } else { 10_000 },
        "C10" => if quick { 64 } else { 400 },
        _ => crate::props2::n_cases(prop, tier),
    }
}

pub fn gen_case(prop: &str, tier: &str, rng: &mut Rng, idx: usize) -> Case {
    if tier != "quick" && SMALL2_PROPS.contains(&prop) {
        if idx < SMALL2 {
            return small_scope2(prop, idx);
        }
        return gen_case_base(prop, tier, rng, idx - SMALL2);
    }
    gen_case_base(prop, tier, rng, idx)
}

/// Small-scope exhaustive sweep for the query properties: every DAG on 4 (then 3) nodes (every
/// subset of the forward edges of a topological order), every assignment of the ids to the nodes;
/// then EVERY query of the property on it (all ordered pairs / all root-leaf-set combinations).
fn small_scope2(prop: &str, idx: usize) -> Case {
    let (n, i) = if idx < 64 * 24 { (4usize, idx) } else { (3usize, idx - 64 * 24) };
    let nperm: usize = (1..=n).product();
    small_dag_case(prop, n, i / nperm, i % nperm)
}

/// one DAG on `n` <= 5 nodes (`mask` = subset of the forward edges), ids assigned by the
/// `perm`-th permutation, and every query of the property on it
pub fn small_dag_case(prop: &str, n: usize, mask: usize, perm: usize) -> Case {
    let mut c = Case::new("small-scope-exhaustive");
    let idp = nth_perm(n, perm);
    // C19 is about HP:1 and HP:118: both are among the ids, in every position of the DAG
    let pool: [u32; 5] = if prop == "C19" { [1, 57, 118, 400, 2000] } else { [3, 57, 400, 9_999_999, 70_000] };
    let pool_n: Vec<u32> = if prop == "C19" && n == 3 { vec![1, 57, 118] } else { pool[..n].to_vec() };
    let ids: Vec<u32> = (0..n).map(|k| pool_n[idp[k]]).collect();
    c.op("new".to_string());
    for id in &ids {
        c.op(format!("term {} {}", id, name("t")));
    }
    c.op("complete".to_string());
    let mut e = 0;
    let mut nedge = 0u64;
    let mut edges: Vec<(usize, usize)> = vec![];
    for child in 1..n {
        for parent in 0..child {
            if mask & (1 << e) != 0 {
                c.op(format!("parent {} {}", ids[parent], ids[child]));
                edges.push((parent, child));
                nedge += 1;
            }
            e += 1;
        }
    }
    c.op("connect".to_string());
    for k in 0..3 {
        c.op(format!("ann {} 1 {} {}", KINDS[k], name("r"), ids[n - 1]));
        c.op(format!("ann {} 2 {} {}", KINDS[k], name("s"), ids[1]));
        if k > 0 {
            c.op(format!("ann {} 3 {} {}", KINDS[k], name("u"), ids[0]));
        }
    }
    c.op("ic".to_string());
    c.op(format!("build {} 0", if prop == "C19" { "def" } else { "min" }));
    match prop {
        "C04" => {
            for a in ["graphic", "resnik", "lin", "jc", "relevance", "informationcoefficient", "distance", "mutation"] {
                c.op(format!("sim 0 {} g", name(a)));
                c.op(format!("sim 0 {} o", name(a)));
            }
        }
        "C11" => {
            c.op("dist 0".to_string());
            c.op("oracle paths 0".to_string());
        }
        "C12" => c.op("anc2 0".to_string()),
        "C14" => {
            // descendants-or-self of every node, then every non-empty leaf set below every root
            let mut below: Vec<Vec<usize>> = (0..n).map(|r| vec![r]).collect();
            for r in 0..n {
                let mut i = 0;
                while i < below[r].len() {
                    let x = below[r][i];
                    for (p, ch) in &edges {
                        if *p == x && !below[r].contains(ch) {
                            below[r].push(*ch);
                        }
                    }
                    i += 1;
                }
            }
            let mut dst = 1u32;
            for r in 0..n {
                let b = &below[r];
                for m in 1u32..(1 << b.len()) {
                    let leaves: Vec<u32> = (0..b.len()).filter(|j| m >> j & 1 == 1).map(|j| ids[b[j]]).collect();
                    let ls = crate::proto::ids(leaves.iter().copied());
                    c.op(format!("sub 0 {dst} {} {ls}", ids[r]));
                    c.op(format!("oracle sub 0 {} {ls}", ids[r]));
                    c.op(format!("oracle closure {dst}"));
                    c.op(format!("oracle inherit {dst}"));
                    dst += 1;
                }
                // one leaf outside the root's branch: refused
                if let Some(out) = (0..n).find(|x| !b.contains(x)) {
                    c.op(format!("sub 0 {dst} {} {}", ids[r], ids[out]));
                    dst += 1;
                }
            }
        }
        "C19" => {
            c.op("dump 0".to_string());
            c.op("oracle defaults 0".to_string());
        }
        _ => {}
    }
    c.stat("small_scope_cases", 1);
    c.stat("small_scope_edges", nedge);
    c.nontrivial = nedge >= 2;
    c
}

fn gen_case_base(prop: &str, tier: &str, rng: &mut Rng, idx: usize) -> Case {
    match prop {
        "C12" => c12(rng, idx),
        "C20" => c20(rng, tier, idx),
        "C01" => onto_case(rng, "C01", tier, idx),
        "C02" => onto_case(rng, "C02", tier, idx),
        "C03" => onto_case(rng, "C03", tier, idx),
        "C15" => c15(rng, idx),
        "C16" => c16(rng, tier, idx),
        "C19" => c19(rng, idx),
        "C10" => c10(rng, idx),
        _ => crate::props2::gen_case(prop, tier, rng, idx),
    }
}

// ---------------------------------------------------------------- C12

fn gen_set(rng: &mut Rng, universe: u64, max: usize) -> Vec<u32> {
    let n = match rng.below(6) {
        0 => 0,
        1 => rng.range(28, 34) as usize, // around the inline-storage limit of 30
        2 => rng.range(0, 3) as usize,
        _ => rng.range(0, max as u64) as usize,
    };
    (0..n).map(|_| gid(rng, universe)).collect()
}

/// an id of the universe; in the full u32 universe often one of the border values
fn gid(rng: &mut Rng, universe: u64) -> u32 {
    if universe > 10_000_000 && rng.chance(1, 4) {
        return *rng.pick(&[
            0u32, 1, 255, 256, 65_535, 65_536, 9_999_999, 10_000_000, 16_777_215, 16_777_216, 2_147_483_647, 2_147_483_648,
            4_294_967_294, 4_294_967_295,
        ]);
    }
    rng.below(universe) as u32
}

fn c12(rng: &mut Rng, idx: usize) -> Case {
    if idx == 3 {
        // more than 65 535 terms (implementation against the harness oracle only): lookups, links,
        // distances, set operations, common ancestors, sub-ontology and comparison on terms in arena
        // slots beyond 65 535
        let mut c = Case::new("big-arena");
        c.op(format!("bigarena 70000 {}", rng.next()));
        c.stat("big_arena_terms", 70000);
        c.nontrivial = true;
        return c;
    }
    if idx % 500 == 19 {
        // ancestor queries on an ontology whose terms have MORE than 30 ancestors (beyond the inline
        // capacity of a group) combined with multi-parent structure and shortcuts
        let mut c = Case::new("ancestor-queries-trunk");
        let f = gen_trunk(rng);
        facts_stats(&f, &mut c);
        facts_to_prog(rng, &f, &ProgOpts { shuffle: true, failing_permille: 0, build_defaults: true, slot: 0 }, &mut c);
        c.op("anc2 0".to_string());
        c.stat("trunk_cases", 1);
        c.nontrivial = true;
        return c;
    }
    if idx % 10 == 9 {
        // ancestor queries of all pairs of terms of an ontology (8 variants)
        let mut c = Case::new("ancestor-queries");
        let with_roots = rng.chance(1, 2);
        let mt = *rng.pick(&[4usize, 8, 14]);
        let (mut f, shape) = gen_facts(rng, &DagOpts { max_terms: mt, with_roots, max_recs: 1 });
        c.stat(&format!("shape_{shape:?}"), 1);
        let (multi, _) = facts_stats(&f, &mut c);
        if with_roots && rng.chance(1, 2) {
            // binary route: terms flagged obsolete / replaced keep their links
            let flags = gen_flags(rng, &mut f);
            c.stat("obsolete_or_replaced_terms", flags.len() as u64);
            let fv = 2 + rng.below(2) as u8;
            facts_to_fops(rng, &f, &flags, fv, 0, true, &mut c);
        } else {
            facts_to_prog(rng, &f, &ProgOpts { shuffle: true, failing_permille: 0, build_defaults: with_roots, slot: 0 }, &mut c);
        }
        c.op("anc2 0".to_string());
        c.nontrivial = multi > 0;
        return c;
    }
    let mut c = Case::new("group-program");
    let universe = *rng.pick(&[6u64, 40, 100, 10_000_000, 4_294_967_296]);
    let hows = ["vec", "vecu32", "set", "iter"];
    // two or three sets from random constructors
    let relation = rng.below(6);
    let a = gen_set(rng, universe, 80);
    let b: Vec<u32> = match relation {
        0 => a.clone(),                                              // equal
        1 => {
            let mut v = vec![];
            for x in &a {
                if rng.chance(1, 2) {
                    v.push(*x);
                }
            }
            v
        } // nested
        2 => a.iter().map(|x| x.wrapping_add(universe as u32)).collect(), // disjoint, equal length
        _ => gen_set(rng, universe, 80),
    };
    c.stat(&format!("relation_{relation}"), 1);
    c.op(format!("gfrom {} a {}", rng.pick(&hows), ids(a.clone())));
    c.op(format!("gfrom {} b {}", rng.pick(&hows), ids(b.clone())));
    c.op("gshow a".to_string());
    c.op("gshow b".to_string());
    // sets whose smallest and largest id are a power of two (± 1) apart, through every constructor
    // (word-sized bit masks, block-wise searches)
    for _ in 0..2 {
        let span = *rng.pick(&[15u32, 16, 17, 31, 32, 33, 63, 64, 65, 127, 128, 129, 255, 256]);
        let base = gid(rng, universe).min(u32::MAX - 300);
        let mut v = vec![base, base + span];
        for _ in 0..rng.below(5) {
            v.push(base + rng.below(u64::from(span) + 1) as u32);
        }
        rng.shuffle(&mut v);
        for how in hows {
            c.op(format!("gfrom {how} d {}", ids(v.clone())));
            c.op("gshow d".to_string());
            c.op(format!("ghas d {}", base + span));
            c.op(format!("ghas d {}", base + span / 2));
        }
        c.stat("power_of_two_span_sets", 1);
    }
    // insertion sequence with return values
    c.op("gnew s".to_string());
    let nins = rng.range(0, 45);
    for _ in 0..nins {
        let x = if rng.chance(1, 3) && !a.is_empty() { *rng.pick(&a) } else { gid(rng, universe) };
        c.op(format!("gins s {}", x));
    }
    c.op("gshow s".to_string());
    for (x, y, z) in [("a", "b", "u"), ("b", "a", "u2"), ("a", "s", "u3"), ("a", "a", "u4")] {
        c.op(format!("gor {x} {y} {z}"));
        c.op(format!("gshow {z}"));
    }
    for (x, y, z) in [("a", "b", "i"), ("b", "a", "i2"), ("s", "a", "i3"), ("a", "a", "i4")] {
        c.op(format!("gand {x} {y} {z}"));
        c.op(format!("gshow {z}"));
    }
    // associativity operands for the differ: (a|b)|s and a|(b|s) are both printed
    c.op("gor u s w1".to_string());
    c.op("gor b s t".to_string());
    c.op("gor a t w2".to_string());
    c.op("gshow w1".to_string());
    c.op("gshow w2".to_string());
    for _ in 0..4 {
        let x = if rng.chance(1, 2) && !a.is_empty() { *rng.pick(&a) } else { gid(rng, universe) };
        c.op(format!("gadd a {} p", x));
        c.op("gshow p".to_string());
        c.op(format!("gorid b {} q", x));
        c.op("gshow q".to_string());
        c.op(format!("ghas a {}", x));
        c.op(format!("ghas u {}", x));
    }
    for i in [0usize, 1, 29, 30, 31, 79, 200] {
        c.op(format!("gget u {}", i));
    }
    {
        // ... and exactly at the end: index len - 1 is the largest id, index len is None
        let mut all: Vec<u32> = a.iter().chain(b.iter()).copied().collect();
        all.sort_unstable();
        all.dedup();
        c.op(format!("gget u {}", all.len()));
        c.op(format!("gget u {}", all.len().saturating_sub(1)));
        let mut da = a.clone();
        da.sort_unstable();
        da.dedup();
        c.op(format!("gget a {}", da.len()));
    }
    let big = a.len().max(b.len());
    c.stat("max_set_size", big as u64);
    if big > 30 {
        c.stat("sets_beyond_inline_30", 1);
    }
    c.nontrivial = !a.is_empty() && !b.is_empty();
    let _ = idx;
    c
}

// ---------------------------------------------------------------- C20

fn c20(rng: &mut Rng, tier: &str, idx: usize) -> Case {
    // thorough: the whole id space 0..10^7 in 100 range ops (cases 0..99), then sampled cases
    if tier == "thorough" && idx < 100 {
        let mut c = Case::new("termid-range");
        let lo = idx * 100_000;
        c.op(format!("rtrange {} {}", lo, lo + 100_000));
        if idx == 99 {
            c.op("rtrange 4294867295 4294967295".to_string());
            c.op("roundtrip 4294967295".to_string());
        }
        c.stat("ids_in_ranges", 100_000);
        c.nontrivial = true;
        return c;
    }
    if tier == "quick" && idx == 1 {
        let mut c = Case::new("termid-range");
        let lo = (rng.below(99) * 100_000) as usize;
        c.op(format!("rtrange {} {}", lo, lo + 20_000));
        c.op("rtrange 9990000 10010000".to_string());
        c.stat("ids_in_ranges", 40_000);
        c.nontrivial = true;
        return c;
    }
    let mut c = Case::new("termid");
    let per = if tier == "quick" { 500 } else { 2500 };
    let borders: [u64; 14] = [0, 1, 9, 10, 99, 118, 999_999, 1_000_000, 9_999_999, 10_000_000, 10_000_001, 99_999_999, 4_294_967_294, 4_294_967_295];
    if idx == 0 {
        for b in borders {
            c.op(format!("roundtrip {b}"));
            c.op(format!("tobe {b}"));
        }
    }
    for _ in 0..per / 2 {
        let n = match rng.below(4) {
            0 => rng.below(4_294_967_296),
            _ => rng.below(10_000_000),
        };
        c.op(format!("roundtrip {n}"));
    }
    for _ in 0..20 {
        c.op(format!("frombe {} {} {} {}", rng.below(256), rng.below(256), rng.below(256), rng.below(256)));
    }
    // strings: structured mostly-valid + malformed
    let alphabet: Vec<&str> = vec!["0", "1", "9", "5", "H", "P", ":", "+", "-", " ", "é", "日", "😀", "a", "٣", "\u{0}"];
    for _ in 0..per / 2 {
        let s: String = match rng.below(13) {
            11 => {
                // numbers around and far beyond 2^64 (wrap-around of a wider accumulator lands on small ids)
                let base: u128 = *rng.pick(&[1u128 << 64, (1u128 << 64) + 118, (1u128 << 64) - 1, 1u128 << 32, (1u128 << 96) + 1, 100_000_000_000_000_000_000u128]);
                let n = base + u128::from(rng.below(3));
                let w = rng.range(0, 30) as usize;
                format!("HP:{}{n:0w$}", *rng.pick(&["", "", "+"]))
            }
            12 => {
                // long invalid text (a whole annotation line) with multi-byte characters straddling
                // the offsets around 16 / 32 / 64 / 128 / 256
                let target = *rng.pick(&[16usize, 32, 64, 128, 256]);
                let pad = target - 1 - rng.below(3) as usize;
                let mut t = String::from("HP:");
                while t.len() < pad {
                    t.push(*rng.pick(&['x', '1', ' ', '\t']));
                }
                for _ in 0..rng.range(1, 3) {
                    t.push(*rng.pick(&['ö', '日', '😀', 'é']));
                }
                t.push_str(" tail");
                t
            }
            8 => {
                // sign and zero padding to 8..13 digits, value inside and outside u32
                let n = if rng.chance(1, 2) { rng.below(4_294_967_296) } else { rng.below(1_000_000_000_000) };
                let w = rng.range(8, 13) as usize;
                let sign = *rng.pick(&["+", "+", "", "-"]);
                format!("HP:{sign}{n:0w$}")
            }
            9 | 10 => {
                // a canonical 10-byte rendering with one or two bytes replaced by an ASCII byte
                // (the neighbours of the digits `/` and `:` included)
                let mut b = format!("HP:{:07}", rng.below(10_000_000)).into_bytes();
                for _ in 0..rng.range(1, 2) {
                    let pos = rng.below(10) as usize;
                    b[pos] = *rng.pick(b"/:;+-. 09AHPhp\x00~");
                }
                String::from_utf8(b).unwrap_or_default()
            }
            0 => {
                // valid rendering, possibly with other prefix
                let n = rng.below(4_294_967_296);
                // (three-byte prefixes of every kind: a byte order mark, zero-width and replacement
                // characters, line separators; the same characters BEFORE a complete `HP:` rendering,
                // which is no valid text)
                let p = *rng.pick(&[
                    "HP:", "XX:", "abc", "é:", "日", "HP+", "   ", "\u{feff}", "\u{200b}", "\u{fffd}", "\u{2028}", "€", "a\u{e9}", "\u{feff}HP:", "\u{200b}HP:",
                    "日HP:", "\t\n ", "hp:", "Hp:",
                ]);
                if rng.chance(1, 3) { format!("{p}{:07}", n % 10_000_000) } else { format!("{p}{n}") }
            }
            1 => {
                let n = rng.below(10_000_000);
                // (one in four: a complete rendering FOLLOWED by something - a comment as in an obo
                // `is_a` value, a second number, white space - which is no valid text)
                let tail = if rng.chance(1, 4) { *rng.pick(&[" ! Phenotypic abnormality", " 34", " ", "\t", "!", " HP:0000001", "\n"]) } else { "" };
                format!("HP:{n:07}{tail}")
            }
            2 => {
                // overflow region
                let n = 4_294_967_290u64 + rng.below(20);
                format!("HP:{n}")
            }
            3 => {
                // leading zeros / plus / minus
                let n = rng.below(1000);
                let sign = *rng.pick(&["+", "-", "", "++", "+0", "00000000000000"]);
                format!("HP:{sign}{n}")
            }
            _ => {
                // random short string over the alphabet: multi-byte chars at every offset
                let len = rng.below(13);
                (0..len).map(|_| *rng.pick(&alphabet)).collect()
            }
        };
        c.op(format!("parse {}", name(&s)));
        if !s.is_ascii() {
            c.stat("non_ascii_strings", 1);
        }
        if s.len() < 4 {
            c.stat("short_strings", 1);
        }
    }
    c.nontrivial = true;
    c
}

// ---------------------------------------------------------------- ontology cases

/// k-th permutation of 0..n (factorial number system)
fn nth_perm(n: usize, mut k: usize) -> Vec<usize> {
    let mut items: Vec<usize> = (0..n).collect();
    let mut out = vec![];
    let mut f: usize = (1..n).product();
    for i in (0..n).rev() {
        let q = k / f;
        k %= f;
        out.push(items.remove(q));
        if i > 0 {
            f /= i;
        }
    }
    out
}

/// number of exhaustively enumerated small-scope cases in the thorough tier
pub const SMALL_SCOPE: usize = 64 * 24 * 24 + 8 * 6 * 6;

/// Small-scope exhaustive enumeration: every DAG on 4 (then 3) nodes given a topological order
/// (every subset of the forward edges), every assignment of 4 numerically ordered ids to the nodes,
/// every order of the `new_term` calls.
fn small_scope_case(prop: &str, idx: usize) -> Case {
    let mut c = Case::new("small-scope-exhaustive");
    let (n, i) = if idx < 64 * 24 * 24 { (4usize, idx) } else { (3usize, idx - 64 * 24 * 24) };
    let nperm: usize = (1..=n).product();
    let nedges = n * (n - 1) / 2;
    let mask = i / (nperm * nperm);
    let idp = nth_perm(n, (i / nperm) % nperm);
    let insp = nth_perm(n, i % nperm);
    let pool = [3u32, 57, 400, 9_999_999];
    let ids: Vec<u32> = (0..n).map(|k| pool[idp[k]]).collect();
    c.op("new".to_string());
    for k in 0..n {
        c.op(format!("term {} {}", ids[insp[k]], name("t")));
    }
    c.op("complete".to_string());
    let mut e = 0;
    let mut nedge = 0u64;
    for child in 1..n {
        for parent in 0..child {
            if mask & (1 << e) != 0 {
                c.op(format!("parent {} {}", ids[parent], ids[child]));
                nedge += 1;
            }
            e += 1;
        }
    }
    debug_assert_eq!(e, nedges);
    c.op("connect".to_string());
    if prop != "C01" {
        // one record per kind on the last node and one on node 1: inheritance along every shape
        for k in 0..3 {
            c.op(format!("ann {} 1 {} {}", KINDS[k], name("r"), ids[n - 1]));
            c.op(format!("ann {} 2 {} {}", KINDS[k], name("s"), ids[1]));
        }
    }
    c.op("ic".to_string());
    c.op("build min 0".to_string());
    c.op("dump 0".to_string());
    match prop {
        "C01" => {
            c.op("rel 0".to_string());
            c.op("oracle closure 0".to_string());
        }
        "C02" => c.op("oracle inherit 0".to_string()),
        "C03" => c.op("oracle ic 0".to_string()),
        _ => {}
    }
    c.stat("small_scope_cases", 1);
    c.stat("small_scope_edges", nedge);
    c.nontrivial = nedge >= 2;
    c
}

/// Tiny DAG 1 <- 118 <- {2, 3} with tens of thousands of records: the u16 limit of the information
/// content calculation (`N` = 65 535 / 65 536, per kind and NOT in sum over the kinds) and
/// information contents close to 0 (a term holding all but one of `N` records).
/// `variant` 0: limit of one kind; 1: three large kinds; 2: ic close to 0.
/// Returns the case with the ontology in slot 0 (when the build succeeds) and whether it succeeds.
pub fn big_records_case(rng: &mut Rng, variant: u64, thorough: bool) -> (Case, bool, usize) {
    big_records_case_kind(rng, variant, thorough, None)
}

/// `kind`: the kind that gets the many records (drawn when `None`)
pub fn big_records_case_kind(rng: &mut Rng, variant: u64, thorough: bool, kind: Option<usize>) -> (Case, bool, usize) {
    let mut c = Case::new(&format!("big-records-{variant}"));
    c.op("new".to_string());
    for (id, nm) in [(1u32, "All"), (118, "Phenotypic abnormality"), (2, "x"), (3, "y")] {
        c.op(format!("term {} {}", id, name(nm)));
    }
    c.op("complete".to_string());
    for (p, ch) in [(1u32, 118u32), (118, 2), (118, 3)] {
        c.op(format!("parent {p} {ch}"));
    }
    c.op("connect".to_string());
    let drawn = rng.below(3) as usize;
    let k = kind.unwrap_or(drawn);
    let mut ok = true;
    match variant {
        0 => {
            // three programs in the case: (a) beyond the limit with NO link at all (ic 0 everywhere,
            // nothing is converted); (b) exactly at / just below the limit with links; (c) beyond the
            // limit with links (last, judged by predicate)
            let prelude = |c: &mut Case| {
                c.op("new".to_string());
                for (id, nm) in [(1u32, "All"), (118, "Phenotypic abnormality"), (2, "x"), (3, "y")] {
                    c.op(format!("term {} {}", id, name(nm)));
                }
                c.op("complete".to_string());
                for (p, ch) in [(1u32, 118u32), (118, 2), (118, 3)] {
                    c.op(format!("parent {p} {ch}"));
                }
                c.op("connect".to_string());
            };
            // (a) - the prelude of the caller is already in place
            c.op(format!("bulkrec {} 500000 {} {}", KINDS[k], *rng.pick(&[65_536u32, 70_000]), name("unlinked")));
            c.op(format!("ann {} 9 {} 3", KINDS[(k + 1) % 3], name("other kind")));
            c.op("ic".to_string());
            c.op("build def 7".to_string());
            c.op("tdump 7".to_string());
            c.op("oracle ic 7".to_string());
            // (b)
            prelude(&mut c);
            let nb = *rng.pick(&[65_534u32, 65_535, 65_535]);
            let mb = *rng.pick(&[1u32, 3]);
            for i in 0..mb {
                c.op(format!("ann {} {} {} {}", KINDS[k], 10 + i, name("linked"), if i == 0 { 2 } else { 3 }));
            }
            c.op(format!("bulkrec {} 1000 {} {}", KINDS[k], nb - mb, name("bulk")));
            c.op("ic".to_string());
            c.op("build def 8".to_string());
            c.op("tdump 8".to_string());
            c.op("oracle ic 8".to_string());
            // (c)
            prelude(&mut c);
            let n = *rng.pick(&[65_536u32, 65_536, 65_537, 70_000]);
            let m = *rng.pick(&[1u32, 3]);
            for i in 0..m {
                c.op(format!("ann {} {} {} {}", KINDS[k], 10 + i, name("linked"), if i == 0 { 2 } else { 3 }));
            }
            c.op(format!("bulkrec {} 1000 {} {}", KINDS[k], n - m, name("bulk")));
            // the other kinds stay small (their limits are independent)
            for j in 0..3 {
                if j != k {
                    c.op(format!("ann {} 7 {} 3", KINDS[j], name("other")));
                    c.op(format!("addrec {} 8 {}", KINDS[j], name("unlinked")));
                }
            }
            ok = false;
            c.stat(&format!("records_of_one_kind_{n}"), 1);
            c.stat(&format!("records_of_one_kind_{nb}"), 1);
            c.stat("records_of_one_kind_all_unlinked", 1);
        }
        1 => {
            // every kind within the limit, the sum far above it
            let sizes = [30_000u32, 30_000, 10_000];
            for j in 0..3 {
                let n = sizes[(j + k) % 3];
                let linked = if thorough { 3_000 } else { 1_500 };
                c.op(format!("bulkann {} 500000 {} {} 2", KINDS[j], linked, name("linked")));
                c.op(format!("bulkrec {} 1000 {} {}", KINDS[j], n - linked, name("bulk")));
            }
            c.stat("records_three_large_kinds", 1);
        }
        _ => {
            let n = if thorough { rng.range(25_000, 30_000) as u32 } else { rng.range(11_000, 12_500) as u32 };
            // term 2: n-2 records, 118 and 1: n-1, total n
            c.op(format!("bulkann {} 1000 {} {} 2", KINDS[k], n - 2, name("linked")));
            c.op(format!("ann {} 5 {} 3", KINDS[k], name("second")));
            c.op(format!("addrec {} 6 {}", KINDS[k], name("unlinked")));
            c.stat("ic_close_to_zero", 1);
        }
    }
    if ok {
        c.op("ic".to_string());
        c.op("build def 0".to_string());
    } else {
        c.op("icover".to_string());
    }
    c.nontrivial = true;
    (c, ok, k)
}

fn onto_case(rng: &mut Rng, prop: &str, tier: &str, idx: usize) -> Case {
    if tier == "thorough" && idx < SMALL_SCOPE {
        return small_scope_case(prop, idx);
    }
    if prop == "C01" && idx == 5 {
        // more than 65 535 terms: links, ancestors and children of terms inserted late
        let mut c = Case::new("big-arena-links");
        c.op(format!("bigarena 70000 {}", rng.next()));
        c.nontrivial = true;
        return c;
    }
    if prop == "C02" && idx == 5 {
        // 70 000 terms, one record of every kind directly annotated to each of them (record term
        // lists beyond 65 535 entries), binary round trip and clone: implementation against the
        // harness oracle only (beyond what the model can hold)
        let mut c = Case::new("big-records-per-term");
        c.op(format!("bigarena 70000 {}", rng.next()));
        c.nontrivial = true;
        return c;
    }
    if prop == "C03" && idx == 5 {
        // 70 000 terms: the information content is computed for terms in arena slots beyond 65 535
        let mut c = Case::new("big-arena-ic");
        c.op(format!("bigarena 70000 {}", rng.next()));
        c.nontrivial = true;
        return c;
    }
    if prop == "C03" && idx % 100 == 51 {
        // the three variants; the kind with the many records rotates with the case index so that
        // the two cases of a variant in a quick run use two different kinds, ORPHA first
        let (mut c, ok, _) = big_records_case_kind(rng, (idx / 100 % 3) as u64, false, Some((2 + idx / 300) % 3));
        if ok {
            c.op("tdump 0".to_string());
            c.op("oracle ic 0".to_string());
        }
        return c;
    }
    if idx % 40 == 7 {
        // deep chains (depth 40..110, beyond any shipped ontology), terms supplied leaf first,
        // root first or shuffled: recursion depth of the closure / link computation
        let mut c = Case::new("deep-chain");
        let n = rng.range(40, 110) as usize;
        let f = gen_deep_chain(rng, n);
        let order = rng.below(3);
        deep_prog(rng, &f, 0, order == 0, order == 2, &mut c);
        c.stat("deep_chain_terms", n as u64);
        c.stat(&format!("deep_order_{order}"), 1);
        facts_stats(&f, &mut c);
        c.op("dump 0".to_string());
        match prop {
            "C01" => {
                c.op("oracle closure 0".to_string());
            }
            "C02" => c.op("oracle inherit 0".to_string()),
            "C03" => c.op("oracle ic 0".to_string()),
            _ => {}
        }
        c.nontrivial = true;
        return c;
    }
    if idx % 50 == 37 {
        // more than 30 ancestors combined with multi-parent structure
        let mut c = Case::new("trunk");
        let mut f = gen_trunk(rng);
        let path = rng.below(4);
        if path == 0 {
            facts_to_prog(rng, &f, &ProgOpts { shuffle: true, failing_permille: 0, build_defaults: true, slot: 0 }, &mut c);
        } else {
            let flags = gen_flags(rng, &mut f);
            facts_to_fops(rng, &f, &flags, path as u8, 0, true, &mut c);
        }
        facts_stats(&f, &mut c);
        c.op("dump 0".to_string());
        match prop {
            "C01" => {
                c.op("rel 0".to_string());
                c.op("oracle closure 0".to_string());
            }
            "C02" => c.op("oracle inherit 0".to_string()),
            "C03" => c.op("oracle ic 0".to_string()),
            _ => {}
        }
        c.nontrivial = true;
        return c;
    }
    if idx % 50 == 21 {
        // a fan of 255..513 parents / children / annotated terms, Builder or binary route
        let p = *rng.pick(&[255usize, 256, 257, 257, 258, 511, 513]);
        let f = gen_fan(rng, p);
        let path = rng.below(4);
        let mut c = Case::new(if path == 0 { "fan-builder" } else { "fan-bytes" });
        if path == 0 {
            facts_to_prog(rng, &f, &ProgOpts { shuffle: true, failing_permille: 0, build_defaults: true, slot: 0 }, &mut c);
        } else {
            facts_to_fops(rng, &f, &vec![], path as u8, 0, true, &mut c);
        }
        c.stat(&format!("fan_{p}"), 1);
        facts_stats(&f, &mut c);
        c.op("dump 0".to_string());
        match prop {
            "C01" => c.op("oracle closure 0".to_string()),
            "C02" => c.op("oracle inherit 0".to_string()),
            "C03" => c.op("oracle ic 0".to_string()),
            _ => {}
        }
        if path == 0 {
            // ... and through `from_bytes(as_bytes())`: every one of the many parents is written
            c.op("roundtrip 0 9".to_string());
            c.op("dump 9".to_string());
            match prop {
                "C01" => c.op("oracle closure 9".to_string()),
                "C02" => c.op("oracle inherit 9".to_string()),
                "C03" => c.op("oracle ic 9".to_string()),
                _ => {}
            }
        }
        c.nontrivial = true;
        return c;
    }
    if idx % 10 == 3 {
        // construction path: the JAX text files (`from_standard` / `from_standard_transitive`)
        let mut c = crate::gen_c09::c09(rng, tier, 0);
        c.tag = format!("text-{}", c.tag);
        c.stat("text_route", 1);
        match prop {
            "C01" => {
                c.op("rel 0".to_string());
                c.op("oracle closure 0".to_string());
            }
            "C02" => c.op("oracle inherit 0".to_string()),
            "C03" => c.op("oracle ic 0".to_string()),
            _ => {}
        }
        return c;
    }
    // construction path: Builder API, or the binary format v1/v2/v3 (harness-encoded records)
    let path = rng.below(5);
    let mut c = Case::new(if path < 2 { "builder" } else { "bytes" });
    let with_roots = path >= 2 || rng.chance(2, 3);
    let max_terms = *rng.pick(&[4usize, 8, 15, 25, 40]);
    let (mut f, shape) = gen_facts(rng, &DagOpts { max_terms, with_roots, max_recs: 6 });
    c.stat(&format!("shape_{shape:?}"), 1);
    let mut long_term = false;
    if path < 2 && prop == "C01" && with_roots && rng.chance(1, 6) {
        // a term name beyond the 255 bytes the file format holds, a multi-byte character across
        // byte 255: the round trip below rebuilds the same is_a graph
        let i = rng.below(f.terms.len() as u64) as usize;
        f.terms[i].1 = match rng.below(3) {
            0 => format!("{}é tail", "n".repeat(254)),
            1 => format!("{}日本", "n".repeat(253)),
            _ => format!("{}😀", "n".repeat(252)),
        };
        long_term = true;
        c.stat("term_names_beyond_255_bytes", 1);
    }
    let mut long_gene = false;
    if path < 2 && prop == "C02" && with_roots && !f.recs[0].is_empty() && rng.chance(1, 5) {
        // a gene symbol beyond the 255 bytes the file format holds, a two-byte character across
        // byte 255: the round trip below keeps the record and all its links
        let i = rng.below(f.recs[0].len() as u64) as usize;
        f.recs[0][i].1 = if rng.chance(1, 2) { "é".repeat(128) } else { format!("{}é tail", "n".repeat(254)) };
        long_gene = true;
        c.stat("gene_symbols_beyond_255_bytes", 1);
    }
    if path < 2 {
        // with rejected calls (absent terms) among the accepted ones: they leave no trace
        facts_to_prog(rng, &f, &ProgOpts { shuffle: true, failing_permille: 150, build_defaults: with_roots, slot: 0 }, &mut c);
    } else {
        let fv = (path - 1) as u8; // 1, 2, 3
        let flags = gen_flags(rng, &mut f);
        c.stat(&format!("binary_v{fv}"), 1);
        c.stat("obsolete_or_replaced_terms", flags.len() as u64);
        facts_to_fops(rng, &f, &flags, fv, 0, true, &mut c);
    }
    let (multi, inh) = facts_stats(&f, &mut c);
    c.op("dump 0".to_string());
    match prop {
        "C01" => {
            c.op("rel 0".to_string());
            c.op("oracle closure 0".to_string());
            c.nontrivial = multi > 0;
            if with_roots && (long_term || rng.chance(1, 3)) {
                // construction path `from_bytes(as_bytes())` of the ontology just built (terms were
                // supplied in any order: the first one may well have parents)
                c.op("roundtrip 0 9".to_string());
                c.op("dump 9".to_string());
                c.op("rel 9".to_string());
                c.op("oracle closure 9".to_string());
                c.stat("binary_round_trip_path", 1);
            }
            if rng.chance(1, 4) {
                // construction path `sub_ontology`: a root and leaves below it (sometimes one outside)
                sub_path(rng, &f, &mut c, "closure");
            }
        }
        "C02" => {
            c.op("oracle inherit 0".to_string());
            c.nontrivial = inh > 0;
            if with_roots && (long_gene || rng.chance(1, 3)) {
                // construction path `from_bytes(as_bytes())` of the ontology just built
                c.op("roundtrip 0 9".to_string());
                c.op("dump 9".to_string());
                c.op("oracle inherit 9".to_string());
                c.stat("binary_round_trip_path", 1);
            }
            if rng.chance(1, 6) {
                sub_path(rng, &f, &mut c, "inherit");
            }
        }
        "C03" => {
            c.op("oracle ic 0".to_string());
            c.nontrivial = inh > 0;
            if with_roots && rng.chance(1, 3) {
                // construction path `from_bytes(as_bytes())`: the records without terms count in N
                // after the round trip as well
                c.op("roundtrip 0 9".to_string());
                c.op("dump 9".to_string());
                c.op("oracle ic 9".to_string());
                c.stat("binary_round_trip_path", 1);
            }
        }
        _ => {}
    }
    c
}

/// `sub 0 1 <root> <leaves>` for a random root and leaves among its descendants, then the dump and
/// the given oracle on the sub-ontology (slot 1)
fn sub_path(rng: &mut Rng, f: &Facts, c: &mut Case, oracle: &str) {
    let ids: Vec<u32> = f.terms.iter().map(|t| t.0).collect();
    let root = *rng.pick(&ids);
    // descendants of root by the edge facts
    let mut desc: Vec<u32> = vec![root];
    let mut i = 0;
    while i < desc.len() {
        let x = desc[i];
        for (p, ch) in &f.edges {
            if *p == x && !desc.contains(ch) {
                desc.push(*ch);
            }
        }
        i += 1;
    }
    let nl = rng.range(1, 4) as usize;
    let mut leaves: Vec<u32> = (0..nl).map(|_| *rng.pick(&desc)).collect();
    if rng.chance(1, 10) {
        leaves.push(*rng.pick(&ids)); // possibly outside root's subtree: the call must be refused
    }
    c.op(format!("sub 0 1 {} {}", root, ids_csv(&leaves)));
    // which of several shortest chains is kept is tie dependent (C14 allows any): the sub-ontology
    // is therefore judged by the independent oracle only, its dump is not compared with the model
    c.op(format!("oracle {oracle} 1"));
    c.op("oracle closed 1".to_string());
    c.stat("sub_ontology_path", 1);
}

fn ids_csv(v: &[u32]) -> String {
    ids(v.iter().copied())
}

fn c15(rng: &mut Rng, idx: usize) -> Case {
    if idx == 11 {
        // more than 65 535 terms: calls on terms defined late are accepted and land on those terms
        let mut c = Case::new("history-big-arena");
        c.op(format!("bigarena 70000 {}", rng.next()));
        c.nontrivial = true;
        return c;
    }
    if idx % 600 == 7 {
        // more than 65 535 distinct records of a kind through annotate_*: every call succeeds (the
        // limit belongs to the information-content calculation, judged by predicate there)
        let mut c = Case::new("history-many-records");
        c.op("new".to_string());
        for (id, nm) in [(1u32, "All"), (118, "Phenotypic abnormality"), (2, "x")] {
            c.op(format!("term {} {}", id, name(nm)));
        }
        c.op("complete".to_string());
        c.op("parent 1 118".to_string());
        c.op("parent 118 2".to_string());
        c.op("connect".to_string());
        let k = (idx / 600) % 3;
        c.op(format!("bulkann {} 1 {} {} 2", KINDS[k], *rng.pick(&[65_536u32, 65_537, 70_000]), name("many")));
        c.op(format!("ann {} 9 {} 424242", KINDS[k], name("absent term")));
        c.op("icover".to_string());
        c.nontrivial = true;
        return c;
    }
    if idx % 40 == 9 {
        // a chain of depth 40..110 (ids unrelated to the depth, growing with it, or growing towards
        // the root): every valid call is accepted however deep the term
        let mut c = Case::new("history-deep-chain");
        let n = rng.range(40, 110) as usize;
        let f = gen_deep_chain(rng, n);
        let order = rng.below(3);
        deep_prog(rng, &f, 0, order == 0, order == 2, &mut c);
        facts_stats(&f, &mut c);
        c.op("dump 0".to_string());
        c.op("oracle closed 0".to_string());
        c.stat("deep_chain_terms", n as u64);
        c.nontrivial = true;
        return c;
    }
    let mut c = Case::new("history");
    let with_roots = rng.chance(1, 2);
    let max_terms = *rng.pick(&[3usize, 6, 12, 20]);
    let (f, _) = gen_facts(rng, &DagOpts { max_terms, with_roots, max_recs: 4 });
    facts_stats(&f, &mut c);
    let failing = if rng.chance(1, 3) { 30 } else { rng.range(300, 500) };
    // program A: failing and succeeding calls interleaved
    let mut r2 = rng.clone();
    facts_to_prog(rng, &f, &ProgOpts { shuffle: true, failing_permille: failing, build_defaults: with_roots, slot: 0 }, &mut c);
    let mut nfail = c.stats.get("failing_add_parent").copied().unwrap_or(0) + c.stats.get("failing_annotate").copied().unwrap_or(0);
    // patterns of rejected calls that a random interleaving rarely produces: the SAME rejected
    // add_parent twice in a row; a rejected annotate_* for a record that is not registered yet,
    // directly followed by the (valid) call that registers it
    {
        let used: Vec<u32> = f.terms.iter().map(|t| t.0).collect();
        if let Some(i) = c.ops.iter().position(|o| o == "connect") {
            let absent = gen_ids(rng, 1, &used)[0];
            let present = *rng.pick(&used);
            let (a, b) = if rng.chance(1, 2) { (present, absent) } else { (absent, present) };
            c.ops.insert(i, format!("parent {a} {b}"));
            c.ops.insert(i, format!("parent {a} {b}"));
            nfail += 2;
            c.stat("repeated_rejected_add_parent", 1);
        }
        for kind in KINDS {
            let pfx_a = format!("ann {kind} ");
            let pfx_b = format!("addrec {kind} ");
            if let Some(i) = c.ops.iter().position(|o| o.starts_with(&pfx_a) || o.starts_with(&pfx_b)) {
                let toks: Vec<String> = c.ops[i].split(' ').map(|x| x.to_string()).collect();
                let absent = gen_ids(rng, 1, &used)[0];
                c.ops.insert(i, format!("ann {kind} {} {} {absent}", toks[2], toks[3]));
                nfail += 1;
                c.stat("rejected_annotate_before_registration", 1);
            }
        }
    }
    c.op("dump 0".to_string());
    c.op("oracle closed 0".to_string());
    // program B: the successful calls alone (same fact set, no failing calls)
    let mut tmp = Case::new("");
    facts_to_prog(&mut r2, &f, &ProgOpts { shuffle: true, failing_permille: 0, build_defaults: with_roots, slot: 1 }, &mut tmp);
    for op in tmp.ops {
        c.op(op);
    }
    c.op("same 0 1".to_string());
    c.nontrivial = nfail > 0;
    c
}

fn c16(rng: &mut Rng, tier: &str, idx: usize) -> Case {
    if idx == 7 {
        // more than 65 535 terms supplied in random order: every one of them is there afterwards
        let mut c = Case::new("order-big-arena");
        c.op(format!("bigarena 70000 {}", rng.next()));
        c.nontrivial = true;
        return c;
    }
    if idx % 25 == 3 {
        // a deep chain built leaf first, root first and shuffled: all three must be identical
        let mut c = Case::new("deep-chain-orders");
        let n = rng.range(40, 100) as usize;
        let f = gen_deep_chain(rng, n);
        deep_prog(rng, &f, 0, false, false, &mut c);
        deep_prog(rng, &f, 1, true, false, &mut c);
        deep_prog(rng, &f, 2, false, true, &mut c);
        c.op("same 0 1".to_string());
        c.op("same 0 2".to_string());
        c.op("dump 0".to_string());
        c.stat("deep_chain_terms", n as u64);
        c.nontrivial = true;
        return c;
    }
    if idx % 5 == 2 {
        // text route: the same facts in k renderings
        return crate::gen_c09::text_orders(rng, if tier == "quick" { 3 } else { 5 });
    }
    if idx % 5 == 4 {
        // binary route: the same records in k different orders inside the sections of a v1/v2/v3
        // file (terms with empty names, obsolete flags, records without terms included)
        let mut c = Case::new("binary-record-order");
        let k = if tier == "quick" { 3 } else { 6 };
        let max_terms = *rng.pick(&[4usize, 8, 15, 25]);
        let (mut f, _) = gen_facts(rng, &DagOpts { max_terms, with_roots: true, max_recs: 5 });
        if rng.chance(1, 2) {
            // make sure an unnamed term exists
            let i = rng.below(f.terms.len() as u64) as usize;
            f.terms[i].1 = String::new();
        }
        let flags = gen_flags(rng, &mut f);
        let (multi, _) = facts_stats(&f, &mut c);
        let fv = rng.range(1, 3) as u8;
        for s in 0..k {
            let mut r = Rng::fork(rng.next(), s);
            if s == 1 {
                // one order with the terms exactly reversed (last record = first term)
                let mut g = f.clone();
                g.terms.reverse();
                facts_to_fops(&mut r, &g, &flags, fv, s as u32, false, &mut c);
            } else {
                facts_to_fops(&mut r, &f, &flags, fv, s as u32, s > 0, &mut c);
            }
            if s > 0 {
                c.op(format!("same 0 {s}"));
            }
        }
        c.op("dump 0".to_string());
        c.stat(&format!("binary_v{fv}"), 1);
        c.stat("permutations", k);
        c.nontrivial = multi > 0 || f.terms.len() > 3;
        return c;
    }
    let mut c = Case::new("permutations");
    let k = if tier == "quick" { 4 } else { 12 };
    let with_roots = rng.chance(1, 2);
    let max_terms = *rng.pick(&[4usize, 8, 15, 25]);
    let (mut f, _) = gen_facts(rng, &DagOpts { max_terms, with_roots, max_recs: 5 });
    let mut with_roots = with_roots;
    if idx % 25 == 8 || idx % 25 == 16 {
        // a term with 9..13 / 30..34 / 255..258 direct parents (the inline capacities of the parent
        // and ancestor sets, the one-byte count of the file format), links supplied in any order
        let p = *rng.pick(&[9usize, 10, 11, 12, 13, 30, 31, 32, 34, 255, 256, 258]);
        f = gen_fan(rng, p);
        with_roots = true;
        c.stat(&format!("fan_{p}"), 1);
    }
    if idx % 7 == 3 && !f.terms.iter().any(|t| t.0 == 0) {
        // HP:0000000 as a term without parents (a second root) that has a child: its records (a
        // term record, a parent record with zero parents) wherever the supply order puts them
        let mut used: Vec<u32> = f.terms.iter().map(|t| t.0).collect();
        used.push(0);
        let child = gen_ids(rng, 1, &used)[0];
        f.terms.push((0, gen_name(rng)));
        f.terms.push((child, gen_name(rng)));
        f.edges.push((0, child));
        c.stat("term_0_as_second_root", 1);
    }
    let (multi, _) = facts_stats(&f, &mut c);
    for s in 0..k {
        // no duplicate-term ops here: "one name per id" is the hypothesis of C16
        let mut tmp = Case::new("");
        let mut r = Rng::fork(rng.next(), s);
        facts_to_prog(&mut r, &f, &ProgOpts { shuffle: s > 0, failing_permille: 0, build_defaults: with_roots, slot: s as u32 }, &mut tmp);
        for op in tmp.ops {
            if op.ends_with(&format!(" {}", name("dup"))) && op.starts_with("term ") {
                continue;
            }
            c.op(op);
        }
        if s > 0 {
            c.op(format!("same 0 {s}"));
        }
        if s == 1 {
            // ... and `Ontology::compare` of two supply orders of the same facts reports nothing
            c.op("compare 0 1".to_string());
            c.op("oracle compare 0 1".to_string());
        }
        if with_roots && s == k - 1 {
            // ... also after the binary round trip of an ontology whose terms were supplied in
            // another order (the writer walks the arena in insertion order)
            c.op(format!("roundtrip {s} 40"));
            c.op("same 0 40".to_string());
        }
    }
    c.op("dump 0".to_string());
    c.stat("permutations", k);
    c.nontrivial = multi > 0 && f.terms.len() > 2;
    c
}

fn c19(rng: &mut Rng, idx: usize) -> Case {
    if idx == 3 {
        // more than 65 535 terms (implementation against the harness oracle only): lookups, links,
        // distances, set operations, common ancestors, sub-ontology and comparison on terms in arena
        // slots beyond 65 535
        let mut c = Case::new("big-arena");
        c.op(format!("bigarena 70000 {}", rng.next()));
        c.stat("big_arena_terms", 70000);
        c.nontrivial = true;
        return c;
    }
    if idx % 20 == 9 {
        // terms with more than 30 ancestors (ids in random order) below modifier roots and categories
        let mut c = Case::new("defaults-deep");
        let mut f = gen_trunk(rng);
        let used: Vec<u32> = f.terms.iter().map(|t| t.0).collect();
        let extra = gen_ids(rng, 40, &used);
        for id in &extra {
            f.terms.push((*id, gen_name(rng)));
        }
        // three modifier roots; a chain of 32 below the second; terms below its end, one of them
        // also below the phenotype trunk
        if rng.chance(1, 2) {
            // the phenotype category above the trunk (the child of HP:118 that heads it) gets the
            // LARGEST id of the whole ontology
            if let Some(head) = f.edges.iter().find(|e| e.0 == 118).map(|e| e.1) {
                let top = 9_999_999u32;
                if !f.terms.iter().any(|t| t.0 == top) && !extra.contains(&top) {
                    for t in f.terms.iter_mut() {
                        if t.0 == head {
                            t.0 = top;
                        }
                    }
                    for e in f.edges.iter_mut() {
                        if e.0 == head {
                            e.0 = top;
                        }
                        if e.1 == head {
                            e.1 = top;
                        }
                    }
                    for k in 0..3 {
                        for l in f.links[k].iter_mut() {
                            if l.1 == head {
                                l.1 = top;
                            }
                        }
                    }
                    c.stat("category_with_largest_id", 1);
                }
            }
        }
        let (_, rest) = extra.split_at(3);
        // the three modifier roots get ADJACENT ids (no other id between two roots)
        let mut base = rng.range(2, 100) as u32;
        while (base..base + 3).any(|x| x == 118 || f.terms.iter().any(|t| t.0 == x)) {
            base += 1;
        }
        let roots_v: Vec<u32> = (base..base + 3).collect();
        for (i, r) in roots_v.iter().enumerate() {
            // reuse the slots of the three spare ids
            let pos = f.terms.iter().position(|t| t.0 == extra[i]).unwrap();
            f.terms[pos].0 = *r;
        }
        let roots = &roots_v[..];
        for r in roots {
            f.edges.push((1, *r));
        }
        let (chain, tail) = rest.split_at(32);
        f.edges.push((roots[1], chain[0]));
        for i in 1..chain.len() {
            f.edges.push((chain[i - 1], chain[i]));
        }
        f.edges.push((chain[31], tail[0]));
        f.edges.push((chain[31], tail[1]));
        let deep_pheno = used[used.len() - 5];
        f.edges.push((deep_pheno, tail[1]));
        f.edges.push((roots[0], tail[2]));
        f.edges.push((tail[2], tail[3]));
        f.edges.push((chain[20], tail[3]));
        f.edges.push((roots[2], tail[4]));
        facts_stats(&f, &mut c);
        facts_to_prog(rng, &f, &ProgOpts { shuffle: true, failing_permille: 0, build_defaults: true, slot: 0 }, &mut c);
        c.op("dump 0".to_string());
        c.op("oracle defaults 0".to_string());
        c.stat("deep_default_cases", 1);
        c.nontrivial = true;
        return c;
    }
    if idx % 10 == 6 {
        // construction path: the JAX text files (stanzas in any order, tag lines in any order,
        // `[Typedef]` stanzas among the terms)
        let mut c = crate::gen_c09::c09(rng, "quick", 0);
        c.tag = format!("text-{}", c.tag);
        c.stat("text_route", 1);
        c.op("oracle defaults 0".to_string());
        return c;
    }
    if idx == 4 {
        // no term at all: there are no roots to take the defaults from, the build is refused; a
        // single root alone is refused as well
        let mut c = Case::new("defaults-empty");
        for terms in [vec![], vec![1u32], vec![118u32]] {
            c.op("new".to_string());
            for t in &terms {
                c.op(format!("term {} {}", t, name("only")));
            }
            c.op("complete".to_string());
            c.op("connect".to_string());
            c.op("ic".to_string());
            c.op("build def 0".to_string());
        }
        c.stat("empty_ontologies", 1);
        c.nontrivial = true;
        return c;
    }
    let mut c = Case::new("defaults");
    let missing = rng.below(8); // 0: no HP:1, 1: no HP:118, else both present
    let max_terms = *rng.pick(&[4usize, 8, 15, 30]);
    let (mut f, _) = gen_facts(rng, &DagOpts { max_terms, with_roots: true, max_recs: 3 });
    // more top-level branches: extra children of HP:1 and of HP:118
    let others: Vec<u32> = f.terms.iter().map(|t| t.0).filter(|x| *x != 1 && *x != 118).collect();
    for o in &others {
        if rng.chance(1, 4) {
            f.edges.push((1, *o));
        }
        if rng.chance(1, 3) {
            f.edges.push((118, *o));
        }
    }
    f.edges.sort_unstable();
    f.edges.dedup();
    if missing > 1 && rng.chance(1, 5) {
        // HP:118 need not be a direct child of HP:1: detach it, or hang it below another branch
        f.edges.retain(|e| !(e.0 == 1 && e.1 == 118));
        if rng.chance(2, 3) {
            if let Some(mid) = others.iter().find(|o| f.edges.iter().any(|e| e.0 == 1 && e.1 == **o) && !f.edges.iter().any(|e| e.0 == 118 && e.1 == **o)) {
                // keep the graph acyclic: `mid` must not be below 118
                let below_118 = |x: u32, f: &Facts| -> bool {
                    let mut st = vec![x];
                    let mut seen = std::collections::BTreeSet::new();
                    while let Some(y) = st.pop() {
                        if y == 118 {
                            return true;
                        }
                        if seen.insert(y) {
                            for e in &f.edges {
                                if e.1 == y {
                                    st.push(e.0);
                                }
                            }
                        }
                    }
                    false
                };
                if !below_118(*mid, &f) {
                    f.edges.push((*mid, 118));
                }
            }
        }
        c.stat("phenotype_root_not_direct_child_of_root", 1);
    }
    if missing == 0 {
        f.terms.retain(|t| t.0 != 1);
        f.edges.retain(|e| e.0 != 1 && e.1 != 1);
        for k in 0..3 {
            f.links[k].retain(|l| l.1 != 1);
        }
        c.stat("missing_root_1", 1);
    } else if missing == 1 {
        f.terms.retain(|t| t.0 != 118);
        f.edges.retain(|e| e.0 != 118 && e.1 != 118);
        for k in 0..3 {
            f.links[k].retain(|l| l.1 != 118);
        }
        c.stat("missing_root_118", 1);
    }
    if missing > 1 && rng.chance(1, 8) {
        // many top-level branches (beyond the inline capacity of 30 of a group), with terms two
        // and three levels below them
        let used: Vec<u32> = f.terms.iter().map(|t| t.0).collect();
        let nroots = *rng.pick(&[29usize, 30, 31, 32, 40, 64]);
        let ids = gen_ids(rng, nroots + 6, &used);
        for id in &ids {
            f.terms.push((*id, gen_name(rng)));
        }
        let (roots, deep) = ids.split_at(nroots);
        for r in roots {
            f.edges.push((1, *r));
        }
        // child - grandchild - great-grandchild below random roots, one also below HP:118
        f.edges.push((*rng.pick(roots), deep[0]));
        f.edges.push((deep[0], deep[1]));
        f.edges.push((deep[1], deep[2]));
        f.edges.push((*rng.pick(roots), deep[3]));
        f.edges.push((deep[3], deep[4]));
        f.edges.push((118, deep[4]));
        f.edges.push((deep[4], deep[5]));
        c.stat(&format!("many_modifier_roots_{nroots}"), 1);
    }
    facts_stats(&f, &mut c);
    let top = f.edges.iter().filter(|e| e.0 == 1).count() as u64;
    c.stat("top_level_branches", top);
    if missing > 1 && rng.chance(1, 3) {
        // binary route: top-level branches and categories may be flagged obsolete / replaced and
        // keep their links
        let mut flags = gen_flags(rng, &mut f);
        for e in f.edges.clone() {
            if (e.0 == 1 || e.0 == 118) && e.1 != 118 && rng.chance(1, 4) && !flags.iter().any(|x| x.0 == e.1) {
                flags.push((e.1, true, None));
                c.stat("obsolete_top_level_or_category", 1);
            }
        }
        let fv = 2 + rng.below(2) as u8;
        facts_to_fops(rng, &f, &flags, fv, 0, true, &mut c);
    } else {
        facts_to_prog(rng, &f, &ProgOpts { shuffle: true, failing_permille: 0, build_defaults: true, slot: 0 }, &mut c);
        // rejected links below the two roots (the child is not a term): they leave nothing in the
        // children of HP:1 / HP:118, so nothing in the modifier roots / categories
        if let Some(i) = c.ops.iter().position(|o| o == "connect") {
            let used: Vec<u32> = f.terms.iter().map(|t| t.0).collect();
            for root in [1u32, 118] {
                if rng.chance(2, 3) {
                    let absent = gen_ids(rng, 1, &used)[0];
                    c.ops.insert(i, format!("parent {root} {absent}"));
                    c.stat("rejected_links_below_a_root", 1);
                }
            }
        }
    }
    c.op("dump 0".to_string());
    c.op("oracle defaults 0".to_string());
    if idx % 4 == 2 {
        // the reloaded ontology (terms were supplied in any order) has the same roots and categories
        c.op("roundtrip 0 6".to_string());
        c.op("dump 6".to_string());
        c.op("oracle defaults 6".to_string());
        c.stat("binary_round_trips", 1);
    }
    if idx % 4 == 1 {
        // a clone keeps the modifier roots and the categories
        c.op("clone 0 5".to_string());
        c.op("dump 5".to_string());
        c.op("oracle defaults 5".to_string());
        c.stat("clones", 1);
    }
    c.nontrivial = missing > 1 && top >= 2;
    c
}

fn c10(rng: &mut Rng, idx: usize) -> Case {
    if idx == 0 {
        // slot indices beyond u16 / i16: more terms than any shipped ontology has
        let mut c = Case::new("big-arena");
        c.op(format!("bigarena 70000 {}", rng.next()));
        c.stat("big_arena_terms", 70000);
        c.nontrivial = true;
        return c;
    }
    if idx >= 24 && idx % 5 != 0 {
        // many cheap text-route cases (no sweep over the id space): every term, gene and disease of
        // the files is found under its id and name, nothing else is ([Typedef] stanzas among the
        // terms, hpoa files without a column header, names with `: `)
        let mut c = crate::gen_c09::c09(rng, "quick", 0);
        c.tag = format!("text-light-{}", c.tag);
        c.stat("text_route", 1);
        c.op("iter 0".to_string());
        for q in ["", "a", "ABC1", "Marfan"] {
            c.op(format!("genebyname 0 {}", name(q)));
            c.op(format!("omimsearch 0 {}", name(q)));
        }
        c.nontrivial = true;
        return c;
    }
    if idx % 6 == 5 {
        // construction path: the JAX text files (names with `: `, CRLF rows, shuffled stanzas):
        // names and ids are found as written
        let mut c = crate::gen_c09::c09(rng, "quick", 0);
        c.tag = format!("text-{}", c.tag);
        c.stat("text_route", 1);
        c.op("sweep 0".to_string());
        c.op("iter 0".to_string());
        for q in ["", "a", "é", "ABC1", "GENE", "Marfan"] {
            c.op(format!("genebyname 0 {}", name(q)));
            c.op(format!("omimsearch 0 {}", name(q)));
        }
        c.nontrivial = true;
        return c;
    }
    let mut c = Case::new("lookups");
    let max_terms = *rng.pick(&[3usize, 10, 40]);
    let wr = rng.chance(1, 2);
    let (mut f, _) = gen_facts(rng, &DagOpts { max_terms, with_roots: wr, max_recs: 8 });
    if idx % 2 == 1 {
        // the smallest and the largest id of the id space as terms (with a link between them)
        let mut fresh = 0;
        for id in [0u32, 9_999_999] {
            if !f.terms.iter().any(|t| t.0 == id) {
                f.terms.push((id, gen_name(rng)));
                fresh += 1;
            }
        }
        // the link only between two NEW terms (an existing one may already be above or below the
        // other: no cycles)
        if fresh == 2 {
            f.edges.push((9_999_999, 0));
        }
        c.stat("extreme_ids_as_terms", 1);
    }
    // dense block of ids
    if rng.chance(1, 2) {
        let base = rng.range(2, 9_999_000) as u32;
        for i in 0..rng.range(5, 60) as u32 {
            let id = base + i;
            if id != 118 && !f.terms.iter().any(|t| t.0 == id) {
                f.terms.push((id, gen_name(rng)));
            }
        }
    }
    if idx % 4 == 2 {
        // no gene at all, but diseases (an empty section in front of non-empty ones in the file)
        f.recs[0].clear();
        f.links[0].clear();
        for k in 1..3 {
            if f.recs[k].is_empty() {
                f.recs[k].push((77, gen_name(rng)));
                let t = f.terms[rng.below(f.terms.len() as u64) as usize].0;
                f.links[k].push((77, t));
            }
        }
        c.stat("no_gene_but_diseases", 1);
    }
    facts_stats(&f, &mut c);
    let with_roots = f.terms.iter().any(|t| t.0 == 1) && f.terms.iter().any(|t| t.0 == 118);
    if with_roots && rng.chance(1, 3) {
        // binary route: obsolete / replaced terms (a lookup of an obsolete id returns THAT term)
        let mut flags = gen_flags(rng, &mut f);
        let ids_now: Vec<u32> = f.terms.iter().map(|t| t.0).collect();
        for id in &ids_now {
            if *id != 1 && *id != 118 && !flags.iter().any(|x| x.0 == *id) && rng.chance(1, 4) {
                flags.push((*id, true, Some(*rng.pick(&ids_now))));
            }
        }
        c.stat("obsolete_or_replaced_terms", flags.len() as u64);
        if rng.chance(1, 2) {
            // a term without a name (the shortest term record; facts_to_fops moves it to an end of
            // the section)
            let i = rng.below(f.terms.len() as u64) as usize;
            if f.terms[i].0 != 1 && f.terms[i].0 != 118 {
                f.terms[i].1 = String::new();
            }
        }
        let fv = 1 + rng.below(3) as u8;
        facts_to_fops(rng, &f, &flags, fv, 0, true, &mut c);
    } else {
        if with_roots {
            // names at the one-byte limit of the file format (the round trip below keeps up to 255
            // bytes of whole characters)
            let nm = match rng.below(4) {
                0 => format!("{}é", "n".repeat(253)),
                1 => "x".repeat(255),
                2 => format!("{}é", "n".repeat(254)),
                _ => "y".repeat(254),
            };
            let i = rng.below(f.terms.len() as u64) as usize;
            f.terms[i].1 = nm;
            c.stat("names_at_the_255_byte_limit", 1);
        }
        // with rejected calls (absent terms, also with record ids that are never registered)
        facts_to_prog(rng, &f, &ProgOpts { shuffle: true, failing_permille: 300, build_defaults: with_roots, slot: 0 }, &mut c);
        // a record registered under an EMPTY name (which then is its name) before the calls that
        // carry its non-empty name
        for kind in KINDS {
            if rng.chance(1, 2) {
                let pfx_a = format!("ann {kind} ");
                let pfx_b = format!("addrec {kind} ");
                if let Some(i) = c.ops.iter().position(|o| o.starts_with(&pfx_a) || o.starts_with(&pfx_b)) {
                    let id = c.ops[i].split(' ').nth(2).unwrap_or("1").to_string();
                    c.ops.insert(i, format!("addrec {kind} {id} {}", name("")));
                    c.stat("records_registered_with_empty_name", 1);
                }
            }
        }
    }
    // a record id is a key exactly if a successful call registered it
    c.op("dump 0".to_string());
    for k in 0..3 {
        for rid in 31..=60u32 {
            c.op(format!("rec 0 {} {}", KINDS[k], rid));
        }
    }
    c.op("sweep 0".to_string());
    c.op("iter 0".to_string());
    // id lookups at and around present ids, wrap-arounds of the id table
    let mut probes: Vec<u64> = vec![0, 1, 9_999_999, 10_000_000, 10_000_001, 4_294_967_295, 4_294_967_294, 2_147_483_648];
    for t in f.terms.iter().take(12) {
        let id = t.0 as u64;
        probes.extend([id, id + 1, id.saturating_sub(1), id + 10_000_000, id + 20_000_000, (id + 4_290_000_000) % 4_294_967_296]);
    }
    for p in probes {
        if p <= 4_294_967_295 {
            c.op(format!("hpo 0 {p}"));
        }
    }
    // record lookups by id
    for k in 0..3 {
        let mut probes: Vec<u32> = vec![0, 1, 4_294_967_295];
        for r in f.recs[k].iter().take(6) {
            probes.extend([r.0, r.0.wrapping_add(1)]);
        }
        for p in probes {
            c.op(format!("rec 0 {} {}", KINDS[k], p));
        }
    }
    // gene by symbol, disease name search
    let mut queries: Vec<String> = vec![String::new(), "zzz".to_string(), "a".to_string(), "é".to_string(), " ".to_string()];
    for k in 0..2 {
        for r in f.recs[k].iter().take(5) {
            queries.push(r.1.clone());
            // near misses of an existing name: other letter case, surrounding white space, a
            // trailing NUL / line end, the name twice
            queries.push(r.1.to_lowercase());
            queries.push(r.1.to_uppercase());
            queries.push(format!("{} ", r.1));
            queries.push(format!(" {}", r.1));
            queries.push(format!("{}\n", r.1));
            queries.push(format!("{}\t", r.1));
            queries.push(format!("{}\0", r.1));
            queries.push(format!("{0}{0}", r.1));
            let chars: Vec<char> = r.1.chars().collect();
            if chars.len() >= 2 {
                let a = rng.below(chars.len() as u64) as usize;
                let b = rng.range(a as u64, chars.len() as u64) as usize;
                queries.push(chars[a..b].iter().collect());
            }
        }
    }
    for q in queries {
        c.op(format!("genebyname 0 {}", name(&q)));
        c.op(format!("omimsearch 0 {}", name(&q)));
    }
    if with_roots {
        // the reloaded ontology answers like the original (names of up to 255 bytes in full)
        c.op("roundtrip 0 6".to_string());
        c.op("dump 6".to_string());
        c.op("sweep 6".to_string());
        c.stat("binary_round_trips", 1);
    }
    // a clone answers like the original: sweep, iteration, the lookups at the extreme ids
    c.op("clone 0 5".to_string());
    c.op("same 0 5".to_string());
    c.op("sweep 5".to_string());
    c.op("iter 5".to_string());
    let mut sorted: Vec<u32> = f.terms.iter().map(|t| t.0).collect();
    sorted.sort_unstable();
    for id in sorted.iter().take(2).chain(sorted.iter().rev().take(2)) {
        c.op(format!("hpo 5 {id}"));
    }
    c.op("dump 5".to_string());
    c.nontrivial = true;
    c
}
