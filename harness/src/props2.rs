//! Further per-property generators (added as the model grows).
use crate::gen::Case;
use crate::rng::Rng;

pub fn n_cases(prop: &str, tier: &str) -> usize {
    let quick = tier == "quick";
    match prop {
        "C13" | "C18" => crate::props_set::n_cases(prop, tier),
        "C09" => if quick { 240 } else { 5000 },
        _ => 0,
    }
}

pub fn gen_case(prop: &str, tier: &str, rng: &mut Rng, idx: usize) -> Case {
    match prop {
        "C13" => crate::props_set::c13(rng, tier, idx),
        "C18" => crate::props_set::c18(rng, tier, idx),
        "C09" => crate::gen_c09::c09(rng, tier, idx),
        _ => panic!("no generator for property {prop}"),
    }
}
