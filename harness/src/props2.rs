//! Further per-property generators (added as the model grows).
use crate::gen::Case;
use crate::rng::Rng;

pub fn n_cases(prop: &str, tier: &str) -> usize {
    let quick = tier == "quick";
    match prop {
        "C09" => if quick { 240 } else { 5000 },
        _ => 0,
    }
}

pub fn gen_case(prop: &str, tier: &str, rng: &mut Rng, idx: usize) -> Case {
    match prop {
        "C09" => crate::gen_c09::c09(rng, tier, idx),
        _ => panic!("no generator for property {prop}"),
    }
}
