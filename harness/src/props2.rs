//! Registry of the per-property generators that live in their own modules.
use crate::gen::Case;
use crate::rng::Rng;

pub fn n_cases(prop: &str, tier: &str) -> usize {
    let quick = tier == "quick";
    match prop {
        "C13" | "C18" => crate::props_set::n_cases(prop, tier),
        "C09" => if quick { 720 } else { 5000 },
        "C11" => if quick { 900 } else { 10_000 },
        "C14" => if quick { 600 } else { 10_000 },
        "C04" => if quick { 192 } else { 6000 },
        "C05" => if quick { 156 } else { 8008 },
        "C07" | "C08" => crate::props_bin::n_cases(prop, tier),
        "C06" | "C17" => crate::props_stat::n_cases(prop, tier),
        _ => 0,
    }
}

pub fn gen_case(prop: &str, tier: &str, rng: &mut Rng, idx: usize) -> Case {
    match prop {
        "C13" => crate::props_set::c13(rng, tier, idx),
        "C18" => crate::props_set::c18(rng, tier, idx),
        "C09" => crate::gen_c09::c09(rng, tier, idx),
        "C11" => crate::props_path::c11(rng, tier, idx),
        "C14" => crate::props_path::c14(rng, tier, idx),
        "C04" => crate::props_sim::c04(rng, tier, idx),
        "C05" => crate::props_sim::c05(rng, tier, idx),
        "C07" | "C08" => crate::props_bin::gen_case(prop, tier, rng, idx),
        "C06" | "C17" => crate::props_stat::gen_case(prop, tier, rng, idx),
        _ => panic!("no generator for property {prop}"),
    }
}
