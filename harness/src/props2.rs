//! Further per-property generators (added as the model grows).
use crate::gen::Case;
use crate::rng::Rng;

pub fn n_cases(_prop: &str, _tier: &str) -> usize {
    0
}

pub fn gen_case(prop: &str, _tier: &str, _rng: &mut Rng, _idx: usize) -> Case {
    panic!("no generator for property {prop}");
}
