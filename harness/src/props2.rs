//! Further per-property generators (added as the model grows).
use crate::gen::Case;
use crate::rng::Rng;

pub fn n_cases(prop: &str, tier: &str) -> usize {
    match prop {
        "C06" | "C17" => crate::props_stat::n_cases(prop, tier),
        _ => 0,
    }
}

pub fn gen_case(prop: &str, tier: &str, rng: &mut Rng, idx: usize) -> Case {
    match prop {
        "C06" | "C17" => crate::props_stat::gen_case(prop, tier, rng, idx),
        _ => panic!("no generator for property {prop}"),
    }
}
