//! Structured generators: ontology fact sets (DAG + annotations) and their rendering as
//! builder programs of the line protocol. All randomness comes from the `Rng` passed in.
use crate::proto::*;
use crate::rng::Rng;
use std::collections::{BTreeMap, BTreeSet};

pub struct Case {
    pub tag: String,
    pub ops: Vec<String>,
    /// distribution counters for the evidence file
    pub stats: BTreeMap<String, u64>,
    /// non-trivial by the property's stated rule
    pub nontrivial: bool,
}

impl Case {
    pub fn new(tag: &str) -> Self {
        Case { tag: tag.to_string(), ops: vec![], stats: BTreeMap::new(), nontrivial: false }
    }
    pub fn op(&mut self, s: String) {
        self.ops.push(s);
    }
    pub fn stat(&mut self, k: &str, v: u64) {
        *self.stats.entry(k.to_string()).or_insert(0) += v;
    }
}

#[derive(Clone, Default)]
pub struct Facts {
    /// (id, name)
    pub terms: Vec<(u32, String)>,
    /// (parent, child)
    pub edges: Vec<(u32, u32)>,
    /// per kind (g, o, r): (id, name)
    pub recs: [Vec<(u32, String)>; 3],
    /// per kind: (record id, term id)
    pub links: [Vec<(u32, u32)>; 3],
    pub version: (u16, u8, u8),
}

pub const KINDS: [&str; 3] = ["g", "o", "r"];

#[derive(Clone, Copy, PartialEq, Debug)]
pub enum Shape {
    Random,
    Chain,
    Tree,
    Ladder,
    ChainShortcut,
    MultiRoot,
}

pub struct DagOpts {
    pub max_terms: usize,
    /// make HP:0000001 and HP:0000118 exist (118 a child of 1) so `build def` succeeds
    pub with_roots: bool,
    pub max_recs: usize,
}

const NAME_POOL: &[&str] = &[
    "All", "Phenotypic abnormality", "Mode of inheritance", "a", "b: c", "Ünïcode", "x y", "日本", "Q", "long name with spaces",
    "ABC1", "GENE", "Marfan", "Syndrome: type 1", "é",
    // words that mean something elsewhere in the file formats
    "NOT", "obsolete finding", "true", "HP:0000118", "OMIM:1", "1", "-", "Term", "is_a: x",
    // white space at the ends (ASCII, no-break, ideographic; no tab or line end: the text formats
    // cannot carry those inside a name), a replacement character at the end
    "padded ", " padded", "nbsp\u{a0}", "wide\u{3000}", "ABC1\u{fffd}",
];

pub fn gen_name(rng: &mut Rng) -> String {
    if rng.chance(1, 12) {
        return String::new();
    }
    if rng.chance(1, 25) {
        // exact byte lengths at signed / unsigned 8-bit borders, with a multi-byte tail
        let len = *rng.pick(&[126usize, 127, 128, 129, 254, 255]);
        let mut s: String = "n".repeat(len - 2);
        s.push('é');
        return s;
    }
    let mut s = rng.pick(NAME_POOL).to_string();
    if rng.chance(1, 2) {
        s.push_str(&format!(" {}", rng.below(1000)));
    }
    s
}

/// random injection of `n` distinct ids: numeric order is unrelated to topology
pub fn gen_ids(rng: &mut Rng, n: usize, reserved: &[u32]) -> Vec<u32> {
    let mut used: BTreeSet<u32> = reserved.iter().copied().collect();
    let mut out = vec![];
    // borders of the id space, powers of two / byte-width borders, the bytes "HPO" as a number
    let borders = [
        0u32, 2, 9_999_999, 9_999_998, 117, 119, 255, 256, 257, 511, 512, 4095, 4096, 65_535, 65_536, 65_537, 1_000_000,
        4_739_151, 4_739_152, 8_388_607, 8_388_608,
    ];
    if n >= 4 && rng.chance(1, 6) {
        // the extreme ids and their neighbours TOGETHER (packed keys, off-by-one table sizes)
        for id in [0u32, 1, 9_999_998, 9_999_999] {
            if out.len() < n && used.insert(id) {
                out.push(id);
            }
        }
    }
    while out.len() < n {
        let id = match rng.below(10) {
            0 => *rng.pick(&borders),
            1..=5 => rng.range(2, 60) as u32,
            6..=7 => rng.range(2, 2000) as u32,
            _ => rng.range(2, 9_999_999) as u32,
        };
        if used.insert(id) {
            out.push(id);
        }
    }
    out
}

/// DAG by a hidden topological order: node i gets parents among nodes < i.
pub fn gen_facts(rng: &mut Rng, opts: &DagOpts) -> (Facts, Shape) {
    let shapes = [Shape::Random, Shape::Random, Shape::Chain, Shape::Tree, Shape::Ladder, Shape::ChainShortcut, Shape::MultiRoot];
    let shape = *rng.pick(&shapes);
    let n = rng.range(2, opts.max_terms as u64) as usize;
    let mut ids: Vec<u32>;
    if opts.with_roots {
        ids = vec![1, 118];
        ids.extend(gen_ids(rng, n.saturating_sub(2), &[1, 118]));
    } else {
        ids = gen_ids(rng, n, &[]);
    }
    let n = ids.len();
    let mut edges: Vec<(usize, usize)> = vec![]; // (parent idx, child idx), parent < child
    for i in 1..n {
        if opts.with_roots && i == 1 {
            edges.push((0, 1));
            continue;
        }
        match shape {
            Shape::Chain => edges.push((i - 1, i)),
            Shape::Tree => edges.push((rng.below(i as u64) as usize, i)),
            Shape::Ladder => {
                // diamonds stacked: two parents from the previous "level"
                edges.push((i - 1, i));
                if i >= 2 {
                    edges.push((i - 2, i));
                }
            }
            Shape::ChainShortcut => {
                edges.push((i - 1, i));
                if i >= 3 && rng.chance(1, 3) {
                    edges.push((rng.below((i - 2) as u64) as usize, i));
                }
            }
            Shape::MultiRoot => {
                if rng.chance(1, 4) {
                    // another root / disconnected term
                } else {
                    let k = 1 + rng.below(2) as usize;
                    for _ in 0..k {
                        edges.push((rng.below(i as u64) as usize, i));
                    }
                }
            }
            Shape::Random => {
                if rng.chance(1, 12) {
                    // disconnected
                } else {
                    let k = 1 + rng.below(3) as usize;
                    for _ in 0..k {
                        edges.push((rng.below(i as u64) as usize, i));
                    }
                }
            }
        }
    }
    edges.sort_unstable();
    edges.dedup();
    let mut f = Facts::default();
    for id in &ids {
        f.terms.push((*id, gen_name(rng)));
    }
    for (p, c) in edges {
        f.edges.push((ids[p], ids[c]));
    }
    // annotations: ids of the three kinds overlap numerically on purpose
    for k in 0..3 {
        let nrec = if rng.chance(1, 8) { 0 } else { rng.range(1, opts.max_recs.max(1) as u64) as usize };
        let mut rids = BTreeSet::new();
        while rids.len() < nrec {
            let id = match rng.below(8) {
                0 => rng.range(0, 4_294_967_295) as u32,
                1 => *rng.pick(&[0u32, 255, 256, 65_535, 65_536, 16_777_215, 16_777_216, 4_739_151, 2_147_483_647, 2_147_483_648, 4_294_967_295]),
                _ => rng.range(1, 30) as u32,
            };
            rids.insert(id);
        }
        for r in &rids {
            f.recs[k].push((*r, gen_name(rng)));
        }
        let rv: Vec<u32> = rids.iter().copied().collect();
        if !rv.is_empty() {
            let nl = rng.below((2 * n) as u64 + 1) as usize;
            for _ in 0..nl {
                let r = *rng.pick(&rv);
                let t = *rng.pick(&ids);
                f.links[k].push((r, t));
            }
        }
    }
    f.version = if rng.chance(1, 6) {
        // anything the (u16, u8, u8) triple can hold
        (rng.below(65_536) as u16, rng.below(256) as u8, rng.below(256) as u8)
    } else {
        (rng.below(3000) as u16, rng.below(13) as u8, rng.below(32) as u8)
    };
    (f, shape)
}

pub fn rec_name(f: &Facts, k: usize, r: u32) -> String {
    f.recs[k].iter().find(|x| x.0 == r).map(|x| x.1.clone()).unwrap_or_default()
}

pub struct ProgOpts {
    pub shuffle: bool,
    /// extra calls that must fail (absent ids), per mille of the calls of a phase
    pub failing_permille: u64,
    pub build_defaults: bool,
    pub slot: u32,
}

/// Render a fact set as a builder program; returns the ops.
pub fn facts_to_prog(rng: &mut Rng, f: &Facts, po: &ProgOpts, case: &mut Case) {
    let present: BTreeSet<u32> = f.terms.iter().map(|t| t.0).collect();
    let absent = |rng: &mut Rng| -> u32 {
        loop {
            let id = match rng.below(6) {
                0 => rng.range(10_000_000, 4_294_967_295) as u32,
                // the borders of the id space and of the arena's index table (0 = its placeholder slot)
                1 | 2 => *rng.pick(&[0u32, 0, 1, 9_999_999, 10_000_000, 1 << 31, u32::MAX]),
                _ => rng.range(0, 9_999_999) as u32,
            };
            if !present.contains(&id) {
                return id;
            }
        }
    };
    case.op("new".to_string());
    case.op(format!("version {} {} {}", f.version.0, f.version.1, f.version.2));
    let mut terms = f.terms.clone();
    if po.shuffle {
        rng.shuffle(&mut terms);
    }
    for (id, nm) in &terms {
        case.op(format!("term {} {}", id, name(nm)));
        if rng.chance(1, 15) {
            // duplicate id with another name: first one wins
            case.op(format!("term {} {}", id, name("dup")));
            case.stat("dup_term", 1);
        }
    }
    case.op("complete".to_string());
    let mut calls: Vec<String> = f.edges.iter().map(|(p, c)| format!("parent {} {}", p, c)).collect();
    let nfail = (calls.len() as u64 * po.failing_permille + rng.below(1000)) / 1000;
    for _ in 0..nfail {
        let some = f.terms[rng.below(f.terms.len() as u64) as usize].0;
        let a = absent(rng);
        let call = match rng.below(4) {
            0 => format!("parent {} {}", a, some),
            1 => format!("parent {} {}", some, a),
            2 => format!("parent {} {}", a, a), // an absent term as its own parent
            _ => format!("parent {} {}", a, absent(rng)),
        };
        calls.push(call);
        case.stat("failing_add_parent", 1);
    }
    if rng.chance(1, 5) && !f.edges.is_empty() {
        let (p, c) = *rng.pick(&f.edges);
        calls.push(format!("parent {} {}", p, c)); // repeated fact
    }
    if po.shuffle {
        rng.shuffle(&mut calls);
    }
    for c in calls {
        case.op(c);
    }
    case.op("connect".to_string());
    let mut calls: Vec<String> = vec![];
    for k in 0..3 {
        let linked: BTreeSet<u32> = f.links[k].iter().map(|l| l.0).collect();
        for (r, nm) in &f.recs[k] {
            if !linked.contains(r) || rng.chance(1, 4) {
                calls.push(format!("addrec {} {} {}", KINDS[k], r, name(nm)));
            }
            if rng.chance(1, 8) {
                // a second add (same name, so the fact set stays functional): the record that is
                // there stays as it is, wherever the call lands among the annotate calls
                calls.push(format!("addrec {} {} {}", KINDS[k], r, name(nm)));
                case.stat("dup_addrec", 1);
            }
        }
        for (r, t) in &f.links[k] {
            calls.push(format!("ann {} {} {} {}", KINDS[k], r, name(&rec_name(f, k, *r)), t));
        }
        let nfail = (f.links[k].len() as u64 * po.failing_permille + rng.below(1000)) / 1000;
        for _ in 0..nfail {
            // failing annotate: absent term, with an existing or a fresh record id
            let rid = if !f.recs[k].is_empty() && rng.chance(1, 2) { rng.pick(&f.recs[k]).0 } else { rng.range(31, 60) as u32 };
            calls.push(format!("ann {} {} {} {}", KINDS[k], rid, name(&rec_name(f, k, rid)), absent(rng)));
            case.stat("failing_annotate", 1);
        }
    }
    if po.shuffle {
        rng.shuffle(&mut calls);
    }
    // once a record is registered its name is fixed: later calls for the same id may carry ANY
    // name (the first one wins), also failing ones
    let mut registered: BTreeSet<(String, String)> = BTreeSet::new();
    for call in calls.iter_mut() {
        let toks: Vec<String> = call.split(' ').map(|x| x.to_string()).collect();
        let key = (toks[1].clone(), toks[2].clone());
        let succeeds = toks[0] == "addrec" || toks[4].parse::<u32>().map(|t| present.contains(&t)).unwrap_or(false);
        if registered.contains(&key) {
            if rng.chance(1, 6) {
                let mut t2 = toks.clone();
                t2[3] = name("another name for a known record");
                *call = t2.join(" ");
                case.stat("calls_with_other_name_for_known_record", 1);
            }
        } else if succeeds {
            registered.insert(key);
        }
    }
    for c in calls {
        case.op(c);
    }
    case.op("ic".to_string());
    case.op(format!("build {} {}", if po.build_defaults { "def" } else { "min" }, po.slot));
}

/// structural statistics used for the "non-trivial" rule and the evidence histogram
pub fn facts_stats(f: &Facts, case: &mut Case) -> (u64, u64) {
    let mut nparents: BTreeMap<u32, u64> = BTreeMap::new();
    for (_, c) in &f.edges {
        *nparents.entry(*c).or_insert(0) += 1;
    }
    let multi = nparents.values().filter(|x| **x > 1).count() as u64;
    let children: BTreeSet<u32> = f.edges.iter().map(|e| e.1).collect();
    // inherited annotation: a link to a term that has a parent
    let mut inherited = 0u64;
    for k in 0..3 {
        inherited += f.links[k].iter().filter(|l| children.contains(&l.1)).count() as u64;
    }
    case.stat("terms", f.terms.len() as u64);
    case.stat("edges", f.edges.len() as u64);
    case.stat("multi_parent_nodes", multi);
    case.stat("links_with_inheritance", inherited);
    case.stat("records", (f.recs[0].len() + f.recs[1].len() + f.recs[2].len()) as u64);
    // id order vs topological order: count edges whose parent id is numerically larger than the child id
    let inv = f.edges.iter().filter(|(p, c)| p > c).count() as u64;
    case.stat("edges_parent_id_gt_child_id", inv);
    (multi, inherited)
}

/// obsolete flags and replacements: (id, obsolete, replacement)
pub type Flags = Vec<(u32, bool, Option<u32>)>;

/// Mark some leaf-ish terms obsolete (optionally with a replacement that exists, collides with
/// another term, does not resolve, or is 0) and add a few disconnected obsolete terms.
pub fn gen_flags(rng: &mut Rng, f: &mut Facts) -> Flags {
    let mut flags: Flags = vec![];
    let ids: Vec<u32> = f.terms.iter().map(|t| t.0).collect();
    let extra = rng.below(3);
    for _ in 0..extra {
        let id = gen_ids(rng, 1, &ids)[0];
        if f.terms.iter().any(|t| t.0 == id) {
            continue;
        }
        let nm = gen_name(rng);
        // the binary formats carry at most 255 name bytes
        f.terms.push((id, if nm.len() > 240 { nm } else { format!("obsolete {nm}") }));
        let repl = match rng.below(5) {
            0 => None,
            1 => Some(if rng.chance(1, 3) {
                // outside the term-id range (always dangling)
                *rng.pick(&[10_000_000u32, 10_000_001, 16_777_216, 1 << 31, u32::MAX - 1, u32::MAX])
            } else {
                rng.range(1, 9_999_999) as u32 // may not resolve
            }),
            _ => Some(*rng.pick(&ids)),
        };
        flags.push((id, true, repl));
    }
    for id in &ids {
        if *id == 1 || *id == 118 {
            continue;
        }
        if rng.chance(1, 8) {
            let repl = match rng.below(4) {
                0 => None,
                _ => Some(*rng.pick(&ids)),
            };
            flags.push((*id, rng.chance(3, 4), repl));
        }
    }
    flags
}

/// the longest prefix of at most 255 bytes that ends at a character boundary
pub fn cut255(s: &str) -> &str {
    let mut n = 0usize;
    for c in s.chars() {
        if n + c.len_utf8() > 255 {
            break;
        }
        n += c.len_utf8();
    }
    &s[..n]
}

/// Render a fact set as decoded-record ops (`f*`) loaded through the binary format `fv`.
pub fn facts_to_fops(rng: &mut Rng, f: &Facts, flags: &Flags, fv: u8, slot: u32, shuffle: bool, case: &mut Case) {
    case.op("fnew".to_string());
    case.op(format!("fversion {} {} {}", f.version.0, f.version.1, f.version.2));
    let mut terms = f.terms.clone();
    if shuffle {
        rng.shuffle(&mut terms);
        // the shortest possible record (an empty name) at the very end / the very start of the section
        if let Some(i) = terms.iter().position(|t| t.1.is_empty()) {
            let n = terms.len();
            match rng.below(4) {
                0 | 1 => terms.swap(i, n - 1),
                2 => terms.swap(i, 0),
                _ => {}
            }
        }
    }
    for (id, nm) in &terms {
        let fl = flags.iter().find(|x| x.0 == *id);
        let (obs, repl) = fl.map(|x| (x.1, x.2)).unwrap_or((false, None));
        // a decoded record: the u8 length field of the formats carries at most 255 name bytes
        case.op(format!("fterm {} {} {} {}", id, name(cut255(nm)), b(obs), opt(repl)));
    }
    let mut edges = f.edges.clone();
    if shuffle {
        rng.shuffle(&mut edges);
    }
    for (p, c) in &edges {
        case.op(format!("fparent {} {}", p, c));
    }
    for k in 0..3 {
        let mut recs = f.recs[k].clone();
        if shuffle {
            rng.shuffle(&mut recs);
        }
        for (r, nm) in &recs {
            case.op(format!("frec {} {} {}", KINDS[k], r, name(if k == 0 { cut255(nm) } else { nm })));
        }
        let mut links = f.links[k].clone();
        if shuffle {
            rng.shuffle(&mut links);
        }
        for (r, t) in &links {
            case.op(format!("flink {} {} {}", KINDS[k], r, t));
        }
    }
    case.op(format!("fload {} {}", fv, slot));
}

/// ids along a chain (root first): unrelated to the depth, growing with the depth, or growing
/// towards the root (walks over id-ordered ancestor sets then nest as deep as the chain is long)
fn chain_id_order(rng: &mut Rng, ids: &mut [u32]) {
    match rng.below(3) {
        0 => ids.sort_unstable(),
        1 => {
            ids.sort_unstable();
            ids.reverse();
        }
        _ => {}
    }
}

/// A deep is_a chain (depth well beyond 32), optionally with shortcut edges and a few annotations,
/// ids assigned by random injection. Terms are listed root first in `f.terms`.
pub fn gen_deep_chain(rng: &mut Rng, n: usize) -> Facts {
    let mut ids = gen_ids(rng, n, &[]);
    chain_id_order(rng, &mut ids);
    let mut f = Facts::default();
    for id in &ids {
        f.terms.push((*id, gen_name(rng)));
    }
    for i in 1..n {
        f.edges.push((ids[i - 1], ids[i]));
        if i >= 3 && rng.chance(1, 10) {
            f.edges.push((ids[rng.below((i - 2) as u64) as usize], ids[i]));
        }
    }
    for k in 0..3 {
        let nrec = rng.range(0, 2) as u32;
        for r in 1..=nrec {
            f.recs[k].push((r, gen_name(rng)));
            for _ in 0..rng.range(1, 3) {
                f.links[k].push((r, *rng.pick(&ids)));
            }
        }
    }
    f.version = (2024, 1, 1);
    f
}

/// A deep chain below HP:1 <- HP:118 (both present, as the binary loader needs them); the chain's
/// ids avoid 1 and 118. Terms are listed root first in `f.terms`.
pub fn gen_deep_chain_rooted(rng: &mut Rng, n: usize) -> Facts {
    let mut ids = gen_ids(rng, n, &[1, 118]);
    chain_id_order(rng, &mut ids);
    let mut f = Facts::default();
    f.terms.push((1, "All".to_string()));
    f.terms.push((118, "Phenotypic abnormality".to_string()));
    f.edges.push((1, 118));
    for id in &ids {
        f.terms.push((*id, gen_name(rng)));
    }
    f.edges.push((118, ids[0]));
    for i in 1..n {
        f.edges.push((ids[i - 1], ids[i]));
        if i >= 3 && rng.chance(1, 10) {
            f.edges.push((ids[rng.below((i - 2) as u64) as usize], ids[i]));
        }
    }
    for k in 0..3 {
        let nrec = rng.range(0, 2) as u32;
        for r in 1..=nrec {
            f.recs[k].push((r, gen_name(rng)));
            for _ in 0..rng.range(1, 3) {
                f.links[k].push((r, *rng.pick(&ids)));
            }
        }
    }
    f.version = (2024, 1, 1);
    f
}

/// A fan: HP:1 <- HP:118 <- `p` terms, and two terms below ALL of those `p` (resp. all but one);
/// one record per kind annotated to every one of the `p` terms. `p` around the byte borders
/// 255 / 256 / 257 / 513 (parent, child and term counts of the binary records, list capacities).
pub fn gen_fan(rng: &mut Rng, p: usize) -> Facts {
    let ids = gen_ids(rng, p + 2, &[1, 118]);
    let mut f = Facts::default();
    f.terms.push((1, "All".to_string()));
    f.terms.push((118, "Phenotypic abnormality".to_string()));
    f.edges.push((1, 118));
    for id in &ids {
        f.terms.push((*id, gen_name(rng)));
    }
    let (mids, low) = ids.split_at(p);
    for m in mids {
        f.edges.push((118, *m));
        f.edges.push((*m, low[0]));
    }
    // the three middle terms with the LARGEST ids (the last ones of any id-ordered walk over the
    // many parents) and two others hang below private intermediate terms: ancestors that are
    // reachable through one of the many parents only
    {
        let mut by_id: Vec<u32> = mids.to_vec();
        by_id.sort_unstable();
        let mut special: Vec<u32> = by_id.iter().rev().take(3).copied().collect();
        special.push(*rng.pick(mids));
        special.push(by_id[0]);
        special.sort_unstable();
        special.dedup();
        let extra = gen_ids(rng, special.len(), &f.terms.iter().map(|t| t.0).collect::<Vec<u32>>());
        for (e, m) in extra.iter().zip(special.iter()) {
            f.terms.push((*e, gen_name(rng)));
            f.edges.retain(|x| *x != (118, *m));
            f.edges.push((118, *e));
            f.edges.push((*e, *m));
        }
    }
    for m in &mids[1..] {
        f.edges.push((*m, low[1]));
    }
    for k in 0..3 {
        f.recs[k].push((7, gen_name(rng)));
        for m in mids {
            f.links[k].push((7, *m));
        }
        f.recs[k].push((8, gen_name(rng)));
        f.links[k].push((8, low[1]));
    }
    f.version = (2024, 1, 1);
    f
}

/// A trunk of 31..45 single-parent terms below HP:1 / HP:118 (so that terms near its end have more
/// than 30 ancestors, the inline capacity of a group), a few skip links along it, and below it a
/// handful of terms with two or three parents - trunk end, each other, and SHORTCUTS to terms high
/// up the trunk - plus one term with 11..14 direct parents of which some are ancestors of others.
/// Few diamonds, so that the exponential upward path enumeration of the crate stays cheap.
pub fn gen_trunk(rng: &mut Rng) -> Facts {
    let len = rng.range(31, 45) as usize;
    let mut ids = gen_ids(rng, len + 25, &[1, 118]);
    // a side branch 118 <- ids[len+22] <- ids[len+23] whose lower term gets an id BELOW the id of
    // the trunk's end: the term ids[len+24] has both as parents, the one with the smaller id having
    // few ancestors of its own, the one with the larger id more than thirty
    if ids[len + 23] > ids[len - 1] {
        ids.swap(len + 23, len - 1);
    }
    let mut f = Facts::default();
    f.terms.push((1, "All".to_string()));
    f.terms.push((118, "Phenotypic abnormality".to_string()));
    f.edges.push((1, 118));
    for id in &ids {
        f.terms.push((*id, gen_name(rng)));
    }
    let (trunk, rest) = ids.split_at(len);
    f.edges.push((118, trunk[0]));
    for i in 1..len {
        f.edges.push((trunk[i - 1], trunk[i]));
    }
    for _ in 0..rng.below(3) {
        let a = rng.below(len as u64 - 3) as usize;
        let b = rng.range(a as u64 + 2, len as u64 - 1) as usize;
        f.edges.push((trunk[a], trunk[b])); // skip link
    }
    // leaves: rest[0..6]
    let high = |rng: &mut Rng| trunk[rng.below(6) as usize];
    let low = |rng: &mut Rng| trunk[len - 1 - rng.below(3) as usize];
    f.edges.push((low(rng), rest[0]));
    f.edges.push((high(rng), rest[0])); // shortcut
    f.edges.push((low(rng), rest[1]));
    f.edges.push((rest[0], rest[2]));
    f.edges.push((rest[1], rest[2]));
    f.edges.push((high(rng), rest[3]));
    f.edges.push((rest[2], rest[3]));
    f.edges.push((trunk[len / 2], rest[4]));
    f.edges.push((rest[4], rest[5]));
    f.edges.push((low(rng), rest[5]));
    f.edges.push((118, rest[5])); // shortcut to the top
    // the many-parent term rest[6]: parents rest[7..] (11..14 of them); some of those are chained
    let np = rng.range(11, 14) as usize;
    let ps = &rest[7..7 + np];
    for (i, p) in ps.iter().enumerate() {
        f.edges.push((*p, rest[6]));
        // hang the parents below the trunk at various heights; every third one below its
        // predecessor (so one direct parent is an ancestor of another direct parent)
        if i % 3 == 2 {
            f.edges.push((ps[i - 1], *p));
        } else {
            let at = rng.below(len as u64) as usize;
            f.edges.push((trunk[at], *p));
        }
    }
    f.edges.push((118, ids[len + 22]));
    f.edges.push((ids[len + 22], ids[len + 23]));
    f.edges.push((ids[len + 23], ids[len + 24]));
    f.edges.push((trunk[len - 1], ids[len + 24]));
    f.edges.sort_unstable();
    f.edges.dedup();
    for k in 0..3 {
        for r in 1..=2u32 {
            f.recs[k].push((r, gen_name(rng)));
            f.links[k].push((r, *rng.pick(rest)));
            f.links[k].push((r, trunk[rng.below(len as u64) as usize]));
        }
    }
    f.version = (2024, 1, 1);
    f
}

/// Builder program for `f` with the terms supplied in the given order of `f.terms`
/// (`leaf_first`: reversed = every child before its parent, `shuffle`: random).
pub fn deep_prog(rng: &mut Rng, f: &Facts, slot: u32, leaf_first: bool, shuffle: bool, case: &mut Case) {
    case.op("new".to_string());
    let mut terms = f.terms.clone();
    if leaf_first {
        terms.reverse();
    }
    if shuffle {
        rng.shuffle(&mut terms);
    }
    for (id, nm) in &terms {
        case.op(format!("term {} {}", id, name(nm)));
    }
    case.op("complete".to_string());
    let mut edges = f.edges.clone();
    if shuffle {
        rng.shuffle(&mut edges);
    }
    for (p, c) in &edges {
        case.op(format!("parent {} {}", p, c));
    }
    case.op("connect".to_string());
    for k in 0..3 {
        for (r, t) in &f.links[k] {
            case.op(format!("ann {} {} {} {}", KINDS[k], r, name(&rec_name(f, k, *r)), t));
        }
    }
    case.op("ic".to_string());
    case.op(format!("build min {}", slot));
}
