//! `f*` ops: decoded records, encoded by the harness's own encoder and loaded with `from_bytes`.
use crate::enc::{encode, RawRec, RawTerm};
use crate::interp::Interp;
use crate::proto::*;
use hpo::Ontology;
use std::panic::{catch_unwind, AssertUnwindSafe};

pub fn kind_idx(k: &str) -> Option<usize> {
    match k {
        "g" => Some(0),
        "o" => Some(1),
        "r" => Some(2),
        _ => None,
    }
}

/// `Ontology::from_bytes` under catch_unwind: "r ok" / "r err" / "r panic"
pub fn load_bytes(it: &mut Interp, bytes: &[u8], slot: u32, out: &mut Vec<String>) {
    match catch_unwind(AssertUnwindSafe(|| Ontology::from_bytes(bytes))) {
        Ok(Ok(o)) => {
            it.slots.insert(slot, o);
            out.push("r ok".to_string());
        }
        Ok(Err(_)) => out.push("r err".to_string()),
        Err(_) => out.push("r panic".to_string()),
    }
}

pub fn exec(it: &mut Interp, toks: &[&str], out: &mut Vec<String>) -> bool {
    match toks {
        ["fnew"] => {
            it.ext.facts = Default::default();
            true
        }
        ["fversion", y, m, d] => {
            let (Ok(y), Ok(m), Ok(d)) = (y.parse::<u16>(), m.parse::<u8>(), d.parse::<u8>()) else { return false };
            it.ext.facts.version = (y, m, d);
            true
        }
        ["fterm", id, nm, obs, repl] => {
            let (Ok(id), Some(nm)) = (id.parse::<u32>(), unname(nm)) else { return false };
            let replacement = if *repl == "-" { None } else { repl.parse::<u32>().ok() };
            it.ext.facts.terms.push(RawTerm { id, name: nm, obsolete: *obs == "1", replacement });
            true
        }
        ["fparent", p, c] => {
            let (Ok(p), Ok(c)) = (p.parse::<u32>(), c.parse::<u32>()) else { return false };
            if let Some(r) = it.ext.facts.parents.iter_mut().find(|r| r.0 == c) {
                r.1.push(p);
            } else {
                it.ext.facts.parents.push((c, vec![p]));
            }
            true
        }
        ["frec", k, id, nm] => {
            let (Some(k), Ok(id), Some(nm)) = (kind_idx(k), id.parse::<u32>(), unname(nm)) else { return false };
            it.ext.facts.recs[k].push(RawRec { id, name: nm, terms: vec![] });
            true
        }
        ["flink", k, rid, t] => {
            let (Some(k), Ok(rid), Ok(t)) = (kind_idx(k), rid.parse::<u32>(), t.parse::<u32>()) else { return false };
            for r in it.ext.facts.recs[k].iter_mut().filter(|r| r.id == rid) {
                r.terms.push(t);
            }
            true
        }
        ["fload", v, slot] => {
            let (Ok(v), Ok(slot)) = (v.parse::<u8>(), slot.parse::<u32>()) else { return false };
            if !(1..=3).contains(&v) {
                return false;
            }
            let bytes = encode(&it.ext.facts, v);
            load_bytes(it, &bytes, slot, out);
            true
        }
        _ => crate::ext4::exec(it, toks, out),
    }
}
