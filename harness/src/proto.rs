//! Token helpers of the line protocol (mirror of HpoModel/Proto.lean).
pub fn hex(bytes: &[u8]) -> String {
    if bytes.is_empty() {
        return "-".to_string();
    }
    let mut s = String::with_capacity(bytes.len() * 2);
    for b in bytes {
        s.push_str(&format!("{b:02x}"));
    }
    s
}

pub fn unhex(s: &str) -> Option<Vec<u8>> {
    if s == "-" {
        return Some(vec![]);
    }
    if s.len() % 2 != 0 {
        return None;
    }
    let b = s.as_bytes();
    let mut out = Vec::with_capacity(b.len() / 2);
    for i in (0..b.len()).step_by(2) {
        let h = (b[i] as char).to_digit(16)?;
        let l = (b[i + 1] as char).to_digit(16)?;
        out.push((h * 16 + l) as u8);
    }
    Some(out)
}

pub fn name(s: &str) -> String {
    hex(s.as_bytes())
}

pub fn unname(s: &str) -> Option<String> {
    String::from_utf8(unhex(s)?).ok()
}

pub fn ids<I: IntoIterator<Item = u32>>(it: I) -> String {
    let v: Vec<String> = it.into_iter().map(|x| x.to_string()).collect();
    if v.is_empty() {
        "-".to_string()
    } else {
        v.join(",")
    }
}

pub fn sorted_ids<I: IntoIterator<Item = u32>>(it: I) -> String {
    let mut v: Vec<u32> = it.into_iter().collect();
    v.sort_unstable();
    ids(v)
}

pub fn unids(s: &str) -> Option<Vec<u32>> {
    if s == "-" {
        return Some(vec![]);
    }
    s.split(',').map(|t| t.parse::<u32>().ok()).collect()
}

/// bit pattern; every NaN (whatever its sign / payload) is the one token `f32:nan`, the token the
/// model prints for a NaN value and for a division by a zero denominator
pub fn f32bits(x: f32) -> String {
    if x.is_nan() {
        return "f32:nan".to_string();
    }
    format!("f32:{:08x}", x.to_bits())
}

pub fn f64bits(x: f64) -> String {
    format!("f64:{:016x}", x.to_bits())
}

pub fn b(x: bool) -> &'static str {
    if x {
        "1"
    } else {
        "0"
    }
}

pub fn opt(x: Option<u32>) -> String {
    match x {
        Some(n) => n.to_string(),
        None => "-".to_string(),
    }
}
