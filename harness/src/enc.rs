//! Independent encoder of the binary ontology format, versions 1, 2 and 3, written from the
//! layout description (NOT from `Ontology::as_bytes`), so that a layout error shared by the
//! library's writer and reader is visible.
//!
//! file      v1: sections                          (no magic, no release version)
//!           v2: "HPO" 0x02 year(u16) month day sections
//!           v3: "HPO" 0x03 year(u16) month day sections
//! sections  terms, parents, genes, omim diseases, [orpha diseases: v3 only];
//!           each: u32 payload length + payload; all integers big endian
//! term      v1: u32 record length, u32 id, u8 name length, name
//!           v2/v3: ... name, u8 flags (bit 0 = obsolete), u32 replacement id (0 = none)
//! parents   u32 number of parents, u32 term id, u32 parent id ...
//! gene      u32 record length, u32 id, u8 name length, name, u32 number of terms, u32 term id ...
//! disease   u32 record length, u32 id, u32 name length, name, u32 number of terms, u32 term id ...

#[derive(Clone, Default, Debug)]
pub struct RawTerm {
    pub id: u32,
    pub name: String,
    pub obsolete: bool,
    pub replacement: Option<u32>,
}

#[derive(Clone, Default, Debug)]
pub struct RawRec {
    pub id: u32,
    pub name: String,
    pub terms: Vec<u32>,
}

#[derive(Clone, Default, Debug)]
pub struct RawFacts {
    pub version: (u16, u8, u8),
    pub terms: Vec<RawTerm>,
    /// (term, parents) in file order
    pub parents: Vec<(u32, Vec<u32>)>,
    pub recs: [Vec<RawRec>; 3],
}

fn u32be(n: usize) -> [u8; 4] {
    u32::try_from(n).expect("fits u32").to_be_bytes()
}

fn section(payload: &[u8]) -> Vec<u8> {
    let mut v = u32be(payload.len()).to_vec();
    v.extend_from_slice(payload);
    v
}

pub fn term_record(t: &RawTerm, fv: u8) -> Vec<u8> {
    let name = t.name.as_bytes();
    assert!(name.len() <= 255, "term name must fit the u8 length");
    let mut body = vec![];
    body.extend_from_slice(&t.id.to_be_bytes());
    body.push(name.len() as u8);
    body.extend_from_slice(name);
    if fv >= 2 {
        body.push(u8::from(t.obsolete));
        body.extend_from_slice(&t.replacement.unwrap_or(0).to_be_bytes());
    }
    let mut v = u32be(body.len() + 4).to_vec();
    v.extend(body);
    v
}

pub fn parent_record(term: u32, parents: &[u32]) -> Vec<u8> {
    let mut v = u32be(parents.len()).to_vec();
    v.extend_from_slice(&term.to_be_bytes());
    for p in parents {
        v.extend_from_slice(&p.to_be_bytes());
    }
    v
}

pub fn gene_record(r: &RawRec) -> Vec<u8> {
    let name = r.name.as_bytes();
    assert!(name.len() <= 255, "gene name must fit the u8 length");
    let mut body = vec![];
    body.extend_from_slice(&r.id.to_be_bytes());
    body.push(name.len() as u8);
    body.extend_from_slice(name);
    body.extend_from_slice(&u32be(r.terms.len()));
    for t in &r.terms {
        body.extend_from_slice(&t.to_be_bytes());
    }
    let mut v = u32be(body.len() + 4).to_vec();
    v.extend(body);
    v
}

pub fn disease_record(r: &RawRec) -> Vec<u8> {
    let name = r.name.as_bytes();
    let mut body = vec![];
    body.extend_from_slice(&r.id.to_be_bytes());
    body.extend_from_slice(&u32be(name.len()));
    body.extend_from_slice(name);
    body.extend_from_slice(&u32be(r.terms.len()));
    for t in &r.terms {
        body.extend_from_slice(&t.to_be_bytes());
    }
    let mut v = u32be(body.len() + 4).to_vec();
    v.extend(body);
    v
}

/// encode in format version `fv` (1, 2 or 3); what a version cannot carry is dropped
pub fn encode(f: &RawFacts, fv: u8) -> Vec<u8> {
    let mut out = vec![];
    if fv >= 2 {
        out.extend_from_slice(b"HPO");
        out.push(fv);
        out.extend_from_slice(&f.version.0.to_be_bytes());
        out.push(f.version.1);
        out.push(f.version.2);
    }
    let mut buf = vec![];
    for t in &f.terms {
        buf.extend(term_record(t, fv));
    }
    out.extend(section(&buf));
    buf.clear();
    for (t, ps) in &f.parents {
        buf.extend(parent_record(*t, ps));
    }
    out.extend(section(&buf));
    buf.clear();
    for r in &f.recs[0] {
        buf.extend(gene_record(r));
    }
    out.extend(section(&buf));
    buf.clear();
    for r in &f.recs[1] {
        buf.extend(disease_record(r));
    }
    out.extend(section(&buf));
    if fv >= 3 {
        buf.clear();
        for r in &f.recs[2] {
            buf.extend(disease_record(r));
        }
        out.extend(section(&buf));
    }
    out
}
