//! C09 ops: the JAX text loaders on generated directories.
//!
//! `jax  <slot> <std|transitive> <hex hp.obo> <hex gene file> <hex phenotype.hpoa>`  → `r ok|err|panic`
//! `jaxm <slot> <std|transitive> …` (malformed stream: only success vs. failure is compared) → `r ok|fail`
//!
//! The three texts are written into a fresh directory under `harness/target/tmp/` (gene file under
//! the name the chosen loader reads), loaded with `Ontology::from_standard` /
//! `from_standard_transitive` under `catch_unwind`, and the directory is removed again.
use crate::interp::Interp;
use crate::proto::*;
use hpo::Ontology;
use std::panic::{catch_unwind, AssertUnwindSafe};
use std::path::PathBuf;
use std::sync::atomic::{AtomicU64, Ordering};

static COUNTER: AtomicU64 = AtomicU64::new(0);

fn fresh_dir() -> PathBuf {
    let n = COUNTER.fetch_add(1, Ordering::SeqCst);
    let mut p = PathBuf::from(env!("CARGO_MANIFEST_DIR"));
    p.push("target");
    p.push("tmp");
    p.push(format!("jax-{}-{}", std::process::id(), n));
    p
}

pub enum Loaded {
    Ok(Ontology),
    Err,
    Panic,
}

pub fn load_dir(transitive: bool, obo: &[u8], gene: &[u8], hpoa: &[u8]) -> Loaded {
    let dir = fresh_dir();
    std::fs::create_dir_all(&dir).expect("temp dir");
    std::fs::write(dir.join("hp.obo"), obo).expect("write hp.obo");
    std::fs::write(dir.join("phenotype.hpoa"), hpoa).expect("write phenotype.hpoa");
    let gname = if transitive { "phenotype_to_genes.txt" } else { "genes_to_phenotype.txt" };
    std::fs::write(dir.join(gname), gene).expect("write gene file");
    let d = dir.to_str().expect("utf-8 path").to_string();
    let r = catch_unwind(AssertUnwindSafe(|| {
        if transitive {
            Ontology::from_standard_transitive(&d)
        } else {
            Ontology::from_standard(&d)
        }
    }));
    let _ = std::fs::remove_dir_all(&dir);
    match r {
        Ok(Ok(o)) => Loaded::Ok(o),
        Ok(Err(_)) => Loaded::Err,
        Err(_) => Loaded::Panic,
    }
}

pub fn exec(it: &mut Interp, toks: &[&str], out: &mut Vec<String>) -> bool {
    match toks {
        [op @ ("jax" | "jaxm"), slot, mode, obo, gene, hpoa] => {
            let transitive = match *mode {
                "std" => false,
                "transitive" => true,
                _ => return false,
            };
            let (Ok(slot), Some(obo), Some(gene), Some(hpoa)) = (slot.parse::<u32>(), unhex(obo), unhex(gene), unhex(hpoa))
            else {
                return false;
            };
            // the model reads texts: the generator only emits valid UTF-8
            if std::str::from_utf8(&obo).is_err() || std::str::from_utf8(&gene).is_err() || std::str::from_utf8(&hpoa).is_err() {
                return false;
            }
            let full = *op == "jax";
            match load_dir(transitive, &obo, &gene, &hpoa) {
                Loaded::Ok(o) => {
                    it.slots.insert(slot, o);
                    out.push("r ok".to_string());
                }
                Loaded::Err => out.push(if full { "r err" } else { "r fail" }.to_string()),
                Loaded::Panic => out.push(if full { "r panic" } else { "r fail" }.to_string()),
            }
            true
        }
        _ => false,
    }
}
