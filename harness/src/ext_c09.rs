//! C09 ops: the JAX text loaders on generated directories.
//!
//! `jax  <slot> <std|transitive> <hex hp.obo> <hex gene file> <hex phenotype.hpoa>`  → `r ok|err|panic`
//! `jaxm <slot> <std|transitive> …` (malformed stream: only success vs. failure is compared) → `r ok|fail`
//!
//! The three texts are written into a fresh directory under `harness/target/tmp/` (gene file under
//! the name the chosen loader reads), loaded with `Ontology::from_standard` /
//! `from_standard_transitive` under `catch_unwind`, and the directory is removed again.
use hpo::annotations::AnnotationId;
use crate::interp::Interp;
use crate::proto::*;
use hpo::Ontology;
use std::panic::{catch_unwind, AssertUnwindSafe};
use std::path::PathBuf;
use std::sync::atomic::{AtomicU64, Ordering};

static COUNTER: AtomicU64 = AtomicU64::new(0);

fn fresh_dir() -> PathBuf {
    let n = COUNTER.fetch_add(1, Ordering::SeqCst);
    let mut p = PathBuf::from(env!("CARGO_MANIFEST_DIR"));
    p.push("target");
    p.push("tmp");
    p.push(format!("jax-{}-{}", std::process::id(), n));
    p
}

pub enum Loaded {
    Ok(Ontology),
    Err,
    Panic,
}

pub fn load_dir(transitive: bool, obo: &[u8], gene: &[u8], hpoa: &[u8]) -> Loaded {
    let dir = fresh_dir();
    std::fs::create_dir_all(&dir).expect("temp dir");
    std::fs::write(dir.join("hp.obo"), obo).expect("write hp.obo");
    std::fs::write(dir.join("phenotype.hpoa"), hpoa).expect("write phenotype.hpoa");
    let gname = if transitive { "phenotype_to_genes.txt" } else { "genes_to_phenotype.txt" };
    std::fs::write(dir.join(gname), gene).expect("write gene file");
    let d = dir.to_str().expect("utf-8 path").to_string();
    let r = catch_unwind(AssertUnwindSafe(|| {
        if transitive {
            Ontology::from_standard_transitive(&d)
        } else {
            Ontology::from_standard(&d)
        }
    }));
    let _ = std::fs::remove_dir_all(&dir);
    match r {
        Ok(Ok(o)) => Loaded::Ok(o),
        Ok(Err(_)) => Loaded::Err,
        Err(_) => Loaded::Panic,
    }
}

/// 70 000 `[Term]` stanzas (HP:1 <- HP:118 <- every other term, ids in random order), a few gene
/// and disease rows on terms late in the file: implementation against the harness oracle only
fn big_obo(n: u32, seed: u64, transitive: bool) -> Result<(), String> {
    let mut rng = crate::rng::Rng::new(seed);
    let mut ids: std::collections::BTreeSet<u32> = std::collections::BTreeSet::new();
    while (ids.len() as u32) < n {
        let id = 2 + rng.below(9_999_997) as u32;
        if id != 118 {
            ids.insert(id);
        }
    }
    let mut order: Vec<u32> = ids.iter().copied().collect();
    rng.shuffle(&mut order);
    let mut obo = String::from("format-version: 1.2\ndata-version: hp/releases/2024-01-01\n\n");
    obo.push_str("[Term]\nid: HP:0000001\nname: All\n\n[Term]\nid: HP:0000118\nname: Phenotypic abnormality\nis_a: HP:0000001 ! All\n\n");
    for id in &order {
        obo.push_str(&format!("[Term]\nid: HP:{id:07}\nname: t{id}\nis_a: HP:0000118 ! Phenotypic abnormality\n\n"));
    }
    let late: Vec<u32> = order.iter().rev().take(5).copied().collect();
    let mut genes = String::from(if transitive { "hpo_id\thpo_name\tncbi_gene_id\tgene_symbol\n" } else { "ncbi_gene_id\tgene_symbol\thpo_id\thpo_name\n" });
    let mut hpoa = String::from("database_id\tdisease_name\tqualifier\thpo_id\n");
    for (i, t) in late.iter().enumerate() {
        if transitive {
            genes.push_str(&format!("HP:{t:07}\tt{t}\t{}\tG{}\n", 10 + i, 10 + i));
        } else {
            genes.push_str(&format!("{}\tG{}\tHP:{t:07}\tt{t}\n", 10 + i, 10 + i));
        }
        hpoa.push_str(&format!("OMIM:{}\tD{}\t\tHP:{t:07}\n", 100 + i, 100 + i));
    }
    let o = match load_dir(transitive, obo.as_bytes(), genes.as_bytes(), hpoa.as_bytes()) {
        Loaded::Ok(o) => o,
        Loaded::Err => return Err("loading the big hp.obo returned an error".to_string()),
        Loaded::Panic => return Err("loading the big hp.obo panicked".to_string()),
    };
    if o.len() != ids.len() + 2 {
        return Err(format!("{} terms loaded, the file has {}", o.len(), ids.len() + 2));
    }
    for id in order.iter().rev().take(3000).chain(order.iter().take(50)) {
        let t = o.hpo(*id).ok_or(format!("HP:{id:07} of the file does not resolve"))?;
        let p: Vec<u32> = t.parent_ids().iter().map(|x| x.as_u32()).collect();
        let a: Vec<u32> = t.all_parent_ids().iter().map(|x| x.as_u32()).collect();
        if t.name() != format!("t{id}") || p != vec![118] || a != vec![1, 118] {
            return Err(format!("HP:{id:07}: name {:?}, parents {p:?}, ancestors {a:?}", t.name()));
        }
    }
    for (i, t) in late.iter().enumerate() {
        let term = o.hpo(*t).ok_or("late term missing")?;
        let g: Vec<u32> = term.gene_ids().iter().map(|x| x.as_u32()).collect();
        let d: Vec<u32> = term.omim_disease_ids().iter().map(|x| x.as_u32()).collect();
        if g != vec![10 + i as u32] || d != vec![100 + i as u32] {
            return Err(format!("annotations of the late term HP:{t:07}: genes {g:?}, OMIM {d:?}"));
        }
    }
    let root_genes = o.hpo(1u32).ok_or("root missing")?.gene_ids().len();
    if root_genes != late.len() {
        return Err(format!("the root inherits {root_genes} genes, expected {}", late.len()));
    }
    Ok(())
}

pub fn exec(it: &mut Interp, toks: &[&str], out: &mut Vec<String>) -> bool {
    match toks {
        ["bigobo", n, seed, mode] => {
            let (Ok(n), Ok(seed)) = (n.parse::<u32>(), seed.parse::<u64>()) else { return false };
            match big_obo(n, seed, *mode == "transitive") {
                Ok(()) => out.push("oracle ok".to_string()),
                Err(e) => out.push(format!("oracle FAIL bigobo: {e}")),
            }
            true
        }
        [op @ ("jax" | "jaxm"), slot, mode, obo, gene, hpoa] => {
            let transitive = match *mode {
                "std" => false,
                "transitive" => true,
                _ => return false,
            };
            let (Ok(slot), Some(obo), Some(gene), Some(hpoa)) = (slot.parse::<u32>(), unhex(obo), unhex(gene), unhex(hpoa))
            else {
                return false;
            };
            // the model reads texts: the generator only emits valid UTF-8
            if std::str::from_utf8(&obo).is_err() || std::str::from_utf8(&gene).is_err() || std::str::from_utf8(&hpoa).is_err() {
                return false;
            }
            let full = *op == "jax";
            match load_dir(transitive, &obo, &gene, &hpoa) {
                Loaded::Ok(o) => {
                    it.slots.insert(slot, o);
                    out.push("r ok".to_string());
                }
                Loaded::Err => out.push(if full { "r err" } else { "r fail" }.to_string()),
                Loaded::Panic => out.push(if full { "r panic" } else { "r fail" }.to_string()),
            }
            true
        }
        _ => false,
    }
}
