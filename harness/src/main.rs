//! hpo_harness: generator + interpreter of the line protocol against the real `hpo` crate.
//!
//!   hpo_harness gen <prop> <tier> <seed> <dir>      writes <dir>/ops.txt, <dir>/impl.txt, <dir>/stats.json
//!   hpo_harness run <ops-file>                       interprets an ops file, impl observations on stdout
mod ext;
mod ext2;
mod ext3;
mod ext4;
mod ext_c13;
mod ext_c18;
mod ext_c09;
mod gen_c09;
mod ext_c11;
mod ext_c14;
mod ext_c04;
mod ext_c05;
mod ext_bin;
mod ext_stat;
mod enc;
mod gen;
mod interp;
mod props;
mod props2;
mod props_path;
mod props_sim;
mod props_set;
mod props_bin;
mod props_stat;
mod proto;
mod rng;

use std::collections::{BTreeMap, BTreeSet};
use std::io::{BufRead, Write};

fn run_ops(lines: &[String]) -> Vec<String> {
    let mut out = vec![];
    let mut it = interp::Interp::default();
    for line in lines {
        let toks: Vec<&str> = line.trim().split(' ').collect();
        match toks.as_slice() {
            ["case", n, ..] => {
                it = interp::Interp::default();
                out.push(format!("case {n}"));
            }
            ["end"] => {
                it = interp::Interp::default();
                out.push("end".to_string());
            }
            [""] => {}
            _ => it.exec(&toks, &mut out),
        }
    }
    out
}

fn hash_ops(ops: &[String]) -> u64 {
    let mut h: u64 = 0xcbf2_9ce4_8422_2325;
    for l in ops {
        for b in l.as_bytes() {
            h ^= u64::from(*b);
            h = h.wrapping_mul(0x0000_0100_0000_01b3);
        }
        h ^= 0xff;
        h = h.wrapping_mul(0x0000_0100_0000_01b3);
    }
    h
}

fn main() {
    // panics of the code under test are observations, not noise on stderr
    std::panic::set_hook(Box::new(|_| {}));
    let args: Vec<String> = std::env::args().collect();
    match args.get(1).map(String::as_str) {
        Some("run") => {
            let f = std::fs::File::open(&args[2]).expect("ops file");
            let lines: Vec<String> = std::io::BufReader::new(f).lines().map(|l| l.unwrap()).collect();
            let out = run_ops(&lines);
            let stdout = std::io::stdout();
            let mut w = std::io::BufWriter::new(stdout.lock());
            for l in out {
                writeln!(w, "{l}").unwrap();
            }
        }
        Some("gen") => {
            let prop = args[2].clone();
            let tier = args[3].clone();
            let seed: u64 = args[4].parse().expect("seed");
            let dir = std::path::PathBuf::from(&args[5]);
            std::fs::create_dir_all(&dir).unwrap();
            let n = props::n_cases(&prop, &tier);
            let threads = std::thread::available_parallelism().map(|x| x.get()).unwrap_or(4).min(16);
            let chunk = (n + threads - 1) / threads.max(1);
            let mut handles = vec![];
            for t in 0..threads {
                let (prop, tier) = (prop.clone(), tier.clone());
                let lo = t * chunk;
                let hi = ((t + 1) * chunk).min(n);
                let pdir = dir.clone();
                handles.push(std::thread::spawn(move || {
                    // progress file: the ops of the case that is running right now, so that a case
                    // which hangs or kills the process (stack overflow, abort) can be identified
                    let ppath = pdir.join(format!("running.{t}"));
                    let mut ops_all: Vec<String> = vec![];
                    let mut obs_all: Vec<String> = vec![];
                    let mut stats: BTreeMap<String, u64> = BTreeMap::new();
                    let mut hashes: Vec<(u64, bool)> = vec![];
                    let mut samples: Vec<Vec<String>> = vec![];
                    for i in lo..hi {
                        let mut rng = rng::Rng::fork(seed, i as u64);
                        let case = props::gen_case(&prop, &tier, &mut rng, i);
                        let mut lines = vec![format!("case {} {}", i, case.tag)];
                        lines.extend(case.ops.iter().cloned());
                        lines.push("end".to_string());
                        let _ = std::fs::write(&ppath, lines.join("\n") + "\n");
                        let obs = run_ops(&lines);
                        hashes.push((hash_ops(&case.ops), case.nontrivial));
                        for (k, v) in &case.stats {
                            *stats.entry(k.clone()).or_insert(0) += v;
                        }
                        *stats.entry(format!("tag_{}", case.tag)).or_insert(0) += 1;
                        if samples.len() < 2 && case.ops.len() < 80 {
                            samples.push(case.ops.clone());
                        }
                        ops_all.extend(lines);
                        obs_all.extend(obs);
                    }
                    let _ = std::fs::remove_file(&ppath);
                    (ops_all, obs_all, stats, hashes, samples)
                }));
            }
            let mut ops_f = std::io::BufWriter::new(std::fs::File::create(dir.join("ops.txt")).unwrap());
            let mut obs_f = std::io::BufWriter::new(std::fs::File::create(dir.join("impl.txt")).unwrap());
            let mut stats: BTreeMap<String, u64> = BTreeMap::new();
            let mut distinct: BTreeSet<u64> = BTreeSet::new();
            let mut distinct_nontrivial: BTreeSet<u64> = BTreeSet::new();
            let mut samples: Vec<Vec<String>> = vec![];
            for h in handles {
                let (ops, obs, st, hashes, smp) = h.join().expect("worker thread");
                for l in ops {
                    writeln!(ops_f, "{l}").unwrap();
                }
                for l in obs {
                    writeln!(obs_f, "{l}").unwrap();
                }
                for (k, v) in st {
                    *stats.entry(k).or_insert(0) += v;
                }
                for (hh, nt) in hashes {
                    distinct.insert(hh);
                    if nt {
                        distinct_nontrivial.insert(hh);
                    }
                }
                if samples.len() < 3 {
                    samples.extend(smp);
                }
            }
            samples.truncate(3);
            // stats.json (hand-written JSON: no serde offline dependency needed)
            let mut s = String::from("{\n");
            s.push_str(&format!("  \"cases\": {},\n  \"distinct\": {},\n  \"distinct_nontrivial\": {},\n", n, distinct.len(), distinct_nontrivial.len()));
            s.push_str("  \"distribution\": {");
            let parts: Vec<String> = stats.iter().map(|(k, v)| format!("\"{}\": {}", k, v)).collect();
            s.push_str(&parts.join(", "));
            s.push_str("},\n  \"samples\": [");
            let parts: Vec<String> = samples
                .iter()
                .map(|ops| format!("[{}]", ops.iter().map(|o| format!("\"{}\"", o.replace('\\', "\\\\").replace('"', "\\\""))).collect::<Vec<_>>().join(", ")))
                .collect();
            s.push_str(&parts.join(", "));
            s.push_str("]\n}\n");
            std::fs::write(dir.join("stats.json"), s).unwrap();
        }
        _ => {
            eprintln!("usage: hpo_harness gen <prop> <tier> <seed> <dir> | run <ops-file>");
            std::process::exit(2);
        }
    }
}
