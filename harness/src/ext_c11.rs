//! C11: distances and paths between terms.
//!
//! `dist <slot>`          all ordered pairs: distance_to_ancestor, |path_to_ancestor|, distance_to_term,
//!                        |path_to_term| (distinct terms only), `Distance` similarity -- compared with the model
//! `oracle paths <slot>`  the implementation's own answers validated by predicate against independent
//!                        BFS computations on the parent/child links (which shortest path is chosen is free)
use crate::interp::Interp;
use crate::proto::*;
use hpo::annotations::AnnotationId;
use hpo::similarity::{Distance, Similarity};
use hpo::Ontology;
use std::collections::{BTreeMap, BTreeSet, VecDeque};

pub fn exec(it: &mut Interp, toks: &[&str], out: &mut Vec<String>) -> bool {
    match toks {
        ["dist", slot] => {
            let Some(o) = slot.parse::<u32>().ok().and_then(|s| it.slots.get(&s)) else {
                out.push("noslot".to_string());
                return true;
            };
            let ids = tids(o);
            // the case's long-lived object (also used for the other ontologies of the case)
            let sim = &it.sims.dist;
            let mut stale = None;
            for a in &ids {
                let ta = o.hpo(*a).unwrap();
                for b in &ids {
                    let tb = o.hpo(*b).unwrap();
                    let da = ta.distance_to_ancestor(&tb);
                    let pa = ta.path_to_ancestor(&tb);
                    let dt = ta.distance_to_term(&tb);
                    let pt = if a == b { "=".to_string() } else { optlen(ta.path_to_term(&tb).map(|p| p.len())) };
                    out.push(format!(
                        "D {} {} da={} pa={} dt={} pt={} sim={}",
                        a,
                        b,
                        optlen(da),
                        optlen(pa.map(|p| p.len())),
                        optlen(dt),
                        pt,
                        f32bits(sim.calculate(&ta, &tb))
                    ));
                    let fresh = Distance::new().calculate(&ta, &tb);
                    if fresh.to_bits() != sim.calculate(&ta, &tb).to_bits() && stale.is_none() {
                        stale = Some(format!("Distance({a},{b}): long-lived object {} fresh object {fresh}", sim.calculate(&ta, &tb)));
                    }
                }
            }
            if let Some(e) = stale {
                out.push(format!("oracle FAIL dist: {e}"));
            }
            true
        }
        ["dist1", slot, a, b] => {
            // one ordered pair (deep ontologies, where all pairs would be too many)
            let Some(o) = slot.parse::<u32>().ok().and_then(|s| it.slots.get(&s)) else {
                out.push("noslot".to_string());
                return true;
            };
            let (Ok(a), Ok(b)) = (a.parse::<u32>(), b.parse::<u32>()) else { return false };
            let (Some(ta), Some(tb)) = (o.hpo(a), o.hpo(b)) else {
                out.push("noterm".to_string());
                return true;
            };
            let sim = Distance::new();
            let da = ta.distance_to_ancestor(&tb);
            let pa = ta.path_to_ancestor(&tb);
            let dt = ta.distance_to_term(&tb);
            let pt = if a == b { "=".to_string() } else { optlen(ta.path_to_term(&tb).map(|p| p.len())) };
            out.push(format!(
                "D {} {} da={} pa={} dt={} pt={} sim={}",
                a,
                b,
                optlen(da),
                optlen(pa.map(|p| p.len())),
                optlen(dt),
                pt,
                f32bits(sim.calculate(&ta, &tb))
            ));
            // and through the generic similarity entry points
            let s2 = ta.similarity_score(&tb, &sim);
            let s3 = hpo::similarity::Builtins::Distance(hpo::term::InformationContentKind::Gene).calculate(&ta, &tb);
            if s2.to_bits() != sim.calculate(&ta, &tb).to_bits() || s3.to_bits() != s2.to_bits() {
                out.push("oracle FAIL dist1: Distance routes disagree".to_string());
            }
            true
        }
        ["oracle", "paths", slot] => {
            let Some(o) = slot.parse::<u32>().ok().and_then(|s| it.slots.get(&s)) else {
                out.push("noslot".to_string());
                return true;
            };
            match oracle_paths(o) {
                Ok(()) => out.push("oracle ok".to_string()),
                Err(e) => out.push(format!("oracle FAIL paths: {e}")),
            }
            true
        }
        _ => crate::ext_c14::exec(it, toks, out),
    }
}

fn optlen(x: Option<usize>) -> String {
    match x {
        Some(n) => n.to_string(),
        None => "-".to_string(),
    }
}

pub fn tids(o: &Ontology) -> Vec<u32> {
    let mut v: Vec<u32> = o.hpos().map(|t| t.id().as_u32()).collect();
    v.sort_unstable();
    v
}

/// parent lists as plain data (read once through `parent_ids`)
pub fn parent_map(o: &Ontology) -> BTreeMap<u32, Vec<u32>> {
    tids(o)
        .into_iter()
        .map(|id| (id, o.hpo(id).unwrap().parent_ids().iter().map(|x| x.as_u32()).collect()))
        .collect()
}

/// independent oracle: BFS over parent links, shortest upward distance from `from` to every ancestor
pub fn up_dists(par: &BTreeMap<u32, Vec<u32>>, from: u32) -> BTreeMap<u32, usize> {
    let mut d: BTreeMap<u32, usize> = BTreeMap::new();
    let mut q = VecDeque::new();
    d.insert(from, 0);
    q.push_back(from);
    while let Some(x) = q.pop_front() {
        let dx = d[&x];
        for p in par.get(&x).map(|v| v.as_slice()).unwrap_or(&[]) {
            if !d.contains_key(p) {
                d.insert(*p, dx + 1);
                q.push_back(*p);
            }
        }
    }
    d
}

fn is_parent(par: &BTreeMap<u32, Vec<u32>>, child: u32, parent: u32) -> bool {
    par.get(&child).map_or(false, |v| v.contains(&parent))
}

fn oracle_paths(o: &Ontology) -> Result<(), String> {
    let ids = tids(o);
    let par = parent_map(o);
    let up: BTreeMap<u32, BTreeMap<u32, usize>> = ids.iter().map(|i| (*i, up_dists(&par, *i))).collect();
    let known: BTreeSet<u32> = ids.iter().copied().collect();
    for a in &ids {
        let ta = o.hpo(*a).unwrap();
        for b in &ids {
            let tb = o.hpo(*b).unwrap();
            // ---- towards an ancestor
            let want = up[a].get(b).copied();
            let da = ta.distance_to_ancestor(&tb);
            if da != want {
                return Err(format!("distance_to_ancestor({a},{b}) = {da:?}, shortest parent chain has {want:?} links"));
            }
            let pa = ta.path_to_ancestor(&tb);
            match (&pa, want) {
                (None, None) => {}
                (Some(p), Some(w)) => {
                    let p: Vec<u32> = p.iter().map(|x| x.as_u32()).collect();
                    if p.len() != w {
                        return Err(format!("path_to_ancestor({a},{b}) = {p:?} has {} links, the distance is {w}", p.len()));
                    }
                    let mut cur = *a;
                    for x in &p {
                        if !is_parent(&par, cur, *x) {
                            return Err(format!("path_to_ancestor({a},{b}) = {p:?}: {x} is not a parent of {cur}"));
                        }
                        cur = *x;
                    }
                    if cur != *b {
                        return Err(format!("path_to_ancestor({a},{b}) = {p:?} does not end in {b}"));
                    }
                }
                _ => return Err(format!("path_to_ancestor({a},{b}) = {pa:?} but the distance is {want:?}")),
            }
            // ---- between arbitrary terms: min over common ancestors (terms included) of the summed upward distances
            let mut best: Option<usize> = None;
            for (c, dac) in &up[a] {
                if let Some(dbc) = up[b].get(c) {
                    let s = dac + dbc;
                    if best.map_or(true, |x| s < x) {
                        best = Some(s);
                    }
                }
            }
            let dt = ta.distance_to_term(&tb);
            if dt != best {
                return Err(format!("distance_to_term({a},{b}) = {dt:?}, minimum over common ancestors is {best:?}"));
            }
            let dt_rev = tb.distance_to_term(&ta);
            if dt_rev != dt {
                return Err(format!("distance_to_term({a},{b}) = {dt:?} but distance_to_term({b},{a}) = {dt_rev:?}"));
            }
            let pt = ta.path_to_term(&tb);
            if pt.is_some() != best.is_some() {
                return Err(format!("path_to_term({a},{b}) = {pt:?} but distance is {best:?}"));
            }
            if a != b {
                if let (Some(p), Some(w)) = (&pt, best) {
                    let p: Vec<u32> = p.iter().map(|x| x.as_u32()).collect();
                    if p.len() != w {
                        return Err(format!("path_to_term({a},{b}) = {p:?} has {} steps, distance_to_term is {w}", p.len()));
                    }
                    let mut cur = *a;
                    for x in &p {
                        if !known.contains(x) {
                            return Err(format!("path_to_term({a},{b}) = {p:?}: {x} is not a term"));
                        }
                        if !(is_parent(&par, cur, *x) || is_parent(&par, *x, cur)) {
                            return Err(format!("path_to_term({a},{b}) = {p:?}: no parent/child link between {cur} and {x}"));
                        }
                        cur = *x;
                    }
                    if cur != *b {
                        return Err(format!("path_to_term({a},{b}) = {p:?} does not end in {b}"));
                    }
                }
            }
            // ---- Distance similarity is 1/(d+1), 0 without a common ancestor
            let s = Distance::new().calculate(&ta, &tb);
            let want_s = match best {
                Some(d) => 1.0f32 / (d as f32 + 1.0),
                None => 0.0,
            };
            if s.to_bits() != want_s.to_bits() {
                return Err(format!("Distance({a},{b}) = {s}, expected {want_s}"));
            }
        }
    }
    Ok(())
}
