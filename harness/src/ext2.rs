//! Ontology-level query ops and the harness's own oracles (independent re-computation on the
//! implementation's observations: BFS closure, inheritance, ic formula, defaults).
//! An oracle prints `oracle ok` or `oracle FAIL <what>`; the model always prints `oracle ok`.
use crate::interp::{dump, Interp};
use crate::proto::*;
use hpo::annotations::{AnnotationId, Disease, GeneId, OmimDiseaseId, OrphaDiseaseId};
use hpo::term::InformationContentKind;
use hpo::term::HpoGroup;
use hpo::{HpoSet, HpoTermId, Ontology};
use std::collections::{BTreeMap, BTreeSet};

pub fn exec(it: &mut Interp, toks: &[&str], out: &mut Vec<String>) -> bool {
    match toks {
        ["oracle", what, slot] => {
            let Some(o) = slot.parse::<u32>().ok().and_then(|s| it.slots.get(&s)) else {
                out.push("noslot".to_string());
                return true;
            };
            let r = match *what {
                "closure" => oracle_closure(o),
                "inherit" => oracle_inherit(o),
                "ic" => oracle_ic(o),
                "closed" => oracle_closed(o),
                "defaults" => oracle_defaults(o),
                _ => return crate::ext3::exec(it, toks, out),
            };
            match r {
                Ok(()) => out.push("oracle ok".to_string()),
                Err(e) => out.push(format!("oracle FAIL {what}: {e}")),
            }
            true
        }
        ["anc2", slot] => {
            let Some(o) = slot.parse::<u32>().ok().and_then(|s| it.slots.get(&s)) else {
                out.push("noslot".to_string());
                return true;
            };
            let ids = tids(o);
            let mut fails: Vec<String> = vec![];
            let mut k1 = false;
            // `HpoGroup: FromIterator<HpoTerm>` over the terms in arena order, reversed, and in a
            // zig-zag order (down, up below an earlier id, ...): always the sorted set of the ids
            {
                let arena: Vec<hpo::HpoTerm> = o.hpos().collect();
                let mut orders: Vec<Vec<hpo::HpoTerm>> = vec![arena.clone(), arena.iter().rev().copied().collect()];
                let mut sorted: Vec<hpo::HpoTerm> = arena.clone();
                sorted.sort_by_key(|t| t.id().as_u32());
                let n = sorted.len();
                let mut zig: Vec<hpo::HpoTerm> = vec![];
                for i in 0..n {
                    zig.push(if i % 2 == 0 { sorted[n - 1 - i / 2] } else { sorted[i / 2] });
                }
                orders.push(zig);
                let mut mid = sorted.clone();
                mid.rotate_left(n / 2);
                orders.push(mid);
                for (k, ord) in orders.into_iter().enumerate() {
                    let g: hpo::term::HpoGroup = ord.into_iter().collect();
                    let got: Vec<u32> = g.iter().map(|x| x.as_u32()).collect();
                    if got != ids || g.len() != ids.len() || ids.iter().any(|x| !g.contains(&hpo::HpoTermId::from(*x))) {
                        fails.push(format!("HpoGroup::from_iter(terms, order {k}) = {got:?}, expected the sorted ids"));
                    }
                }
            }
            let gs = |g: &hpo::term::HpoGroup| crate::interp::term_ids(g);
            for a in ids.iter().take(14) {
                for b in ids.iter().take(14) {
                    let (ta, tb) = (o.hpo(*a).unwrap(), o.hpo(*b).unwrap());
                    let c = ta.common_ancestor_ids(&tb);
                    let ac = ta.all_common_ancestor_ids(&tb);
                    let u = ta.union_ancestor_ids(&tb);
                    let au = ta.all_union_ancestor_ids(&tb);
                    out.push(format!("A2 {a} {b} c={} ac={} u={} au={}", gs(&c), gs(&ac), gs(&u), gs(&au)));
                    // the iterator variants yield the same ids; Combined::len / is_empty agree
                    let it_ids = |x: &hpo::term::group::Combined| -> Vec<u32> { x.iter().map(|t| t.id().as_u32()).collect() };
                    let checks = [
                        ("common_ancestors", ta.common_ancestors(&tb), &c),
                        ("all_common_ancestors", ta.all_common_ancestors(&tb), &ac),
                        ("union_ancestors", ta.union_ancestors(&tb), &u),
                        ("all_union_ancestors", ta.all_union_ancestors(&tb), &au),
                    ];
                    for (nm, comb, g) in checks.iter() {
                        let want: Vec<u32> = g.iter().map(|x| x.as_u32()).collect();
                        if it_ids(comb) != want || comb.len() != want.len() || comb.is_empty() != want.is_empty() {
                            fails.push(format!("{nm}({a},{b}) iterates {:?}, ids variant {:?}", it_ids(comb), want));
                        }
                    }
                    // documented: the all_ union variant includes the terms themselves (known finding K1)
                    let aus: BTreeSet<u32> = au.iter().map(|x| x.as_u32()).collect();
                    if !aus.contains(a) || !aus.contains(b) {
                        k1 = true;
                    }
                }
            }
            if k1 {
                out.push("known-finding K1 all_union_ancestor_ids(a, b) does not contain a and b".to_string());
            }
            match fails.first() {
                None => out.push("oracle ok".to_string()),
                Some(f) => out.push(format!("oracle FAIL anc2: {f}")),
            }
            true
        }
        ["bigarena", n, seed] => {
            // implementation-vs-oracle only: an ontology far beyond 65 535 terms (the model's
            // association list would be quadratic); every id of the id space is looked up
            let (Ok(n), Ok(seed)) = (n.parse::<u32>(), seed.parse::<u64>()) else { return false };
            match big_arena(n, seed) {
                Ok(()) => out.push("oracle ok".to_string()),
                Err(e) => out.push(format!("oracle FAIL bigarena: {e}")),
            }
            true
        }
        ["bigfan", n, seed] => {
            // implementation-vs-oracle only: a term with more than 65 535 direct parents (the count
            // fields of the file format are u32), through an independently encoded file and through
            // the crate's own bytes
            let (Ok(n), Ok(seed)) = (n.parse::<u32>(), seed.parse::<u64>()) else { return false };
            match std::panic::catch_unwind(|| big_fan(n, seed)) {
                Ok(Ok(())) => out.push("oracle ok".to_string()),
                Ok(Err(e)) => out.push(format!("oracle FAIL bigfan: {e}")),
                Err(_) => out.push("oracle FAIL bigfan: panic".to_string()),
            }
            true
        }
        ["clone", a, bb] => {
            // `Ontology::clone()`: the copy answers every query like the original
            let (Ok(a), Ok(bb)) = (a.parse::<u32>(), bb.parse::<u32>()) else { return false };
            match it.slots.get(&a).cloned() {
                Some(o) => {
                    it.slots.insert(bb, o);
                }
                None => out.push("noslot".to_string()),
            }
            true
        }
        ["same", a, bb] => {
            let (Some(oa), Some(ob)) = (
                a.parse::<u32>().ok().and_then(|s| it.slots.get(&s)),
                bb.parse::<u32>().ok().and_then(|s| it.slots.get(&s)),
            ) else {
                out.push("noslot".to_string());
                return true;
            };
            let (da, db) = (dump(oa), dump(ob));
            if da == db {
                out.push("same 1".to_string());
            } else {
                let first = da.iter().zip(db.iter()).find(|(x, y)| x != y);
                out.push("same 0".to_string());
                out.push(format!("oracle FAIL same: {:?}", first));
            }
            true
        }
        ["sweep", slot] => {
            let Some(o) = slot.parse::<u32>().ok().and_then(|s| it.slots.get(&s)) else {
                out.push("noslot".to_string());
                return true;
            };
            // every id of the HPO id space, the first ids beyond it, and a coarse walk over u32
            let mut found: Vec<u32> = vec![];
            let mut bad = 0u64;
            let mut probe = |id: u32| {
                if let Some(t) = o.hpo(id) {
                    if t.id().as_u32() != id {
                        bad += 1;
                    }
                    found.push(id);
                }
            };
            for id in 0u32..10_001_000 {
                probe(id);
            }
            let mut id: u64 = 10_001_000;
            while id <= u64::from(u32::MAX) {
                probe(id as u32);
                id += 65_521;
            }
            probe(u32::MAX);
            out.push(format!("sweep {} wrongid={}", ids(found), bad));
            true
        }
        ["iter", slot] => {
            let Some(o) = slot.parse::<u32>().ok().and_then(|s| it.slots.get(&s)) else {
                out.push("noslot".to_string());
                return true;
            };
            let v: Vec<u32> = o.iter().map(|t| t.id().as_u32()).collect();
            let v2: Vec<u32> = o.hpos().map(|t| t.id().as_u32()).collect();
            let v3: Vec<u32> = o.into_iter().map(|t| t.id().as_u32()).collect();
            let uniq: BTreeSet<u32> = v.iter().copied().collect();
            // the iterator's own bookkeeping: count / size_hint of a fresh, a partly consumed and an
            // exhausted iterator, skip / step_by adaptors
            {
                let n = v.len();
                let mut bad: Vec<String> = vec![];
                if o.iter().count() != n || o.hpos().count() != n {
                    bad.push("count of a fresh iterator".to_string());
                }
                for k in [1usize, 2, n / 2, n] {
                    let mut it = o.iter();
                    for _ in 0..k.min(n) {
                        it.next();
                    }
                    let (lo, hi) = it.size_hint();
                    let rest = n - k.min(n);
                    if lo > rest || hi.map_or(false, |h| h < rest) {
                        bad.push(format!("size_hint after {k} items"));
                    }
                    if it.count() != rest {
                        bad.push(format!("count after {k} items"));
                    }
                    if o.iter().skip(k).count() != n.saturating_sub(k) {
                        bad.push(format!("skip({k}).count()"));
                    }
                }
                let last: Option<u32> = o.iter().last().map(|t| t.id().as_u32());
                if last != v.last().copied() {
                    bad.push("last()".to_string());
                }
                if let Some(e) = bad.first() {
                    out.push(format!("oracle FAIL iter: {e} disagrees with the items yielded ({} problems)", bad.len()));
                }
            }
            out.push(format!(
                "iter len={} n={} distinct={} agree={} empty={} {}",
                o.len(),
                v.len(),
                uniq.len(),
                b(v == v2 && v == v3),
                b(o.is_empty()),
                sorted_ids(v.clone())
            ));
            true
        }
        ["hpo", slot, id] => {
            let Some(o) = slot.parse::<u32>().ok().and_then(|s| it.slots.get(&s)) else {
                out.push("noslot".to_string());
                return true;
            };
            let Ok(id) = id.parse::<u32>() else { return false };
            // `HpoTerm::try_new(ontology, id)` is the same lookup
            let via_new = hpo::HpoTerm::try_new(o, id).ok().map(|t| (t.id().as_u32(), t.name().to_string()));
            let via_hpo = o.hpo(id).map(|t| (t.id().as_u32(), t.name().to_string()));
            if via_new != via_hpo {
                out.push(format!("oracle FAIL hpo: HpoTerm::try_new({id}) = {via_new:?}, Ontology::hpo = {via_hpo:?}"));
            }
            match o.hpo(id) {
                Some(t) => out.push(format!("some {} {}", t.id().as_u32(), name(t.name()))),
                None => out.push("none".to_string()),
            }
            true
        }
        ["rec", slot, k, id] => {
            let Some(o) = slot.parse::<u32>().ok().and_then(|s| it.slots.get(&s)) else {
                out.push("noslot".to_string());
                return true;
            };
            let Ok(id) = id.parse::<u32>() else { return false };
            let r = match *k {
                "g" => o.gene(&GeneId::from(id)).map(|g| (g.id().as_u32(), g.name().to_string())),
                "o" => o.omim_disease(&OmimDiseaseId::from(id)).map(|g| (g.id().as_u32(), g.name().to_string())),
                "r" => o.orpha_disease(&OrphaDiseaseId::from(id)).map(|g| (g.id().as_u32(), g.name().to_string())),
                _ => return false,
            };
            match r {
                Some((i, n)) => out.push(format!("some {} {}", i, name(&n))),
                None => out.push("none".to_string()),
            }
            true
        }
        ["genebyname", slot, q] => {
            let Some(o) = slot.parse::<u32>().ok().and_then(|s| it.slots.get(&s)) else {
                out.push("noslot".to_string());
                return true;
            };
            let Some(q) = unname(q) else { return false };
            // which gene among equal symbols is hash-order dependent: print the symbol, not the id
            match o.gene_by_name(&q) {
                Some(g) => {
                    out.push(format!("some {}", name(g.name())));
                    if o.gene(g.id()).map(|x| x.name()) != Some(g.name()) {
                        out.push("oracle FAIL genebyname: returned gene is not a gene of the ontology".to_string());
                    }
                }
                None => out.push("none".to_string()),
            }
            true
        }
        ["omimsearch", slot, q] => {
            let Some(o) = slot.parse::<u32>().ok().and_then(|s| it.slots.get(&s)) else {
                out.push("noslot".to_string());
                return true;
            };
            let Some(q) = unname(q) else { return false };
            let all = sorted_ids(o.omim_diseases_by_name(&q).map(|d| d.id().as_u32()));
            let one = o.omim_disease_by_name(&q);
            out.push(format!("search {} first={}", all, b(one.is_some())));
            if let Some(d) = one {
                if !d.name().contains(&q) {
                    out.push("oracle FAIL omim_disease_by_name: name does not contain the query".to_string());
                }
            }
            true
        }
        _ => crate::ext3::exec(it, toks, out),
    }
}

/// build `n` terms with sparse pseudo-random ids and check every lookup, iteration and len
fn big_arena(n: u32, seed: u64) -> Result<(), String> {
    use hpo::builder::Builder;
    let mut rng = crate::rng::Rng::new(seed);
    let mut ids: BTreeSet<u32> = BTreeSet::new();
    ids.insert(1);
    ids.insert(118);
    while (ids.len() as u32) < n {
        ids.insert(rng.below(10_000_000) as u32);
    }
    let mut order: Vec<u32> = ids.iter().copied().collect();
    rng.shuffle(&mut order);
    let mut b = Builder::new();
    for id in &order {
        b.new_term(&format!("t{id}"), *id);
    }
    let mut b = b.terms_complete();
    b.add_parent(1u32, 118u32).map_err(|_| "add_parent failed".to_string())?;
    // links among terms inserted LATE (arena slots beyond 65 535): x below HP:118, y below x
    let late: Vec<u32> = order.iter().rev().filter(|x| **x != 1 && **x != 118).take(2000).copied().collect();
    let mut linked: Vec<(u32, u32)> = vec![];
    for pair in late.chunks(2) {
        if let [x, y] = pair {
            b.add_parent(118u32, *x).map_err(|_| "add_parent failed".to_string())?;
            b.add_parent(*x, *y).map_err(|_| "add_parent failed".to_string())?;
            linked.push((*x, *y));
        }
    }
    let mut b = b.connect_all_terms();
    // one gene, one OMIM and one ORPHA record (same number) directly annotated to EVERY term:
    // record term lists beyond 65 535 entries
    for id in &order {
        let t = hpo::HpoTermId::from(*id);
        b.annotate_gene(hpo::annotations::GeneId::from(7u32), "G7", t).map_err(|_| "annotate_gene failed".to_string())?;
        b.annotate_omim_disease(hpo::annotations::OmimDiseaseId::from(7u32), "O7", t).map_err(|_| "annotate_omim failed".to_string())?;
        b.annotate_orpha_disease(hpo::annotations::OrphaDiseaseId::from(7u32), "R7", t).map_err(|_| "annotate_orpha failed".to_string())?;
    }
    let o = b
        .calculate_information_content()
        .map_err(|_| "ic failed".to_string())?
        .build_with_defaults()
        .map_err(|_| "build failed".to_string())?;
    if o.len() != ids.len() {
        return Err(format!("len() = {} after adding {} distinct ids", o.len(), ids.len()));
    }
    for id in 0u32..10_000_100 {
        match o.hpo(id) {
            Some(t) => {
                if !ids.contains(&id) {
                    return Err(format!("hpo({id}) resolves although it was never added"));
                }
                if t.id().as_u32() != id || t.name() != format!("t{id}") {
                    return Err(format!("hpo({id}) returned term {} named {:?}", t.id(), t.name()));
                }
            }
            None => {
                if ids.contains(&id) {
                    return Err(format!("hpo({id}) is None although the term was added"));
                }
            }
        }
    }
    let r = std::panic::catch_unwind(std::panic::AssertUnwindSafe(|| o.iter().map(|t| t.id().as_u32()).collect::<Vec<u32>>()));
    let Ok(v) = r else { return Err("iterating the ontology panics".to_string()) };
    let set: BTreeSet<u32> = v.iter().copied().collect();
    if v.len() != ids.len() || set != ids {
        return Err(format!("iteration yields {} ids ({} distinct), expected {}", v.len(), set.len(), ids.len()));
    }
    // the records list every term; binary round trip and clone keep all of it
    let check = |o: &Ontology, what: &str| -> Result<(), String> {
        let g = o.gene(&hpo::annotations::GeneId::from(7u32)).ok_or(format!("{what}: gene 7 missing"))?;
        let d = o.omim_disease(&hpo::annotations::OmimDiseaseId::from(7u32)).ok_or(format!("{what}: OMIM 7 missing"))?;
        let r = o.orpha_disease(&hpo::annotations::OrphaDiseaseId::from(7u32)).ok_or(format!("{what}: ORPHA 7 missing"))?;
        use hpo::annotations::Disease;
        for (k, n) in [("gene", g.hpo_terms().len()), ("omim", d.hpo_terms().len()), ("orpha", r.hpo_terms().len())] {
            if n != ids.len() {
                return Err(format!("{what}: the {k} record lists {n} terms, expected {}", ids.len()));
            }
        }
        if o.len() != ids.len() {
            return Err(format!("{what}: len() = {}", o.len()));
        }
        let last = *ids.iter().next_back().unwrap();
        let t = o.hpo(last).ok_or(format!("{what}: the largest id {last} does not resolve"))?;
        if t.gene_ids().len() != 1 || t.omim_disease_ids().len() != 1 || t.orpha_disease_ids().len() != 1 {
            return Err(format!("{what}: term {last} lost an annotation"));
        }
        Ok(())
    };
    check(&o, "built")?;
    // parents, ancestors and children of the late terms
    let links = |o: &Ontology, what: &str| -> Result<(), String> {
        for (x, y) in &linked {
            let tx = o.hpo(*x).ok_or(format!("{what}: {x} missing"))?;
            let ty = o.hpo(*y).ok_or(format!("{what}: {y} missing"))?;
            let px: Vec<u32> = tx.parent_ids().iter().map(|p| p.as_u32()).collect();
            let py: Vec<u32> = ty.parent_ids().iter().map(|p| p.as_u32()).collect();
            let ay: Vec<u32> = ty.all_parent_ids().iter().map(|p| p.as_u32()).collect();
            let cx: Vec<u32> = tx.children_ids().iter().map(|p| p.as_u32()).collect();
            let mut want = vec![1u32, 118, *x];
            want.sort_unstable();
            if px != vec![118] || py != vec![*x] || ay != want || cx != vec![*y] || !ty.child_of(&tx) || !tx.parent_of(&ty) {
                return Err(format!("{what}: links of the late terms {x} <- {y}: parents {px:?} / {py:?}, ancestors {ay:?}, children {cx:?}"));
            }
        }
        let c118 = o.hpo(118u32).ok_or("118 missing")?.children_ids().len();
        if c118 != linked.len() {
            return Err(format!("{what}: HP:118 has {c118} children, expected {}", linked.len()));
        }
        Ok(())
    };
    links(&o, "built")?;
    // distances, set operations and sub-ontologies on terms in arena slots beyond 65 535
    for (x, y) in linked.iter().take(40) {
        let tx = o.hpo(*x).ok_or("late term missing")?;
        let ty = o.hpo(*y).ok_or("late term missing")?;
        let t118 = o.hpo(118u32).ok_or("118 missing")?;
        if ty.distance_to_ancestor(&tx) != Some(1) || ty.distance_to_ancestor(&t118) != Some(2) || ty.distance_to_term(&tx) != Some(1) || tx.distance_to_term(&ty) != Some(1) {
            return Err(format!("distances between the late terms {x} <- {y}"));
        }
        let set = HpoSet::new(&o, HpoGroup::from(vec![*x, *y, 118u32]));
        let leaves: Vec<u32> = set.child_nodes().iter().map(|t| t.id().as_u32()).collect();
        if leaves != vec![*y] || set.len() != 3 || set.gene_ids().len() != 1 {
            return Err(format!("HpoSet of the late terms {x}, {y}: child_nodes {leaves:?}"));
        }
        let common: Vec<u32> = tx.all_common_ancestor_ids(&ty).iter().map(|t| t.as_u32()).collect();
        let mut want = vec![1u32, 118, *x];
        want.sort_unstable();
        if common != want {
            return Err(format!("all_common_ancestor_ids of the late terms {x}, {y}: {common:?}"));
        }
    }
    if let Some((x, y)) = linked.first() {
        let sub = o
            .sub_ontology(o.hpo(118u32).ok_or("118 missing")?, vec![o.hpo(*y).ok_or("late term missing")?])
            .map_err(|e| format!("sub_ontology(118, late leaf): {e}"))?;
        let py: Vec<u32> = sub.hpo(*y).map(|t| t.parent_ids().iter().map(|p| p.as_u32()).collect()).unwrap_or_default();
        if sub.len() != 3 || py != vec![*x] {
            return Err(format!("sub_ontology(118, [{y}]) has {} terms, parents of the leaf {py:?}", sub.len()));
        }
    }
    let bytes = o.as_bytes();
    let re = Ontology::from_bytes(&bytes).map_err(|e| format!("from_bytes(as_bytes) of the big ontology: {e}"))?;
    check(&re, "reloaded")?;
    links(&re, "reloaded")?;
    // comparison of ontologies of this size: nothing differs from the reloaded one; against a second
    // big ontology (one late term renamed, one removed, one fresh term) exactly those differences
    crate::ext_c18::oracle_compare(&o, &re).map_err(|e| format!("compare(big, reloaded): {e}"))?;
    {
        let cmp = o.compare(&re);
        let n = cmp.added_hpo_terms().len() + cmp.removed_hpo_terms().len() + cmp.changed_hpo_terms().len()
            + cmp.changed_genes().len() + cmp.changed_omim_diseases().len() + cmp.changed_orpha_diseases().len();
        if n != 0 {
            return Err(format!("compare(big, reloaded) reports {n} differences"));
        }
    }
    {
        let unlinked: Vec<u32> = order.iter().rev().skip(2100).take(3).copied().filter(|x| *x != 1 && *x != 118).collect();
        if let [renamed, removed, ..] = unlinked[..] {
            let fresh = (0u32..10_000_000).rev().find(|x| !ids.contains(x)).unwrap_or(0);
            let mut b = Builder::new();
            for id in order.iter().filter(|x| **x != removed) {
                if *id == renamed {
                    b.new_term("renamed late term", *id);
                } else {
                    b.new_term(&format!("t{id}"), *id);
                }
            }
            b.new_term("fresh", fresh);
            let mut b = b.terms_complete();
            b.add_parent(1u32, 118u32).map_err(|_| "add_parent failed".to_string())?;
            for (x, y) in &linked {
                b.add_parent(118u32, *x).map_err(|_| "add_parent failed".to_string())?;
                b.add_parent(*x, *y).map_err(|_| "add_parent failed".to_string())?;
            }
            let mut b = b.connect_all_terms();
            for id in order.iter().filter(|x| **x != removed) {
                let t = hpo::HpoTermId::from(*id);
                b.annotate_gene(hpo::annotations::GeneId::from(7u32), "G7", t).map_err(|_| "annotate_gene failed".to_string())?;
                b.annotate_omim_disease(hpo::annotations::OmimDiseaseId::from(7u32), "O7", t).map_err(|_| "annotate_omim failed".to_string())?;
                b.annotate_orpha_disease(hpo::annotations::OrphaDiseaseId::from(7u32), "R7", t).map_err(|_| "annotate_orpha failed".to_string())?;
            }
            let o2 = b
                .calculate_information_content()
                .map_err(|_| "ic failed".to_string())?
                .build_with_defaults()
                .map_err(|_| "build failed".to_string())?;
            crate::ext_c18::oracle_compare(&o, &o2).map_err(|e| format!("compare(big, big'): {e}"))?;
            let cmp = o.compare(&o2);
            let a: Vec<u32> = cmp.added_hpo_terms().iter().map(|t| t.id().as_u32()).collect();
            let r: Vec<u32> = cmp.removed_hpo_terms().iter().map(|t| t.id().as_u32()).collect();
            let c: Vec<u32> = cmp.changed_hpo_terms().iter().map(|t| t.id().as_u32()).collect();
            if a != vec![fresh] || r != vec![removed] || c != vec![renamed] {
                return Err(format!("compare(big, big'): added {a:?} removed {r:?} changed {c:?}, expected [{fresh}] [{removed}] [{renamed}]"));
            }
            for d in cmp.changed_genes() {
                let rem: Vec<u32> = d.removed_terms().map(|v| v.iter().map(|t| t.as_u32()).collect()).unwrap_or_default();
                if d.added_terms().is_some() || rem != vec![removed] || d.changed_name().is_some() {
                    return Err(format!("compare(big, big'): gene delta removed {rem:?}"));
                }
            }
            if cmp.changed_genes().len() != 1 || cmp.changed_omim_diseases().len() != 1 || cmp.changed_orpha_diseases().len() != 1 {
                return Err("compare(big, big'): each of the three records lost exactly one term".to_string());
            }
        }
    }
    let cl = o.clone();
    check(&cl, "clone")?;
    let r = std::panic::catch_unwind(std::panic::AssertUnwindSafe(|| cl.iter().count()));
    if r.ok() != Some(ids.len()) {
        return Err("iterating the clone panics or yields another number of terms".to_string());
    }
    Ok(())
}

/// HP:1 <- HP:118 <- `p` terms <- Z <- W, one record of every kind on Z, W and all `p` terms
fn big_fan(p: u32, seed: u64) -> Result<(), String> {
    use crate::enc::{encode, RawFacts, RawRec, RawTerm};
    let mut rng = crate::rng::Rng::new(seed);
    let mut ids: BTreeSet<u32> = BTreeSet::new();
    while (ids.len() as u32) < p + 2 {
        let id = 2 + rng.below(9_999_990) as u32;
        if id != 118 {
            ids.insert(id);
        }
    }
    let mut all: Vec<u32> = ids.iter().copied().collect();
    // Z and W somewhere in the middle of the id range
    let z = all.remove(all.len() / 2);
    let w = all.remove(all.len() / 3);
    let mids = all; // ascending
    let mut f = RawFacts { version: (2024, 1, 1), ..Default::default() };
    for id in [1u32, 118].iter().chain(mids.iter()).chain([z, w].iter()) {
        f.terms.push(RawTerm { id: *id, name: format!("t{id}"), obsolete: false, replacement: None });
    }
    f.parents.push((118, vec![1]));
    for m in &mids {
        f.parents.push((*m, vec![118]));
    }
    f.parents.push((z, mids.clone()));
    f.parents.push((w, vec![z]));
    let mut rec_terms = mids.clone();
    rec_terms.push(z);
    rec_terms.push(w);
    rec_terms.sort_unstable();
    for k in 0..3 {
        f.recs[k].push(RawRec { id: 7, name: "R7".to_string(), terms: rec_terms.clone() });
    }
    let check = |o: &Ontology, what: &str| -> Result<(), String> {
        let tz = o.hpo(z).ok_or(format!("{what}: Z missing"))?;
        let tw = o.hpo(w).ok_or(format!("{what}: W missing"))?;
        let pz: Vec<u32> = tz.parent_ids().iter().map(|x| x.as_u32()).collect();
        if pz != mids {
            return Err(format!("{what}: Z has {} direct parents, expected {}", pz.len(), mids.len()));
        }
        let az = tz.all_parent_ids().len();
        let aw = tw.all_parent_ids().len();
        if az != mids.len() + 2 || aw != mids.len() + 3 {
            return Err(format!("{what}: Z has {az} ancestors, W {aw}; expected {} and {}", mids.len() + 2, mids.len() + 3));
        }
        let c118 = o.hpo(118u32).ok_or("118 missing")?.children_ids().len();
        if c118 != mids.len() {
            return Err(format!("{what}: HP:118 has {c118} children, expected {}", mids.len()));
        }
        if o.len() != mids.len() + 4 {
            return Err(format!("{what}: {} terms, expected {}", o.len(), mids.len() + 4));
        }
        use hpo::annotations::Disease;
        let g = o.gene(&hpo::annotations::GeneId::from(7u32)).ok_or(format!("{what}: gene 7 missing"))?;
        let d = o.omim_disease(&hpo::annotations::OmimDiseaseId::from(7u32)).ok_or(format!("{what}: OMIM 7 missing"))?;
        let r = o.orpha_disease(&hpo::annotations::OrphaDiseaseId::from(7u32)).ok_or(format!("{what}: ORPHA 7 missing"))?;
        for n in [g.hpo_terms().len(), d.hpo_terms().len(), r.hpo_terms().len()] {
            if n != rec_terms.len() {
                return Err(format!("{what}: a record lists {n} terms, expected {}", rec_terms.len()));
            }
        }
        Ok(())
    };
    let bytes = encode(&f, 3);
    let o = Ontology::from_bytes(&bytes).map_err(|e| format!("from_bytes of the independently encoded file: {e}"))?;
    check(&o, "decoded")?;
    let again = o.as_bytes();
    let re = Ontology::from_bytes(&again).map_err(|e| format!("from_bytes(as_bytes): {e}"))?;
    check(&re, "reloaded")?;
    Ok(())
}

fn tids(o: &Ontology) -> Vec<u32> {
    let mut v: Vec<u32> = o.hpos().map(|t| t.id().as_u32()).collect();
    v.sort_unstable();
    v
}

/// naive closure by BFS over `parent_ids`
pub fn bfs_closure(o: &Ontology, id: u32) -> BTreeSet<u32> {
    let mut seen = BTreeSet::new();
    let mut stack: Vec<u32> = o.hpo(id).unwrap().parent_ids().iter().map(|x| x.as_u32()).collect();
    while let Some(x) = stack.pop() {
        if seen.insert(x) {
            if let Some(t) = o.hpo(x) {
                stack.extend(t.parent_ids().iter().map(|y| y.as_u32()));
            }
        }
    }
    seen
}

fn oracle_closure(o: &Ontology) -> Result<(), String> {
    let ids = tids(o);
    for id in &ids {
        let t = o.hpo(*id).unwrap();
        let want = bfs_closure(o, *id);
        let got: Vec<u32> = t.all_parent_ids().iter().map(|x| x.as_u32()).collect();
        let got_set: BTreeSet<u32> = got.iter().copied().collect();
        if got_set != want {
            return Err(format!("ancestors of {id}: got {:?}, closure {:?}", got, want));
        }
        if got.windows(2).any(|w| w[0] >= w[1]) {
            return Err(format!("ancestors of {id} not strictly ascending: {:?}", got));
        }
        if got_set.contains(id) {
            return Err(format!("{id} is its own ancestor"));
        }
        // children are the inverse of parents
        for c in t.children_ids() {
            let ct = o.hpo(c).ok_or(format!("child {c} of {id} does not resolve"))?;
            if !ct.parent_ids().contains(&HpoTermId::from(*id)) {
                return Err(format!("{c} is a child of {id} but {id} is not its parent"));
            }
        }
        for p in t.parent_ids() {
            let pt = o.hpo(p).ok_or(format!("parent {p} of {id} does not resolve"))?;
            if !pt.children_ids().contains(&HpoTermId::from(*id)) {
                return Err(format!("{p} is a parent of {id} but {id} is not its child"));
            }
        }
        for other in &ids {
            let u = o.hpo(*other).unwrap();
            if t.child_of(&u) != want.contains(other) {
                return Err(format!("child_of({id},{other}) = {}", t.child_of(&u)));
            }
            if u.parent_of(&t) != want.contains(other) {
                return Err(format!("parent_of({other},{id}) = {}", u.parent_of(&t)));
            }
        }
    }
    Ok(())
}

fn oracle_inherit(o: &Ontology) -> Result<(), String> {
    let ids = tids(o);
    // per kind: expected[t] = records with a direct term d with d = t or t ancestor of d
    let mut expect: [BTreeMap<u32, BTreeSet<u32>>; 3] = Default::default();
    let mut direct: [Vec<(u32, Vec<u32>)>; 3] = Default::default();
    for g in o.genes() {
        direct[0].push((g.id().as_u32(), g.hpo_terms().iter().map(|x| x.as_u32()).collect()));
    }
    for g in o.omim_diseases() {
        direct[1].push((g.id().as_u32(), g.hpo_terms().iter().map(|x| x.as_u32()).collect()));
    }
    for g in o.orpha_diseases() {
        direct[2].push((g.id().as_u32(), g.hpo_terms().iter().map(|x| x.as_u32()).collect()));
    }
    for k in 0..3 {
        for (r, ds) in &direct[k] {
            for d in ds {
                if o.hpo(*d).is_none() {
                    return Err(format!("kind {k}: record {r} lists term {d} which does not resolve"));
                }
                expect[k].entry(*d).or_default().insert(*r);
                for a in bfs_closure(o, *d) {
                    expect[k].entry(a).or_default().insert(*r);
                }
            }
        }
    }
    for id in &ids {
        let t = o.hpo(*id).unwrap();
        let got: [BTreeSet<u32>; 3] = [
            t.gene_ids().iter().map(|x| x.as_u32()).collect(),
            t.omim_disease_ids().iter().map(|x| x.as_u32()).collect(),
            t.orpha_disease_ids().iter().map(|x| x.as_u32()).collect(),
        ];
        for k in 0..3 {
            let want = expect[k].get(id).cloned().unwrap_or_default();
            if got[k] != want {
                return Err(format!("kind {k} term {id}: linked {:?}, expected {:?}", got[k], want));
            }
        }
        // resolving iterators agree with the id sets
        let gi: BTreeSet<u32> = t.genes().map(|g| g.id().as_u32()).collect();
        let oi: BTreeSet<u32> = t.omim_diseases().map(|g| g.id().as_u32()).collect();
        let ri: BTreeSet<u32> = t.orpha_diseases().map(|g| g.id().as_u32()).collect();
        if gi != got[0] || oi != got[1] || ri != got[2] {
            return Err(format!("term {id}: resolving iterators disagree with id sets"));
        }
    }
    Ok(())
}

fn ic_expected(n: usize, total: usize) -> f32 {
    if n == 0 || total == 0 {
        0.0
    } else {
        -((n as f32 / total as f32).ln())
    }
}

pub fn oracle_ic(o: &Ontology) -> Result<(), String> {
    let totals = [o.genes().count(), o.omim_diseases().count(), o.orpha_diseases().count()];
    let kinds = [InformationContentKind::Gene, InformationContentKind::Omim, InformationContentKind::Orpha];
    for id in tids(o) {
        let t = o.hpo(id).unwrap();
        let ns = [t.gene_ids().len(), t.omim_disease_ids().len(), t.orpha_disease_ids().len()];
        let ic = t.information_content();
        let vals = [ic.gene(), ic.omim_disease(), ic.orpha_disease()];
        for k in 0..3 {
            let v = vals[k];
            if ic.get_kind(&kinds[k]).to_bits() != v.to_bits() {
                return Err(format!("term {id} kind {k}: get_kind differs from the accessor"));
            }
            if !v.is_finite() || v < 0.0 {
                return Err(format!("term {id} kind {k}: ic {v} negative or not finite"));
            }
            // the public setters of `InformationContent` compute the same value from the counts
            {
                let mut fresh = hpo::term::InformationContent::default();
                let r = match k {
                    0 => fresh.set_gene(totals[k], ns[k]),
                    1 => fresh.set_omim_disease(totals[k], ns[k]),
                    _ => fresh.set_orpha_disease(totals[k], ns[k]),
                };
                if r.is_ok() && fresh.get_kind(&kinds[k]).to_bits() != v.to_bits() {
                    return Err(format!("term {id} kind {k}: InformationContent::set_* gives {}, stored {v}", fresh.get_kind(&kinds[k])));
                }
            }
            let want = ic_expected(ns[k], totals[k]);
            let tol = 4.0 * f32::EPSILON * want.abs().max(1.0);
            if (v - want).abs() > tol {
                return Err(format!("term {id} kind {k}: ic {v}, expected -ln({}/{}) = {want}", ns[k], totals[k]));
            }
            // never decreases from ancestor to descendant among annotated terms
            if ns[k] > 0 {
                for a in t.all_parents() {
                    let va = a.information_content().get_kind(&kinds[k]);
                    if va > v {
                        return Err(format!("kind {k}: ic of ancestor {} ({va}) exceeds ic of {id} ({v})", a.id()));
                    }
                }
            }
        }
    }
    Ok(())
}

/// referential closure: every id handed out resolves (C15)
fn oracle_closed(o: &Ontology) -> Result<(), String> {
    for id in tids(o) {
        let t = o.hpo(id).unwrap();
        for x in t.parent_ids().iter().chain(t.children_ids().iter()).chain(t.all_parent_ids().iter()) {
            if o.hpo(x).is_none() {
                return Err(format!("term {id} refers to {x} which does not resolve"));
            }
        }
        for g in t.gene_ids() {
            if o.gene(g).is_none() {
                return Err(format!("term {id}: gene {g} does not resolve"));
            }
        }
        for g in t.omim_disease_ids() {
            if o.omim_disease(g).is_none() {
                return Err(format!("term {id}: omim {g} does not resolve"));
            }
        }
        for g in t.orpha_disease_ids() {
            if o.orpha_disease(g).is_none() {
                return Err(format!("term {id}: orpha {g} does not resolve"));
            }
        }
    }
    for g in o.genes() {
        for x in g.hpo_terms() {
            if o.hpo(x).is_none() {
                return Err(format!("gene {}: term {x} does not resolve", g.id()));
            }
        }
    }
    for g in o.omim_diseases() {
        for x in g.hpo_terms() {
            if o.hpo(x).is_none() {
                return Err(format!("omim {}: term {x} does not resolve", g.id()));
            }
        }
    }
    for g in o.orpha_diseases() {
        for x in g.hpo_terms() {
            if o.hpo(x).is_none() {
                return Err(format!("orpha {}: term {x} does not resolve", g.id()));
            }
        }
    }
    Ok(())
}

fn oracle_defaults(o: &Ontology) -> Result<(), String> {
    let root = o.hpo(1u32).ok_or("built with defaults but HP:1 missing")?;
    let ph = o.hpo(118u32).ok_or("built with defaults but HP:118 missing")?;
    let modifier: BTreeSet<u32> = root.children_ids().iter().map(|x| x.as_u32()).filter(|x| *x != 118).collect();
    let mut cats = modifier.clone();
    cats.extend(ph.children_ids().iter().map(|x| x.as_u32()));
    let got_mod: Vec<u32> = o.modifier().iter().map(|x| x.as_u32()).collect();
    let got_cat: Vec<u32> = o.categories().iter().map(|x| x.as_u32()).collect();
    if got_mod != modifier.iter().copied().collect::<Vec<u32>>() {
        return Err(format!("modifier roots {:?}, expected {:?}", got_mod, modifier));
    }
    if got_cat != cats.iter().copied().collect::<Vec<u32>>() {
        return Err(format!("categories {:?}, expected {:?}", got_cat, cats));
    }
    for id in tids(o) {
        let t = o.hpo(id).unwrap();
        let mut up = bfs_closure(o, id);
        up.insert(id);
        let want_mod = up.iter().any(|x| modifier.contains(x));
        if t.is_modifier() != want_mod {
            return Err(format!("is_modifier({id}) = {}", t.is_modifier()));
        }
        let want_cat: Vec<u32> = cats.iter().copied().filter(|c| up.contains(c)).collect();
        let got: Vec<u32> = t.categories().iter().map(|x| x.as_u32()).collect();
        if got != want_cat {
            return Err(format!("categories({id}) = {:?}, expected {:?}", got, want_cat));
        }
    }
    Ok(())
}
