//! C09 generator: fact sets rendered as JAX-style `hp.obo`, `phenotype.hpoa`,
//! `genes_to_phenotype.txt` / `phenotype_to_genes.txt`; a small malformed stream.
use crate::gen::*;
use crate::proto::*;
use crate::rng::Rng;
use std::collections::BTreeSet;

fn hp(id: u32) -> String {
    format!("HP:{id:07}")
}

fn term_name(f: &Facts, id: u32) -> String {
    f.terms.iter().find(|t| t.0 == id).map(|t| t.1.clone()).unwrap_or_default()
}

const DEFS: &[&str] = &[
    "def: \"Dryness of the mouth due to salivary gland dysfunction.\" [HPO:probinson]",
    "def: \"Ratio: more than 2 SD above the mean (objective).\" [PMID:19125428]",
    "def: \"is_a: HP:0000001 ! not a parent line\" []",
    "def: \"Höhe des Gaumens: größer als normal — 口蓋\" [HPO:skoehler]",
];
const SYNONYMS: &[&str] = &[
    "synonym: \"Dry mouth\" EXACT layperson []",
    "synonym: \"Decreased salivary flow\" BROAD layperson [ORCID:0000-0001-5889-4463]",
    "synonym: \"name: not the name\" RELATED []",
    "synonym: \"Élargissement\" EXACT []",
];
const XREFS: &[&str] = &["xref: UMLS:C0043352", "xref: SNOMEDCT_US:300268000", "xref: MSH:D014987", "xref: A:B"];
const TYPEDEFS: &[&str] = &[
    "[Typedef]\nid: has_part\nname: has part\nxref: BFO:0000051\nis_transitive: true",
    "[Typedef]\nid: part_of\nname: part of\nis_a: HP:0000001 ! All\nis_obsolete: true\nreplaced_by: HP:0000118",
    "[Typedef]\nid: HP:0000118\nname: looks like a term\nis_a: HP:0000001 ! All",
    "[Instance]\nid: HP:0000001\nname: instance stanza",
];

pub struct ObOpts {
    pub data_version: bool,
    /// the `[Term]` stanzas in the order of `f.terms` (not shuffled)
    pub keep_order: bool,
}

/// hp.obo: header block, `[Term]` stanzas (shuffled) mixed with `[Typedef]` stanzas
pub fn render_obo(rng: &mut Rng, f: &Facts, flags: &Flags, case: &mut Case, oo: &ObOpts) -> String {
    let mut header: Vec<String> = vec!["format-version: 1.2".to_string()];
    let mut rest: Vec<String> = vec![
        "subsetdef: hposlim_core \"Core clinical terminology\"".to_string(),
        "default-namespace: human_phenotype".to_string(),
        "ontology: hp".to_string(),
        "property_value: http://purl.org/dc/terms/license https://hpo.jax.org/app/license".to_string(),
    ];
    rest.truncate(rng.below(5) as usize);
    if oo.data_version {
        let v = format!("data-version: hp/releases/{:04}-{:02}-{:02}", f.version.0, f.version.1, f.version.2);
        let at = rng.below(rest.len() as u64 + 1) as usize;
        rest.insert(at, v);
    }
    header.extend(rest);
    let mut blocks: Vec<String> = vec![];
    for (id, nm) in &f.terms {
        let mut l: Vec<String> = vec!["[Term]".to_string(), format!("id: {}", hp(*id)), format!("name: {nm}")];
        if nm.contains(": ") {
            case.stat("term_names_with_colon_space", 1);
        }
        if !nm.is_ascii() {
            case.stat("term_names_non_ascii", 1);
        }
        for _ in 0..rng.below(3) {
            l.push(format!("alt_id: {}", hp(rng.range(1, 9_999_999) as u32)));
        }
        if rng.chance(1, 2) {
            l.push(rng.pick(DEFS).to_string());
        }
        if rng.chance(1, 4) {
            l.push("comment: Height and width: assessed separately. replaced_by: nothing".to_string());
        }
        if rng.chance(1, 4) {
            l.push("subset: hposlim_core".to_string());
        }
        for _ in 0..rng.below(3) {
            l.push(rng.pick(SYNONYMS).to_string());
        }
        for _ in 0..rng.below(3) {
            l.push(rng.pick(XREFS).to_string());
        }
        let mut parents: Vec<u32> = f.edges.iter().filter(|e| e.1 == *id).map(|e| e.0).collect();
        rng.shuffle(&mut parents);
        for p in parents {
            // (one link in twelve names its parent without zero padding)
            let pid = if rng.chance(1, 12) { format!("HP:{p}") } else { hp(p) };
            l.push(format!("is_a: {} ! {}", pid, term_name(f, p)));
        }
        if rng.chance(1, 10) {
            // an `is_a` row WITHOUT the ` ! name` comment is no link (the value is cut at its first
            // space; without one the row is skipped) - and the rows behind it still count
            let at = l.iter().position(|x| x.starts_with("is_a: ")).unwrap_or(l.len());
            l.insert(at, format!("is_a: {}", hp(rng.range(1, 9_999_999) as u32)));
            case.stat("bare_is_a_rows", 1);
        }
        let fl = flags.iter().find(|x| x.0 == *id);
        if let Some((_, obs, repl)) = fl {
            if *obs {
                l.push("is_obsolete: true".to_string());
                case.stat("obsolete_terms", 1);
            }
            if let Some(r) = repl {
                l.push(format!("replaced_by: {}", hp(*r)));
                case.stat("replaced_by_lines", 1);
            }
            if rng.chance(1, 3) {
                l.push(format!("consider: {}", hp(rng.range(1, 9_999_999) as u32)));
            }
        } else if rng.chance(1, 12) {
            l.push("is_obsolete: false".to_string());
            case.stat("is_obsolete_false_lines", 1);
        }
        if rng.chance(1, 4) {
            l.push("created_by: doelkens".to_string());
            l.push("creation_date: 2008-02-27T02:20:00Z".to_string());
        }
        if rng.chance(1, 5) {
            // a bare stanza: only the lines that carry facts
            l.retain(|x| {
                ["[Term]", "id: ", "name: ", "name:", "is_a: ", "is_obsolete: ", "replaced_by: "].iter().any(|p| x.starts_with(p))
            });
            case.stat("bare_stanzas", 1);
        }
        if rng.chance(1, 4) && l.len() > 3 {
            // tag order is free: all lines behind the id in a random order (is_a lines apart from
            // each other, separated by xref / synonym / def lines)
            // (half of the time the `id:` line is shuffled as well: it need not be the first tag)
            let mut tail: Vec<String> = l.split_off(if rng.chance(1, 2) { 1 } else { 2 });
            rng.shuffle(&mut tail);
            l.extend(tail);
            case.stat("stanzas_with_shuffled_lines", 1);
        } else if rng.chance(1, 4) {
            // tag order is free: the name as the LAST line of the stanza
            let nmline = l.remove(2);
            l.push(nmline);
            case.stat("stanzas_with_name_last", 1);
        }
        blocks.push(l.join("\n"));
    }
    let ntd = rng.below(3);
    for _ in 0..ntd {
        blocks.push(rng.pick(TYPEDEFS).to_string());
        case.stat("typedef_stanzas", 1);
    }
    if !oo.keep_order {
        rng.shuffle(&mut blocks);
    }
    let mut all = vec![header.join("\n")];
    all.extend(blocks);
    if !oo.keep_order && all.len() > 2 {
        if rng.chance(1, 8) {
            // the header block is recognised by its first line wherever it stands: move it
            let h = all.remove(0);
            let at = rng.range(1, all.len() as u64) as usize;
            all.insert(at, h);
            case.stat("obo_header_not_first", 1);
        } else if !oo.data_version && rng.chance(1, 3) {
            // no header block at all (there is no version to lose)
            all.remove(0);
            case.stat("obo_without_header", 1);
        }
    }
    let mut s = all.join("\n\n");
    s.push_str(if rng.chance(1, 3) { "\n\n" } else { "\n" });
    s
}

const G2P_HEADERS: &[&str] = &[
    "ncbi_gene_id\tgene_symbol\thpo_id\thpo_name\tfrequency\tdisease_id",
    "#Format: entrez-gene-id<tab>entrez-gene-symbol<tab>HPO-Term-ID<tab>HPO-Term-Name<tab>Frequency-Raw<tab>Frequency-HPO<tab>Additional Info from G-D source<tab>G-D source<tab>disease-ID for link",
];
const P2G_HEADERS: &[&str] = &[
    "hpo_id\thpo_name\tncbi_gene_id\tgene_symbol\tdisease_id",
    "#Format: HPO-id<tab>HPO label<tab>entrez-gene-id<tab>entrez-gene-symbol<tab>Additional Info from G-D source<tab>G-D source<tab>disease-ID for link",
];

fn finish(rng: &mut Rng, header: &str, mut rows: Vec<String>) -> String {
    rng.shuffle(&mut rows);
    // line ends: `\n`, or `\r\n` throughout (a file that went through a Windows tool)
    let nl = if rng.chance(1, 6) { "\r\n" } else { "\n" };
    let mut s = String::from(header).replace('\n', nl);
    s.push_str(nl);
    s.push_str(&rows.join(nl));
    if !rows.is_empty() && !rng.chance(1, 6) {
        s.push_str(nl);
    }
    s
}

pub fn gene_row(rng: &mut Rng, transitive: bool, gid: &str, sym: &str, hpo: &str, hname: &str) -> String {
    let disease = format!("{}:{}", rng.pick(&["OMIM", "ORPHA"]), rng.range(1, 999_999));
    if transitive {
        let mut cols = vec![hpo.to_string(), hname.to_string(), gid.to_string(), sym.to_string()];
        match rng.below(3) {
            0 => {}
            1 => cols.push(disease),
            _ => cols.extend(["-".to_string(), "mim2gene".to_string(), disease]),
        }
        cols.join("\t")
    } else {
        let mut cols = vec![gid.to_string(), sym.to_string(), hpo.to_string()];
        match rng.below(4) {
            0 => {}
            1 => cols.push(hname.to_string()),
            _ => cols.extend([hname.to_string(), rng.pick(&["-", "15/15", "HP:0040283", ""]).to_string(), disease]),
        }
        cols.join("\t")
    }
}

/// gene file of the chosen flavour: one header line, one row per gene-term link
pub fn render_genes(rng: &mut Rng, f: &Facts, transitive: bool, case: &mut Case) -> String {
    let header = *rng.pick(if transitive { P2G_HEADERS } else { G2P_HEADERS });
    let mut rows = vec![];
    for (g, t) in &f.links[0] {
        // (one row in twelve writes the term id without zero padding: `HP:300` is the same id)
        let tid = if rng.chance(1, 12) { format!("HP:{t}") } else { hp(*t) };
        rows.push(gene_row(rng, transitive, &g.to_string(), &rec_name(f, 0, *g), &tid, &term_name(f, *t)));
        case.stat("gene_rows", 1);
    }
    finish(rng, header, rows)
}

const HPOA_COMMENTS: &[&str] = &[
    "#description: \"HPO annotations for rare diseases [8181: OMIM; 47: DECIPHER; 4242 ORPHANET]\"",
    "#version: 2024-04-26",
    "#tracker: https://github.com/obophenotype/human-phenotype-ontology/issues",
    "#hpo-version: http://purl.obolibrary.org/obo/hp/releases/2024-04-26/hp.json",
];
const HPOA_HEADER: &str =
    "database_id\tdisease_name\tqualifier\thpo_id\treference\tevidence\tonset\tfrequency\tsex\tmodifier\taspect\tbiocuration";

pub fn hpoa_row(rng: &mut Rng, db: &str, id: &str, nm: &str, qualifier: &str, hpo: &str) -> String {
    let mut cols = vec![format!("{db}:{id}"), nm.to_string(), qualifier.to_string(), hpo.to_string()];
    let extra = [
        format!("PMID:{}", rng.range(1, 39_999_999)),
        rng.pick(&["PCS", "TAS", "IEA"]).to_string(),
        rng.pick(&["", "HP:0003577"]).to_string(),
        rng.pick(&["", "1/2", "HP:0040283", "33%", "0/12", "0/0", "0%"]).to_string(),
        rng.pick(&["", "MALE", "NOT"]).to_string(),
        String::new(),
        rng.pick(&["P", "I", "C", "M"]).to_string(),
        "HPO:probinson[2021-06-21]".to_string(),
    ];
    let n = match rng.below(4) {
        0 => 0,
        1 => rng.below(8) as usize,
        _ => 8,
    };
    cols.extend(extra.iter().take(n).cloned());
    cols.join("\t")
}

/// phenotype.hpoa: `#` comment block, column header, OMIM / ORPHA rows (one per link), `NOT` rows,
/// DECIPHER rows. Returns (text, number of ignored rows).
pub fn render_hpoa(rng: &mut Rng, f: &Facts, case: &mut Case) -> (String, u64) {
    let mut head: Vec<String> = HPOA_COMMENTS.iter().take(rng.below(5) as usize).map(|s| s.to_string()).collect();
    // the column header: current layout, the older layout (a `#` comment), or none at all
    match rng.below(6) {
        0 => case.stat("hpoa_without_header", 1),
        1 => {
            head.push(format!("#{HPOA_HEADER}"));
            case.stat("hpoa_header_as_comment", 1);
        }
        _ => head.push(HPOA_HEADER.to_string()),
    }
    let tids: Vec<u32> = f.terms.iter().map(|t| t.0).collect();
    let mut rows = vec![];
    for (k, db) in [(1usize, "OMIM"), (2usize, "ORPHA")] {
        for (d, t) in &f.links[k] {
            let tid = if rng.chance(1, 12) { format!("HP:{t}") } else { hp(*t) };
            rows.push(hpoa_row(rng, db, &d.to_string(), &rec_name(f, k, *d), "", &tid));
            case.stat(if k == 1 { "omim_rows" } else { "orpha_rows" }, 1);
        }
    }
    let mut ignored = 0u64;
    // NOT rows: for annotated diseases (also for a term the disease IS annotated to elsewhere) and
    // for diseases that occur in no other row (they must not become records)
    for _ in 0..rng.below(4) {
        let k = 1 + rng.below(2) as usize;
        let db = if k == 1 { "OMIM" } else { "ORPHA" };
        let (d, nm) = if !f.recs[k].is_empty() && rng.chance(2, 3) {
            let r = rng.pick(&f.recs[k]);
            (r.0, r.1.clone())
        } else {
            (rng.range(31, 99_999) as u32, "Only excluded".to_string())
        };
        let t = *rng.pick(&tids);
        rows.push(hpoa_row(rng, db, &d.to_string(), &nm, "NOT", &hp(t)));
        case.stat("not_rows", 1);
        ignored += 1;
    }
    for _ in 0..rng.below(3) {
        let t = if rng.chance(1, 2) { *rng.pick(&tids) } else { rng.range(1, 9_999_999) as u32 };
        let q = if rng.chance(1, 5) { "NOT" } else { "" };
        let did = rng.range(1, 99).to_string();
        rows.push(hpoa_row(rng, "DECIPHER", &did, "Deletion syndrome: 1p36", q, &hp(t)));
        case.stat("decipher_rows", 1);
        ignored += 1;
    }
    let text = if rng.chance(1, 3) {
        // rows grouped by disease NUMBER and term (an OMIM and an ORPHA entry with the same number
        // end up next to each other), not shuffled
        let key = |r: &String| -> (String, String) {
            let cols: Vec<&str> = r.split('\t').collect();
            (cols[0].split(':').nth(1).unwrap_or("").to_string(), cols.get(3).unwrap_or(&"").to_string())
        };
        rows.sort_by_key(key);
        case.stat("hpoa_rows_grouped_by_number", 1);
        let mut s = head.join("\n");
        s.push('\n');
        s.push_str(&rows.join("\n"));
        s.push('\n');
        s
    } else {
        finish(rng, &head.join("\n"), rows)
    };
    (text, ignored)
}

/// facts the text formats can express: every record has at least one link; no replacement id 0
/// on the binary path (known finding K3 of C07)
pub fn normalise(f: &mut Facts, flags: &mut Flags) {
    for k in 0..3 {
        let linked: BTreeSet<u32> = f.links[k].iter().map(|l| l.0).collect();
        f.recs[k].retain(|r| linked.contains(&r.0));
    }
    for fl in flags.iter_mut() {
        if fl.2 == Some(0) {
            fl.2 = None;
        }
    }
}

pub fn c09(rng: &mut Rng, _tier: &str, idx: usize) -> Case {
    if idx == 5 || idx == 6 {
        // more than 65 535 `[Term]` stanzas through either loader (implementation against the
        // harness oracle only): every term of the file is there with its name and links, rows on
        // terms late in the file land on those terms
        let mut c = Case::new("big-obo");
        c.op(format!("bigobo 70000 {} {}", rng.next(), if idx == 5 { "std" } else { "transitive" }));
        c.stat("big_obo_files", 1);
        c.nontrivial = true;
        return c;
    }
    if idx % 8 == 7 {
        return malformed(rng);
    }
    let transitive = rng.chance(1, 2);
    let mut c = Case::new(if transitive { "jax-transitive" } else { "jax-std" });
    let max_terms = *rng.pick(&[4usize, 8, 15, 25, 40]);
    let (mut f, shape) = gen_facts(rng, &DagOpts { max_terms, with_roots: true, max_recs: 6 });
    c.stat(&format!("shape_{shape:?}"), 1);
    let mut flags: Flags = if rng.chance(1, 2) { gen_flags(rng, &mut f) } else { vec![] };
    let deep = idx % 30 == 13;
    if deep {
        // an is_a chain of depth 40..110 whose stanzas come deepest first (recursion depth of the
        // ancestor caches and of the upward links)
        let n = rng.range(40, 110) as usize;
        f = gen_deep_chain_rooted(rng, n);
        f.terms.reverse();
        flags = vec![];
        c.stat("deep_chain_files", 1);
    }
    if rng.chance(1, 3) && !f.links[1].is_empty() {
        // an ORPHA disease with the NUMBER of an OMIM disease, on the same term
        let (d, t) = *rng.pick(&f.links[1]);
        if !f.recs[2].iter().any(|r| r.0 == d) {
            f.recs[2].push((d, gen_name(rng)));
        }
        if !f.links[2].contains(&(d, t)) {
            f.links[2].push((d, t));
        }
        c.stat("same_number_omim_orpha_same_term", 1);
    }
    normalise(&mut f, &mut flags);
    let data_version = !rng.chance(1, 10);
    // the text route carries the version as YYYY-MM-DD
    f.version = (f.version.0 % 10000, f.version.1 % 100, f.version.2 % 100);
    if !data_version {
        f.version = (0, 0, 0);
        c.stat("no_data_version_line", 1);
    }
    facts_stats(&f, &mut c);
    let obo = render_obo(rng, &f, &flags, &mut c, &ObOpts { data_version, keep_order: deep });
    let genes = render_genes(rng, &f, transitive, &mut c);
    let (hpoa, ignored) = render_hpoa(rng, &f, &mut c);
    c.stat("bytes_obo", obo.len() as u64);
    c.op(format!("jax 0 {} {} {} {}", if transitive { "transitive" } else { "std" }, name(&obo), name(&genes), name(&hpoa)));
    c.op("dump 0".to_string());
    // the same facts through the Builder API (it cannot set obsolete / replacement) ...
    if flags.is_empty() {
        facts_to_prog(rng, &f, &ProgOpts { shuffle: true, failing_permille: 0, build_defaults: true, slot: 1 }, &mut c);
        c.op("same 0 1".to_string());
        c.stat("three_way_comparisons", 1);
    }
    // ... and through the binary format v3
    facts_to_fops(rng, &f, &flags, 3, 2, true, &mut c);
    c.op("same 0 2".to_string());
    let nd = f.links[1].len() + f.links[2].len();
    c.nontrivial = !f.links[0].is_empty() && nd > 0 && (ignored > 0 || c.stats.contains_key("typedef_stanzas"));
    c
}

// ---------------------------------------------------------------- malformed stream

fn malformed(rng: &mut Rng) -> Case {
    let transitive = rng.chance(1, 2);
    let mut c = Case::new("malformed");
    let (mut f, _) = gen_facts(rng, &DagOpts { max_terms: 8, with_roots: true, max_recs: 4 });
    let mut flags: Flags = vec![];
    normalise(&mut f, &mut flags);
    let mut scratch = Case::new("");
    let mut obo = render_obo(rng, &f, &flags, &mut scratch, &ObOpts { data_version: true, keep_order: false });
    let mut genes = render_genes(rng, &f, transitive, &mut scratch);
    let (mut hpoa, _) = render_hpoa(rng, &f, &mut scratch);
    let present: BTreeSet<u32> = f.terms.iter().map(|t| t.0).collect();
    let unknown = loop {
        let id = if rng.chance(1, 4) { rng.range(10_000_000, 4_294_967_295) as u32 } else { rng.range(2, 9_999_999) as u32 };
        if !present.contains(&id) {
            break id;
        }
    };
    let known = f.terms[rng.below(f.terms.len() as u64) as usize].0;
    // insert a line after the header line(s) of a row file, at a random row position
    let insert_row = |rng: &mut Rng, text: &mut String, row: &str, min_line: usize| {
        let had_nl = text.ends_with('\n');
        let mut lines: Vec<String> = text.trim_end_matches('\n').split('\n').map(|s| s.to_string()).collect();
        let at = rng.range(min_line.min(lines.len()) as u64, lines.len() as u64) as usize;
        lines.insert(at, row.to_string());
        *text = lines.join("\n");
        if had_nl {
            text.push('\n');
        }
    };
    let hpoa_min = hpoa.split('\n').position(|l| l.starts_with("database_id")).map(|p| p + 1).unwrap_or(1);
    let kind = rng.below(16);
    let what = match kind {
        0 => {
            let row = gene_row(rng, transitive, "77", "GENE", &hp(unknown), "unknown term");
            insert_row(rng, &mut genes, &row, 1);
            "gene_row_unknown_hpo"
        }
        1 => {
            let db = *rng.pick(&["OMIM", "ORPHA"]);
            let row = hpoa_row(rng, db, "77", "Disease", "", &hp(unknown));
            insert_row(rng, &mut hpoa, &row, hpoa_min);
            "disease_row_unknown_hpo"
        }
        2 => {
            let bad = *rng.pick(&["12a", "", "-5", "4294967296", "1.5", "x"]);
            let row = gene_row(rng, transitive, bad, "GENE", &hp(known), "n");
            insert_row(rng, &mut genes, &row, 1);
            "gene_row_bad_gene_id"
        }
        3 => {
            let bad = *rng.pick(&["HP:00001x", "HP:", "HP", "", "HP:-1", "HP:4294967296", "HPé0000001"]);
            let row = gene_row(rng, transitive, "5", "GENE", bad, "n");
            insert_row(rng, &mut genes, &row, 1);
            "gene_row_bad_hpo_id"
        }
        4 => {
            let db = *rng.pick(&["OMIM", "ORPHA"]);
            let bad = *rng.pick(&["12a", "", "-5", "4294967296", "1:2"]);
            let row = hpoa_row(rng, db, bad, "Disease", "", &hp(known));
            insert_row(rng, &mut hpoa, &row, hpoa_min);
            "disease_row_bad_disease_id"
        }
        5 => {
            let db = *rng.pick(&["OMIM", "ORPHA"]);
            let bad = *rng.pick(&["HP:00001x", "HP:", "H55", "", "HP:-1"]);
            let row = hpoa_row(rng, db, "5", "Disease", "", bad);
            insert_row(rng, &mut hpoa, &row, hpoa_min);
            "disease_row_bad_hpo_id"
        }
        6 => {
            let row = if transitive {
                *rng.pick(&["HP:0000001\tAll\t5", "HP:0000001\tAll", "HP:0000001", ""])
            } else {
                *rng.pick(&["5\tGENE", "5", ""])
            };
            insert_row(rng, &mut genes, row, 1);
            "gene_row_missing_columns"
        }
        7 => {
            let row = *rng.pick(&["OMIM:5\tDisease\t", "OMIM:5\tDisease", "ORPHA:5", "OMIM_5\tDisease\t\tHP:0000001", "OMIM:5 Disease  HP:0000001"]);
            insert_row(rng, &mut hpoa, row, hpoa_min);
            "disease_row_missing_columns"
        }
        8 => {
            // no header line: the first row is not a header
            let body: Vec<&str> = genes.split('\n').skip(1).collect();
            genes = body.join("\n");
            "gene_file_without_header"
        }
        9 => {
            // a line without ": " inside a [Term] stanza
            obo = obo.replacen("\nname: ", "\nnote without separator\nname: ", 1);
            "obo_line_without_separator"
        }
        10 => {
            let bad = *rng.pick(&["HP:00001x", "HP:", "XX"]);
            obo = obo.replacen("[Term]\nid: HP:", &format!("[Term]\nid: {bad}\nalt_id: HP:"), 1);
            "obo_bad_term_id"
        }
        11 => {
            let line = *rng.pick(&["is_a: HP:00001x ! bad", "replaced_by: HP:abc", "replaced_by: none"]);
            obo = obo.replacen("\nname: ", &format!("\n{line}\nname: "), 1);
            "obo_bad_reference_id"
        }
        12 => {
            // NOT rows are not looked at beyond the qualifier: unknown term / bad ids are fine
            let db = *rng.pick(&["OMIM", "ORPHA"]);
            let row = match rng.below(3) {
                0 => hpoa_row(rng, db, "77", "Disease", "NOT", &hp(unknown)),
                1 => hpoa_row(rng, db, "7x", "Disease", "NOT", &hp(known)),
                _ => hpoa_row(rng, db, "77", "Disease", "NOT", "HP:zz"),
            };
            insert_row(rng, &mut hpoa, &row, hpoa_min);
            "not_row_with_bad_content"
        }
        13 => {
            // a [Term] stanza without a name line is skipped; rows naming it make the load fail
            let id = unknown % 10_000_000;
            obo = obo.replacen("\n\n[Term]\n", &format!("\n\n[Term]\nid: {}\nxref: A:B\n\n[Term]\n", hp(id)), 1);
            if rng.chance(1, 2) && !present.contains(&id) {
                let row = gene_row(rng, transitive, "77", "GENE", &hp(id), "n");
                insert_row(rng, &mut genes, &row, 1);
            }
            "obo_stanza_without_name"
        }
        14 => {
            // term id beyond the id table of the arena
            let id = rng.range(10_000_000, 4_294_967_295) as u32;
            obo = obo.replacen("\n\n[Term]\n", &format!("\n\n[Term]\nid: HP:{id}\nname: beyond the table\n\n[Term]\n"), 1);
            "obo_term_id_beyond_table"
        }
        _ => {
            // the roots needed by build_with_defaults are missing
            let which = *rng.pick(&[1u32, 118]);
            f.terms.retain(|t| t.0 != which);
            f.edges.retain(|e| e.0 != which && e.1 != which);
            for k in 0..3 {
                f.links[k].retain(|l| l.1 != which);
            }
            normalise(&mut f, &mut flags);
            obo = render_obo(rng, &f, &flags, &mut scratch, &ObOpts { data_version: true, keep_order: false });
            genes = render_genes(rng, &f, transitive, &mut scratch);
            hpoa = render_hpoa(rng, &f, &mut scratch).0;
            "missing_root_term"
        }
    };
    c.stat(&format!("malformed_{what}"), 1);
    c.op(format!("jaxm 0 {} {} {} {}", if transitive { "transitive" } else { "std" }, name(&obo), name(&genes), name(&hpoa)));
    c.nontrivial = false;
    c
}


/// C16, text route: the same facts rendered `k` times (stanza order, row order, tag order, ignored
/// columns and stanzas all drawn afresh) - every rendering loads to the same ontology
pub fn text_orders(rng: &mut Rng, k: u32) -> Case {
    let transitive = rng.chance(1, 2);
    let mut c = Case::new("text-record-order");
    let max_terms = *rng.pick(&[4usize, 8, 15, 25]);
    let (mut f, _) = gen_facts(rng, &DagOpts { max_terms, with_roots: true, max_recs: 5 });
    let mut flags: Flags = if rng.chance(1, 2) { gen_flags(rng, &mut f) } else { vec![] };
    normalise(&mut f, &mut flags);
    f.version = (f.version.0 % 10000, f.version.1 % 100, f.version.2 % 100);
    facts_stats(&f, &mut c);
    for s in 0..k {
        let obo = render_obo(rng, &f, &flags, &mut c, &ObOpts { data_version: true, keep_order: false });
        let genes = render_genes(rng, &f, transitive, &mut c);
        let (hpoa, _) = render_hpoa(rng, &f, &mut c);
        c.op(format!("jax {s} {} {} {} {}", if transitive { "transitive" } else { "std" }, name(&obo), name(&genes), name(&hpoa)));
        if s > 0 {
            c.op(format!("same 0 {s}"));
        }
    }
    c.op("dump 0".to_string());
    c.stat("text_renderings", u64::from(k));
    c.nontrivial = f.terms.len() >= 3;
    c
}
