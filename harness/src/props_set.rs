//! Generators for C13 (HpoSet) and C18 (ontology comparison).
use crate::gen::*;
use crate::proto::*;
use crate::rng::Rng;
use std::collections::{BTreeMap, BTreeSet};

pub fn n_cases(prop: &str, tier: &str) -> usize {
    let quick = tier == "quick";
    match prop {
        "C13" => if quick { 600 } else { 5000 },
        "C18" => if quick { 1000 } else { 20_000 },
        _ => 0,
    }
}

/// ancestors per term from the edge list
fn ancestors(f: &Facts) -> BTreeMap<u32, BTreeSet<u32>> {
    let mut parents: BTreeMap<u32, Vec<u32>> = BTreeMap::new();
    for (p, c) in &f.edges {
        parents.entry(*c).or_default().push(*p);
    }
    let mut out = BTreeMap::new();
    for (id, _) in &f.terms {
        let mut seen = BTreeSet::new();
        let mut stack: Vec<u32> = parents.get(id).cloned().unwrap_or_default();
        while let Some(x) = stack.pop() {
            if seen.insert(x) {
                stack.extend(parents.get(&x).cloned().unwrap_or_default());
            }
        }
        out.insert(*id, seen);
    }
    out
}

/// more top-level branches: extra children of HP:1 (modifier roots) and of HP:118 (categories)
fn add_branches(rng: &mut Rng, f: &mut Facts) {
    let others: Vec<u32> = f.terms.iter().map(|t| t.0).filter(|x| *x != 1 && *x != 118).collect();
    for o in &others {
        if rng.chance(1, 5) {
            f.edges.push((1, *o));
        }
        if rng.chance(1, 3) {
            f.edges.push((118, *o));
        }
    }
    f.edges.sort_unstable();
    f.edges.dedup();
}

const QUERIES: &str = "show,iter,get,gene_ids,omim_ids,orpha_ids,categories,ic";
const TRANSFORMS: [&str; 7] = [
    "child_nodes",
    "without_modifier",
    "remove_modifier",
    "without_obsolete",
    "remove_obsolete",
    "with_replaced_obsolete",
    "replace_obsolete",
];

pub fn c13(rng: &mut Rng, tier: &str, idx: usize) -> Case {
    if idx == 3 {
        // more than 65 535 terms (implementation against the harness oracle only): lookups, links,
        // distances, set operations, common ancestors, sub-ontology and comparison on terms in arena
        // slots beyond 65 535
        let mut c = Case::new("big-arena");
        c.op(format!("bigarena 70000 {}", rng.next()));
        c.stat("big_arena_terms", 70000);
        c.nontrivial = true;
        return c;
    }
    let mut c = Case::new("hposet");
    let max_terms = *rng.pick(&[3usize, 4, 6, 10, 20, 35]);
    let (mut f, shape) = gen_facts(rng, &DagOpts { max_terms, with_roots: true, max_recs: 6 });
    c.stat(&format!("shape_{shape:?}"), 1);
    add_branches(rng, &mut f);
    let mut flags = gen_flags(rng, &mut f);
    // more obsolete/replaced terms than the default sprinkling, with colliding and dangling targets
    let ids_all: Vec<u32> = f.terms.iter().map(|t| t.0).collect();
    for id in &ids_all {
        if *id != 1 && *id != 118 && !flags.iter().any(|x| x.0 == *id) && rng.chance(1, 6) {
            let repl = match rng.below(6) {
                0 => None,
                1 => Some(rng.range(1, 9_999_999) as u32),
                _ => Some(*rng.pick(&ids_all)),
            };
            flags.push((*id, rng.chance(2, 3), repl));
        }
    }
    let fv = if rng.chance(1, 10) { 2 } else { 3 };
    facts_to_fops(rng, &f, &flags, fv, 0, true, &mut c);
    facts_stats(&f, &mut c);
    c.op("dump 0".to_string());
    let ids_all: Vec<u32> = f.terms.iter().map(|t| t.0).collect();
    let present: BTreeSet<u32> = ids_all.iter().copied().collect();
    let anc = ancestors(&f);
    let obsolete: Vec<u32> = flags.iter().filter(|x| x.1).map(|x| x.0).collect();
    let replaced: Vec<(u32, u32)> = flags.iter().filter_map(|x| x.2.filter(|r| *r != 0).map(|r| (x.0, r))).collect();
    let dangling = replaced.iter().filter(|(_, r)| !present.contains(r)).count() as u64;
    let modifier_roots: BTreeSet<u32> = f.edges.iter().filter(|e| e.0 == 1 && e.1 != 118).map(|e| e.1).collect();
    c.stat("obsolete_terms", obsolete.len() as u64);
    c.stat("replaced_terms", replaced.len() as u64);
    c.stat("replacements_not_resolving", dangling);
    c.stat("modifier_roots", modifier_roots.len() as u64);

    // the subsets
    let mut sets: Vec<Vec<u32>> = vec![];
    let n = ids_all.len();
    if n <= 5 {
        for mask in 0u32..(1u32 << n) {
            sets.push((0..n).filter(|i| mask >> i & 1 == 1).map(|i| ids_all[i]).collect());
        }
        c.stat("exhaustive_subsets", 1);
    } else {
        let k = if tier == "quick" { 20 } else { 50 };
        sets.push(vec![]);
        sets.push(ids_all.clone());
        sets.push(vec![*rng.pick(&ids_all)]);
        if !obsolete.is_empty() {
            sets.push(obsolete.clone());
        }
        while sets.len() < k {
            let mut s: Vec<u32> = vec![];
            match rng.below(6) {
                0 => {
                    // a term together with all its ancestors (+ some noise)
                    let x = *rng.pick(&ids_all);
                    s.push(x);
                    s.extend(anc[&x].iter().copied());
                }
                1 => {
                    // replaced terms together with their replacement (collision) and a few others
                    for (x, r) in &replaced {
                        if rng.chance(2, 3) {
                            s.push(*x);
                            if present.contains(r) && rng.chance(1, 2) {
                                s.push(*r);
                            }
                        }
                    }
                }
                2 => {
                    // below and above modifier roots
                    for x in &ids_all {
                        if (modifier_roots.contains(x) || anc[x].iter().any(|a| modifier_roots.contains(a))) && rng.chance(2, 3) {
                            s.push(*x);
                        }
                    }
                    s.push(*rng.pick(&ids_all));
                }
                _ => {}
            }
            let p = *rng.pick(&[1u64, 3, 5, 8]);
            for x in &ids_all {
                if rng.chance(p, 10) {
                    s.push(*x);
                }
            }
            if rng.chance(1, 3) {
                rng.shuffle(&mut s); // constructor input in any order, with duplicates
            }
            sets.push(s);
        }
    }
    let mut with_anc = 0u64;
    let mut collisions = 0u64;
    let mut nonresolving_sets = 0u64;
    for s in &sets {
        let ss: BTreeSet<u32> = s.iter().copied().collect();
        if ss.iter().any(|x| anc[x].iter().any(|a| ss.contains(a))) {
            with_anc += 1;
        }
        if replaced.iter().any(|(x, r)| ss.contains(x) && ss.contains(r) && x != r) {
            collisions += 1;
        }
        if replaced.iter().any(|(x, r)| ss.contains(x) && !present.contains(r)) {
            nonresolving_sets += 1;
        }
        let l = ids(s.clone());
        c.op(format!("setq 0 {l} {QUERIES}"));
        for t in TRANSFORMS {
            // the transformed set, then every resolving / aggregating view of it
            c.op(format!("setq 0 {l} {t},iter,get,gene_ids,categories,ic"));
            // every aggregating view BEFORE and after the transformation, on the same object
            c.op(format!("setq 0 {l} ic,gene_ids,omim_ids,orpha_ids,categories,{t},ic,gene_ids,omim_ids,orpha_ids,categories,show"));
        }
        if rng.chance(1, 3) {
            let k = rng.range(2, 5);
            let prog: Vec<&str> = (0..k).map(|_| *rng.pick(&TRANSFORMS)).collect();
            c.op(format!("setq 0 {l} {},show", prog.join(",")));
            c.stat("chained_programs", 1);
        }
        c.op(format!("oracle set 0 {l}"));
    }
    // the modifier roots of the ontology change between queries on the same ontology object
    if rng.chance(1, 3) && !sets.is_empty() {
        for v in ["-".to_string(), "def".to_string(), ids(ids_all.iter().copied().filter(|x| *x != 1 && *x != 118 && rng.chance(1, 4)))] {
            c.op(format!("setmod 0 {v}"));
            for _ in 0..2 {
                let l = ids(rng.pick(&sets).clone());
                c.op(format!("setq 0 {l} without_modifier,show,remove_modifier,show,categories"));
                c.op(format!("oracle set 0 {l}"));
            }
            c.stat("modifier_roots_changed_between_queries", 1);
        }
    }
    // the CATEGORIES of the ontology are customised and then set back to the defaults between
    // queries on the same ontology object
    if rng.chance(1, 3) && !sets.is_empty() {
        for v in [ids(ids_all.iter().copied().filter(|x| *x != 1 && *x != 118 && rng.chance(1, 3))), "def".to_string(), "-".to_string(), "def".to_string()] {
            c.op(format!("setcat 0 {v}"));
            let l = ids(rng.pick(&sets).clone());
            c.op(format!("setq 0 {l} categories,show"));
            c.op(format!("oracle set 0 {l}"));
            c.stat("categories_changed_between_queries", 1);
        }
    }
    // a few sets with a member that is not a term: every operation that looks it up panics
    if rng.chance(1, 4) {
        let mut s: Vec<u32> = ids_all.iter().copied().filter(|_| rng.chance(1, 3)).collect();
        let absent = gen_ids(rng, 1, &ids_all)[0];
        s.push(absent);
        let l = ids(s);
        c.op(format!("setq 0 {l} show"));
        for q in ["iter", "get", "gene_ids", "omim_ids", "orpha_ids", "categories", "ic"] {
            c.op(format!("setq 0 {l} {q}"));
        }
        for t in TRANSFORMS {
            c.op(format!("setq 0 {l} {t}"));
        }
        c.stat("sets_with_unknown_member", 1);
    }
    c.stat("subsets", sets.len() as u64);
    c.stat("subsets_with_ancestor_and_descendant", with_anc);
    c.stat("subsets_with_replacement_collision", collisions);
    c.stat("subsets_with_non_resolving_replacement", nonresolving_sets);
    c.nontrivial = with_anc > 0 && (!obsolete.is_empty() || !replaced.is_empty());
    c
}

// ---------------------------------------------------------------- C18

const EDIT_KINDS: [&str; 18] = [
    "none",
    "rename_term",
    "add_parent",
    "remove_parent",
    "flip_obsolete",
    "change_replacement",
    "add_link",
    "remove_link",
    "add_record",
    "remove_record",
    "rename_record",
    "add_term",
    "remove_term",
    "version",
    "move_parent",
    "exchange_record",
    "several",
    "many",
    // "dangling_parent" (a parent id that is not a term) was generated here at first: such an
    // ontology is outside C18's quantifier (C15: ontologies are referentially closed) and whether the
    // comparison panics on it is not pinned by the property; a harmless refactoring (reading
    // `parent_ids()` instead of the resolving `parents()` iterator) raised a false alarm, so the
    // edit kind is no longer generated.
];

fn flag_of(flags: &mut Flags, id: u32) -> &mut (u32, bool, Option<u32>) {
    if let Some(i) = flags.iter().position(|x| x.0 == id) {
        &mut flags[i]
    } else {
        flags.push((id, false, None));
        flags.last_mut().unwrap()
    }
}

/// one edit of the given kind; returns whether something was changed
fn edit(rng: &mut Rng, f: &mut Facts, flags: &mut Flags, kind: &str) -> bool {
    let ids_all: Vec<u32> = f.terms.iter().map(|t| t.0).collect();
    let editable: Vec<u32> = ids_all.iter().copied().filter(|x| *x != 1 && *x != 118).collect();
    match kind {
        "rename_term" => {
            let i = rng.below(f.terms.len() as u64) as usize;
            let new = match rng.below(6) {
                0 => String::new(),
                1 => format!("{} ", f.terms[i].1),
                // the prefix hp.obo gives to retired terms, gained or lost: a rename like any other
                2 => format!("obsolete {}", f.terms[i].1),
                3 if f.terms[i].1.starts_with("obsolete ") => f.terms[i].1["obsolete ".len()..].to_string(),
                _ => format!("renamed {}", rng.below(100)),
            };
            let ch = new != f.terms[i].1;
            f.terms[i].1 = new;
            ch
        }
        "add_parent" => {
            if editable.is_empty() {
                return false;
            }
            let anc = ancestors(f);
            for _ in 0..20 {
                let ch = *rng.pick(&editable);
                let p = *rng.pick(&ids_all);
                // keep it a DAG: the new parent must not be the child or one of its descendants
                if p != ch && !anc[&p].contains(&ch) && !f.edges.contains(&(p, ch)) {
                    f.edges.push((p, ch));
                    return true;
                }
            }
            false
        }
        "move_parent" => {
            // one parent link replaced by another: the NUMBER of direct parents stays the same
            let anc = ancestors(f);
            for _ in 0..30 {
                let cand: Vec<usize> = (0..f.edges.len()).filter(|i| f.edges[*i] != (1, 118)).collect();
                if cand.is_empty() {
                    return false;
                }
                let i = *rng.pick(&cand);
                let (old_p, ch) = f.edges[i];
                let p = *rng.pick(&ids_all);
                if p != ch && p != old_p && !anc[&p].contains(&ch) && !f.edges.contains(&(p, ch)) {
                    f.edges[i] = (p, ch);
                    return true;
                }
            }
            false
        }
        "remove_parent" => {
            let cand: Vec<usize> = (0..f.edges.len()).filter(|i| f.edges[*i] != (1, 118)).collect();
            if cand.is_empty() {
                return false;
            }
            let i = *rng.pick(&cand);
            f.edges.remove(i);
            true
        }
        "flip_obsolete" => {
            if editable.is_empty() {
                return false;
            }
            let id = *rng.pick(&editable);
            let fl = flag_of(flags, id);
            fl.1 = !fl.1;
            true
        }
        "change_replacement" => {
            if editable.is_empty() {
                return false;
            }
            let id = *rng.pick(&editable);
            let old = flag_of(flags, id).2;
            let new = match rng.below(5) {
                0 => None,
                1 => Some(rng.range(2, 9_999_999) as u32), // most likely not a term
                _ => Some(*rng.pick(&ids_all)),
            };
            let new = new.filter(|x| *x != 0);
            flag_of(flags, id).2 = new;
            old.filter(|x| *x != 0) != new
        }
        "add_link" => {
            let k = rng.below(3) as usize;
            if f.recs[k].is_empty() {
                return false;
            }
            let r = rng.pick(&f.recs[k]).0;
            let t = *rng.pick(&ids_all);
            if f.links[k].contains(&(r, t)) {
                return false;
            }
            f.links[k].push((r, t));
            true
        }
        "remove_link" => {
            let k = rng.below(3) as usize;
            if f.links[k].is_empty() {
                return false;
            }
            let l = *rng.pick(&f.links[k]);
            f.links[k].retain(|x| *x != l);
            true
        }
        "add_record" => {
            let k = rng.below(3) as usize;
            let id = rng.range(31, 90) as u32;
            if f.recs[k].iter().any(|r| r.0 == id) {
                return false;
            }
            f.recs[k].push((id, gen_name(rng)));
            for _ in 0..rng.below(3) {
                f.links[k].push((id, *rng.pick(&ids_all)));
            }
            true
        }
        "exchange_record" => {
            // one record of a kind replaced by another one: the number of records of every kind
            // stays the same (an addition AND a removal of the same kind, nothing else)
            let ks: Vec<usize> = (0..3).filter(|k| !f.recs[*k].is_empty()).collect();
            if ks.is_empty() {
                return false;
            }
            let k = *rng.pick(&ks);
            let old = rng.pick(&f.recs[k]).0;
            let new = (31..200u32).find(|x| !f.recs[k].iter().any(|r| r.0 == *x)).unwrap_or(999);
            let terms: Vec<u32> = f.links[k].iter().filter(|l| l.0 == old).map(|l| l.1).collect();
            f.recs[k].retain(|x| x.0 != old);
            f.links[k].retain(|x| x.0 != old);
            f.recs[k].push((new, gen_name(rng)));
            for t in terms {
                f.links[k].push((new, t));
            }
            true
        }
        "remove_record" => {
            let k = rng.below(3) as usize;
            if f.recs[k].is_empty() {
                return false;
            }
            let r = rng.pick(&f.recs[k]).0;
            f.recs[k].retain(|x| x.0 != r);
            f.links[k].retain(|x| x.0 != r);
            true
        }
        "rename_record" => {
            let k = rng.below(3) as usize;
            if f.recs[k].is_empty() {
                return false;
            }
            let i = rng.below(f.recs[k].len() as u64) as usize;
            // a new tail, or a difference in white space / letter case only
            let old = f.recs[k][i].1.clone();
            let new = match rng.below(6) {
                0 => format!("{old} "),
                1 => format!(" {old}"),
                2 if old.to_uppercase() != old => old.to_uppercase(),
                3 if !old.is_empty() => String::new(),
                _ => format!("{old}x"),
            };
            f.recs[k][i].1 = new;
            true
        }
        "add_term" => {
            let id = gen_ids(rng, 1, &ids_all)[0];
            f.terms.push((id, gen_name(rng)));
            if rng.chance(4, 5) {
                f.edges.push((*rng.pick(&ids_all), id));
            }
            true
        }
        "remove_term" => {
            // a term without children, so that no parent id is left dangling
            let leaves: Vec<u32> = editable.iter().copied().filter(|x| !f.edges.iter().any(|e| e.0 == *x)).collect();
            if leaves.is_empty() {
                return false;
            }
            let id = *rng.pick(&leaves);
            f.terms.retain(|t| t.0 != id);
            f.edges.retain(|e| e.1 != id);
            for k in 0..3 {
                f.links[k].retain(|l| l.1 != id);
            }
            flags.retain(|x| x.0 != id);
            true
        }
        "dangling_parent" => {
            // malformed input: a parent id that is not a term (the loader does not check)
            if editable.is_empty() {
                return false;
            }
            let p = gen_ids(rng, 1, &ids_all)[0];
            f.edges.push((p, *rng.pick(&editable)));
            true
        }
        "version" => {
            f.version.0 = f.version.0.wrapping_add(1) % 3000;
            true
        }
        _ => false,
    }
}

/// ontologies WITHOUT terms that still hold records (the crate's own `compare` doc example), against
/// each other and against an ontology that annotates the same record ids
fn c18_termless(rng: &mut Rng) -> Case {
    let mut c = Case::new("termless");
    let recs: Vec<(usize, u32, String)> =
        (0..rng.range(2, 6)).map(|i| (rng.below(3) as usize, 1 + i as u32, gen_name(rng))).collect();
    for slot in 0..2u32 {
        c.op("new".to_string());
        c.op("complete".to_string());
        c.op("connect".to_string());
        for (k, id, nm) in &recs {
            let nm = if slot == 1 && rng.chance(1, 2) { format!("{nm} renamed") } else { nm.clone() };
            if slot == 0 || rng.chance(4, 5) {
                c.op(format!("addrec {} {} {}", KINDS[*k], id, name(&nm)));
            }
        }
        if slot == 1 {
            c.op(format!("addrec g 77 {}", name("only new")));
        }
        // rejected calls (there is no term at all): they leave no record behind, so the comparison
        // does not report one
        for (k, kind) in KINDS.iter().enumerate() {
            if rng.chance(1, 2) {
                c.op(format!("ann {kind} {} {} {}", 90 + k as u32 + 3 * slot, name("rejected"), *rng.pick(&[5u32, 1, 424_242])));
                c.stat("rejected_annotate_calls", 1);
            }
        }
        c.op("ic".to_string());
        c.op(format!("build min {slot}"));
    }
    // the same record ids, annotated to terms
    c.op("new".to_string());
    for t in [1u32, 118, 5, 6] {
        c.op(format!("term {t} {}", name(&gen_name(rng))));
    }
    c.op("complete".to_string());
    c.op("parent 1 118".to_string());
    c.op("parent 118 5".to_string());
    c.op("parent 118 6".to_string());
    c.op("connect".to_string());
    for (k, id, nm) in &recs {
        c.op(format!("ann {} {} {} {}", KINDS[*k], id, name(nm), if rng.chance(1, 2) { 5 } else { 6 }));
    }
    c.op("ic".to_string());
    c.op("build def 2".to_string());
    for (a, b) in [(0, 1), (1, 0), (0, 2), (2, 0), (1, 2), (2, 1), (0, 0)] {
        c.op(format!("compare {a} {b}"));
        c.op(format!("oracle compare {a} {b}"));
    }
    c.stat("termless_ontologies", 2);
    c.nontrivial = true;
    c
}

/// Builder route (names are not cut there): gene and term names longer than 255 bytes that differ
/// only AFTER byte 255, and records with 65 .. 90 direct terms that differ at the tail of the list
fn c18_long(rng: &mut Rng, lists: bool) -> Case {
    let mut c = Case::new(if lists { "long-term-lists" } else { "long-names" });
    let n = if lists { rng.range(70, 95) as usize } else { 6 };
    let mut ids_all = gen_ids(rng, n, &[1, 118]);
    ids_all.sort_unstable();
    let stem = "x".repeat(*rng.pick(&[254usize, 255, 256, 270]));
    let long_a = format!("{stem}é tail one");
    let long_b = format!("{stem}é tail two");
    for slot in 0..2u32 {
        c.op("new".to_string());
        c.op(format!("term 1 {}", name("All")));
        c.op(format!("term 118 {}", name("Phenotypic abnormality")));
        for (i, id) in ids_all.iter().enumerate() {
            // (short names with multi-byte characters: byte length and character count differ)
            let nm = if !lists && i == 0 { if slot == 0 { long_a.clone() } else { long_b.clone() } } else if i % 3 == 2 { format!("t{i} Ünïcödé 日本") } else { format!("t{i}") };
            c.op(format!("term {} {}", id, name(&nm)));
            if slot == 0 && i == 1 {
                // the same id defined once more under another name: the first definition stays
                c.op(format!("term {} {}", id, name("a second definition of the same id")));
            }
        }
        c.op("complete".to_string());
        c.op("parent 1 118".to_string());
        for id in &ids_all {
            c.op(format!("parent 118 {id}"));
        }
        c.op("connect".to_string());
        for (k, kind) in KINDS.iter().enumerate() {
            // (k == 0: a gene; diseases carry a u32 length and are never cut: their long names differ
            // between the two ontologies as well and survive the round trip in full)
            let rname = if !lists { if slot == 0 { long_a.clone() } else { long_b.clone() } } else { format!("rec {kind}") };
            // the record's direct terms: all but a few; the second ontology differs at the TAIL
            // (largest ids) or the head of the list
            let cut = if lists { rng.range(1, 10) as usize } else { 1 };
            let terms: Vec<u32> = if slot == 0 {
                ids_all.clone()
            } else if k == 1 {
                ids_all[cut..].to_vec()
            } else {
                ids_all[..ids_all.len() - cut].to_vec()
            };
            for (j, t) in terms.iter().enumerate() {
                // (the last call carries another name: the record keeps its first name and all terms)
                let nm = if j + 1 == terms.len() && j > 0 { "a later spelling".to_string() } else { rname.clone() };
                c.op(format!("ann {kind} 7 {} {t}", name(&nm)));
            }
        }
        c.op("ic".to_string());
        c.op(format!("build def {slot}"));
    }
    for (a, b) in [(0, 1), (1, 0), (0, 0)] {
        c.op(format!("compare {a} {b}"));
        c.op(format!("oracle compare {a} {b}"));
    }
    // the binary round trip cuts names to 255 bytes: the comparison reports exactly those renames
    c.op("roundtrip 0 2".to_string());
    c.op("compare 0 2".to_string());
    c.op("oracle compare 0 2".to_string());
    c.stat(if lists { "long_term_lists" } else { "names_beyond_255_bytes" }, 1);
    c.nontrivial = true;
    c
}

pub fn c18(rng: &mut Rng, _tier: &str, idx: usize) -> Case {
    if idx == 5 {
        // ontologies of 70 000 terms: compared with the reloaded one (no difference) and with a second
        // big ontology (one term renamed, one removed, one added); implementation against the
        // harness oracle only
        let mut c = Case::new("big-ontologies");
        c.op(format!("bigarena 70000 {}", rng.next()));
        c.stat("big_comparisons", 2);
        c.nontrivial = true;
        return c;
    }
    if idx % 25 == 12 {
        return c18_termless(rng);
    }
    if idx % 25 == 13 {
        return c18_long(rng, false);
    }
    if idx % 25 == 14 {
        return c18_long(rng, true);
    }
    let kind = EDIT_KINDS[idx % EDIT_KINDS.len()];
    let mut c = Case::new(kind);
    let max_terms = *rng.pick(&[3usize, 6, 10, 20, 35]);
    let (mut f, _) = gen_facts(rng, &DagOpts { max_terms, with_roots: true, max_recs: 6 });
    let flags = gen_flags(rng, &mut f);
    facts_stats(&f, &mut c);
    let fv_a = if rng.chance(1, 8) { 2 } else { 3 };
    let fv_b = if rng.chance(1, 8) { 2 } else { 3 };
    facts_to_fops(rng, &f, &flags, fv_a, 0, true, &mut c);
    let (mut g, mut gflags) = (f.clone(), flags.clone());
    let mut applied = 0u64;
    let single = EDIT_KINDS[1..16].to_vec();
    match kind {
        "none" => {}
        "several" | "many" => {
            let n = if kind == "several" { rng.range(2, 4) } else { rng.range(5, 15) };
            for _ in 0..n {
                let k = *rng.pick(&single);
                if edit(rng, &mut g, &mut gflags, k) {
                    applied += 1;
                    c.stat(&format!("edit_{k}"), 1);
                }
            }
        }
        k => {
            for _ in 0..5 {
                if edit(rng, &mut g, &mut gflags, k) {
                    applied += 1;
                    c.stat(&format!("edit_{k}"), 1);
                    break;
                }
            }
        }
    }
    facts_to_fops(rng, &g, &gflags, fv_b, 1, true, &mut c);
    c.stat("edits_applied", applied);
    // terms of both ontologies whose raw replacement ids differ while the RESOLVED replacements
    // (what `HpoTermDelta` compares and exposes) are equal
    {
        let (pa, pb): (BTreeSet<u32>, BTreeSet<u32>) = (f.terms.iter().map(|t| t.0).collect(), g.terms.iter().map(|t| t.0).collect());
        let raw = |fl: &Flags, id: u32| fl.iter().find(|x| x.0 == id).and_then(|x| x.2).filter(|r| *r != 0);
        let n = pa
            .iter()
            .filter(|id| pb.contains(id))
            .filter(|id| {
                let (ra, rb) = (raw(&flags, **id), raw(&gflags, **id));
                ra != rb && ra.filter(|r| pa.contains(r)) == rb.filter(|r| pb.contains(r))
            })
            .count();
        c.stat("raw_replacement_differs_resolved_equal", n as u64);
    }
    c.op("compare 0 1".to_string());
    c.op("oracle compare 0 1".to_string());
    c.op("compare 1 0".to_string());
    c.op("oracle compare 1 0".to_string());
    c.op("compare 0 0".to_string());
    c.op("oracle compare 0 0".to_string());
    // binary round trip of the old ontology: identical content, nothing to report
    c.op("rtbytes 0 2".to_string());
    c.op("same 0 2".to_string());
    c.op("compare 0 2".to_string());
    c.op("compare 2 1".to_string());
    if rng.chance(1, 6) {
        c.op("dump 0".to_string());
        c.op("dump 1".to_string());
    }
    if fv_a != fv_b {
        c.stat("different_binary_versions", 1);
    }
    c.nontrivial = applied > 0;
    c
}
