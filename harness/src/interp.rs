//! Interpreter of the line protocol against the REAL `hpo` library.
//! Every op runs under `catch_unwind`; a panic prints `panic` and skips the rest of the case
//! (the Lean driver does the same on a modelled panic).
use crate::proto::*;
use hpo::annotations::{AnnotationId, Disease, GeneId, OmimDiseaseId, OrphaDiseaseId};
use hpo::builder::{AllTerms, Builder, ConnectedTerms, FullyAnnotated, LooseCollection};
use hpo::term::HpoGroup;
use hpo::{HpoTermId, Ontology};
use std::collections::HashMap;
use std::panic::{catch_unwind, AssertUnwindSafe};

pub enum B {
    None,
    Loose(Builder<LooseCollection>),
    All(Builder<AllTerms>),
    Conn(Builder<ConnectedTerms>),
    Full(Builder<FullyAnnotated>),
}

pub struct Interp {
    pub b: B,
    pub slots: HashMap<u32, Ontology>,
    pub regs: HashMap<String, HpoGroup>,
    pub dead: bool,
    pub ext: crate::ext::Ext,
    /// similarity objects that live as long as the case
    pub sims: crate::ext_c04::SimObjs,
}

impl Default for Interp {
    fn default() -> Self {
        Interp {
            b: B::None,
            slots: HashMap::new(),
            regs: HashMap::new(),
            dead: false,
            ext: crate::ext::Ext::default(),
            sims: crate::ext_c04::SimObjs::default(),
        }
    }
}

pub fn term_ids(g: &HpoGroup) -> String {
    ids(g.iter().map(|x| x.as_u32()))
}

/// the whole observable content of an ontology, canonical order (mirror of Drv.dump)
pub fn dump(o: &Ontology) -> Vec<String> {
    let mut out = vec![];
    out.push(format!("V {}", o.hpo_version()));
    out.push(format!("N {}", o.len()));
    out.push(format!("CAT {}", term_ids(o.categories())));
    out.push(format!("MOD {}", term_ids(o.modifier())));
    out.push(format!(
        "NREC {} {} {}",
        o.genes().count(),
        o.omim_diseases().count(),
        o.orpha_diseases().count()
    ));
    let mut tids: Vec<u32> = o.hpos().map(|t| t.id().as_u32()).collect();
    tids.sort_unstable();
    let mut walk_ok = true;
    for id in &tids {
        let t = o.hpo(*id).expect("iterated id resolves");
        let ic = t.information_content();
        out.push(format!(
            "T {} {} obs={} repl={} rby={} P={} C={} A={} G={} O={} R={} ic {} {} {} mod={} cat={}",
            id,
            name(t.name()),
            b(t.is_obsolete()),
            opt(t.replacement_id().map(|x| x.as_u32())),
            opt(t.replaced_by().map(|x| x.id().as_u32())),
            term_ids(t.parent_ids()),
            term_ids(t.children_ids()),
            term_ids(t.all_parent_ids()),
            sorted_ids(t.gene_ids().iter().map(|g| g.as_u32())),
            sorted_ids(t.omim_disease_ids().iter().map(|g| g.as_u32())),
            sorted_ids(t.orpha_disease_ids().iter().map(|g| g.as_u32())),
            f32bits(ic.gene()),
            f32bits(ic.omim_disease()),
            f32bits(ic.orpha_disease()),
            b(t.is_modifier()),
            ids(t.categories().iter().map(|x| x.as_u32())),
        ));
        // resolving iterators: any panic is an observable
        let r = catch_unwind(AssertUnwindSafe(|| {
            let mut n = 0usize;
            n += t.parents().count();
            n += t.children().count();
            n += t.all_parents().count();
            n += t.genes().count();
            n += t.omim_diseases().count();
            n += t.orpha_diseases().count();
            n
        }));
        if r.is_err() {
            walk_ok = false;
        }
    }
    let mut gids: Vec<u32> = o.genes().map(|g| g.id().as_u32()).collect();
    gids.sort_unstable();
    for g in gids {
        let r = o.gene(&GeneId::from(g)).expect("gene resolves");
        out.push(format!("G {} {} {}", g, name(r.name()), term_ids(r.hpo_terms())));
        if catch_unwind(AssertUnwindSafe(|| r.to_hpo_set(o).iter().count())).is_err() {
            walk_ok = false;
        }
    }
    let mut dids: Vec<u32> = o.omim_diseases().map(|g| g.id().as_u32()).collect();
    dids.sort_unstable();
    for g in dids {
        let r = o.omim_disease(&OmimDiseaseId::from(g)).expect("omim resolves");
        out.push(format!("O {} {} {}", g, name(r.name()), term_ids(r.hpo_terms())));
        if catch_unwind(AssertUnwindSafe(|| r.to_hpo_set(o).iter().count())).is_err() {
            walk_ok = false;
        }
    }
    let mut dids: Vec<u32> = o.orpha_diseases().map(|g| g.id().as_u32()).collect();
    dids.sort_unstable();
    for g in dids {
        let r = o.orpha_disease(&OrphaDiseaseId::from(g)).expect("orpha resolves");
        out.push(format!("R {} {} {}", g, name(r.name()), term_ids(r.hpo_terms())));
        if catch_unwind(AssertUnwindSafe(|| r.to_hpo_set(o).iter().count())).is_err() {
            walk_ok = false;
        }
    }
    out.push(format!("WALK {}", if walk_ok { "ok" } else { "panic" }));
    out
}

pub fn dump_rel(o: &Ontology) -> Vec<String> {
    let mut out = vec![];
    let mut tids: Vec<u32> = o.hpos().map(|t| t.id().as_u32()).collect();
    tids.sort_unstable();
    for a in &tids {
        let ta = o.hpo(*a).unwrap();
        let co: Vec<u32> = tids.iter().copied().filter(|x| ta.child_of(&o.hpo(*x).unwrap())).collect();
        let po: Vec<u32> = tids.iter().copied().filter(|x| ta.parent_of(&o.hpo(*x).unwrap())).collect();
        out.push(format!("CO {} {}", a, ids(co)));
        out.push(format!("PO {} {}", a, ids(po)));
    }
    out
}

fn res<T, E>(r: &Result<T, E>) -> &'static str {
    if r.is_ok() {
        "r ok"
    } else {
        "r err"
    }
}

impl Interp {
    /// Execute one op; output lines are appended to `out`. Unknown or mis-phased op: `bad-op`.
    pub fn exec(&mut self, toks: &[&str], out: &mut Vec<String>) {
        if self.dead {
            return;
        }
        let r = catch_unwind(AssertUnwindSafe(|| {
            let mut o = vec![];
            let ok = self.exec_inner(toks, &mut o);
            (ok, o)
        }));
        match r {
            Ok((true, mut o)) => out.append(&mut o),
            Ok((false, _)) => out.push("bad-op".to_string()),
            Err(_) => {
                out.push("panic".to_string());
                self.dead = true;
            }
        }
    }

    fn exec_inner(&mut self, toks: &[&str], out: &mut Vec<String>) -> bool {
        match toks {
            ["new"] => {
                self.b = B::Loose(Builder::new());
                true
            }
            ["term", id, nm] => {
                let (Ok(id), Some(nm)) = (id.parse::<u32>(), unname(nm)) else { return false };
                match &mut self.b {
                    B::Loose(b) => {
                        b.new_term(&nm, id);
                        true
                    }
                    _ => false,
                }
            }
            ["complete"] => match std::mem::replace(&mut self.b, B::None) {
                B::Loose(b) => {
                    self.b = B::All(b.terms_complete());
                    true
                }
                other => {
                    self.b = other;
                    false
                }
            },
            ["parent", p, c] => {
                let (Ok(p), Ok(c)) = (p.parse::<u32>(), c.parse::<u32>()) else { return false };
                match &mut self.b {
                    B::All(b) => {
                        let r = b.add_parent(p, c);
                        out.push(res(&r).to_string());
                        true
                    }
                    _ => false,
                }
            }
            ["connect"] => match std::mem::replace(&mut self.b, B::None) {
                B::All(b) => {
                    self.b = B::Conn(b.connect_all_terms());
                    true
                }
                other => {
                    self.b = other;
                    false
                }
            },
            ["addrec", k, id, nm] => {
                let (Ok(id), Some(nm)) = (id.parse::<u32>(), unname(nm)) else { return false };
                match &mut self.b {
                    B::Conn(b) => match *k {
                        "g" => {
                            b.add_gene(&nm, GeneId::from(id));
                            true
                        }
                        "o" => {
                            b.add_omim_disease(&nm, OmimDiseaseId::from(id));
                            true
                        }
                        "r" => {
                            b.add_orpha_disease(&nm, OrphaDiseaseId::from(id));
                            true
                        }
                        _ => false,
                    },
                    _ => false,
                }
            }
            ["bulkrec", k, first, count, nm] => {
                // `count` calls of add_gene / add_omim_disease / add_orpha_disease, ids first..first+count
                let (Ok(first), Ok(count), Some(nm)) = (first.parse::<u32>(), count.parse::<u32>(), unname(nm)) else {
                    return false;
                };
                match &mut self.b {
                    B::Conn(b) => {
                        for id in first..first + count {
                            match *k {
                                "g" => b.add_gene(&nm, GeneId::from(id)),
                                "o" => {
                                    b.add_omim_disease(&nm, OmimDiseaseId::from(id));
                                }
                                "r" => {
                                    b.add_orpha_disease(&nm, OrphaDiseaseId::from(id));
                                }
                                _ => return false,
                            }
                        }
                        true
                    }
                    _ => false,
                }
            }
            ["bulkann", k, first, count, nm, t] => {
                // `count` calls of annotate_* with the ids first+count-1 down to first and one term; stops at the first error
                let (Ok(first), Ok(count), Some(nm), Ok(t)) =
                    (first.parse::<u32>(), count.parse::<u32>(), unname(nm), t.parse::<u32>())
                else {
                    return false;
                };
                let t = HpoTermId::from(t);
                match &mut self.b {
                    B::Conn(b) => {
                        let mut ok = true;
                        for id in (first..first + count).rev() {
                            let r = match *k {
                                "g" => b.annotate_gene(GeneId::from(id), &nm, t),
                                "o" => b.annotate_omim_disease(OmimDiseaseId::from(id), &nm, t),
                                "r" => b.annotate_orpha_disease(OrphaDiseaseId::from(id), &nm, t),
                                _ => return false,
                            };
                            if r.is_err() {
                                ok = false;
                                break;
                            }
                        }
                        out.push(if ok { "r ok" } else { "r err" }.to_string());
                        true
                    }
                    _ => false,
                }
            }
            ["ann", k, id, nm, t] => {
                let (Ok(id), Some(nm), Ok(t)) = (id.parse::<u32>(), unname(nm), t.parse::<u32>()) else {
                    return false;
                };
                let t = HpoTermId::from(t);
                match &mut self.b {
                    B::Conn(b) => {
                        let r = match *k {
                            "g" => b.annotate_gene(GeneId::from(id), &nm, t),
                            "o" => b.annotate_omim_disease(OmimDiseaseId::from(id), &nm, t),
                            "r" => b.annotate_orpha_disease(OrphaDiseaseId::from(id), &nm, t),
                            _ => return false,
                        };
                        out.push(res(&r).to_string());
                        true
                    }
                    _ => false,
                }
            }
            ["version", y, m, d] => {
                let (Ok(y), Ok(m), Ok(d)) = (y.parse::<u16>(), m.parse::<u8>(), d.parse::<u8>()) else {
                    return false;
                };
                match &mut self.b {
                    B::Loose(b) => b.set_hpo_version((y, m, d)),
                    B::All(b) => b.set_hpo_version((y, m, d)),
                    B::Conn(b) => b.set_hpo_version((y, m, d)),
                    B::Full(b) => b.set_hpo_version((y, m, d)),
                    B::None => return false,
                }
                true
            }
            ["icover"] => match std::mem::replace(&mut self.b, B::None) {
                // more than 65 535 records of a kind: the property does not say whether the
                // calculation is refused; it is judged by predicate (refused, or every value right)
                B::Conn(b) => {
                    match b.calculate_information_content() {
                        Err(_) => out.push("oracle ok".to_string()),
                        Ok(b) => {
                            let o = b.build_minimal();
                            match crate::ext2::oracle_ic(&o) {
                                Ok(()) => out.push("oracle ok".to_string()),
                                Err(e) => out.push(format!("oracle FAIL ic beyond the u16 limit: {e}")),
                            }
                        }
                    }
                    true
                }
                other => {
                    self.b = other;
                    false
                }
            },
            ["ic"] => match std::mem::replace(&mut self.b, B::None) {
                B::Conn(b) => {
                    match b.calculate_information_content() {
                        Ok(b) => {
                            self.b = B::Full(b);
                            out.push("r ok".to_string());
                        }
                        Err(_) => out.push("r err".to_string()),
                    }
                    true
                }
                other => {
                    self.b = other;
                    false
                }
            },
            ["build", mode, slot] => {
                let Ok(slot) = slot.parse::<u32>() else { return false };
                if *mode != "min" && *mode != "def" {
                    return false;
                }
                match std::mem::replace(&mut self.b, B::None) {
                    B::Full(b) => {
                        if *mode == "min" {
                            self.slots.insert(slot, b.build_minimal());
                            out.push("r ok".to_string());
                        } else {
                            match b.build_with_defaults() {
                                Ok(o) => {
                                    self.slots.insert(slot, o);
                                    out.push("r ok".to_string());
                                }
                                Err(_) => out.push("r err".to_string()),
                            }
                        }
                        true
                    }
                    other => {
                        self.b = other;
                        false
                    }
                }
            }
            ["dump", slot] => {
                match slot.parse::<u32>().ok().and_then(|s| self.slots.get(&s)) {
                    Some(o) => out.append(&mut dump(o)),
                    None => out.push("noslot".to_string()),
                }
                true
            }
            ["tdump", slot] => {
                // the dump without the per-record lines (ontologies with tens of thousands of records)
                match slot.parse::<u32>().ok().and_then(|s| self.slots.get(&s)) {
                    Some(o) => out.extend(
                        dump(o).into_iter().filter(|l| !(l.starts_with("G ") || l.starts_with("O ") || l.starts_with("R ") || l.starts_with("WALK "))),
                    ),
                    None => out.push("noslot".to_string()),
                }
                true
            }
            ["rel", slot] => {
                match slot.parse::<u32>().ok().and_then(|s| self.slots.get(&s)) {
                    Some(o) => out.append(&mut dump_rel(o)),
                    None => out.push("noslot".to_string()),
                }
                true
            }
            _ => crate::ext::exec(self, toks, out),
        }
    }
}
