//! C13: `HpoSet` programs on the real crate and the harness's independent oracle.
//!
//!   setq <slot> <ids> <op>,<op>,...   see lean/HpoModel/Drv/SetCmp.lean
//!   oracle set <slot> <ids>           independent recomputation (BFS over `parent_ids`, flags,
//!                                     modifier roots, categories, record ids) of every operation
//!
//! The member ids of a set are not directly readable (`iter`/`get` resolve every id and panic on an
//! id that is not a term), so a set is printed from id-level observations only: `len`, `is_empty`
//! and `contains` over a universe that includes every id that can possibly be a member.
use crate::ext2::bfs_closure;
use crate::interp::Interp;
use crate::proto::*;
use hpo::annotations::AnnotationId;
use hpo::{HpoSet, HpoTermId, Ontology};
use std::collections::{BTreeMap, BTreeSet};
use std::panic::{catch_unwind, AssertUnwindSafe};

/// every id that can be a member after any sequence of operations on a set built from `ids`
fn universe(o: &Ontology, ids_in: &[u32]) -> Vec<u32> {
    let mut u: BTreeSet<u32> = ids_in.iter().copied().collect();
    for t in o.hpos() {
        u.insert(t.id().as_u32());
        if let Some(r) = t.replacement_id() {
            u.insert(r.as_u32());
        }
    }
    u.extend([0u32, 1, 118, 9_999_999, 10_000_000, u32::MAX]);
    u.into_iter().collect()
}

fn members(set: &HpoSet, uni: &[u32]) -> Vec<u32> {
    uni.iter().copied().filter(|x| set.contains(&HpoTermId::from(*x))).collect()
}

fn show_set(set: &HpoSet, uni: &[u32]) -> String {
    let m = members(set, uni);
    let mut s = format!("len={} empty={} ids={}", set.len(), b(set.is_empty()), ids(m.clone()));
    if m.len() != set.len() {
        s.push_str(" oracle FAIL set: len() disagrees with contains() over the universe");
    }
    s
}

fn mk<'a>(o: &'a Ontology, l: &[u32]) -> HpoSet<'a> {
    HpoSet::new(o, crate::ext::mk_group(l))
}

pub fn exec(it: &mut Interp, toks: &[&str], out: &mut Vec<String>) -> bool {
    match toks {
        ["setq", slot, l, prog] => {
            let Some(l) = unids(l) else { return false };
            let Some(o) = slot.parse::<u32>().ok().and_then(|s| it.slots.get(&s)) else {
                out.push("noslot".to_string());
                return true;
            };
            let uni = universe(o, &l);
            let mut cur = mk(o, &l);
            for op in prog.split(',') {
                // Ok(Some(line)) continue, Ok(None) unknown op, Err = panic inside the library
                let r = catch_unwind(AssertUnwindSafe(|| -> Option<String> {
                    Some(match op {
                        "show" => format!("show {}", show_set(&cur, &uni)),
                        "reset" => {
                            cur = mk(o, &l);
                            format!("reset {}", show_set(&cur, &uni))
                        }
                        "iter" => {
                            let v: Vec<u32> = cur.iter().map(|t| t.id().as_u32()).collect();
                            let v2: Vec<u32> = (&cur).into_iter().map(|t| t.id().as_u32()).collect();
                            if v != v2 {
                                "iter oracle FAIL set: iter() and into_iter() disagree".to_string()
                            } else {
                                format!("iter {}", ids(v))
                            }
                        }
                        "get" => {
                            let cells: Vec<String> = (0..=cur.len())
                                .map(|i| match catch_unwind(AssertUnwindSafe(|| cur.get(i).map(|t| t.id().as_u32()))) {
                                    Ok(Some(id)) => id.to_string(),
                                    Ok(None) => "-".to_string(),
                                    Err(_) => "!".to_string(),
                                })
                                .collect();
                            format!("get {}", cells.join(","))
                        }
                        "gene_ids" => format!("gene_ids {}", sorted_ids(cur.gene_ids().iter().map(|g| g.as_u32()))),
                        "omim_ids" => format!("omim_ids {}", sorted_ids(cur.omim_disease_ids().iter().map(|g| g.as_u32()))),
                        "orpha_ids" => format!("orpha_ids {}", sorted_ids(cur.orpha_disease_ids().iter().map(|g| g.as_u32()))),
                        "categories" => {
                            let m: BTreeMap<u32, usize> = cur.categories().into_iter().map(|(k, v)| (k.as_u32(), v)).collect();
                            if m.is_empty() {
                                "categories -".to_string()
                            } else {
                                format!("categories {}", m.iter().map(|(k, v)| format!("{k}:{v}")).collect::<Vec<_>>().join(","))
                            }
                        }
                        "ic" => match cur.information_content() {
                            Ok(ic) => format!("ic ok {} {} {}", f32bits(ic.gene()), f32bits(ic.omim_disease()), f32bits(ic.orpha_disease())),
                            Err(_) => "ic err".to_string(),
                        },
                        "child_nodes" => {
                            cur = cur.child_nodes();
                            format!("child_nodes {}", show_set(&cur, &uni))
                        }
                        "without_modifier" => {
                            cur = cur.without_modifier();
                            format!("without_modifier {}", show_set(&cur, &uni))
                        }
                        "remove_modifier" => {
                            cur.remove_modifier();
                            format!("remove_modifier {}", show_set(&cur, &uni))
                        }
                        "without_obsolete" => {
                            cur = cur.without_obsolete();
                            format!("without_obsolete {}", show_set(&cur, &uni))
                        }
                        "remove_obsolete" => {
                            cur.remove_obsolete();
                            format!("remove_obsolete {}", show_set(&cur, &uni))
                        }
                        "with_replaced_obsolete" => {
                            cur = cur.with_replaced_obsolete();
                            format!("with_replaced_obsolete {}", show_set(&cur, &uni))
                        }
                        "replace_obsolete" => {
                            cur.replace_obsolete();
                            format!("replace_obsolete {}", show_set(&cur, &uni))
                        }
                        _ => return None,
                    })
                }));
                match r {
                    Ok(Some(line)) => out.push(line),
                    Ok(None) => return false,
                    Err(_) => {
                        out.push(format!("{op} panic"));
                        break;
                    }
                }
            }
            true
        }
        ["oracle", "set", slot, l] => {
            let Some(l) = unids(l) else { return false };
            let Some(o) = slot.parse::<u32>().ok().and_then(|s| it.slots.get(&s)) else {
                out.push("noslot".to_string());
                return true;
            };
            match catch_unwind(AssertUnwindSafe(|| oracle_set(o, &l))) {
                Ok(Ok(())) => out.push("oracle ok".to_string()),
                Ok(Err(e)) => out.push(format!("oracle FAIL set {}: {e}", ids(l.clone()))),
                Err(_) => out.push(format!("oracle FAIL set {}: an operation panicked although every member is a term", ids(l.clone()))),
            }
            true
        }
        _ => crate::ext_c18::exec(it, toks, out),
    }
}

fn expect_set(what: &str, o: &Ontology, got: &HpoSet, uni: &[u32], want: &BTreeSet<u32>) -> Result<(), String> {
    let g = members(got, uni);
    let w: Vec<u32> = want.iter().copied().collect();
    if g != w || got.len() != w.len() || got.is_empty() != w.is_empty() {
        return Err(format!("{what}: got {:?} (len {}), expected {:?}", g, got.len(), w));
    }
    // the resolving views agree when every member is a term
    if w.iter().all(|x| o.hpo(*x).is_some()) {
        let it: Vec<u32> = got.iter().map(|t| t.id().as_u32()).collect();
        if it != w {
            return Err(format!("{what}: iter() yields {:?}, expected ascending {:?}", it, w));
        }
        for (i, x) in w.iter().enumerate() {
            if got.get(i).map(|t| t.id().as_u32()) != Some(*x) {
                return Err(format!("{what}: get({i}) is not {x}"));
            }
        }
        if got.get(w.len()).is_some() {
            return Err(format!("{what}: get(len) is Some"));
        }
    }
    Ok(())
}

fn ic_expected(n: usize, total: usize) -> f32 {
    if n == 0 || total == 0 {
        0.0
    } else {
        -((n as f32 / total as f32).ln())
    }
}

/// Every operation of `HpoSet` against a recomputation that uses only per-term public accessors
/// (`parent_ids`, `is_obsolete`, `replacement_id`, `gene_ids`, ...) and the ontology's root lists.
fn oracle_set(o: &Ontology, l: &[u32]) -> Result<(), String> {
    let s: BTreeSet<u32> = l.iter().copied().collect();
    if s.iter().any(|x| o.hpo(*x).is_none()) {
        // members outside the ontology: the operations are documented to panic; nothing to recompute
        return Ok(());
    }
    let uni = universe(o, l);
    let anc: BTreeMap<u32, BTreeSet<u32>> = s.iter().map(|x| (*x, bfs_closure(o, *x))).collect();
    let set = mk(o, l);
    expect_set("new", o, &set, &uni, &s)?;

    // child_nodes: members without a descendant in the set
    let want: BTreeSet<u32> = s.iter().copied().filter(|x| s.iter().all(|y| !anc[y].contains(x))).collect();
    expect_set("child_nodes", o, &set.child_nodes(), &uni, &want)?;

    // modifier: a member is dropped iff it or an ancestor is a modifier root
    let roots: BTreeSet<u32> = o.modifier().iter().map(|x| x.as_u32()).collect();
    let want: BTreeSet<u32> = s.iter().copied().filter(|x| !roots.contains(x) && anc[x].iter().all(|a| !roots.contains(a))).collect();
    expect_set("without_modifier", o, &set.without_modifier(), &uni, &want)?;
    let mut m = mk(o, l);
    m.remove_modifier();
    expect_set("remove_modifier", o, &m, &uni, &want)?;

    // obsolete flag
    let want: BTreeSet<u32> = s.iter().copied().filter(|x| !o.hpo(*x).unwrap().is_obsolete()).collect();
    expect_set("without_obsolete", o, &set.without_obsolete(), &uni, &want)?;
    let mut m = mk(o, l);
    m.remove_obsolete();
    expect_set("remove_obsolete", o, &m, &uni, &want)?;

    // replacement: image under x -> replacement_id(x) or x
    let want: BTreeSet<u32> = s.iter().map(|x| o.hpo(*x).unwrap().replacement_id().map(|r| r.as_u32()).unwrap_or(*x)).collect();
    expect_set("with_replaced_obsolete", o, &set.with_replaced_obsolete(), &uni, &want)?;
    let mut m = mk(o, l);
    m.replace_obsolete();
    expect_set("replace_obsolete", o, &m, &uni, &want)?;
    // the copying variants leave the receiver alone
    expect_set("receiver after copying operations", o, &set, &uni, &s)?;

    // unions
    let mut g: BTreeSet<u32> = BTreeSet::new();
    let mut d: BTreeSet<u32> = BTreeSet::new();
    let mut r: BTreeSet<u32> = BTreeSet::new();
    for x in &s {
        let t = o.hpo(*x).unwrap();
        g.extend(t.gene_ids().iter().map(|i| i.as_u32()));
        d.extend(t.omim_disease_ids().iter().map(|i| i.as_u32()));
        r.extend(t.orpha_disease_ids().iter().map(|i| i.as_u32()));
    }
    let got: BTreeSet<u32> = set.gene_ids().iter().map(|i| i.as_u32()).collect();
    if got != g || set.gene_ids().len() != g.len() {
        return Err(format!("gene_ids: got {:?}, expected {:?}", got, g));
    }
    let got: BTreeSet<u32> = set.omim_disease_ids().iter().map(|i| i.as_u32()).collect();
    if got != d {
        return Err(format!("omim_disease_ids: got {:?}, expected {:?}", got, d));
    }
    let got: BTreeSet<u32> = set.orpha_disease_ids().iter().map(|i| i.as_u32()).collect();
    if got != r {
        return Err(format!("orpha_disease_ids: got {:?}, expected {:?}", got, r));
    }

    // categories: per category root, the number of members at or below it
    let cats: BTreeSet<u32> = o.categories().iter().map(|x| x.as_u32()).collect();
    let mut want: BTreeMap<u32, usize> = BTreeMap::new();
    for c in &cats {
        let n = s.iter().filter(|x| *x == c || anc[*x].contains(c)).count();
        if n > 0 {
            want.insert(*c, n);
        }
    }
    let got: BTreeMap<u32, usize> = set.categories().into_iter().map(|(k, v)| (k.as_u32(), v)).collect();
    if got != want {
        return Err(format!("categories: got {:?}, expected {:?}", got, want));
    }

    // information content
    let (ng, nd) = (o.genes().count(), o.omim_diseases().count());
    match set.information_content() {
        Ok(ic) => {
            for (what, v, n, total) in [("gene", ic.gene(), g.len(), ng), ("omim", ic.omim_disease(), d.len(), nd)] {
                let want = ic_expected(n, total);
                if !v.is_finite() || (v - want).abs() > 4.0 * f32::EPSILON * want.abs().max(1.0) {
                    return Err(format!("information_content {what}: {v}, expected -ln({n}/{total}) = {want}"));
                }
            }
            if ic.orpha_disease() != 0.0 {
                return Err(format!("information_content orpha: {} (the aggregate does not compute it)", ic.orpha_disease()));
            }
        }
        Err(_) => {
            let big = |n: usize| n > usize::from(u16::MAX);
            if !(big(ng) || big(nd) || big(g.len()) || big(d.len())) {
                return Err("information_content: Err although all counts fit u16".to_string());
            }
        }
    }
    Ok(())
}
