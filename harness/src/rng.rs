//! SplitMix64: every random choice of the harness derives from one seed.
#[derive(Clone)]
pub struct Rng(pub u64);

impl Rng {
    pub fn new(seed: u64) -> Self {
        Rng(seed ^ 0x9E37_79B9_7F4A_7C15)
    }
    /// independent stream for case `i` of a run
    pub fn fork(seed: u64, i: u64) -> Self {
        let mut r = Rng::new(seed.wrapping_mul(0xD6E8_FEB8_6659_FD93) ^ i.wrapping_mul(0xA076_1D64_78BD_642F));
        r.next();
        r
    }
    pub fn next(&mut self) -> u64 {
        self.0 = self.0.wrapping_add(0x9E37_79B9_7F4A_7C15);
        let mut z = self.0;
        z = (z ^ (z >> 30)).wrapping_mul(0xBF58_476D_1CE4_E5B9);
        z = (z ^ (z >> 27)).wrapping_mul(0x94D0_49BB_1331_11EB);
        z ^ (z >> 31)
    }
    /// uniform in 0..n (n > 0)
    pub fn below(&mut self, n: u64) -> u64 {
        self.next() % n
    }
    pub fn range(&mut self, lo: u64, hi_incl: u64) -> u64 {
        lo + self.below(hi_incl - lo + 1)
    }
    pub fn chance(&mut self, num: u64, den: u64) -> bool {
        self.below(den) < num
    }
    pub fn pick<'a, T>(&mut self, xs: &'a [T]) -> &'a T {
        &xs[self.below(xs.len() as u64) as usize]
    }
    pub fn shuffle<T>(&mut self, xs: &mut [T]) {
        for i in (1..xs.len()).rev() {
            let j = self.below(i as u64 + 1) as usize;
            xs.swap(i, j);
        }
    }
}
