//! Generators for C04 (term similarities) and C05 (set similarity).
use crate::gen::*;
use crate::proto::*;
use crate::rng::Rng;
use std::collections::BTreeSet;

/// every documented name of `Builtins::new`, canonical name first
const ALG_NAMES: [&[&str]; 8] = [
    &["graphic"],
    &["resnik"],
    &["distance", "dist"],
    &["informationcoefficient", "ic"],
    &["jc", "jc2"],
    &["lin"],
    &["relevance", "rel"],
    &["mutation", "mut"],
];

fn random_case(rng: &mut Rng, s: &str) -> String {
    match rng.below(4) {
        0 => s.to_string(),
        1 => s.to_ascii_uppercase(),
        _ => s.chars().map(|c| if rng.chance(1, 2) { c.to_ascii_uppercase() } else { c }).collect(),
    }
}

pub fn c04(rng: &mut Rng, tier: &str, idx: usize) -> Case {
    if idx == 3 {
        // more than 65 535 terms (implementation against the harness oracle only): lookups, links,
        // distances, set operations, common ancestors, sub-ontology and comparison on terms in arena
        // slots beyond 65 535
        let mut c = Case::new("big-arena");
        c.op(format!("bigarena 70000 {}", rng.next()));
        c.stat("big_arena_terms", 70000);
        c.nontrivial = true;
        return c;
    }
    if idx == 2 {
        // a single-parent chain of 300..360 terms (path lengths beyond 255) with a side branch at
        // its head: the distance-based score of selected pairs is 1 / (steps + 1) at any depth; the
        // other algorithms on the same pairs
        let mut c = Case::new("very-deep-chain");
        let n = 300 + rng.below(60) as usize;
        let ids = gen_ids(rng, n + 1, &[]);
        c.op("new".to_string());
        for id in &ids {
            c.op(format!("term {} -", id));
        }
        c.op("complete".to_string());
        for i in 1..n {
            c.op(format!("parent {} {}", ids[i - 1], ids[i]));
        }
        c.op(format!("parent {} {}", ids[0], ids[n]));
        c.op("connect".to_string());
        for (k, kind) in KINDS.iter().enumerate() {
            c.op(format!("ann {kind} 1 {} {}", name("deep"), ids[n - 1 - k]));
            c.op(format!("ann {kind} 2 {} {}", name("side"), ids[n]));
        }
        c.op("ic".to_string());
        c.op("build min 0".to_string());
        for d in [n - 1, n - 2, 257, 256, 255, 254, 200, 31, 1] {
            for (x, y) in [(ids[d], ids[n]), (ids[n], ids[d]), (ids[d], ids[0]), (ids[d], ids[1])] {
                c.op(format!("simpair 0 {} g {x} {y}", name("distance")));
            }
        }
        for a in 0..ALG_NAMES.len() {
            c.op(format!("simpair 0 {} {} {} {}", name(ALG_NAMES[a][0]), KINDS[a % 3], ids[n - 1], ids[n]));
            c.op(format!("simpair 0 {} {} {} {}", name(ALG_NAMES[a][0]), KINDS[a % 3], ids[n - 1], ids[260]));
        }
        c.stat("very_deep_chain_terms", n as u64);
        c.nontrivial = true;
        return c;
    }
    if idx % 60 == 47 {
        // a term with ~65 000 records and a child with a few hundred of them: |A| + |B| beyond the
        // u16 range while the union and the ontology stay within it (set-size arithmetic of the
        // annotation-based score). No roots: the model's intersection is quadratic, so only ONE
        // term may hold the large set.
        let mut c = Case::new("sim-big-sets");
        c.op("new".to_string());
        for (id, nm) in [(2u32, "a"), (3, "b"), (4, "c")] {
            c.op(format!("term {} {}", id, name(nm)));
        }
        c.op("complete".to_string());
        c.op("parent 2 3".to_string());
        c.op("connect".to_string());
        // genes and diseases are scored by different functions: alternate deterministically
        let k = (idx / 60) % 3;
        let small = rng.range(600, 900);
        let total = rng.range(65_000, 65_534);
        // descending id ranges (each annotation is then the smallest id of its term)
        c.op(format!("bulkann {} {} {} {} 2", KINDS[k], 1 + small, total - small, name("only a")));
        c.op(format!("bulkann {} 1 {} {} 3", KINDS[k], small, name("a and b")));
        c.op(format!("ann {} 70000 {} 4", KINDS[k], name("c")));
        c.op("ic".to_string());
        c.op("build min 0".to_string());
        for a in 0..8 {
            c.op(format!("sim 0 {} {}", name(ALG_NAMES[a][0]), KINDS[k]));
        }
        c.stat("big_annotation_sets", 1);
        c.nontrivial = true;
        return c;
    }
    if idx % 30 == 13 {
        // more than 30 common ancestors, shortcuts to high ancestors, a term with > 10 parents
        let mut c = Case::new("sim-trunk");
        let f = gen_trunk(rng);
        facts_to_prog(rng, &f, &ProgOpts { shuffle: true, failing_permille: 0, build_defaults: true, slot: 0 }, &mut c);
        facts_stats(&f, &mut c);
        for a in 0..8 {
            c.op(format!("sim 0 {} {}", name(ALG_NAMES[a][0]), KINDS[rng.below(3) as usize]));
        }
        c.nontrivial = true;
        return c;
    }
    if idx % 60 == 29 {
        // information contents close to 0 (a term with all but one of > 10 000 records)
        let (mut c, _, k) = crate::props::big_records_case(rng, 2, tier == "thorough" && idx < 100);
        for a in 0..8 {
            c.op(format!("sim 0 {} {}", name(ALG_NAMES[a][0]), KINDS[k]));
        }
        return c;
    }
    let path = rng.below(4);
    let mut c = Case::new(if path < 2 { "sim-builder" } else { "sim-bytes" });
    let with_roots = path >= 2 || rng.chance(1, 2);
    // `distance_to_ancestor` enumerates all upward paths (no memo): keep the DAGs small
    let max_terms = *rng.pick(&[4usize, 7, 10, 13, 16]);
    let (mut f, shape) = gen_facts(rng, &DagOpts { max_terms, with_roots, max_recs: 7 });
    c.stat(&format!("shape_{shape:?}"), 1);
    // the three kinds must have different totals (a swapped kind is then visible in every ic)
    for k in 1..3 {
        let mut extra = 40u32;
        while !f.recs[k].is_empty() && (0..k).any(|j| f.recs[j].len() == f.recs[k].len()) {
            f.recs[k].push((extra, format!("extra {extra}")));
            extra += 1;
        }
    }
    // identical annotation sets on two terms (Mutation = 1 on distinct terms), a term linked to
    // every record of a kind (ic = -0.0), completely unannotated kinds stay possible
    let ids: Vec<u32> = f.terms.iter().map(|t| t.0).collect();
    if rng.chance(1, 3) {
        let k = rng.below(3) as usize;
        let t = *rng.pick(&ids);
        let all: Vec<u32> = f.recs[k].iter().map(|r| r.0).collect();
        for r in all {
            f.links[k].push((r, t));
        }
        c.stat("term_with_all_records", 1);
    }
    if rng.chance(1, 3) && ids.len() >= 2 {
        let k = rng.below(3) as usize;
        let (x, y) = (*rng.pick(&ids), *rng.pick(&ids));
        let of_x: Vec<u32> = f.links[k].iter().filter(|l| l.1 == x).map(|l| l.0).collect();
        for r in of_x {
            f.links[k].push((r, y));
        }
    }
    let mut nflags = 0;
    if path < 2 {
        facts_to_prog(rng, &f, &ProgOpts { shuffle: true, failing_permille: 0, build_defaults: with_roots, slot: 0 }, &mut c);
    } else {
        let fv = (1 + rng.below(3)) as u8;
        let flags = gen_flags(rng, &mut f);
        nflags = flags.len();
        c.stat("obsolete_or_replaced_terms", flags.len() as u64);
        facts_to_fops(rng, &f, &flags, fv, 0, true, &mut c);
    }
    let (multi, inh) = facts_stats(&f, &mut c);
    // no `dump`: only the scores are compared (alarms of C04 stay specific to the similarities)
    // pair classes, for the evidence histogram
    let n = f.terms.len() as u64;
    let children: BTreeSet<u32> = f.edges.iter().map(|e| e.1).collect();
    let parents: BTreeSet<u32> = f.edges.iter().map(|e| e.0).collect();
    let isolated = f.terms.iter().filter(|t| !children.contains(&t.0) && !parents.contains(&t.0)).count() as u64;
    let roots = f.terms.iter().filter(|t| !children.contains(&t.0)).count() as u64;
    c.stat("ordered_pairs", n * n);
    c.stat("isolated_terms", isolated);
    c.stat("roots", roots);
    let mut unannotated = 0u64;
    for k in 0..3 {
        // a term is unannotated for a kind iff no link of the kind sits on it or below it; count
        // conservatively: terms that are neither linked nor have any child
        let linked: BTreeSet<u32> = f.links[k].iter().map(|l| l.1).collect();
        unannotated += f.terms.iter().filter(|t| !linked.contains(&t.0) && !parents.contains(&t.0)).count() as u64;
        if f.recs[k].is_empty() {
            c.stat("kind_without_records", 1);
        }
    }
    c.stat("unannotated_leaf_terms_x_kinds", unannotated);
    let mut order: Vec<(usize, usize)> = vec![];
    for a in 0..8 {
        for k in 0..3 {
            order.push((a, k));
        }
    }
    rng.shuffle(&mut order);
    for (a, k) in order {
        let base = *rng.pick(ALG_NAMES[a]);
        let nm = random_case(rng, base);
        if nm != ALG_NAMES[a][0] {
            c.stat("alias_or_mixed_case_names", 1);
        }
        c.op(format!("sim 0 {} {}", name(&nm), KINDS[k]));
    }
    // dispatch of names that do not exist / near misses
    for bad in ["", "graph", "graphic ", "jc3", "IC2", "resnik\u{e9}", "mutations", "Lin", "DIST", "rel", "Jc2"] {
        if rng.chance(1, 3) {
            c.op(format!("simname {}", name(bad)));
        }
    }
    c.op(format!("sim 0 {} g", name("nosuchmethod")));
    if rng.chance(1, 3) {
        // a second ontology with the same ids, other links and annotations, scored by the same
        // similarity objects: no score is carried over from one ontology to the next
        let mut f2 = f.clone();
        if f2.edges.len() >= 2 {
            let i = rng.below(f2.edges.len() as u64) as usize;
            let e = f2.edges.remove(i);
            if e == (1, 118) {
                f2.edges.push(e);
            }
        }
        for k in 0..3 {
            if !f2.links[k].is_empty() && rng.chance(1, 2) {
                let i = rng.below(f2.links[k].len() as u64) as usize;
                f2.links[k].remove(i);
            }
        }
        facts_to_prog(rng, &f2, &ProgOpts { shuffle: true, failing_permille: 0, build_defaults: with_roots, slot: 1 }, &mut c);
        for a in 0..8 {
            c.op(format!("sim 1 {} {}", name(ALG_NAMES[a][0]), KINDS[rng.below(3) as usize]));
        }
        c.stat("second_ontology_same_ids", 1);
    }
    c.nontrivial = f.terms.len() >= 3 && inh > 0 && (multi > 0 || roots > 1 || nflags > 0) && f.recs.iter().filter(|r| r.len() >= 2).count() >= 2;
    c
}

// ---------------------------------------------------------------- C05

fn gen_ks(rng: &mut Rng, n: usize) -> Vec<u32> {
    let mode = rng.below(7);
    (0..n)
        .map(|_| match mode {
            6 => *rng.pick(&[64u32, 64, 64, 63, 65, 96, 128, 0, 32]), // exact 1.0 next to larger scores
            0 => *rng.pick(&[0u32, 32, 64]),      // many ties
            1 => 17,                              // constant
            2 => rng.below(4) as u32 * 16,
            _ => rng.below(65) as u32,
        })
        .collect()
}

fn gen_subset(rng: &mut Rng, ids: &[u32], size: usize) -> Vec<u32> {
    let mut v = ids.to_vec();
    rng.shuffle(&mut v);
    v.truncate(size.min(ids.len()));
    if !v.is_empty() && rng.chance(1, 6) {
        let d = *rng.pick(&v);
        v.push(d); // a duplicate id: the set keeps one
    }
    v
}

pub fn c05(rng: &mut Rng, _tier: &str, idx: usize) -> Case {
    if idx == 3 {
        // more than 65 535 terms (implementation against the harness oracle only): lookups, links,
        // distances, set operations, common ancestors, sub-ontology and comparison on terms in arena
        // slots beyond 65 535
        let mut c = Case::new("big-arena");
        c.op(format!("bigarena 70000 {}", rng.next()));
        c.stat("big_arena_terms", 70000);
        c.nontrivial = true;
        return c;
    }
    if idx % 52 == 27 {
        // one-row matrices at the u16 limit of a dimension: 1 x 65 535 (rows + cols beyond the
        // limit, each dimension within it), 1 x 65 534, 1 x 65 536 (documented panic), 1 x 40 000
        let mut c = Case::new("huge-matrix");
        let n = [65_535usize, 65_534, 40_000, 65_536][(idx / 52) % 4];
        for comb in ["bma", "funsimavg", "funsimmax"] {
            let ks: Vec<u32> = (0..n).map(|_| rng.below(130) as u32).collect();
            c.op(format!("matsim1 {} {}", comb, ids_str(&ks)));
            c.stat("matrices", 1);
        }
        // several rows, each dimension far below the u16 limit, but 65 536 cells or more
        let (r, cc) = [(256usize, 256usize), (300, 280), (128, 512), (512, 129), (255, 257), (257, 255)][(idx / 52) % 6];
        let comb = ["bma", "funsimavg", "funsimmax"][(idx / 52) % 3];
        let ks: Vec<u32> = (0..r * cc).map(|_| rng.below(130) as u32).collect();
        c.op(format!("matsimq {} {} {} {}", comb, r, cc, ids_str(&ks)));
        c.stat("matrices", 1);
        c.stat(&format!("huge_matrix_{r}x{cc}"), 1);
        c.stat(&format!("huge_matrix_1x{n}"), 1);
        c.nontrivial = true;
        return c;
    }
    let mut c = Case::new("setsim");
    let (mut f, _) = gen_facts(rng, &DagOpts { max_terms: 20, with_roots: false, max_recs: 2 });
    let mut used: Vec<u32> = f.terms.iter().map(|t| t.0).collect();
    while f.terms.len() < 14 {
        let id = gen_ids(rng, 1, &used)[0];
        used.push(id);
        f.terms.push((id, gen_name(rng)));
    }
    if idx % 3 == 1 {
        // binary route: some members of the sets are flagged obsolete / replaced (scored like any term)
        for (id, nm) in [(1u32, "All"), (118, "Phenotypic abnormality")] {
            if !f.terms.iter().any(|t| t.0 == id) {
                f.terms.push((id, nm.to_string()));
            }
        }
        if !f.edges.contains(&(1, 118)) {
            f.edges.push((1, 118));
        }
        let mut flags = gen_flags(rng, &mut f);
        let all: Vec<u32> = f.terms.iter().map(|t| t.0).collect();
        for id in &all {
            if *id != 1 && *id != 118 && !flags.iter().any(|x| x.0 == *id) && rng.chance(1, 3) {
                flags.push((*id, true, None));
            }
        }
        c.stat("obsolete_or_replaced_terms", flags.len() as u64);
        facts_to_fops(rng, &f, &flags, 3, 0, true, &mut c);
    } else {
        facts_to_prog(rng, &f, &ProgOpts { shuffle: true, failing_permille: 0, build_defaults: false, slot: 0 }, &mut c);
    }
    let ids: Vec<u32> = f.terms.iter().map(|t| t.0).collect();
    let combs = ["funsimavg", "funsimmax", "bma"];
    // hand-built matrices: row count fixed by the case index, every column count 0..12
    let r = idx % 13;
    for col in 0..13usize {
        let comb = combs[(idx / 13 + col) % 3];
        let ks = gen_ks(rng, r * col);
        c.op(format!("matsim {} {} {} {}", comb, r, col, ids_str(&ks)));
        c.stat("matrices", 1);
        if r != col && r > 0 && col > 0 {
            c.stat("non_square", 1);
        }
        if r == 0 || col == 0 {
            c.stat("empty", 1);
        }
    }
    // sets through HpoSet::similarity with the injected similarity
    for i in 0..12usize {
        let (na, nb) = match rng.below(8) {
            0 => (0, rng.below(13) as usize),
            1 => (rng.below(13) as usize, 0),
            2 => { let n = rng.range(1, 12) as usize; (n, n) }
            _ => (rng.range(1, 12) as usize, rng.range(1, 12) as usize),
        };
        let a = gen_subset(rng, &ids, na);
        let b = if rng.chance(1, 8) { a.clone() } else { gen_subset(rng, &ids, nb) };
        let spec = format!("{}{}", *rng.pick(&["s", "t", "t", "n", "n", "m", "u", "u", "v", "i", "j", "w", "x"]), rng.below(64));
        c.op(format!("setsim 0 {} {} {} {}", spec, combs[(i + idx) % 3], ids_str(&a), ids_str(&b)));
        c.stat("set_pairs", 1);
        if spec.starts_with('i') || spec.starts_with('j') {
            c.stat("non_finite_tables", 1);
        }
        if a.len() != b.len() && !a.is_empty() && !b.is_empty() {
            c.stat("non_square", 1);
        }
        if a.is_empty() || b.is_empty() {
            c.stat("empty", 1);
        }
    }
    // the two sets belong to two ontology OBJECTS (two releases): a second ontology holding some
    // of the ids and a few of its own; every member is looked up in the ontology of its own set
    {
        let extra = gen_ids(rng, 3, &ids);
        let mut ids2: Vec<u32> = ids.iter().copied().filter(|_| rng.chance(1, 2)).collect();
        ids2.extend(extra.iter().copied());
        c.op("new".to_string());
        for t in &ids2 {
            c.op(format!("term {} {}", t, name("second release")));
        }
        c.op("complete".to_string());
        c.op("connect".to_string());
        c.op("ic".to_string());
        c.op("build min 7".to_string());
        for i in 0..3usize {
            let (na, nb) = (rng.range(1, 8) as usize, rng.range(1, 8) as usize);
            let a = gen_subset(rng, &ids, na);
            let mut b = gen_subset(rng, &ids2, nb);
            b.push(extra[i]);
            let spec = format!("{}{}", *rng.pick(&["s", "t", "n", "u", "w"]), rng.below(64));
            c.op(format!("setsim2 0 7 {} {} {} {}", spec, combs[(i + idx) % 3], ids_str(&a), ids_str(&b)));
            c.stat("set_pairs_across_two_ontologies", 1);
        }
    }
    // the caching adaptor: repeated and overlapping queries through one cache
    for _ in 0..2 {
        let nq = rng.range(2, 7) as usize;
        let mut qs: Vec<(Vec<u32>, Vec<u32>)> = vec![];
        for _ in 0..nq {
            if !qs.is_empty() && rng.chance(1, 3) {
                let q = rng.pick(&qs).clone();
                qs.push(if rng.chance(1, 2) { q } else { (q.1, q.0) }); // repeated / swapped
            } else {
                let na = rng.below(9) as usize;
                let nb = rng.below(9) as usize;
                qs.push((gen_subset(rng, &ids, na), gen_subset(rng, &ids, nb)));
            }
        }
        let spec = format!("{}{}", *rng.pick(&["s", "t", "t", "t", "n", "n", "u", "v", "i", "j", "w", "x"]), rng.below(64));
        let toks: Vec<String> = qs.iter().map(|(a, b)| format!("{}:{}", ids_str(a), ids_str(b))).collect();
        c.op(format!("cachesim 0 {} {} {}", spec, rng.pick(&combs), toks.join(" ")));
        c.stat("cached_queries", nq as u64);
        if spec.starts_with('i') || spec.starts_with('j') {
            c.stat("non_finite_tables", 1);
        }
    }
    c.nontrivial = true;
    c
}

fn ids_str(v: &[u32]) -> String {
    ids(v.iter().copied())
}
