//! C18: `Ontology::compare` — every accessor of `Comparison`, `HpoTermDelta`, `AnnotationDelta`
//! in canonical order, and an oracle that recomputes all differences from the two ontologies'
//! per-item public accessors (never touching `Comparison`).
//!
//!   compare <a> <b>          a = old (lhs), b = new (rhs)
//!   oracle compare <a> <b>
//!   rtbytes <slot> <dst>     `Ontology::from_bytes(&slot.as_bytes())` into slot <dst>
use crate::interp::Interp;
use crate::proto::*;
use hpo::annotations::{AnnotationId, Disease};
use hpo::comparison::{AnnotationDelta, Comparison, HpoTermDelta};
use hpo::{HpoTermId, Ontology};
use std::collections::{BTreeMap, BTreeSet};
use std::panic::{catch_unwind, AssertUnwindSafe};

fn tid_list(v: Option<&Vec<HpoTermId>>) -> String {
    match v {
        None => "none".to_string(),
        Some(v) => sorted_ids(v.iter().map(|x| x.as_u32())),
    }
}

fn name_pair(p: Option<&(String, String)>) -> String {
    match p {
        None => "none".to_string(),
        Some((a, bb)) => format!("{}/{}", name(a), name(bb)),
    }
}

fn show_term_delta(d: &HpoTermDelta) -> String {
    format!(
        "TD {} name={} addp={} remp={} obs={} repl={}",
        d.id().as_u32(),
        name_pair(d.changed_name()),
        tid_list(d.added_parents()),
        tid_list(d.removed_parents()),
        match d.changed_obsolete() {
            None => "none".to_string(),
            Some((a, bb)) => format!("{}/{}", b(a), b(bb)),
        },
        match d.changed_replacement() {
            None => "none".to_string(),
            Some((a, bb)) => format!("{}/{}", opt(a.map(|x| x.as_u32())), opt(bb.map(|x| x.as_u32()))),
        },
    )
}

/// numeric part of `NCBI-GeneID:5` / `OMIM:5` / `ORPHA:5` (sort key only; the string is printed as is)
fn delta_key(d: &AnnotationDelta) -> u64 {
    d.id().rsplit(':').next().and_then(|x| x.parse::<u64>().ok()).unwrap_or(u64::MAX)
}

fn show_ann_delta(tag: &str, d: &AnnotationDelta) -> String {
    format!(
        "{tag}D {} name={} n={},{} added={} removed={}",
        d.id(),
        name_pair(d.changed_name()),
        d.n_terms().0,
        d.n_terms().1,
        tid_list(d.added_terms()),
        tid_list(d.removed_terms()),
    )
}

fn kind_lines(tag: &str, added: Vec<u32>, removed: Vec<u32>, mut changed: Vec<AnnotationDelta>, out: &mut Vec<String>) {
    out.push(format!("{tag} added={} removed={}", sorted_ids(added), sorted_ids(removed)));
    changed.sort_by_key(delta_key);
    for d in &changed {
        out.push(show_ann_delta(tag, d));
    }
}

fn compare_lines(l: &Ontology, r: &Ontology, out: &mut Vec<String>) {
    let c: Comparison = l.compare(r);
    out.push(format!("DISP {}", name(&c.to_string())));
    out.push(format!(
        "T added={} removed={}",
        sorted_ids(c.added_hpo_terms().iter().map(|t| t.id().as_u32())),
        sorted_ids(c.removed_hpo_terms().iter().map(|t| t.id().as_u32()))
    ));
    match catch_unwind(AssertUnwindSafe(|| c.changed_hpo_terms())) {
        Ok(mut ds) => {
            ds.sort_by_key(|d| d.id().as_u32());
            for d in &ds {
                out.push(show_term_delta(d));
            }
        }
        Err(_) => out.push("TD panic".to_string()),
    }
    kind_lines(
        "G",
        c.added_genes().iter().map(|g| g.id().as_u32()).collect(),
        c.removed_genes().iter().map(|g| g.id().as_u32()).collect(),
        c.changed_genes(),
        out,
    );
    kind_lines(
        "O",
        c.added_omim_diseases().iter().map(|g| g.id().as_u32()).collect(),
        c.removed_omim_diseases().iter().map(|g| g.id().as_u32()).collect(),
        c.changed_omim_diseases(),
        out,
    );
    kind_lines(
        "R",
        c.added_orpha_diseases().iter().map(|g| g.id().as_u32()).collect(),
        c.removed_orpha_diseases().iter().map(|g| g.id().as_u32()).collect(),
        c.changed_orpha_diseases(),
        out,
    );
}

fn two<'a>(it: &'a Interp, a: &str, bb: &str) -> Option<(&'a Ontology, &'a Ontology)> {
    let l = a.parse::<u32>().ok().and_then(|s| it.slots.get(&s))?;
    let r = bb.parse::<u32>().ok().and_then(|s| it.slots.get(&s))?;
    Some((l, r))
}

pub fn exec(it: &mut Interp, toks: &[&str], out: &mut Vec<String>) -> bool {
    match toks {
        ["compare", a, bb] => {
            match two(it, a, bb) {
                Some((l, r)) => compare_lines(l, r, out),
                None => out.push("noslot".to_string()),
            }
            true
        }
        ["oracle", "compare", a, bb] => {
            match two(it, a, bb) {
                Some((l, r)) => match catch_unwind(AssertUnwindSafe(|| oracle_compare(l, r))) {
                    Ok(Ok(())) => out.push("oracle ok".to_string()),
                    Ok(Err(e)) => out.push(format!("oracle FAIL compare: {e}")),
                    Err(_) => out.push("oracle FAIL compare: panic while every parent id resolves".to_string()),
                },
                None => out.push("noslot".to_string()),
            }
            true
        }
        ["rtbytes", slot, dst] => {
            let Ok(dst) = dst.parse::<u32>() else { return false };
            let Some(o) = slot.parse::<u32>().ok().and_then(|s| it.slots.get(&s)) else {
                out.push("noslot".to_string());
                return true;
            };
            match catch_unwind(AssertUnwindSafe(|| Ontology::from_bytes(&o.as_bytes()))) {
                Ok(Ok(o2)) => {
                    it.slots.insert(dst, o2);
                    out.push("r ok".to_string());
                }
                Ok(Err(_)) => out.push("r err".to_string()),
                Err(_) => out.push("r panic".to_string()),
            }
            true
        }
        _ => false,
    }
}

// ---------------------------------------------------------------- oracle

#[derive(PartialEq, Eq, Debug, Clone)]
struct TermView {
    name: String,
    parents: BTreeSet<u32>,
    obsolete: bool,
    /// the replacement as the comparison's accessors can show it: resolved in the term's own ontology
    repl: Option<u32>,
}

#[derive(PartialEq, Eq, Debug, Clone)]
struct RecView {
    name: String,
    terms: BTreeSet<u32>,
}

fn term_views(o: &Ontology) -> BTreeMap<u32, TermView> {
    o.hpos()
        .map(|t| {
            (
                t.id().as_u32(),
                TermView {
                    name: t.name().to_string(),
                    parents: t.parent_ids().iter().map(|x| x.as_u32()).collect(),
                    obsolete: t.is_obsolete(),
                    repl: t.replacement_id().filter(|x| o.hpo(*x).is_some()).map(|x| x.as_u32()),
                },
            )
        })
        .collect()
}

fn rec_views(o: &Ontology, k: usize) -> BTreeMap<u32, RecView> {
    let f = |n: &str, g: &hpo::term::HpoGroup| RecView { name: n.to_string(), terms: g.iter().map(|x| x.as_u32()).collect() };
    match k {
        0 => o.genes().map(|g| (g.id().as_u32(), f(g.name(), g.hpo_terms()))).collect(),
        1 => o.omim_diseases().map(|g| (g.id().as_u32(), f(g.name(), g.hpo_terms()))).collect(),
        _ => o.orpha_diseases().map(|g| (g.id().as_u32(), f(g.name(), g.hpo_terms()))).collect(),
    }
}

fn set_of<I: IntoIterator<Item = u32>>(what: &str, it: I) -> Result<BTreeSet<u32>, String> {
    let v: Vec<u32> = it.into_iter().collect();
    let s: BTreeSet<u32> = v.iter().copied().collect();
    if s.len() != v.len() {
        return Err(format!("{what}: an id is reported twice: {:?}", v));
    }
    Ok(s)
}

fn opt_set(v: Option<&Vec<HpoTermId>>, what: &str) -> Result<BTreeSet<u32>, String> {
    match v {
        None => Ok(BTreeSet::new()),
        Some(v) if v.is_empty() => Err(format!("{what}: Some(empty)")),
        Some(v) => set_of(what, v.iter().map(|x| x.as_u32())),
    }
}

fn check_ann(
    what: &str,
    prefix: &str,
    lv: &BTreeMap<u32, RecView>,
    rv: &BTreeMap<u32, RecView>,
    added: Vec<u32>,
    removed: Vec<u32>,
    changed: Vec<AnnotationDelta>,
) -> Result<(), String> {
    let want_added: BTreeSet<u32> = rv.keys().copied().filter(|x| !lv.contains_key(x)).collect();
    let want_removed: BTreeSet<u32> = lv.keys().copied().filter(|x| !rv.contains_key(x)).collect();
    if set_of(what, added)? != want_added {
        return Err(format!("added {what}: expected {:?}", want_added));
    }
    if set_of(what, removed)? != want_removed {
        return Err(format!("removed {what}: expected {:?}", want_removed));
    }
    let want_changed: BTreeSet<u32> = lv.iter().filter(|(k, v)| rv.get(k).is_some_and(|w| w != *v)).map(|(k, _)| *k).collect();
    let mut seen = BTreeSet::new();
    for d in &changed {
        let Some(num) = d.id().strip_prefix(prefix).and_then(|x| x.parse::<u32>().ok()) else {
            return Err(format!("changed {what}: id string {:?} is not {prefix}<n>", d.id()));
        };
        if !seen.insert(num) {
            return Err(format!("changed {what}: {num} reported twice"));
        }
        let (Some(a), Some(bb)) = (lv.get(&num), rv.get(&num)) else {
            return Err(format!("changed {what}: {num} is not in both ontologies"));
        };
        let want_name = if a.name != bb.name { Some((a.name.clone(), bb.name.clone())) } else { None };
        if d.changed_name().cloned() != want_name {
            return Err(format!("changed {what} {num}: changed_name {:?}, expected {:?}", d.changed_name(), want_name));
        }
        let wa: BTreeSet<u32> = bb.terms.difference(&a.terms).copied().collect();
        let wr: BTreeSet<u32> = a.terms.difference(&bb.terms).copied().collect();
        if opt_set(d.added_terms(), "added_terms")? != wa {
            return Err(format!("changed {what} {num}: added_terms {:?}, expected {:?}", d.added_terms(), wa));
        }
        if opt_set(d.removed_terms(), "removed_terms")? != wr {
            return Err(format!("changed {what} {num}: removed_terms {:?}, expected {:?}", d.removed_terms(), wr));
        }
        if d.n_terms() != (a.terms.len(), bb.terms.len()) {
            return Err(format!("changed {what} {num}: n_terms {:?}", d.n_terms()));
        }
    }
    if seen != want_changed {
        return Err(format!("changed {what}: reported {:?}, expected {:?}", seen, want_changed));
    }
    Ok(())
}

pub fn oracle_compare(l: &Ontology, r: &Ontology) -> Result<(), String> {
    let (lt, rt) = (term_views(l), term_views(r));
    // `changed_hpo_terms` is documented on resolved parents; with a parent id that is not a term
    // the resolving iterator panics: nothing to recompute then
    let dangling = |o: &Ontology, v: &BTreeMap<u32, TermView>| v.values().any(|t| t.parents.iter().any(|p| o.hpo(*p).is_none()));
    let skip_terms = dangling(l, &lt) || dangling(r, &rt);
    let c = l.compare(r);
    let want_added: BTreeSet<u32> = rt.keys().copied().filter(|x| !lt.contains_key(x)).collect();
    let want_removed: BTreeSet<u32> = lt.keys().copied().filter(|x| !rt.contains_key(x)).collect();
    let added = c.added_hpo_terms();
    let removed = c.removed_hpo_terms();
    if set_of("added terms", added.iter().map(|t| t.id().as_u32()))? != want_added {
        return Err(format!("added terms: expected {:?}", want_added));
    }
    if set_of("removed terms", removed.iter().map(|t| t.id().as_u32()))? != want_removed {
        return Err(format!("removed terms: expected {:?}", want_removed));
    }
    // the returned views belong to the ontology that has the term
    for t in &added {
        if rt.get(&t.id().as_u32()).map(|v| v.name.as_str()) != Some(t.name()) {
            return Err(format!("added term {} is not the new ontology's term", t.id()));
        }
    }
    for t in &removed {
        if lt.get(&t.id().as_u32()).map(|v| v.name.as_str()) != Some(t.name()) {
            return Err(format!("removed term {} is not the old ontology's term", t.id()));
        }
    }
    if !skip_terms {
        let want_changed: BTreeSet<u32> = lt.iter().filter(|(k, v)| rt.get(k).is_some_and(|w| w != *v)).map(|(k, _)| *k).collect();
        let mut seen = BTreeSet::new();
        for d in c.changed_hpo_terms() {
            let id = d.id().as_u32();
            if !seen.insert(id) {
                return Err(format!("changed terms: {id} reported twice"));
            }
            let (Some(a), Some(bb)) = (lt.get(&id), rt.get(&id)) else {
                return Err(format!("changed terms: {id} is not in both ontologies"));
            };
            let want_name = if a.name != bb.name { Some((a.name.clone(), bb.name.clone())) } else { None };
            if d.changed_name().cloned() != want_name {
                return Err(format!("term {id}: changed_name {:?}, expected {:?}", d.changed_name(), want_name));
            }
            let wa: BTreeSet<u32> = bb.parents.difference(&a.parents).copied().collect();
            let wr: BTreeSet<u32> = a.parents.difference(&bb.parents).copied().collect();
            if opt_set(d.added_parents(), "added_parents")? != wa {
                return Err(format!("term {id}: added_parents {:?}, expected {:?} (new \\ old)", d.added_parents(), wa));
            }
            if opt_set(d.removed_parents(), "removed_parents")? != wr {
                return Err(format!("term {id}: removed_parents {:?}, expected {:?} (old \\ new)", d.removed_parents(), wr));
            }
            let want_obs = if a.obsolete != bb.obsolete { Some((a.obsolete, bb.obsolete)) } else { None };
            if d.changed_obsolete() != want_obs {
                return Err(format!("term {id}: changed_obsolete {:?}, expected {:?}", d.changed_obsolete(), want_obs));
            }
            let want_repl = if a.repl != bb.repl { Some((a.repl, bb.repl)) } else { None };
            let got_repl = d.changed_replacement().map(|(x, y)| (x.map(|v| v.as_u32()), y.map(|v| v.as_u32())));
            if got_repl != want_repl {
                return Err(format!("term {id}: changed_replacement {:?}, expected {:?}", got_repl, want_repl));
            }
        }
        if seen != want_changed {
            return Err(format!("changed terms: reported {:?}, expected {:?}", seen, want_changed));
        }
    }
    check_ann(
        "genes",
        "NCBI-GeneID:",
        &rec_views(l, 0),
        &rec_views(r, 0),
        c.added_genes().iter().map(|g| g.id().as_u32()).collect(),
        c.removed_genes().iter().map(|g| g.id().as_u32()).collect(),
        c.changed_genes(),
    )?;
    check_ann(
        "omim diseases",
        "OMIM:",
        &rec_views(l, 1),
        &rec_views(r, 1),
        c.added_omim_diseases().iter().map(|g| g.id().as_u32()).collect(),
        c.removed_omim_diseases().iter().map(|g| g.id().as_u32()).collect(),
        c.changed_omim_diseases(),
    )?;
    check_ann(
        "orpha diseases",
        "ORPHA:",
        &rec_views(l, 2),
        &rec_views(r, 2),
        c.added_orpha_diseases().iter().map(|g| g.id().as_u32()).collect(),
        c.removed_orpha_diseases().iter().map(|g| g.id().as_u32()).collect(),
        c.changed_orpha_diseases(),
    )?;
    // swapping the arguments swaps added with removed and mirrors every delta
    let s = r.compare(l);
    let ids_of = |v: Vec<hpo::HpoTerm>| -> BTreeSet<u32> { v.iter().map(|t| t.id().as_u32()).collect() };
    if ids_of(s.added_hpo_terms()) != want_removed || ids_of(s.removed_hpo_terms()) != want_added {
        return Err("swapped comparison: added/removed terms are not swapped".to_string());
    }
    Ok(())
}
