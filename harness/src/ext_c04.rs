//! C04 ops: built-in term similarities on all ordered pairs of an ontology.
//!
//!   sim <slot> <hex name> <g|o|r>   `Builtins::new(name, kind)`; per term `a` (ascending id) one line
//!                                   `S <a> <f32 score vs. every b ascending>`; then the harness's own
//!                                   bit-exact checks as `oracle ok` / `oracle FAIL …`
//!   simname <hex name>              dispatch only: `simname ok <canonical>` / `simname err`
use crate::interp::Interp;
use crate::proto::*;
use hpo::similarity::{
    Builtins, Distance, GraphIc, InformationCoefficient, Jc, Lin, Mutation, Relevance, Resnik, Similarity,
};
use hpo::annotations::AnnotationId;
use hpo::term::InformationContentKind;
use hpo::HpoTerm;

pub fn kind_of(k: &str) -> Option<InformationContentKind> {
    match k {
        "g" => Some(InformationContentKind::Gene),
        "o" => Some(InformationContentKind::Omim),
        "r" => Some(InformationContentKind::Orpha),
        _ => None,
    }
}

fn canonical(b: &Builtins) -> &'static str {
    match b {
        Builtins::Distance(_) => "distance",
        Builtins::GraphIc(_) => "graphic",
        Builtins::InformationCoefficient(_) => "informationcoefficient",
        Builtins::Jc(_) => "jc",
        Builtins::Lin(_) => "lin",
        Builtins::Mutation(_) => "mutation",
        Builtins::Relevance(_) => "relevance",
        Builtins::Resnik(_) => "resnik",
    }
}

/// the harness's own alias table (documented names of `Builtins::new`), ASCII case-insensitive
fn expected_variant(name: &str, kind: InformationContentKind) -> Option<Builtins> {
    let l = name.to_ascii_lowercase();
    Some(match l.as_str() {
        "graphic" => Builtins::GraphIc(kind),
        "resnik" => Builtins::Resnik(kind),
        "distance" | "dist" => Builtins::Distance(kind),
        "informationcoefficient" | "ic" => Builtins::InformationCoefficient(kind),
        "jc" | "jc2" => Builtins::Jc(kind),
        "lin" => Builtins::Lin(kind),
        "relevance" | "rel" => Builtins::Relevance(kind),
        "mutation" | "mut" => Builtins::Mutation(kind),
        _ => return None,
    })
}

/// One long-lived object per algorithm and kind, used for every `sim` op of a case (also across
/// the ontologies of the case): a similarity object carries no state from one call to the next.
pub struct SimObjs {
    pub dist: Distance,
    graphic: [GraphIc; 3],
    ic: [InformationCoefficient; 3],
    jc: [Jc; 3],
    lin: [Lin; 3],
    mutation: [Mutation; 3],
    relevance: [Relevance; 3],
    resnik: [Resnik; 3],
}

const IC_KINDS: [InformationContentKind; 3] =
    [InformationContentKind::Gene, InformationContentKind::Omim, InformationContentKind::Orpha];

impl Default for SimObjs {
    fn default() -> Self {
        SimObjs {
            dist: Distance::new(),
            graphic: IC_KINDS.map(GraphIc::new),
            ic: IC_KINDS.map(InformationCoefficient::new),
            jc: IC_KINDS.map(Jc::new),
            lin: IC_KINDS.map(Lin::new),
            mutation: IC_KINDS.map(Mutation::new),
            relevance: IC_KINDS.map(Relevance::new),
            resnik: IC_KINDS.map(Resnik::new),
        }
    }
}

fn kidx(k: &InformationContentKind) -> usize {
    match k {
        InformationContentKind::Gene => 0,
        InformationContentKind::Omim => 1,
        InformationContentKind::Orpha => 2,
    }
}

/// the concrete struct behind a `Builtins` variant: the case's long-lived object AND a fresh one
fn concrete(objs: &SimObjs, b: &Builtins, x: &HpoTerm, y: &HpoTerm) -> (f32, f32) {
    match b {
        Builtins::Distance(_) => (objs.dist.calculate(x, y), Distance::new().calculate(x, y)),
        Builtins::GraphIc(k) => (objs.graphic[kidx(k)].calculate(x, y), GraphIc::new(*k).calculate(x, y)),
        Builtins::InformationCoefficient(k) => {
            (objs.ic[kidx(k)].calculate(x, y), InformationCoefficient::new(*k).calculate(x, y))
        }
        Builtins::Jc(k) => (objs.jc[kidx(k)].calculate(x, y), Jc::new(*k).calculate(x, y)),
        Builtins::Lin(k) => (objs.lin[kidx(k)].calculate(x, y), Lin::new(*k).calculate(x, y)),
        Builtins::Mutation(k) => (objs.mutation[kidx(k)].calculate(x, y), Mutation::new(*k).calculate(x, y)),
        Builtins::Relevance(k) => (objs.relevance[kidx(k)].calculate(x, y), Relevance::new(*k).calculate(x, y)),
        Builtins::Resnik(k) => (objs.resnik[kidx(k)].calculate(x, y), Resnik::new(*k).calculate(x, y)),
    }
}

fn n_ann(t: &HpoTerm, k: InformationContentKind) -> usize {
    match k {
        InformationContentKind::Gene => t.gene_ids().len(),
        InformationContentKind::Omim => t.omim_disease_ids().len(),
        InformationContentKind::Orpha => t.orpha_disease_ids().len(),
    }
}

pub fn exec(it: &mut Interp, toks: &[&str], out: &mut Vec<String>) -> bool {
    match toks {
        ["simname", nm] => {
            let Some(nm) = unname(nm) else { return false };
            match Builtins::new(&nm, InformationContentKind::Omim) {
                Ok(b) => {
                    out.push(format!("simname ok {}", canonical(&b)));
                    // the kind is passed through
                    for k in [InformationContentKind::Gene, InformationContentKind::Omim, InformationContentKind::Orpha] {
                        if Builtins::new(&nm, k).ok() != expected_variant(&nm, k) {
                            out.push("oracle FAIL simname: variant/kind differs from the documented table".to_string());
                        }
                    }
                }
                Err(_) => out.push("simname err".to_string()),
            }
            true
        }
        ["simpair", slot, nm, k, a, b] => {
            // one pair of terms (ontologies too deep for the all-pairs listing)
            let (Some(nm), Some(kind), Ok(a), Ok(b)) = (unname(nm), kind_of(k), a.parse::<u32>(), b.parse::<u32>()) else { return false };
            let Some(o) = slot.parse::<u32>().ok().and_then(|s| it.slots.get(&s)) else {
                out.push("noslot".to_string());
                return true;
            };
            match (Builtins::new(&nm, kind), o.hpo(a), o.hpo(b)) {
                (Ok(bi), Some(ta), Some(tb)) => {
                    let s = bi.calculate(&ta, &tb);
                    out.push(format!("SP {}", f32bits(s)));
                    let s2 = ta.similarity_score(&tb, &bi);
                    if s2.to_bits() != s.to_bits() {
                        out.push(format!("oracle FAIL simpair dispatch {a},{b}: builtins {s} similarity_score {s2}").replace(": ", ":_"));
                    }
                }
                _ => out.push("sim err".to_string()),
            }
            true
        }
        ["sim", slot, nm, k] => {
            let (Some(nm), Some(kind)) = (unname(nm), kind_of(k)) else { return false };
            let Some(o) = slot.parse::<u32>().ok().and_then(|s| it.slots.get(&s)) else {
                out.push("noslot".to_string());
                return true;
            };
            let Ok(bi) = Builtins::new(&nm, kind) else {
                out.push("sim err".to_string());
                return true;
            };
            let mut fails: Vec<String> = vec![];
            match expected_variant(&nm, kind) {
                Some(e) if e == bi => {}
                other => fails.push(format!("Builtins::new({nm:?}) = {bi:?}, documented {other:?}")),
            }
            let mut tids: Vec<u32> = o.hpos().map(|t| t.id().as_u32()).collect();
            tids.sort_unstable();
            let n = tids.len();
            let mut sc = vec![0f32; n * n];
            for (i, a) in tids.iter().enumerate() {
                let ta = o.hpo(*a).expect("term");
                let mut line = format!("S {a}");
                for (j, b) in tids.iter().enumerate() {
                    let tb = o.hpo(*b).expect("term");
                    let s = bi.calculate(&ta, &tb);
                    sc[i * n + j] = s;
                    line.push(' ');
                    line.push_str(&f32bits(s));
                    // dispatch: all routes to the same algorithm agree bit for bit
                    let s2 = ta.similarity_score(&tb, &bi);
                    let (s3, s4) = concrete(&it.sims, &bi, &ta, &tb);
                    if s2.to_bits() != s.to_bits() || s3.to_bits() != s.to_bits() || s4.to_bits() != s.to_bits() {
                        fails.push(format!(
                            "dispatch {a},{b}: builtins {s} similarity_score {s2} long-lived struct {s3} fresh struct {s4}"
                        ));
                    }
                    if !s.is_finite() {
                        fails.push(format!("not finite {a},{b}: {s}"));
                    } else if !(s >= 0.0) {
                        fails.push(format!("negative {a},{b}: {s}"));
                    }
                    let alg = canonical(&bi);
                    if a == b && matches!(alg, "graphic" | "jc" | "distance" | "mutation") && s.to_bits() != 1.0f32.to_bits() {
                        fails.push(format!("self {a}: {s} (documented 1)"));
                    }
                    if a != b && alg == "mutation" && n_ann(&ta, kind) == 0 && n_ann(&tb, kind) == 0 && s != 0.0 {
                        fails.push(format!("mutation of unannotated {a},{b}: {s} (documented 0)"));
                    }
                }
                out.push(line);
            }
            for i in 0..n {
                for j in 0..i {
                    if sc[i * n + j].to_bits() != sc[j * n + i].to_bits() {
                        fails.push(format!("asymmetric {},{}: {} vs {}", tids[i], tids[j], sc[i * n + j], sc[j * n + i]));
                    }
                }
            }
            match fails.first() {
                None => out.push("oracle ok".to_string()),
                Some(f) => out.push(format!("oracle FAIL sim {} {}: {} ({} failures)", canonical(&bi), k, f, fails.len())),
            }
            true
        }
        _ => crate::ext_c05::exec(it, toks, out),
    }
}
