//! C14: sub-ontologies.
//!
//! `sub <src> <dst> <root> <leaves>`      `Ontology::sub_ontology` -> `r ok` (result stored in slot dst) | `r err`
//! `oracle sub <src> <root> <leaves>`     the property's clauses evaluated on the implementation's result
//!                                        against the source ontology (independent BFS computations)
use crate::ext_c11::{parent_map, tids, up_dists};
use crate::interp::Interp;
use crate::proto::*;
use hpo::annotations::{AnnotationId, Disease};
use hpo::{HpoTerm, Ontology};
use std::collections::{BTreeMap, BTreeSet};

fn call(o: &Ontology, root: u32, leaves: &[u32]) -> Option<Result<Ontology, ()>> {
    let rt = o.hpo(root)?;
    let mut lts: Vec<HpoTerm> = vec![];
    for l in leaves {
        lts.push(o.hpo(*l)?);
    }
    Some(o.sub_ontology(rt, lts).map_err(|_| ()))
}

pub fn exec(it: &mut Interp, toks: &[&str], out: &mut Vec<String>) -> bool {
    match toks {
        ["sub", src, dst, root, leaves] => {
            let (Ok(src), Ok(dst), Ok(root), Some(leaves)) = (src.parse::<u32>(), dst.parse::<u32>(), root.parse::<u32>(), unids(leaves)) else {
                return false;
            };
            let Some(o) = it.slots.get(&src) else {
                out.push("noslot".to_string());
                return true;
            };
            match call(o, root, &leaves) {
                None => false,
                Some(Ok(s)) => {
                    it.slots.insert(dst, s);
                    out.push("r ok".to_string());
                    true
                }
                Some(Err(())) => {
                    out.push("r err".to_string());
                    true
                }
            }
        }
        ["setmod" | "setcat", slot, v] => {
            // `set_default_modifier` / `set_default_categories` (`def`) or an assignment through
            // `modifier_mut` / `categories_mut`, in place on the ontology of the slot
            let Ok(slot) = slot.parse::<u32>() else { return false };
            let ids = if *v == "def" { None } else { let Some(l) = unids(v) else { return false }; Some(l) };
            let Some(o) = it.slots.get_mut(&slot) else {
                out.push("noslot".to_string());
                return true;
            };
            let r = match (toks[0], ids) {
                ("setmod", None) => o.set_default_modifier().is_ok(),
                (_, None) => o.set_default_categories().is_ok(),
                ("setmod", Some(l)) => {
                    *o.modifier_mut() = hpo::term::HpoGroup::from(l);
                    true
                }
                (_, Some(l)) => {
                    *o.categories_mut() = hpo::term::HpoGroup::from(l);
                    true
                }
            };
            out.push(if r { "r ok" } else { "r err" }.to_string());
            true
        }
        ["oracle", "sub", src, root, leaves] => {
            let (Ok(src), Ok(root), Some(leaves)) = (src.parse::<u32>(), root.parse::<u32>(), unids(leaves)) else {
                return false;
            };
            let Some(o) = it.slots.get(&src) else {
                out.push("noslot".to_string());
                return true;
            };
            let Some(r) = call(o, root, &leaves) else { return false };
            match oracle_sub(o, root, &leaves, r.as_ref().ok()) {
                Ok(()) => out.push("oracle ok".to_string()),
                Err(e) => out.push(format!("oracle FAIL sub: {e}")),
            }
            true
        }
        _ => false,
    }
}

fn set<I: IntoIterator<Item = u32>>(it: I) -> BTreeSet<u32> {
    it.into_iter().collect()
}

/// (id, name, direct terms) of every record of one kind
fn records(o: &Ontology, k: usize) -> BTreeMap<u32, (String, BTreeSet<u32>)> {
    let mut m = BTreeMap::new();
    match k {
        0 => {
            for g in o.genes() {
                m.insert(g.id().as_u32(), (g.name().to_string(), set(g.hpo_terms().iter().map(|x| x.as_u32()))));
            }
        }
        1 => {
            for g in o.omim_diseases() {
                m.insert(g.id().as_u32(), (g.name().to_string(), set(g.hpo_terms().iter().map(|x| x.as_u32()))));
            }
        }
        _ => {
            for g in o.orpha_diseases() {
                m.insert(g.id().as_u32(), (g.name().to_string(), set(g.hpo_terms().iter().map(|x| x.as_u32()))));
            }
        }
    }
    m
}

fn oracle_sub(o: &Ontology, root: u32, leaves: &[u32], res: Option<&Ontology>) -> Result<(), String> {
    let par = parent_map(o);
    let up: BTreeMap<u32, BTreeMap<u32, usize>> = tids(o).iter().map(|i| (*i, up_dists(&par, *i))).collect();
    // refused iff some leaf is neither root nor a descendant of root
    let outside: Vec<u32> = leaves.iter().copied().filter(|l| !up[l].contains_key(&root)).collect();
    let Some(s) = res else {
        if outside.is_empty() {
            return Err(format!("refused although every leaf of {leaves:?} is {root} or a descendant of it"));
        }
        return Ok(());
    };
    if !outside.is_empty() {
        return Err(format!("accepted although {outside:?} are not below {root}"));
    }
    let kept = set(tids(s));
    // contains root and every leaf
    if !leaves.is_empty() && !kept.contains(&root) {
        return Err(format!("root {root} missing"));
    }
    for l in leaves {
        if !kept.contains(l) {
            return Err(format!("leaf {l} missing"));
        }
    }
    // only terms of the source that lie on a shortest chain from some leaf to root
    for t in &kept {
        if !up.contains_key(t) {
            return Err(format!("{t} is not a term of the source"));
        }
        let on_chain = leaves.iter().any(|l| match (up[l].get(t), up[t].get(&root), up[l].get(&root)) {
            (Some(x), Some(y), Some(z)) => x + y == *z,
            _ => false,
        });
        if !on_chain {
            return Err(format!("{t} is retained but lies on no shortest chain from a leaf to {root}"));
        }
    }
    // names and flags copied; parent links exactly the induced ones
    let spar = parent_map(s);
    for t in &kept {
        let (a, b) = (o.hpo(*t).unwrap(), s.hpo(*t).unwrap());
        if a.name() != b.name() {
            return Err(format!("name of {t} not copied"));
        }
        if a.is_obsolete() != b.is_obsolete() {
            return Err(format!("obsolete flag of {t} not copied"));
        }
        if a.replacement_id() != b.replacement_id() {
            return Err(format!("replacement of {t} not copied"));
        }
        let want: Vec<u32> = par[t].iter().copied().filter(|p| kept.contains(p)).collect();
        if spar[t] != want {
            return Err(format!("parents of {t}: {:?}, induced links are {:?}", spar[t], want));
        }
        let wantc: Vec<u32> = a.children_ids().iter().map(|x| x.as_u32()).filter(|c| kept.contains(c)).collect();
        let gotc: Vec<u32> = b.children_ids().iter().map(|x| x.as_u32()).collect();
        if gotc != wantc {
            return Err(format!("children of {t}: {gotc:?}, induced links are {wantc:?}"));
        }
    }
    // each leaf reaches root at its original distance
    for l in leaves {
        let d_new = up_dists(&spar, *l).get(&root).copied();
        let d_old = up[l].get(&root).copied();
        if d_new != d_old {
            return Err(format!("distance {l} -> {root}: {d_new:?} in the sub-ontology, {d_old:?} in the source"));
        }
        // (the source's own answer, the "original distance" a caller would compare with)
        let d_src = o.hpo(*l).unwrap().distance_to_ancestor(&o.hpo(root).unwrap());
        if d_src != d_old {
            return Err(format!("distance_to_ancestor({l},{root}) in the source = {d_src:?}, shortest chain {d_old:?}"));
        }
        let d_api = s.hpo(*l).unwrap().distance_to_ancestor(&s.hpo(root).unwrap());
        if d_api != d_old {
            return Err(format!("distance_to_ancestor({l},{root}) in the sub-ontology = {d_api:?}, source {d_old:?}"));
        }
    }
    // records: kept iff directly annotated to a retained non-modifier term; then hpos = original ∩ retained
    let modifier: Vec<u32> = o.modifier().iter().map(|x| x.as_u32()).collect();
    let is_mod = |t: u32| modifier.iter().any(|m| up[&t].contains_key(m));
    for k in 0..3 {
        let (src, dst) = (records(o, k), records(s, k));
        for (id, (nm, hpos)) in &src {
            let retained: BTreeSet<u32> = hpos.intersection(&kept).copied().collect();
            let keep = retained.iter().any(|t| !is_mod(*t));
            match dst.get(id) {
                None if keep => return Err(format!("record {k}/{id} with phenotype term(s) {retained:?} was dropped")),
                Some(_) if !keep => return Err(format!("record {k}/{id} kept although its retained direct terms {retained:?} are all modifier terms")),
                Some((nm2, hpos2)) => {
                    if nm != nm2 {
                        return Err(format!("record {k}/{id}: name not copied"));
                    }
                    if *hpos2 != retained {
                        return Err(format!("record {k}/{id}: linked to {hpos2:?}, retained direct terms are {retained:?}"));
                    }
                }
                None => {}
            }
        }
        for id in dst.keys() {
            if !src.contains_key(id) {
                return Err(format!("record {k}/{id} is not a record of the source"));
            }
        }
    }
    Ok(())
}
