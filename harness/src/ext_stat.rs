//! Ops of the statistics module: hypergeometric enrichment (C06) and hierarchical clustering (C17).
//!
//!   enrich <slot> <g|o|r> <background ids | *> <sample ids>
//!   link <union|single|complete|average> <slot> <term ids> <table>
//!   linkm <method> <slot> <set|set|…> <table>      (input sets of several terms, ids ascending)
//!
//! Both print the implementation's answer in canonical form (compared with the Lean model) and
//! then the verdict of an independent oracle on that answer (`oracle ok` / `oracle FAIL …`).
use crate::interp::Interp;
use crate::proto::*;
use hpo::annotations::AnnotationId;
use hpo::stats::hypergeom::{gene_enrichment, omim_disease_enrichment, orpha_disease_enrichment};
use hpo::stats::Linkage;
use hpo::utils::Combinations;
use hpo::{HpoSet, HpoTerm, Ontology};
use std::cell::RefCell;
use std::collections::{BTreeMap, BTreeSet};

pub fn exec(it: &mut Interp, toks: &[&str], out: &mut Vec<String>) -> bool {
    match toks {
        ["enrich", slot, k, bg, smp] => {
            let (Ok(slot), Some(smp)) = (slot.parse::<u32>(), unids(smp)) else { return false };
            let bg_ids = if *bg == "*" { None } else { let Some(v) = unids(bg) else { return false }; Some(v) };
            let Some(kind) = crate::ext3::kind_idx(k) else { return false };
            match it.slots.get(&slot) {
                Some(o) => enrich(o, kind, bg_ids, smp, out),
                None => out.push("noslot".to_string()),
            }
            true
        }
        ["enrichbig", big_n, big_k, n, k] => {
            // a flat ontology of N terms (ids 1..=N), gene 1 on the terms 1..=K, the sample = k of
            // those and n-k of the others; the whole ontology is the background
            let (Ok(big_n), Ok(big_k), Ok(n), Ok(k)) = (big_n.parse::<u32>(), big_k.parse::<u32>(), n.parse::<u32>(), k.parse::<u32>())
            else {
                return false;
            };
            if k == 0 || k > big_k || k > n || big_k + (n - k) > big_n || big_n > 9_999_999 {
                return false;
            }
            let mut b = hpo::builder::Builder::new();
            for id in 1..=big_n {
                b.new_term("t", id);
            }
            let mut b = b.terms_complete().connect_all_terms();
            for id in 1..=big_k {
                if b.annotate_gene(hpo::annotations::GeneId::from(1u32), "G", hpo::HpoTermId::from(id)).is_err() {
                    out.push("oracle FAIL enrichbig: annotate failed".to_string());
                    return true;
                }
            }
            let Ok(b) = b.calculate_information_content() else {
                out.push("oracle FAIL enrichbig: ic failed".to_string());
                return true;
            };
            let o = b.build_minimal();
            let smp: Vec<u32> = (1..=k).chain(big_k + 1..=big_k + (n - k)).collect();
            let sample = HpoSet::new(&o, crate::ext::mk_group(&smp));
            let recs = gene_enrichment(&o, &sample);
            out.push(format!("ENR N={} n={} records={}", o.len(), sample.len(), recs.len()));
            for e in &recs {
                let wide = |x: f64| f64bits(x).replacen("f64:", "f64w:", 1);
                out.push(format!("E {} {} {} {}", e.id().as_u32(), e.count(), wide(e.pvalue()), wide(e.enrichment())));
            }
            true
        }
        ["link", m, slot, ids, table] => {
            let (Ok(slot), Some(ids), Some(table)) = (slot.parse::<u32>(), unids(ids), unids(table)) else { return false };
            if !["union", "single", "complete", "average"].contains(m) {
                return false;
            }
            let sets: Vec<Vec<u32>> = ids.iter().map(|i| vec![*i]).collect();
            match it.slots.get(&slot) {
                Some(o) => link(o, m, &sets, &table, out),
                None => out.push("noslot".to_string()),
            }
            true
        }
        ["linkm", m, slot, sets, table] => {
            let (Ok(slot), Some(table)) = (slot.parse::<u32>(), unids(table)) else { return false };
            let sets: Option<Vec<Vec<u32>>> = sets.split('|').map(unids).collect();
            let Some(sets) = sets else { return false };
            if !["union", "single", "complete", "average"].contains(m) {
                return false;
            }
            match it.slots.get(&slot) {
                Some(o) => link(o, m, &sets, &table, out),
                None => out.push("noslot".to_string()),
            }
            true
        }
        _ => false,
    }
}

// ------------------------------------------------------------------------------------ C06

struct Rec {
    id: u32,
    count: u64,
    p: f64,
    fold: f64,
}

fn ann_ids(t: &HpoTerm<'_>, kind: usize) -> Vec<u32> {
    match kind {
        0 => t.gene_ids().iter().map(|g| g.as_u32()).collect(),
        1 => t.omim_disease_ids().iter().map(|g| g.as_u32()).collect(),
        _ => t.orpha_disease_ids().iter().map(|g| g.as_u32()).collect(),
    }
}

fn enrich(o: &Ontology, kind: usize, bg_ids: Option<Vec<u32>>, smp: Vec<u32>, out: &mut Vec<String>) {
    let sample = HpoSet::new(o, crate::ext::mk_group(&smp));
    let bgset = bg_ids.map(|v| HpoSet::new(o, crate::ext::mk_group(&v)));
    macro_rules! collect {
        ($f:ident) => {{
            let v = match &bgset {
                Some(b) => $f(b, &sample),
                None => $f(o, &sample),
            };
            v.iter().map(|e| Rec { id: e.id().as_u32(), count: e.count(), p: e.pvalue(), fold: e.enrichment() }).collect::<Vec<Rec>>()
        }};
    }
    let mut recs: Vec<Rec> = match kind {
        0 => collect!(gene_enrichment),
        1 => collect!(omim_disease_enrichment),
        _ => collect!(orpha_disease_enrichment),
    };
    recs.sort_by_key(|r| r.id);
    let big_n = match &bgset {
        Some(b) => b.len(),
        None => o.len(),
    };
    let n = sample.len();
    out.push(format!("ENR N={} n={} records={}", big_n, n, recs.len()));
    for r in &recs {
        out.push(format!("E {} {} {} {}", r.id, r.count, f64bits(r.p), f64bits(r.fold)));
    }
    // ---- independent oracle on the implementation's answer
    let bg_terms: Vec<HpoTerm<'_>> = match &bgset {
        Some(b) => b.iter().collect(),
        None => o.hpos().collect(),
    };
    let mut k_bg: BTreeMap<u32, u64> = BTreeMap::new();
    for t in &bg_terms {
        for id in ann_ids(t, kind) {
            *k_bg.entry(id).or_insert(0) += 1;
        }
    }
    let mut k_smp: BTreeMap<u32, u64> = BTreeMap::new();
    for t in sample.iter() {
        for id in ann_ids(&t, kind) {
            *k_smp.entry(id).or_insert(0) += 1;
        }
    }
    let mut fails: Vec<String> = vec![];
    // the functions take any `IntoIterator<Item = HpoTerm>`: the same terms handed over as vectors
    // (exact size hints) and as filtered walks over the whole ontology (size hints far above the
    // number of terms yielded) give the same records, bit for bit
    {
        let smp_ids: BTreeSet<u32> = sample.iter().map(|t| t.id().as_u32()).collect();
        let bg_idset: BTreeSet<u32> = bg_terms.iter().map(|t| t.id().as_u32()).collect();
        macro_rules! again {
            ($f:ident, $bg:expr, $smp:expr) => {{
                let mut v: Vec<(u32, u64, u64, u64)> =
                    $f($bg, $smp).iter().map(|e| (e.id().as_u32(), e.count(), e.pvalue().to_bits(), e.enrichment().to_bits())).collect();
                v.sort_unstable();
                v
            }};
        }
        let first: Vec<(u32, u64, u64, u64)> = recs.iter().map(|r| (r.id, r.count, r.p.to_bits(), r.fold.to_bits())).collect();
        let smp_vec: Vec<HpoTerm<'_>> = sample.iter().collect();
        let as_vec = match kind {
            0 => again!(gene_enrichment, bg_terms.clone(), smp_vec.clone()),
            1 => again!(omim_disease_enrichment, bg_terms.clone(), smp_vec.clone()),
            _ => again!(orpha_disease_enrichment, bg_terms.clone(), smp_vec.clone()),
        };
        // (a filtered walk over a VECTOR of all terms: its size hint has an upper bound, the number
        // of all terms, which is not the number of terms yielded)
        let all: Vec<HpoTerm<'_>> = o.hpos().collect();
        let as_filter = match kind {
            0 => again!(gene_enrichment, all.clone().into_iter().filter(|t| bg_idset.contains(&t.id().as_u32())), all.clone().into_iter().filter(|t| smp_ids.contains(&t.id().as_u32()))),
            1 => again!(omim_disease_enrichment, all.clone().into_iter().filter(|t| bg_idset.contains(&t.id().as_u32())), all.clone().into_iter().filter(|t| smp_ids.contains(&t.id().as_u32()))),
            _ => again!(orpha_disease_enrichment, all.clone().into_iter().filter(|t| bg_idset.contains(&t.id().as_u32())), all.clone().into_iter().filter(|t| smp_ids.contains(&t.id().as_u32()))),
        };
        if as_vec != first {
            fails.push("terms-handed-over-as-vectors-give-other-records".to_string());
        }
        if as_filter != first {
            fails.push("terms-handed-over-as-filtered-iterators-give-other-records".to_string());
        }
    }
    let got: Vec<u32> = recs.iter().map(|r| r.id).collect();
    let want: Vec<u32> = k_smp.keys().copied().collect();
    if got != want {
        fails.push(format!("record-ids got={} want={}", ids(got.clone()), ids(want)));
    }
    // (K -> [(k, p)])
    let mut by_k: BTreeMap<u64, Vec<(u64, f64)>> = BTreeMap::new();
    for r in &recs {
        if k_smp.get(&r.id).copied() != Some(r.count) {
            fails.push(format!("count id={} got={} want={:?}", r.id, r.count, k_smp.get(&r.id)));
        }
        if !(r.p >= 0.0 && r.p <= 1.0) {
            fails.push(format!("range id={} k={} p={:e}", r.id, r.count, r.p));
        }
        if !(r.fold.is_finite() && r.fold > 0.0) {
            fails.push(format!("fold id={} fold={:e}", r.id, r.fold));
        }
        if let Some(kk) = k_bg.get(&r.id) {
            by_k.entry(*kk).or_default().push((r.count, r.p));
        }
    }
    for (kk, v) in by_k.iter_mut() {
        v.sort_by(|a, b| a.0.cmp(&b.0));
        for w in v.windows(2) {
            let ((k1, p1), (k2, p2)) = (w[0], w[1]);
            // same (N, K, n): equal k ⇒ equal p (bitwise), larger k ⇒ p not larger
            if (k1 == k2 && p1.to_bits() != p2.to_bits()) || (k1 < k2 && p2 > p1) {
                fails.push(format!("monotone N={} K={} n={} k={}:p={:e} k={}:p={:e}", big_n, kk, n, k1, p1, k2, p2));
            }
        }
    }
    if fails.is_empty() {
        out.push("oracle ok".to_string());
    } else {
        out.push(format!("oracle FAIL enrich {}", fails[..fails.len().min(3)].join(" ; ").replace(' ', "_")));
    }
}

// ------------------------------------------------------------------------------------ C17

/// position of the pair (i, j), i < j < n, in lexicographic order
fn pair_index(n: usize, i: usize, j: usize) -> usize {
    i * n - i * (i + 1) / 2 + (j - i - 1)
}

fn mix_step(h: u64, x: u64) -> u64 {
    (h * 31 + x) % 8_388_593
}

/// fixed arithmetic mix of two id vectors, 1 <= mix < 2^23 (exact in f32); mirror of Drv.mix
pub fn mix(a: &[u32], b: &[u32]) -> u64 {
    let mut h = 7u64;
    for x in a {
        h = mix_step(h, u64::from(*x));
    }
    h = mix_step(h, 1_000_003);
    for x in b {
        h = mix_step(h, u64::from(*x));
    }
    h + 1
}

/// the distance callback shared with the model (Drv.cbDist): two different INPUT sets -> the table
/// entry of their positions; anything else (a merged cluster on either side) -> `mix`
pub fn cb_dist(inputs: &[Vec<u32>], table: &[u32], a: &[u32], b: &[u32]) -> f32 {
    let n = inputs.len();
    let i = inputs.iter().position(|x| x.as_slice() == a).unwrap_or(n);
    let j = inputs.iter().position(|x| x.as_slice() == b).unwrap_or(n);
    if i < n && j < n && i != j {
        let idx = if i < j { pair_index(n, i, j) } else { pair_index(n, j, i) };
        let v = table.get(idx).copied().unwrap_or(0);
        // entries from 2^25 on are the bit pattern of the distance (distances a few ulps apart,
        // negative distances, +infinity); entries in (2^24, 2^25) are the bit pattern + 2^24
        // (subnormal distances)
        if v >= 1 << 25 {
            f32::from_bits(v)
        } else if v > 1 << 24 {
            f32::from_bits(v - (1 << 24))
        } else {
            v as f32
        }
    } else {
        mix(a, b) as f32
    }
}

fn show_pair(p: &(Vec<u32>, Vec<u32>)) -> String {
    format!("{}/{}", ids(p.0.clone()), ids(p.1.clone()))
}

fn link(o: &Ontology, m: &str, tids: &[Vec<u32>], table: &[u32], out: &mut Vec<String>) {
    let n = tids.len();
    let sets: Vec<HpoSet<'_>> = tids.iter().map(|i| HpoSet::new(o, crate::ext::mk_group(i))).collect();
    let log: RefCell<Vec<Vec<(Vec<u32>, Vec<u32>)>>> = RefCell::new(vec![]);
    let distance = |combs: Combinations<HpoSet<'_>>| -> Vec<f32> {
        let mut call = vec![];
        let mut res = vec![];
        for (a, b) in combs {
            let ia: Vec<u32> = a.iter().map(|t| t.id().as_u32()).collect();
            let ib: Vec<u32> = b.iter().map(|t| t.id().as_u32()).collect();
            res.push(cb_dist(tids, table, &ia, &ib));
            call.push((ia, ib));
        }
        log.borrow_mut().push(call);
        res
    };
    // the constructors take any `IntoIterator<Item = HpoSet>`: a vector (exact size hint), a filtered
    // walk (lower bound 0), or a vector chained with a filtered walk (lower bound = the first part)
    let mut sets = sets;
    macro_rules! run {
        ($f:path) => {
            match (n + table.len()) % 3 {
                0 => $f(sets, distance),
                1 => $f(sets.into_iter().filter(|_| true), distance),
                _ => {
                    let tail = sets.split_off(n / 2);
                    $f(sets.into_iter().chain(tail.into_iter().filter(|_| true)), distance)
                }
            }
        };
    }
    let linkage = match m {
        "union" => run!(Linkage::union),
        "single" => run!(Linkage::single),
        "complete" => run!(Linkage::complete),
        _ => run!(Linkage::average),
    };
    // (lhs, rhs, distance, size) through the three public iterators
    let cl: Vec<(usize, usize, f32, usize)> = linkage.cluster().map(|c| (c.lhs(), c.rhs(), c.distance(), c.len())).collect();
    let cl2: Vec<(usize, usize, u32, usize)> = (&linkage).into_iter().map(|c| (c.lhs(), c.rhs(), c.distance().to_bits(), c.len())).collect();
    // ExactSizeIterator: len() of the borrowed iterators
    let lens = [linkage.cluster().len(), (&linkage).into_iter().len()];
    // back-to-front iteration yields the same merges in reverse
    let rev: Vec<(usize, usize, u32, usize)> = linkage.cluster().rev().map(|c| (c.lhs(), c.rhs(), c.distance().to_bits(), c.len())).collect();
    let mut both_ends: Vec<(usize, usize, u32, usize)> = vec![];
    {
        let mut it = linkage.cluster();
        let mut back: Vec<(usize, usize, u32, usize)> = vec![];
        loop {
            match it.next() {
                Some(c) => both_ends.push((c.lhs(), c.rhs(), c.distance().to_bits(), c.len())),
                None => break,
            }
            match it.next_back() {
                Some(c) => back.push((c.lhs(), c.rhs(), c.distance().to_bits(), c.len())),
                None => break,
            }
        }
        back.reverse();
        both_ends.extend(back);
    }
    // the borrowed iterator through the std adaptors (skip / step_by / nth then next / last)
    let mut adaptor_fails: Vec<String> = vec![];
    {
        let all: Vec<(usize, usize, u32, usize)> = linkage.cluster().map(|c| (c.lhs(), c.rhs(), c.distance().to_bits(), c.len())).collect();
        macro_rules! view {
            () => {
                |c| (c.lhs(), c.rhs(), c.distance().to_bits(), c.len())
            };
        }
        for k in [0usize, 1, 2, 5] {
            let sk: Vec<(usize, usize, u32, usize)> = linkage.cluster().skip(k).map(view!()).collect();
            if sk != all.iter().skip(k).copied().collect::<Vec<_>>() {
                adaptor_fails.push(format!("cluster().skip({k})"));
            }
            let st: Vec<(usize, usize, u32, usize)> = linkage.cluster().step_by(k + 1).map(view!()).collect();
            if st != all.iter().step_by(k + 1).copied().collect::<Vec<_>>() {
                adaptor_fails.push(format!("cluster().step_by({})", k + 1));
            }
            let mut i = linkage.cluster();
            let a = i.nth(k).map(view!());
            let b = i.next().map(view!());
            if a != all.get(k).copied() || b != all.get(k + 1).copied() {
                adaptor_fails.push(format!("cluster().nth({k}) then next()"));
            }
        }
        if linkage.cluster().last().map(view!()) != all.last().copied() || linkage.cluster().count() != all.len() {
            adaptor_fails.push("cluster().last() / count()".to_string());
        }
    }
    let idx = linkage.indicies();
    // the OWNED iterator: forward for the first half of the runs, from both ends for the other half
    let cl3: Vec<(usize, usize, u32, usize)> = if (n + table.len()) % 2 == 0 {
        linkage.into_cluster().map(|c| (c.lhs(), c.rhs(), c.distance().to_bits(), c.len())).collect()
    } else {
        let mut it = linkage.into_cluster();
        let mut front: Vec<(usize, usize, u32, usize)> = vec![];
        let mut back: Vec<(usize, usize, u32, usize)> = vec![];
        loop {
            match it.next() {
                Some(c) => front.push((c.lhs(), c.rhs(), c.distance().to_bits(), c.len())),
                None => break,
            }
            match it.next_back() {
                Some(c) => back.push((c.lhs(), c.rhs(), c.distance().to_bits(), c.len())),
                None => break,
            }
        }
        back.reverse();
        front.extend(back);
        front
    };
    out.push(format!("LINK {} n={} merges={}", m, n, cl.len()));
    for c in &cl {
        out.push(format!("M {} {} b32:{:08x} {}", c.0, c.1, c.2.to_bits(), c.3));
    }
    out.push(format!("IDX {}", ids(idx.iter().map(|x| *x as u32))));
    for call in log.borrow().iter() {
        let mut l = format!("CB {}", call.len());
        for p in call {
            l.push(' ');
            l.push_str(&show_pair(p));
        }
        out.push(l);
    }
    // ---- independent oracle: the merges form a binary tree over the inputs
    let mut fails: Vec<String> = vec![];
    let as_bits: Vec<(usize, usize, u32, usize)> = cl.iter().map(|c| (c.0, c.1, c.2.to_bits(), c.3)).collect();
    if as_bits != cl2 || as_bits != cl3 {
        fails.push("iterator-variants-disagree".to_string());
    }
    fails.extend(adaptor_fails.iter().map(|f| f.replace(' ', "_")));
    if lens.iter().any(|l| *l != cl.len()) {
        fails.push(format!("len()-of-the-iterators {lens:?} merges={}", cl.len()));
    }
    let mut fwd_rev = as_bits.clone();
    fwd_rev.reverse();
    if rev != fwd_rev || both_ends != as_bits {
        fails.push("reverse-or-double-ended-iteration-disagrees".to_string());
    }
    if cl.len() != n.saturating_sub(1) {
        fails.push(format!("count merges={} n={}", cl.len(), n));
    }
    let mut seen: BTreeSet<usize> = BTreeSet::new();
    let mut size_of: Vec<usize> = vec![1; n];
    for (k, c) in cl.iter().enumerate() {
        for side in [c.0, c.1] {
            if side >= n + k {
                fails.push(format!("addressable merge={} index={}", k, side));
            }
            if !seen.insert(side) {
                fails.push(format!("merged-twice index={}", side));
            }
        }
        let (sl, sr) = (size_of.get(c.0).copied().unwrap_or(0), size_of.get(c.1).copied().unwrap_or(0));
        if c.3 != sl + sr {
            fails.push(format!("size merge={} got={} want={}", k, c.3, sl + sr));
        }
        size_of.push(c.3);
        // (an infinite distance is a legitimate one: `1 / similarity - 1` of two unrelated sets)
        if c.2.is_nan() {
            fails.push(format!("distance merge={}", k));
        }
    }
    if n >= 2 {
        let want: BTreeSet<usize> = (0..2 * n - 2).collect();
        if seen != want {
            fails.push("each-once".to_string());
        }
        if cl.last().map(|c| c.3) != Some(n) {
            fails.push("last-size".to_string());
        }
        let mut sorted = idx.clone();
        sorted.sort_unstable();
        if sorted != (0..n).collect::<Vec<usize>>() {
            fails.push("leaf-order".to_string());
        }
        // the callback is asked each unordered pair of inputs exactly once, lexicographically
        let first: Vec<(Vec<u32>, Vec<u32>)> = log.borrow().first().cloned().unwrap_or_default();
        let mut want_pairs = vec![];
        for i in 0..n {
            for j in i + 1..n {
                want_pairs.push((tids[i].clone(), tids[j].clone()));
            }
        }
        if first != want_pairs {
            fails.push("callback-initial".to_string());
        }
    }
    if fails.is_empty() {
        out.push("oracle ok".to_string());
    } else {
        out.push(format!("oracle FAIL link {}", fails[..fails.len().min(3)].join(" ; ").replace(' ', "_")));
    }
}
