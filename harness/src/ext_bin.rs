//! Byte-level ops (C07 / C08): `Ontology::from_bytes` / `as_bytes` on explicit byte strings,
//! every-offset truncation, suffixes, version byte, round trip oracle, probes for K2 / K3.
//!
//! A load is observed as `r ok` / `r reject` (error and panic are not distinguished).
use crate::enc::encode;
use crate::interp::{dump, Interp};
use crate::proto::*;
use hpo::annotations::AnnotationId;
use hpo::Ontology;
use std::panic::{catch_unwind, AssertUnwindSafe};

/// hex token, or `@<path>` = content of that file
fn bytes_arg(tok: &str) -> Option<Vec<u8>> {
    if let Some(p) = tok.strip_prefix('@') {
        std::fs::read(p).ok()
    } else {
        unhex(tok)
    }
}

fn try_load(bytes: &[u8]) -> Option<Ontology> {
    match catch_unwind(AssertUnwindSafe(|| Ontology::from_bytes(bytes))) {
        Ok(Ok(o)) => Some(o),
        _ => None,
    }
}

/// `Ontology::from_binary` on a temporary file under harness/target/tmp (removed afterwards)
fn load_via_file(bytes: &[u8]) -> Option<Ontology> {
    use std::sync::atomic::{AtomicU64, Ordering};
    static N: AtomicU64 = AtomicU64::new(0);
    let dir = std::path::Path::new(env!("CARGO_MANIFEST_DIR")).join("target").join("tmp");
    std::fs::create_dir_all(&dir).ok()?;
    let path = dir.join(format!("bin-{}-{}.hpo", std::process::id(), N.fetch_add(1, Ordering::Relaxed)));
    std::fs::write(&path, bytes).ok()?;
    let r = catch_unwind(AssertUnwindSafe(|| Ontology::from_binary(&path)));
    let _ = std::fs::remove_file(&path);
    match r {
        Ok(Ok(o)) => Some(o),
        _ => None,
    }
}

fn classify(bytes: &[u8]) -> char {
    if try_load(bytes).is_some() {
        'o'
    } else {
        'r'
    }
}

pub fn rle(cs: &[char]) -> String {
    if cs.is_empty() {
        return "-".to_string();
    }
    let mut parts = vec![];
    let (mut c, mut n) = (cs[0], 1usize);
    for x in &cs[1..] {
        if *x == c {
            n += 1;
        } else {
            parts.push(format!("{c}{n}"));
            c = *x;
            n = 1;
        }
    }
    parts.push(format!("{c}{n}"));
    parts.join(",")
}

fn u32at(b: &[u8], i: usize) -> Option<usize> {
    let s = b.get(i..i + 4)?;
    Some(u32::from_be_bytes([s[0], s[1], s[2], s[3]]) as usize)
}

/// split a section into records: `parents` records are `count, id, count ids`, all others start
/// with their total length
fn split_records(sec: &[u8], parents: bool) -> Option<Vec<Vec<u8>>> {
    let mut out = vec![];
    let mut i = 0usize;
    while i < sec.len() {
        let n = u32at(sec, i)?;
        let len = if parents { 8 + 4 * n } else { n };
        if len == 0 {
            return None;
        }
        out.push(sec.get(i..i + len)?.to_vec());
        i += len;
    }
    Some(out)
}

/// `as_bytes` in canonical form: records inside each section sorted (hash-map order is arbitrary)
fn show_as_bytes(bytes: &[u8]) -> Vec<String> {
    let mut out = vec![];
    let Some(meta) = bytes.get(0..8) else {
        return vec!["B unparsable meta".to_string()];
    };
    out.push(format!("B meta {}", hex(meta)));
    let mut pos = 8usize;
    for tag in ["terms", "parents", "genes", "omim", "orpha"] {
        let Some(n) = u32at(bytes, pos) else {
            out.push(format!("B unparsable {tag}"));
            return out;
        };
        let Some(sec) = bytes.get(pos + 4..pos + 4 + n) else {
            out.push(format!("B unparsable {tag}"));
            return out;
        };
        let Some(mut recs) = split_records(sec, tag == "parents") else {
            out.push(format!("B unparsable {tag}"));
            return out;
        };
        recs.sort();
        out.push(format!("B {} {} {}", tag, recs.len(), hex(&recs.concat())));
        pos += 4 + n;
    }
    if pos != bytes.len() {
        out.push("B unparsable trailing".to_string());
        return out;
    }
    out.push(format!("B len {}", bytes.len()));
    out
}

/// longest prefix of at most 255 bytes that ends at a character boundary (summing char widths)
fn trunc255(s: &str) -> &str {
    let mut n = 0usize;
    for c in s.chars() {
        if n + c.len_utf8() > 255 {
            break;
        }
        n += c.len_utf8();
    }
    &s[..n]
}

/// expected dump of the reloaded ontology: names of terms and genes cut to the documented limit
fn truncated_dump(d: &[String]) -> Vec<String> {
    d.iter()
        .map(|l| {
            let mut t: Vec<String> = l.split(' ').map(str::to_string).collect();
            if (t[0] == "T" || t[0] == "G") && t.len() > 2 {
                if let Some(nm) = unname(&t[2]) {
                    t[2] = name(trunc255(&nm));
                }
            }
            t.join(" ")
        })
        .collect()
}

/// independent round-trip oracle on the implementation: whole read API equal up to the 255-byte
/// name limit, `Ontology::compare` reports nothing but those name changes
fn rtcheck(a: &Ontology, b: &Ontology) -> Result<(), String> {
    let (da, db) = (truncated_dump(&dump(a)), dump(b));
    if da != db {
        let first = da.iter().zip(db.iter()).find(|(x, y)| x != y);
        return Err(format!("reloaded ontology differs: {:?} (lines {} vs {})", first, da.len(), db.len()));
    }
    let cmp = a.compare(b);
    let n = cmp.added_hpo_terms().len()
        + cmp.removed_hpo_terms().len()
        + cmp.added_genes().len()
        + cmp.removed_genes().len()
        + cmp.added_omim_diseases().len()
        + cmp.removed_omim_diseases().len()
        + cmp.added_orpha_diseases().len()
        + cmp.removed_orpha_diseases().len()
        + cmp.changed_omim_diseases().len()
        + cmp.changed_orpha_diseases().len();
    if n != 0 {
        return Err(format!("compare reports {n} added/removed/changed records"));
    }
    for d in cmp.changed_hpo_terms() {
        let long = d.changed_name().map(|(x, _)| x.len() > 255).unwrap_or(false);
        if !long
            || d.added_parents().is_some()
            || d.removed_parents().is_some()
            || d.changed_obsolete().is_some()
            || d.changed_replacement().is_some()
        {
            return Err(format!("compare reports a changed term {}", d.id()));
        }
    }
    for d in cmp.changed_genes() {
        let long = d.changed_name().map(|(x, _)| x.len() > 255).unwrap_or(false);
        if !long || d.added_terms().is_some() || d.removed_terms().is_some() {
            return Err(format!("compare reports a changed gene {}", d.id()));
        }
    }
    Ok(())
}

// ------------------------------------------------------------------ probes (K2, K3)

fn strip_tok(pfx: &[&str], line: &str) -> String {
    line.split(' ').filter(|t| !pfx.iter().any(|p| t.starts_with(p))).collect::<Vec<_>>().join(" ")
}

fn tok_of<'a>(pfx: &str, line: &'a str) -> &'a str {
    line.split(' ').find(|t| t.starts_with(pfx)).unwrap_or("")
}

fn strip_dump(key: &str, d: &[String]) -> Vec<String> {
    if key == "K2" {
        d.iter()
            .filter(|l| !(l.starts_with("CAT ") || l.starts_with("MOD ")))
            .map(|l| strip_tok(&["mod=", "cat="], l))
            .collect()
    } else {
        d.iter().map(|l| if l.starts_with("T ") { strip_tok(&["repl=", "rby="], l) } else { l.clone() }).collect()
    }
}

fn deviation(key: &str, da: &[String], db: &[String]) -> Vec<String> {
    if key == "K2" {
        let pick = |d: &[String], p: &str| d.iter().find(|l| l.starts_with(p)).cloned().unwrap_or_default();
        if pick(da, "CAT ") == pick(db, "CAT ") && pick(da, "MOD ") == pick(db, "MOD ") {
            vec![]
        } else {
            vec![pick(da, "CAT "), pick(da, "MOD "), "->".to_string(), pick(db, "CAT "), pick(db, "MOD ")]
        }
    } else {
        da.iter()
            .zip(db.iter())
            .filter(|(x, y)| x.starts_with("T ") && (tok_of("repl=", x) != tok_of("repl=", y) || tok_of("rby=", x) != tok_of("rby=", y)))
            .map(|(x, y)| format!("{}:{}->{}", x.split(' ').nth(1).unwrap_or(""), tok_of("repl=", x), tok_of("repl=", y)))
            .collect()
    }
}

/// the deviation is exactly the recorded one?
fn deviation_is_known(key: &str, a: &Ontology, b: &Ontology, da: &[String], db: &[String]) -> Result<(), String> {
    if key == "K2" {
        // reloaded groups are the documented defaults, computed here from the children of the roots
        let root = b.hpo(1u32).ok_or("no root")?;
        let mut modi: Vec<u32> = root.children_ids().iter().map(|x| x.as_u32()).filter(|x| *x != 118).collect();
        modi.sort_unstable();
        let mut cat = modi.clone();
        cat.extend(b.hpo(118u32).ok_or("no HP:118")?.children_ids().iter().map(|x| x.as_u32()));
        cat.sort_unstable();
        cat.dedup();
        let got_cat: Vec<u32> = b.categories().iter().map(|x| x.as_u32()).collect();
        let got_mod: Vec<u32> = b.modifier().iter().map(|x| x.as_u32()).collect();
        if got_cat != cat || got_mod != modi {
            return Err("reloaded categories/modifier are not the defaults".to_string());
        }
        let _ = (a, da, db);
        Ok(())
    } else {
        // only `Some(HP:0000000)` may turn into `None`
        for (x, y) in da.iter().zip(db.iter()) {
            if x.starts_with("T ") && tok_of("repl=", x) != tok_of("repl=", y) && !(tok_of("repl=", x) == "repl=0" && tok_of("repl=", y) == "repl=-") {
                return Err(format!("replacement changed other than 0 -> none: {x} / {y}"));
            }
        }
        Ok(())
    }
}

const K3_OBO: &str = "format-version: 1.2\ndata-version: hp/releases/0000-00-00\n\n[Term]\nid: HP:0000001\nname: All\n\n[Term]\nid: HP:0000118\nname: Phenotypic abnormality\nis_a: HP:0000001 ! All\n\n[Term]\nid: HP:0000002\nname: obsolete Old\nis_obsolete: true\nreplaced_by: HP:0000000\n";

fn k3_onto() -> Option<Ontology> {
    let dir = std::path::Path::new(env!("CARGO_MANIFEST_DIR"))
        .join("target")
        .join("tmp")
        .join(format!("hpo_k3_{}_{:?}", std::process::id(), std::thread::current().id()));
    std::fs::create_dir_all(&dir).ok()?;
    std::fs::write(dir.join("hp.obo"), K3_OBO).ok()?;
    std::fs::write(dir.join("genes_to_phenotype.txt"), "ncbi_gene_id\tgene_symbol\thpo_id\thpo_name\n").ok()?;
    std::fs::write(dir.join("phenotype.hpoa"), "").ok()?;
    let r = Ontology::from_standard(dir.to_str()?);
    let _ = std::fs::remove_dir_all(&dir);
    r.ok()
}

pub fn exec(it: &mut Interp, toks: &[&str], out: &mut Vec<String>) -> bool {
    match toks {
        ["frombytes", h, slot] => {
            let (Some(bytes), Ok(slot)) = (bytes_arg(h), slot.parse::<u32>()) else { return false };
            let loaded = try_load(&bytes);
            // the file entry point must agree with the in-memory one
            let via_file = load_via_file(&bytes);
            match (&loaded, &via_file) {
                (Some(a), Some(b)) => {
                    if crate::interp::dump(a) != crate::interp::dump(b) {
                        out.push("oracle FAIL from_binary(file) and from_bytes(bytes) build different ontologies".to_string());
                    }
                }
                (None, None) => {}
                _ => out.push("oracle FAIL from_binary(file) and from_bytes(bytes) disagree on accept/reject".to_string()),
            }
            match loaded {
                Some(o) => {
                    it.slots.insert(slot, o);
                    out.push("r ok".to_string());
                }
                None => out.push("r reject".to_string()),
            }
            true
        }
        ["asbytes", slot] => {
            match slot.parse::<u32>().ok().and_then(|s| it.slots.get(&s)) {
                Some(o) => out.append(&mut show_as_bytes(&o.as_bytes())),
                None => out.push("noslot".to_string()),
            }
            true
        }
        ["roundtrip", slot, dst] => {
            let Ok(dst) = dst.parse::<u32>() else { return false };
            let Some(o) = slot.parse::<u32>().ok().and_then(|s| it.slots.get(&s)) else {
                out.push("noslot".to_string());
                return true;
            };
            // a panic of the writer is a rejection of the round trip as well
            let written = catch_unwind(AssertUnwindSafe(|| o.as_bytes())).ok();
            let loaded = written.as_ref().and_then(|b| try_load(b));
            // the file entry point must agree with the in-memory one on the crate's own bytes as well
            if let Some(b) = &written {
                match (&loaded, &load_via_file(b)) {
                    (Some(x), Some(y)) => {
                        if crate::interp::dump(x) != crate::interp::dump(y) {
                            out.push("oracle FAIL from_binary(file) and from_bytes(bytes) build different ontologies".to_string());
                        }
                    }
                    (None, None) => {}
                    _ => out.push("oracle FAIL from_binary(file) and from_bytes(bytes) disagree on accept/reject".to_string()),
                }
            }
            match loaded {
                Some(o2) => {
                    it.slots.insert(dst, o2);
                    out.push("r ok".to_string());
                }
                None => out.push("r reject".to_string()),
            }
            true
        }
        ["fenc", v] => {
            let Ok(v) = v.parse::<u8>() else { return false };
            if !(1..=3).contains(&v) {
                return false;
            }
            out.push(format!("E {}", hex(&encode(&it.ext.facts, v))));
            true
        }
        ["cuts", h, lo, hi] => {
            let (Some(bytes), Ok(lo), Ok(hi)) = (bytes_arg(h), lo.parse::<usize>(), hi.parse::<usize>()) else { return false };
            let cs: Vec<char> = (lo..hi.min(bytes.len())).map(|k| classify(&bytes[..k])).collect();
            out.push(format!("cuts {}", rle(&cs)));
            if let Some(k) = cs.iter().position(|c| *c == 'o') {
                out.push(format!("oracle FAIL a proper prefix of {} bytes was accepted", lo + k));
            }
            true
        }
        ["suffix", h, ext] => {
            let (Some(bytes), Some(ext)) = (bytes_arg(h), unhex(ext)) else { return false };
            let cs: Vec<char> = (0..ext.len())
                .map(|k| {
                    let mut b = bytes.clone();
                    b.extend_from_slice(&ext[..=k]);
                    classify(&b)
                })
                .collect();
            out.push(format!("suffix {}", rle(&cs)));
            if let Some(k) = cs.iter().position(|c| *c == 'o') {
                out.push(format!("oracle FAIL a file extended by {} bytes was accepted", k + 1));
            }
            // the file entry point refuses the extended files as well (a trailing line break included)
            for k in 0..ext.len().min(3) {
                let mut b = bytes.clone();
                b.extend_from_slice(&ext[..=k]);
                if load_via_file(&b).is_some() {
                    out.push(format!("oracle FAIL from_binary accepts a file extended by {} bytes", k + 1));
                    break;
                }
            }
            true
        }
        ["verbyte", h] => {
            let Some(bytes) = bytes_arg(h) else { return false };
            let cs: Vec<char> = (0..256usize)
                .map(|v| {
                    let mut b = bytes.clone();
                    if b.len() > 3 {
                        b[3] = v as u8;
                    }
                    classify(&b)
                })
                .collect();
            out.push(format!("verbyte {}", rle(&cs)));
            if let Some(v) = (0..256usize).find(|v| cs[*v] == 'o' && bytes.get(3) != Some(&(*v as u8))) {
                out.push(format!("oracle FAIL a file with version byte {v} in place of the original was accepted"));
            }
            true
        }
        ["hdrbyte", h] => {
            // a header-less body behind "HPO" + every version byte
            let Some(body) = bytes_arg(h) else { return false };
            let cs: Vec<char> = (0..256usize)
                .map(|v| {
                    if v == 2 || v == 3 {
                        return '-'; // garbage the property says nothing about
                    }
                    let mut b = vec![0x48u8, 0x50, 0x4f, v as u8];
                    b.extend_from_slice(&body);
                    classify(&b)
                })
                .collect();
            out.push(format!("hdrbyte {}", rle(&cs)));
            true
        }
        ["rtcheck", a, bb] => {
            let (Some(oa), Some(ob)) = (
                a.parse::<u32>().ok().and_then(|s| it.slots.get(&s)),
                bb.parse::<u32>().ok().and_then(|s| it.slots.get(&s)),
            ) else {
                out.push("noslot".to_string());
                return true;
            };
            match rtcheck(oa, ob) {
                Ok(()) => out.push("oracle ok".to_string()),
                Err(e) => out.push(format!("oracle FAIL roundtrip: {e}")),
            }
            true
        }
        ["probe", key, a, bb] => {
            if *key != "K2" && *key != "K3" {
                return false;
            }
            let (Some(oa), Some(ob)) = (
                a.parse::<u32>().ok().and_then(|s| it.slots.get(&s)),
                bb.parse::<u32>().ok().and_then(|s| it.slots.get(&s)),
            ) else {
                out.push("noslot".to_string());
                return true;
            };
            let (da, db) = (dump(oa), dump(ob));
            if strip_dump(key, &da) != strip_dump(key, &db) {
                out.push(format!("oracle FAIL probe {key}: the round trip changed more than the recorded finding"));
                return true;
            }
            let dv = deviation(key, &da, &db);
            if dv.is_empty() {
                out.push(format!("probe {key} no-deviation"));
            } else {
                match deviation_is_known(key, oa, ob, &da, &db) {
                    Ok(()) => out.push(format!("known-finding {} {}", key, dv.join(" "))),
                    Err(e) => out.push(format!("oracle FAIL probe {key}: {e}")),
                }
            }
            true
        }
        ["obok3", slot] => {
            let Ok(slot) = slot.parse::<u32>() else { return false };
            match k3_onto() {
                Some(o) => {
                    it.slots.insert(slot, o);
                    out.push("r ok".to_string());
                }
                None => out.push("r reject".to_string()),
            }
            true
        }
        _ => false,
    }
}
