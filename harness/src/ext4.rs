//! Further extension ops (added per property as the model grows).
use crate::interp::Interp;

pub fn exec(_it: &mut Interp, _toks: &[&str], _out: &mut Vec<String>) -> bool {
    false
}
