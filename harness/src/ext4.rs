//! Further extension ops (added per property as the model grows).
use crate::interp::Interp;

pub fn exec(it: &mut Interp, toks: &[&str], out: &mut Vec<String>) -> bool {
    crate::ext_stat::exec(it, toks, out)
}
