//! Further extension ops (added per property as the model grows).
use crate::interp::Interp;

pub fn exec(it: &mut Interp, toks: &[&str], out: &mut Vec<String>) -> bool {
    crate::ext_c13::exec(it, toks, out) || crate::ext_c09::exec(it, toks, out)
        || crate::ext_c11::exec(it, toks, out)
        || crate::ext_c04::exec(it, toks, out)
        || crate::ext_bin::exec(it, toks, out)
        || crate::ext_stat::exec(it, toks, out)
}
