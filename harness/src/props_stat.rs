//! Generators for the statistics module: C06 (hypergeometric enrichment), C17 (linkage).
use crate::ext_stat::cb_dist;
use crate::gen::*;
use crate::proto::*;
use crate::rng::Rng;
use std::collections::{BTreeMap, BTreeSet};

pub fn n_cases(prop: &str, tier: &str) -> usize {
    let quick = tier == "quick";
    match prop {
        "C06" => if quick { 64 } else { 3200 },
        "C17" => if quick { 800 } else { 20_000 },
        _ => 0,
    }
}

pub fn gen_case(prop: &str, tier: &str, rng: &mut Rng, idx: usize) -> Case {
    match prop {
        "C06" => c06(rng, tier, idx),
        _ => c17(rng, tier, idx),
    }
}

// ------------------------------------------------------------------------------------ C06

/// population class of case `p` (64 classes): 0 = hierarchical, otherwise the flat population size
fn c06_class(rng: &mut Rng, p: usize, tier: &str) -> usize {
    match p {
        0 => 5000,
        1 | 2 => 1000,
        3..=5 => 500,
        6..=17 => [150, 169, 170, 171, 172, 200][(p - 6) % 6],
        18..=27 => 0,
        _ => {
            if tier == "quick" {
                rng.range(1, 60) as usize
            } else {
                // thorough: every small population size 1..60 over and over
                1 + (p - 28 + (rng.below(2) as usize) * 36) % 60
            }
        }
    }
}

fn pick_k_pop(rng: &mut Rng, big_n: usize, n: usize) -> usize {
    let c: Vec<usize> = vec![1, 2, 3, big_n, big_n.saturating_sub(1), n, big_n - n, big_n - n + 1, big_n / 5, big_n / 2, 169, 170, 171];
    let v = match rng.below(4) {
        0 => *rng.pick(&c),
        1 => rng.range(1, 10.min(big_n as u64)) as usize,
        _ => rng.range(1, big_n as u64) as usize,
    };
    v.clamp(1, big_n)
}

fn pick_n(rng: &mut Rng, big_n: usize) -> usize {
    let c: Vec<usize> = vec![1, 2, big_n / 10, big_n / 5, big_n / 2, big_n.saturating_sub(1), big_n, 169, 170, 171];
    let v = match rng.below(3) {
        0 => *rng.pick(&c),
        _ => rng.range(1, big_n as u64) as usize,
    };
    v.clamp(1, big_n)
}

fn sample_of(rng: &mut Rng, ids: &[u32], n: usize) -> Vec<u32> {
    let mut v = ids.to_vec();
    rng.shuffle(&mut v);
    v.truncate(n);
    v
}

/// ln Gamma(x) for x >= 1 (Stirling series after shifting x above 10): only used to AIM the
/// generator at a magnitude, never as an oracle
fn ln_gamma(mut x: f64) -> f64 {
    let mut shift = 0.0;
    while x < 10.0 {
        shift += x.ln();
        x += 1.0;
    }
    let x2 = x * x;
    (x - 0.5) * x.ln() - x + 0.918_938_533_204_672_7 + 1.0 / (12.0 * x) - 1.0 / (360.0 * x * x2) + 1.0 / (1260.0 * x2 * x2 * x) - shift
}

fn ln_choose(n: u32, k: u32) -> f64 {
    ln_gamma(f64::from(n) + 1.0) - ln_gamma(f64::from(k) + 1.0) - ln_gamma(f64::from(n - k) + 1.0)
}

fn ln_pmf(big_n: u32, big_k: u32, n: u32, k: u32) -> f64 {
    ln_choose(big_k, k) + ln_choose(big_n - big_k, n - k) - ln_choose(big_n, n)
}

fn c06(rng: &mut Rng, tier: &str, idx: usize) -> Case {
    if idx % 32 == 19 {
        // populations far beyond the shipped ontology (ln C(N, n) near the f64 range in a naive
        // product), small and mid-sized samples
        let mut c = Case::new("flat-huge");
        // always: a sample of 86 .. 90 terms from more than 86 858 (C(N, n) leaves the f64 range)
        c.op(format!("enrichbig {} {} {} {}", *rng.pick(&[87_000u32, 100_000, 120_000, 400_000]), *rng.pick(&[3u32, 6, 40]), rng.range(86, 90), rng.range(1, 3)));
        c.stat("enrich_ops_huge_population", 1);
        // nearly everything annotated and nearly everything sampled: the products k*N and n*K lie
        // beyond 2^32 (the fold enrichment is a quotient of quotients, not of integer products)
        let (bn, bk, nn, kk) = *rng.pick(&[(70_002u32, 66_002u32, 68_252u32, 64_352u32), (70_000, 69_000, 69_500, 68_510), (66_000, 65_600, 65_700, 65_310)]);
        c.op(format!("enrichbig {bn} {bk} {nn} {kk}"));
        c.stat("enrich_ops_products_beyond_u32", 1);
        for _ in 0..if tier == "quick" { 2 } else { 4 } {
            let big_n = *rng.pick(&[50_000u32, 87_000, 100_000, 120_000, 200_000, 400_000]);
            let n = *rng.pick(&[10u32, 60, 86, 88, 90, 91, 120, 300, 1000]);
            let big_k = *rng.pick(&[1u32, 3, 6, 40, 90, 500]);
            let k = rng.range(1, big_k.min(n).min(8) as u64) as u32;
            c.op(format!("enrichbig {big_n} {big_k} {n} {k}"));
            c.stat("enrich_ops_huge_population", 1);
        }
        c.nontrivial = true;
        return c;
    }
    if idx % 32 == 27 {
        // long tails whose FIRST term sits at a chosen magnitude: around the f64 underflow
        // thresholds (ln 2.2e-308 = -708, ln 4.9e-324 = -744.4), deep underflow, and ordinary sizes
        let mut c = Case::new("flat-long-tail");
        let (big_n, big_k, n) = *rng.pick(&[(4000u32, 2000u32, 2000u32), (6000, 3000, 3000), (5000, 3500, 2500), (6000, 2000, 3000)]);
        let lo = (n + big_k).saturating_sub(big_n).max(1);
        let hi = big_k.min(n);
        // every case: the whole subnormal band (the first term has 50 ... 1 significant bits), the
        // two thresholds, and two other magnitudes
        let mut levels = vec![-706.0f64, -709.0, -725.0, -735.0, -738.0, -741.0, -743.0, -744.0, -745.0];
        levels.push(*rng.pick(&[-3.0f64, -30.0, -300.0, -690.0]));
        levels.push(*rng.pick(&[-750.0f64, -800.0, -1200.0]));
        if tier == "quick" {
            // keep the quick tier short: the deep-subnormal levels always, a sample of the rest
            levels = vec![-738.0, -741.0, -743.0, -744.0, -800.0, *rng.pick(&[-706.0f64, -709.0, -725.0, -735.0, -745.0, -30.0, -1200.0])];
        }
        for target in levels {
            // left flank of the mode: the first k (ascending) whose log-pmf reaches the target
            let mut pick = None;
            for k in lo..=hi {
                if ln_pmf(big_n, big_k, n, k) >= target {
                    pick = Some(k);
                    break;
                }
            }
            let k = pick.unwrap_or(lo).clamp(lo, hi);
            c.op(format!("enrichbig {big_n} {big_k} {n} {k}"));
            c.stat("enrich_ops_long_tail", 1);
            c.stat(&format!("first_term_log_level_{}", -target as i64), 1);
        }
        // right of the mode, still in the lower half of the support (a tail of more than 64 terms
        // that is LONGER than the head below it): small tail probabilities of 1e-7 ... 1e-130, which
        // a complement `1 - head` cannot deliver
        for (bn, bk, nn) in [(1000u32, 150u32, 150u32), (2000, 300, 200), (5000, 400, 400)] {
            let lo = (nn + bk).saturating_sub(bn);
            let hi = bk.min(nn);
            let mode = ((u64::from(nn) + 1) * (u64::from(bk) + 1) / (u64::from(bn) + 2)) as u32;
            for target in [-15.0f64, -35.0, -80.0, -300.0] {
                let mut pick = None;
                for k in mode.max(lo)..=hi {
                    if ln_pmf(bn, bk, nn, k) <= target {
                        pick = Some(k);
                        break;
                    }
                }
                if let Some(k) = pick {
                    if hi - k + 1 > 64 && k - lo < hi - k + 1 {
                        c.op(format!("enrichbig {bn} {bk} {nn} {k}"));
                        c.stat("enrich_ops_right_flank_long_tail", 1);
                    }
                }
            }
        }
        c.nontrivial = true;
        return c;
    }
    // spread the expensive classes over the worker threads (cases are dealt out in chunks)
    let p = if tier == "quick" { (idx % 4) * 16 + (idx / 4) % 16 } else { idx % 64 };
    let class = if tier != "quick" && p == 0 && idx % 640 != 0 { 2000 } else { c06_class(rng, p, tier) };
    if class == 0 {
        return c06_hier(rng);
    }
    let big_n = class;
    let mut c = Case::new(if big_n > 170 { "flat-lanczos" } else if big_n >= 150 { "flat-table-edge" } else { "flat-small" });
    c.stat(&format!("N_{}", if big_n <= 60 { "1..60".to_string() } else { big_n.to_string() }), 1);
    let ids = gen_ids(rng, big_n, &[]);
    let mut f = Facts::default();
    for id in &ids {
        f.terms.push((*id, gen_name(rng)));
    }
    f.version = (2024, 1, 1);
    // primary sample S: the records are designed against it
    let n = if idx == 0 { big_n / 5 } else { pick_n(rng, big_n) };
    let s1 = sample_of(rng, &ids, n);
    let in_s: BTreeSet<u32> = s1.iter().copied().collect();
    let outside: Vec<u32> = ids.iter().copied().filter(|x| !in_s.contains(x)).collect();
    let budget: usize = match big_n {
        0..=200 => 2500,
        201..=500 => 4000,
        501..=1000 => 6000,
        _ => 14_000,
    };
    let mut used = 0usize;
    let nkinds = rng.range(1, 3) as usize;
    let mut kinds: Vec<usize> = vec![0, 1, 2];
    rng.shuffle(&mut kinds);
    kinds.truncate(nkinds);
    let mut designed_sum_branch = 0u64;
    for (ki, k) in kinds.iter().enumerate() {
        let mut rid = 1u32;
        let families = rng.range(1, 6);
        for fam in 0..families {
            let kk = if idx == 0 && ki == 0 && fam == 0 { big_n / 5 } else { pick_k_pop(rng, big_n, n) };
            let lo = (n + kk).saturating_sub(big_n);
            let hi = kk.min(n);
            let mut ks: BTreeSet<usize> = BTreeSet::new();
            for cand in [lo, lo + 1, hi, hi.saturating_sub(1), 1, 0, n * kk / big_n, n * kk / big_n + 1] {
                if cand >= lo && cand <= hi && rng.chance(3, 4) {
                    ks.insert(cand);
                }
            }
            for _ in 0..rng.below(4) {
                ks.insert(rng.range(lo as u64, hi as u64) as usize);
            }
            if idx == 0 && ki == 0 && fam == 0 {
                ks.extend([1usize, 2, hi, n * kk / big_n]);
            }
            for k_obs in ks {
                if used + kk > budget {
                    break;
                }
                used += kk;
                let mut a = s1.clone();
                rng.shuffle(&mut a);
                a.truncate(k_obs);
                let mut b = outside.clone();
                rng.shuffle(&mut b);
                b.truncate(kk - k_obs);
                f.recs[*k].push((rid, gen_name(rng)));
                for t in a.into_iter().chain(b) {
                    f.links[*k].push((rid, t));
                }
                rid += 1;
                c.stat("designed_records", 1);
                if k_obs == 0 {
                    c.stat("designed_k0_no_record", 1);
                } else if k_obs <= lo {
                    c.stat("branch_x_lt_min_p1", 1);
                } else {
                    c.stat("branch_summed_tail", 1);
                    designed_sum_branch += 1;
                }
            }
        }
        // a few sparse random records as well
        for _ in 0..rng.below(4) {
            let kk = rng.range(1, 6.min(big_n as u64)) as usize;
            if used + kk > budget {
                break;
            }
            used += kk;
            f.recs[*k].push((rid, gen_name(rng)));
            for t in sample_of(rng, &ids, kk) {
                f.links[*k].push((rid, t));
            }
            rid += 1;
        }
    }
    c.stat("annotations", used as u64);
    facts_to_prog(rng, &f, &ProgOpts { shuffle: big_n <= 500, failing_permille: 0, build_defaults: false, slot: 0 }, &mut c);
    for k in &kinds {
        c.op(format!("enrich 0 {} * {}", KINDS[*k], ids_str(&s1)));
        c.stat("enrich_ops", 1);
    }
    // further samples: a nested one and a random one (other n, incidental k)
    let extra = if big_n > 1000 { 1 } else { 2 };
    for e in 0..extra {
        let s2 = if e == 0 && s1.len() > 1 {
            let n2 = rng.range(1, s1.len() as u64 - 1) as usize;
            sample_of(rng, &s1, n2)
        } else {
            let n2 = pick_n(rng, big_n);
            sample_of(rng, &ids, n2)
        };
        let k = *rng.pick(&kinds);
        c.op(format!("enrich 0 {} * {}", KINDS[k], ids_str(&s2)));
        c.stat("enrich_ops", 1);
    }
    // an `HpoSet` as background (N = its size), the sample inside it
    if big_n <= 200 && big_n >= 2 {
        for _ in 0..2 {
            let nb = rng.range(1, big_n as u64) as usize;
            let bg = sample_of(rng, &ids, nb);
            let n3 = rng.range(1, nb as u64) as usize;
            let s3 = sample_of(rng, &bg, n3);
            let k = *rng.pick(&kinds);
            c.op(format!("enrich 0 {} {} {}", KINDS[k], ids_str(&bg), ids_str(&s3)));
            c.stat("enrich_ops_set_background", 1);
        }
    }
    c.nontrivial = designed_sum_branch > 0;
    c
}

fn ids_str(v: &[u32]) -> String {
    ids(v.iter().copied())
}

/// hierarchical ontologies (inheritance of annotations) for the record-set clause
fn c06_hier(rng: &mut Rng) -> Case {
    let mut c = Case::new("hierarchical");
    let with_roots = rng.chance(1, 2);
    let max_terms = *rng.pick(&[6usize, 12, 25, 40]);
    let (mut f, shape) = gen_facts(rng, &DagOpts { max_terms, with_roots, max_recs: 8 });
    c.stat(&format!("shape_{shape:?}"), 1);
    let (_, inh) = facts_stats(&f, &mut c);
    if with_roots && rng.chance(1, 2) {
        // binary route: terms flagged obsolete / replaced keep their links and annotations
        let mut flags = gen_flags(rng, &mut f);
        // always: a directly annotated term (and one with inherited annotations) flagged obsolete
        for k in 0..3 {
            if let Some((_, t)) = f.links[k].first().copied() {
                if t != 1 && t != 118 && !flags.iter().any(|x| x.0 == t) {
                    flags.push((t, true, None));
                }
                if let Some((p, _)) = f.edges.iter().find(|e| e.1 == t && e.0 != 1 && e.0 != 118).copied() {
                    if !flags.iter().any(|x| x.0 == p) {
                        flags.push((p, true, None));
                    }
                }
            }
        }
        c.stat("obsolete_or_replaced_terms", flags.len() as u64);
        let fv = 2 + rng.below(2) as u8;
        facts_to_fops(rng, &f, &flags, fv, 0, true, &mut c);
    } else {
        facts_to_prog(rng, &f, &ProgOpts { shuffle: true, failing_permille: 0, build_defaults: with_roots, slot: 0 }, &mut c);
    }
    let ids: Vec<u32> = f.terms.iter().map(|t| t.0).collect();
    let mut summed = 0u64;
    for _ in 0..4 {
        let n = rng.range(1, ids.len() as u64) as usize;
        let s = sample_of(rng, &ids, n);
        for k in 0..3 {
            if !f.links[k].is_empty() {
                c.op(format!("enrich 0 {} * {}", KINDS[k], ids_str(&s)));
                c.stat("enrich_ops", 1);
                summed += 1;
            }
        }
        let nb = rng.range(n as u64, ids.len() as u64) as usize;
        let mut bg = s.clone();
        let extra: Vec<u32> = ids.iter().copied().filter(|x| !s.contains(x)).collect();
        bg.extend(sample_of(rng, &extra, nb - n));
        let k = rng.below(3) as usize;
        c.op(format!("enrich 0 {} {} {}", KINDS[k], ids_str(&bg), ids_str(&s)));
        c.stat("enrich_ops_set_background", 1);
    }
    c.nontrivial = inh > 0 && summed > 0;
    c
}

// ------------------------------------------------------------------------------------ C17

/// Independent re-run of the clustering on the table (f32 arithmetic as the library), used only to
/// REJECT inputs on which two live distances tie at some step (ties are broken by hash-map order).
/// Returns the number of executed `(idx.cmp(a), idx.cmp(b))` arms [LL, LG, GG] when tie-free.
pub fn simulate(method: &str, tids: &[Vec<u32>], table: &[u32]) -> Option<[u64; 3]> {
    let n = tids.len();
    let mut sets: Vec<Option<Vec<u32>>> = tids.iter().map(|t| Some(t.clone())).collect();
    let mut dm: BTreeMap<(usize, usize), f32> = BTreeMap::new();
    for i in 0..n {
        for j in i + 1..n {
            dm.insert((i, j), cb_dist(tids, table, &tids[i], &tids[j]));
        }
    }
    let mut arms = [0u64; 3];
    loop {
        let mut vals: Vec<u32> = dm.values().map(|v| v.to_bits()).collect();
        vals.sort_unstable();
        if vals.windows(2).any(|w| w[0] == w[1]) || dm.values().any(|v| v.is_nan()) {
            return None;
        }
        if dm.is_empty() {
            return Some(arms);
        }
        let (&(a, b), _) = dm.iter().min_by(|x, y| x.1.partial_cmp(y.1).unwrap()).unwrap();
        let new_idx = sets.len();
        let mut merged = sets[a].take().unwrap();
        merged.extend(sets[b].take().unwrap());
        merged.sort_unstable();
        merged.dedup();
        let mut fresh: Vec<((usize, usize), f32)> = vec![];
        for (idx, s) in sets.iter().enumerate() {
            let Some(s) = s else { continue };
            let key = |x: usize, y: usize| if x < y { (x, y) } else { (y, x) };
            let (v1, v2) = (dm[&key(idx, a)], dm[&key(idx, b)]);
            arms[if idx < a { 0 } else if idx < b { 1 } else { 2 }] += 1;
            let d = match method {
                "single" => v1.min(v2),
                "complete" => v1.max(v2),
                "average" => (v1 + v2) / 2.0,
                _ => cb_dist(tids, table, &merged, s),
            };
            fresh.push(((idx, new_idx), d));
        }
        dm.retain(|k, _| k.0 != a && k.0 != b && k.1 != a && k.1 != b);
        for (k, v) in fresh {
            dm.insert(k, v);
        }
        sets.push(Some(merged));
    }
}

fn gen_table(rng: &mut Rng, n: usize, method: &str, exact_avg: bool) -> (Vec<u32>, &'static str) {
    let npairs = n * n.saturating_sub(1) / 2;
    let style = rng.below(3);
    if rng.chance(1, 8) && npairs >= 2 {
        // distinct distances a few ulps apart (bit patterns next to 0.25, 1.0 or 3.0)
        let base = *rng.pick(&[0x3e80_0000u32, 0x3f80_0000, 0x4040_0000]);
        let mut offs: Vec<u32> = (0..(2 * npairs as u32 + 4)).collect();
        rng.shuffle(&mut offs);
        return (offs[..npairs].iter().map(|o| base + o).collect(), "near-ties");
    }
    if rng.chance(1, 10) && npairs >= 2 {
        // tiny negative distances (rounding noise of `1 - similarity`), an exact zero, tiny positives
        let mut offs: Vec<u32> = (0..(2 * npairs as u32 + 4)).collect();
        rng.shuffle(&mut offs);
        let mut t: Vec<u32> = offs[..npairs]
            .iter()
            .map(|o| if o % 2 == 0 { 0xb300_0000u32 - (o / 2) * 0x0010_0000 } else { 0x3300_0000 + (o / 2) * 0x0010_0000 })
            .collect();
        let i = rng.below(t.len() as u64) as usize;
        t[i] = 0;
        return (t, "tiny-negatives");
    }
    if rng.chance(1, 10) && npairs >= 2 {
        // subnormal distances (bit patterns 1 .. 4 * npairs, mostly odd)
        let mut offs: Vec<u32> = (1..(4 * npairs as u32 + 8)).collect();
        rng.shuffle(&mut offs);
        return (offs[..npairs].iter().map(|o| (1u32 << 24) + o).collect(), "subnormal");
    }
    if method == "average" && exact_avg {
        // distinct integers < 2^12, scaled by 2^12: halving stays exact for 12 nested means
        let mut pool: Vec<u32> = (1..4096).collect();
        rng.shuffle(&mut pool);
        return (pool[..npairs].iter().map(|v| v * 4096).collect(), "dyadic");
    }
    if style == 0 && n >= 2 {
        // points on a line: |x_i - x_j|
        let xs: Vec<u32> = (0..n).map(|_| rng.below(1 << 23) as u32).collect();
        let mut t = vec![];
        for i in 0..n {
            for j in i + 1..n {
                t.push(xs[i].abs_diff(xs[j]).max(1));
            }
        }
        return (t, "line");
    }
    let mut seen = BTreeSet::new();
    let mut t = vec![];
    let top: u64 = if style == 1 { (4 * npairs as u64 + 8).min(1 << 24) } else { 1 << 24 };
    while t.len() < npairs {
        let v = rng.range(1, top - 1) as u32;
        if seen.insert(v) {
            t.push(v);
        }
    }
    if rng.chance(1, 8) && !t.is_empty() {
        // one pair at the largest finite distance (bit pattern of f32::MAX)
        let i = rng.below(t.len() as u64) as usize;
        t[i] = 0x7f7f_ffff;
        return (t, "with-f32-max");
    }
    if rng.chance(1, 8) && !t.is_empty() {
        // one pair at distance +infinity (`1 / similarity - 1` of two sets without anything in common)
        let i = rng.below(t.len() as u64) as usize;
        t[i] = 0x7f80_0000;
        return (t, "with-infinity");
    }
    if rng.chance(1, 6) && !t.is_empty() {
        // one pair of different sets at distance exactly 0
        let i = rng.below(t.len() as u64) as usize;
        t[i] = 0;
        return (t, "with-zero");
    }
    (t, if style == 1 { "dense-ranks" } else { "random" })
}

fn c17(rng: &mut Rng, _tier: &str, idx: usize) -> Case {
    if idx == 3 {
        // more than 65 535 terms (implementation against the harness oracle only): lookups, links,
        // distances, set operations, common ancestors, sub-ontology and comparison on terms in arena
        // slots beyond 65 535
        let mut c = Case::new("big-arena");
        c.op(format!("bigarena 70000 {}", rng.next()));
        c.stat("big_arena_terms", 70000);
        c.nontrivial = true;
        return c;
    }
    let mut c = Case::new("linkage");
    // a flat ontology holding the terms of all runs of this case
    let m = rng.range(2, 60) as usize;
    if rng.chance(1, 3) {
        // binary route: some of the clustered terms are flagged obsolete / replaced (a set is
        // clustered with the terms it has, whatever their flags)
        let tids_b = gen_ids(rng, m, &[1, 118]);
        let mut f = Facts::default();
        f.terms.push((1, "All".to_string()));
        f.terms.push((118, "Phenotypic abnormality".to_string()));
        f.edges.push((1, 118));
        for (i, t) in tids_b.iter().enumerate() {
            f.terms.push((*t, "t".to_string()));
            if rng.chance(1, 2) {
                f.edges.push((if i == 0 || rng.chance(1, 3) { 118 } else { tids_b[rng.below(i as u64) as usize] }, *t));
            }
        }
        f.version = (2024, 1, 1);
        let mut flags: Flags = vec![];
        for t in &tids_b {
            if rng.chance(1, 3) {
                flags.push((*t, true, if rng.chance(1, 2) { Some(*rng.pick(&tids_b)) } else { None }));
            }
        }
        c.stat("obsolete_or_replaced_terms", flags.len() as u64);
        c.stat("binary_route_ontologies", 1);
        facts_to_fops(rng, &f, &flags, 3, 0, true, &mut c);
        return c17_runs(rng, c, tids_b);
    }
    let tids = gen_ids(rng, m, &[]);
    c.op("new".to_string());
    for t in &tids {
        c.op(format!("term {} {}", t, name("t")));
    }
    c.op("complete".to_string());
    if rng.chance(1, 2) {
        // a hierarchy among the terms (the clustered sets then contain ancestors and descendants
        // of each other; the union of two sets is the plain set union all the same)
        for i in 1..m {
            if rng.chance(2, 3) {
                c.op(format!("parent {} {}", tids[rng.below(i as u64) as usize], tids[i]));
            }
        }
        c.stat("hierarchical_ontologies", 1);
    }
    c.op("connect".to_string());
    c.op("ic".to_string());
    c.op("build min 0".to_string());
    c17_runs(rng, c, tids)
}

/// the clustering runs of a C17 case on the ontology in slot 0
fn c17_runs(rng: &mut Rng, mut c: Case, tids: Vec<u32>) -> Case {
    let m = tids.len();
    let methods = ["union", "single", "complete", "average"];
    if m >= 2 {
        // two sets at infinite distance: one merge all the same
        let method = *rng.pick(&methods);
        c.op(format!("link {} 0 {},{} {}", method, tids[0], tids[1], 0x7f80_0000u32));
        c.stat("two_sets_at_infinite_distance", 1);
    }
    let mut nontrivial = false;
    let runs = rng.range(3, 6);
    for r in 0..runs {
        let method = methods[((r + rng.below(4)) % 4) as usize];
        let exact_avg = rng.chance(4, 5);
        let cap = if method == "average" { if exact_avg { 13 } else { 30 } } else { 60 };
        let mut n = match rng.below(20) {
            0 => rng.below(2) as usize,
            1..=7 => rng.range(2, 6) as usize,
            8..=14 => rng.range(7, 20) as usize,
            _ => rng.range(21, 60) as usize,
        }
        .min(cap)
        .min(m);
        // inputs in an order unrelated to the id order
        let mut sel = tids.clone();
        rng.shuffle(&mut sel);
        let mut found = None;
        let multi = n >= 2 && rng.chance(1, 3);
        for attempt in 0..40 {
            if attempt == 30 {
                n = n.min(5);
            }
            let ids_n: Vec<Vec<u32>> = if multi {
                // input sets of 1..4 terms each, pairwise different, overlapping: many of them hold
                // the largest (or the smallest) term of the run, so that the union of two clusters
                // shares its last (first) id with both parts
                let hub_hi = *sel[..n].iter().max().unwrap_or(&0);
                let hub_lo = *sel[..n].iter().min().unwrap_or(&0);
                let mut out: Vec<Vec<u32>> = vec![];
                let mut guard = 0;
                while out.len() < n && guard < 50 * n + 50 {
                    guard += 1;
                    let k = rng.range(1, 4) as usize;
                    let mut st: BTreeSet<u32> = (0..k).map(|_| sel[rng.below(n as u64) as usize]).collect();
                    if rng.chance(1, 2) {
                        st.insert(hub_hi);
                    }
                    if rng.chance(1, 4) {
                        st.insert(hub_lo);
                    }
                    let v: Vec<u32> = st.into_iter().collect();
                    if !out.contains(&v) {
                        out.push(v);
                    }
                }
                if out.len() < n {
                    sel[..n].iter().map(|t| vec![*t]).collect()
                } else {
                    if rng.chance(1, 4) {
                        // one input set without any term (a set is a set; it takes part like the others)
                        let i = rng.below(n as u64) as usize;
                        out[i] = vec![];
                    }
                    out
                }
            } else {
                sel[..n].iter().map(|t| vec![*t]).collect()
            };
            let ids_n = &ids_n;
            let (table, style) = gen_table(rng, n, method, exact_avg);
            if let Some(arms) = simulate(method, ids_n, &table) {
                found = Some((ids_n.to_vec(), table, style, arms));
                break;
            }
            c.stat("tables_rejected_for_ties", 1);
        }
        let Some((ids_n, table, style, arms)) = found else { continue };
        if ids_n.iter().all(|s| s.len() == 1) {
            let flat: Vec<u32> = ids_n.iter().map(|s| s[0]).collect();
            c.op(format!("link {} 0 {} {}", method, ids_str(&flat), ids_str(&table)));
        } else {
            let sets: Vec<String> = ids_n.iter().map(|s| ids_str(s)).collect();
            c.op(format!("linkm {} 0 {} {}", method, sets.join("|"), ids_str(&table)));
            c.stat("runs_with_overlapping_input_sets", 1);
        }
        c.stat(&format!("runs_{method}"), 1);
        c.stat(&format!("table_{style}"), 1);
        c.stat(
            &format!("n_{}", match n { 0..=1 => "0..1", 2..=6 => "2..6", 7..=20 => "7..20", _ => "21..60" }),
            1,
        );
        c.stat("arm_idx_below_both", arms[0]);
        c.stat("arm_idx_between", arms[1]);
        c.stat("arm_idx_above_both", arms[2]);
        if n >= 3 {
            nontrivial = true;
        }
    }
    c.nontrivial = nontrivial;
    c
}
