//! C05 ops: set similarity with a USER-SUPPLIED term similarity injected through the public
//! `Similarity` trait (a table lookup keyed by `(id_a, id_b)` with dyadic values k/64).
//!
//!   setsim <slot> <spec> <comb> <idsA> <idsB>          `HpoSet::similarity`; line `SS <f32>`; spec = letter + salt:
//!                                                        t/s k/64, n/m signed, u/v coarse, i/j NON-FINITE (+-inf, NaN
//!                                                        entries; every NaN result is the token `f32:nan`); the second
//!                                                        letter of each pair is the symmetric table
//!   matsim <comb> <rows> <cols> <k,k,…>                  hand-built `Matrix::new`: `ROW …`/`COL …`
//!                                                        (iterators), `RM`/`CM` (maxima), `MS <f32>`
//!   cachesim <slot> <spec> <comb> <A:B> …                one `CachedSimilarity` for all queries: `CS <f32> …`
//! each followed by `oracle ok` / `oracle FAIL …` (naive f64 recomputation of the documented
//! formula; exact agreement of `HpoSet::similarity`, `GroupSimilarity::calculate`,
//! `SimilarityCombiner::calculate` on the hand-built matrix and the cached adaptor).
use crate::interp::Interp;
use crate::proto::*;
use hpo::annotations::AnnotationId;
use hpo::matrix::Matrix;
use hpo::similarity::{CachedSimilarity, GroupSimilarity, Similarity, SimilarityCombiner, StandardCombiner};
use hpo::{HpoSet, HpoTerm};

#[derive(Clone, Copy)]
pub struct Table {
    sym: bool,
    /// values shifted to [-0.5, 0.5): user similarities may be negative
    signed: bool,
    /// coarse values 0, 0.25, …, 1.75: scores above 1 and exact 1.0 are frequent
    coarse: bool,
    /// NON-FINITE scores: `k % 16`: 0 -> -inf, 15 -> +inf, 7 -> NaN, otherwise (k % 16) / 8
    /// (specs `i` asymmetric, `j` symmetric). Sums of maxima become NaN (inf - inf) also without
    /// NaN entries.
    nonfinite: bool,
    /// scores on a tiny scale: `k / 2^40`
    tiny: bool,
    salt: u64,
}

impl Table {
    fn k(&self, a: u64, b: u64) -> u64 {
        if self.sym {
            ((a + b) * 13 + a * b * 7 + self.salt) % 64
        } else {
            (a * 31 + b * 17 + self.salt) % 64
        }
    }
    fn val(&self, a: u32, b: u32) -> f32 {
        if self.nonfinite {
            return match self.k(u64::from(a), u64::from(b)) % 16 {
                0 => f32::NEG_INFINITY,
                15 => f32::INFINITY,
                7 => f32::from_bits(0x7fc0_0000),
                k => k as f32 / 8.0,
            };
        }
        let k = self.k(u64::from(a), u64::from(b)) as f32;
        if self.tiny {
            return k / 1_099_511_627_776.0;
        }
        if self.coarse {
            return (self.k(u64::from(a), u64::from(b)) % 8) as f32 / 4.0;
        }
        if self.signed {
            (k - 32.0) / 64.0
        } else {
            k / 64.0
        }
    }
    fn val64(&self, a: u32, b: u32) -> f64 {
        if self.nonfinite {
            return f64::from(self.val(a, b));
        }
        let k = self.k(u64::from(a), u64::from(b)) as f64;
        if self.tiny {
            return k / 1_099_511_627_776.0;
        }
        if self.coarse {
            return (self.k(u64::from(a), u64::from(b)) % 8) as f64 / 4.0;
        }
        if self.signed {
            (k - 32.0) / 64.0
        } else {
            k / 64.0
        }
    }
}

impl Similarity for Table {
    fn calculate(&self, a: &HpoTerm, b: &HpoTerm) -> f32 {
        self.val(a.id().as_u32(), b.id().as_u32())
    }
}

fn parse_spec(s: &str) -> Option<Table> {
    let salt = s.get(1..)?.parse::<u64>().ok()?;
    match s.as_bytes().first()? {
        b't' => Some(Table { sym: false, signed: false, coarse: false, nonfinite: false, tiny: false, salt }),
        b's' => Some(Table { sym: true, signed: false, coarse: false, nonfinite: false, tiny: false, salt }),
        b'n' => Some(Table { sym: false, signed: true, coarse: false, nonfinite: false, tiny: false, salt }),
        b'm' => Some(Table { sym: true, signed: true, coarse: false, nonfinite: false, tiny: false, salt }),
        b'u' => Some(Table { sym: false, signed: false, coarse: true, nonfinite: false, tiny: false, salt }),
        b'v' => Some(Table { sym: true, signed: false, coarse: true, nonfinite: false, tiny: false, salt }),
        b'w' => Some(Table { sym: false, signed: false, coarse: false, nonfinite: false, tiny: true, salt }),
        b'x' => Some(Table { sym: true, signed: false, coarse: false, nonfinite: false, tiny: true, salt }),
        b'i' => Some(Table { sym: false, signed: false, coarse: false, nonfinite: true, tiny: false, salt }),
        b'j' => Some(Table { sym: true, signed: false, coarse: false, nonfinite: true, tiny: false, salt }),
        _ => None,
    }
}

fn parse_comb(s: &str) -> Option<StandardCombiner> {
    let own = match s {
        "funsimavg" => StandardCombiner::FunSimAvg,
        "funsimmax" => StandardCombiner::FunSimMax,
        "bma" => StandardCombiner::Bma,
        _ => return None,
    };
    // the crate's own by-name constructor (documented names, any letter case) must agree
    for cased in [s.to_string(), s.to_uppercase(), {
        let mut c = s.to_string();
        if let Some(f) = c.get_mut(0..1) {
            f.make_ascii_uppercase();
        }
        c
    }] {
        match StandardCombiner::try_from(cased.as_str()) {
            Ok(c) if format!("{c:?}") == format!("{own:?}") => {}
            other => panic!("StandardCombiner::try_from({cased:?}) = {other:?}, documented {own:?}"),
        }
    }
    if StandardCombiner::try_from("funsim").is_ok() || StandardCombiner::try_from("").is_ok() {
        panic!("StandardCombiner::try_from accepts an undocumented name");
    }
    Some(own)
}

fn fs(v: &[f32]) -> String {
    if v.is_empty() {
        return "-".to_string();
    }
    v.iter().map(|x| f32bits(*x)).collect::<Vec<_>>().join(" ")
}

/// the documented combination, naively in f64, from the row-major `r x c` data
fn naive(comb: StandardCombiner, r: usize, c: usize, data: &[f64]) -> f64 {
    if r == 0 || c == 0 {
        return 0.0;
    }
    let mut rsum = 0.0;
    for i in 0..r {
        let mut m = f64::NEG_INFINITY;
        for j in 0..c {
            m = m.max(data[i * c + j]);
        }
        rsum += m;
    }
    let mut csum = 0.0;
    for j in 0..c {
        let mut m = f64::NEG_INFINITY;
        for i in 0..r {
            m = m.max(data[i * c + j]);
        }
        csum += m;
    }
    match comb {
        StandardCombiner::FunSimAvg => (rsum / r as f64 + csum / c as f64) / 2.0,
        StandardCombiner::FunSimMax => (rsum / r as f64).max(csum / c as f64),
        StandardCombiner::Bma => (rsum + csum) / (r + c) as f64,
    }
}

fn close(x: f32, y: f64) -> bool {
    x.is_finite() && (f64::from(x) - y).abs() <= 1e-6 * y.abs().max(1.0)
}

/// agreement of two routes / argument orders: the same bits, or both NaN (sign and payload of a
/// NaN are not pinned down by anything; both sides of the protocol print `f32:nan` for every NaN)
fn same(x: f32, y: f32) -> bool {
    x.to_bits() == y.to_bits() || (x.is_nan() && y.is_nan())
}

fn sorted_dedup(mut v: Vec<u32>) -> Vec<u32> {
    v.sort_unstable();
    v.dedup();
    v
}

pub fn exec(it: &mut Interp, toks: &[&str], out: &mut Vec<String>) -> bool {
    match toks {
        ["setsim2", slot_a, slot_b, spec, cb, a, bb] => {
            // the two sets belong to two ontology OBJECTS (e.g. two releases): each member is looked
            // up in the ontology of ITS set
            let (Some(tab), Some(comb), Some(a), Some(bv)) = (parse_spec(spec), parse_comb(cb), unids(a), unids(bb)) else {
                return false;
            };
            let (Some(oa), Some(ob)) = (
                slot_a.parse::<u32>().ok().and_then(|s| it.slots.get(&s)),
                slot_b.parse::<u32>().ok().and_then(|s| it.slots.get(&s)),
            ) else {
                out.push("noslot".to_string());
                return true;
            };
            let sa = HpoSet::new(oa, crate::ext::mk_group(&a));
            let sb = HpoSet::new(ob, crate::ext::mk_group(&bv));
            let s1 = sa.similarity(&sb, tab, comb);
            out.push(format!("SS {}", f32bits(s1)));
            let s2 = GroupSimilarity::new(comb, tab).calculate(&sa, &sb);
            if !same(s2, s1) {
                out.push(format!("oracle FAIL setsim2 routes differ: HpoSet {s1} GroupSimilarity {s2}").replace(' ', "_").replacen("oracle_FAIL_", "oracle FAIL ", 1));
            }
            true
        }
        ["setsim", slot, spec, cb, a, bb] => {
            let (Some(tab), Some(comb), Some(a), Some(bv)) = (parse_spec(spec), parse_comb(cb), unids(a), unids(bb)) else {
                return false;
            };
            let Some(o) = slot.parse::<u32>().ok().and_then(|s| it.slots.get(&s)) else {
                out.push("noslot".to_string());
                return true;
            };
            let sa = HpoSet::new(o, crate::ext::mk_group(&a));
            let sb = HpoSet::new(o, crate::ext::mk_group(&bv));
            let s1 = sa.similarity(&sb, tab, comb);
            out.push(format!("SS {}", f32bits(s1)));
            let mut fails: Vec<String> = vec![];
            let s2 = GroupSimilarity::new(comb, tab).calculate(&sa, &sb);
            let s3 = GroupSimilarity::new(comb, CachedSimilarity::new(tab)).calculate(&sa, &sb);
            let (ia, ib) = (sorted_dedup(a), sorted_dedup(bv));
            let mut v32: Vec<f32> = vec![];
            let mut v64: Vec<f64> = vec![];
            for x in &ia {
                for y in &ib {
                    v32.push(tab.val(*x, *y));
                    v64.push(tab.val64(*x, *y));
                }
            }
            let s4 = comb.calculate(&Matrix::new(ia.len(), ib.len(), &v32));
            if !same(s2, s1) || !same(s3, s1) || !same(s4, s1) {
                fails.push(format!("routes differ: HpoSet {s1} GroupSimilarity {s2} cached {s3} hand-built matrix {s4}"));
            }
            // the f64 recomputation with a tolerance is meaningful for finite tables only
            let want = naive(comb, ia.len(), ib.len(), &v64);
            if v32.iter().all(|x| x.is_finite()) && !close(s1, want) {
                fails.push(format!("{cb} of {}x{} = {s1}, documented formula gives {want}", ia.len(), ib.len()));
            }
            if (ia.is_empty() || ib.is_empty()) && s1.to_bits() != 0f32.to_bits() {
                fails.push(format!("empty set: {s1}"));
            }
            if tab.sym {
                // Also for the non-finite symmetric table `j` (NaN entries included). The maxima
                // `if a > b { a } else { b }` depend on the POSITION of a NaN in a row / column
                // ([NaN, 0.25] -> 0.25, [0.25, NaN] -> NaN), but the matrix of (B, A) is the transpose of
                // the matrix of (A, B) and both sets iterate in ascending id order, so every row of the
                // one is a column of the other with the same element order: row maxima and column
                // maxima are exchanged exactly; `+` and `f32::max` (which ignores a NaN operand on
                // either side) are commutative up to the sign / payload of a NaN. E.g. table j0,
                // A = {2}, B = {7, 8}: sim(2,7) = NaN, sim(2,8) = 0.25; funSimMax = 0.25 in both orders
                // (0.25.max(NaN) resp. NaN.max(0.25)). Lean: C05_symm_any_arith.
                let sw = sb.similarity(&sa, tab, comb);
                if !same(sw, s1) {
                    fails.push(format!("symmetric similarity, swapped sets: {s1} vs {sw}"));
                }
            }
            match fails.first() {
                None => out.push("oracle ok".to_string()),
                Some(f) => out.push(format!("oracle FAIL setsim: {f}")),
            }
            true
        }
        ["matsim1", cb, ks] => {
            // a one-row matrix with tens of thousands of columns: only the combined score
            let (Some(comb), Some(ks)) = (parse_comb(cb), unids(ks)) else { return false };
            let data: Vec<f32> = ks.iter().map(|k| *k as f32 / 64.0).collect();
            let m = Matrix::new(1, data.len(), &data);
            let s = comb.calculate(&m);
            out.push(format!("MS {}", f32bits(s)));
            true
        }
        ["matsimq", cb, r, c, ks] => {
            // a matrix of tens of thousands of cells in several rows: only the combined score
            let (Some(comb), Ok(r), Ok(c), Some(ks)) = (parse_comb(cb), r.parse::<usize>(), c.parse::<usize>(), unids(ks)) else {
                return false;
            };
            let data: Vec<f32> = ks.iter().map(|k| *k as f32 / 64.0).collect();
            let m = Matrix::new(r, c, &data);
            let s = comb.calculate(&m);
            out.push(format!("MS {}", f32bits(s)));
            true
        }
        ["matsim", cb, r, c, ks] => {
            let (Some(comb), Ok(r), Ok(c), Some(ks)) = (parse_comb(cb), r.parse::<usize>(), c.parse::<usize>(), unids(ks)) else {
                return false;
            };
            let data: Vec<f32> = ks.iter().map(|k| *k as f32 / 64.0).collect();
            let m = Matrix::new(r, c, &data);
            let mut fails: Vec<String> = vec![];
            if m.dim() != (r, c) {
                fails.push(format!("dim() = {:?} for a {r}x{c} matrix", m.dim()));
            }
            if !data.is_empty() {
                let rows: Vec<Vec<f32>> = m.rows().map(|row| row.copied().collect()).collect();
                let cols: Vec<Vec<f32>> = m.cols().map(|col| col.copied().collect()).collect();
                for row in &rows {
                    out.push(format!("ROW {}", fs(row)));
                }
                for col in &cols {
                    out.push(format!("COL {}", fs(col)));
                }
                let rm = comb.row_maxes(&m);
                let cm = comb.col_maxes(&m);
                out.push(format!("RM {}", fs(&rm)));
                out.push(format!("CM {}", fs(&cm)));
                if data.len() == r * c {
                    // index law and maxima, independently
                    if rows.len() != r || cols.len() != c {
                        fails.push(format!("{} rows / {} cols iterated for a {r}x{c} matrix", rows.len(), cols.len()));
                    }
                    for i in 0..r.min(rows.len()) {
                        for j in 0..c.min(cols.len()) {
                            let d = data[i * c + j];
                            if rows[i].get(j) != Some(&d) || cols[j].get(i) != Some(&d) {
                                fails.push(format!("element ({i},{j})"));
                            }
                        }
                        if rows[i].len() != c {
                            fails.push(format!("row {i} has {} elements", rows[i].len()));
                        }
                    }
                    for j in 0..c.min(cols.len()) {
                        if cols[j].len() != r {
                            fails.push(format!("column {j} has {} elements", cols[j].len()));
                        }
                    }
                    let want_rm: Vec<f32> = (0..r).map(|i| (0..c).map(|j| data[i * c + j]).fold(f32::NEG_INFINITY, f32::max)).collect();
                    let want_cm: Vec<f32> = (0..c).map(|j| (0..r).map(|i| data[i * c + j]).fold(f32::NEG_INFINITY, f32::max)).collect();
                    if rm != want_rm || cm != want_cm {
                        fails.push(format!("maxima: rows {rm:?} (naive {want_rm:?}) cols {cm:?} (naive {want_cm:?})"));
                    }
                }
            }
            let s = comb.calculate(&m);
            out.push(format!("MS {}", f32bits(s)));
            if data.len() == r * c {
                let d64: Vec<f64> = ks.iter().map(|k| f64::from(*k) / 64.0).collect();
                let want = naive(comb, r, c, &d64);
                if !close(s, want) {
                    fails.push(format!("{cb} of {r}x{c} = {s}, documented formula gives {want}"));
                }
            }
            match fails.first() {
                None => out.push("oracle ok".to_string()),
                Some(f) => out.push(format!("oracle FAIL matsim: {f}")),
            }
            true
        }
        ["cachesim", slot, spec, cb, qs @ ..] => {
            let (Some(tab), Some(comb)) = (parse_spec(spec), parse_comb(cb)) else { return false };
            let Some(o) = slot.parse::<u32>().ok().and_then(|s| it.slots.get(&s)) else {
                out.push("noslot".to_string());
                return true;
            };
            let mut queries: Vec<(Vec<u32>, Vec<u32>)> = vec![];
            for q in qs {
                let Some((a, b)) = q.split_once(':') else { return false };
                let (Some(a), Some(b)) = (unids(a), unids(b)) else { return false };
                queries.push((a, b));
            }
            let cached = GroupSimilarity::new(comb, CachedSimilarity::new(tab));
            let plain = GroupSimilarity::new(comb, tab);
            let mut line = "CS".to_string();
            let mut fails: Vec<String> = vec![];
            for (n, (a, b)) in queries.iter().enumerate() {
                let sa = HpoSet::new(o, crate::ext::mk_group(&a));
                let sb = HpoSet::new(o, crate::ext::mk_group(&b));
                let s = cached.calculate(&sa, &sb);
                let p = plain.calculate(&sa, &sb);
                line.push(' ');
                line.push_str(&f32bits(s));
                if !same(s, p) {
                    fails.push(format!("query {n}: cached {s} vs bare {p}"));
                }
            }
            out.push(line);
            match fails.first() {
                None => out.push("oracle ok".to_string()),
                Some(f) => out.push(format!("oracle FAIL cachesim: {f}")),
            }
            true
        }
        _ => false,
    }
}
