//! Generators for C07 (binary serialisation round-trips) and C08 (decoder honours v1-v3, rejects
//! truncated / extended / unsupported files).
use crate::enc::{encode, RawFacts};
use crate::gen::*;
use crate::interp::Interp;
use crate::proto::*;
use crate::rng::Rng;

pub fn n_cases(prop: &str, tier: &str) -> usize {
    let quick = tier == "quick";
    match prop {
        "C07" => if quick { 900 } else { 10_000 },
        // thorough: + every offset of the shipped example.hpo in 44 chunks, + the v1 / v2 files
        "C08" => if quick { 200 } else { 5_000 + 44 + 2 },
        _ => 0,
    }
}

pub fn gen_case(prop: &str, tier: &str, rng: &mut Rng, idx: usize) -> Case {
    match prop {
        "C07" => c07(rng, idx),
        _ => c08(rng, tier, idx),
    }
}

// ---------------------------------------------------------------- names around the 255-byte limit

const WIDE: [&str; 3] = ["é", "日", "😀"]; // 2, 3, 4 bytes

/// a name of `len` bytes (±3) whose multi-byte character (width `w`) starts `back` bytes before
/// byte 255, i.e. straddles the limit when `0 < back < w`
fn straddle_name(rng: &mut Rng, stats: &mut Case) -> String {
    let w = rng.range(2, 4) as usize;
    let back = rng.range(0, w as u64) as usize; // 0: starts at 255; w: ends exactly at 255
    let mut s = "a".repeat(255 - back);
    s.push_str(WIDE[w - 2]);
    let tail = *rng.pick(&[0usize, 0, 1, 5, 45]);
    s.push_str(&"b".repeat(tail));
    if back > 0 && back < w {
        stats.stat("names_char_straddles_byte_255", 1);
    }
    s
}

fn sized_name(rng: &mut Rng, stats: &mut Case) -> String {
    let len = *rng.pick(&[0usize, 1, 254, 255, 256, 300, 253, 257, 600]);
    stats.stat(&format!("name_len_{len}"), 1);
    match rng.below(3) {
        0 => "a".repeat(len),
        1 => {
            // multi-byte filler: 2-byte characters, odd lengths get one ASCII byte
            let mut s = "é".repeat(len / 2);
            if len % 2 == 1 {
                s.insert(0, 'x');
            }
            s
        }
        _ => {
            let mut s = String::new();
            while s.len() + 4 <= len {
                s.push_str(*rng.pick(&["a", "é", "日", "😀"]));
            }
            while s.len() < len {
                s.push('z');
            }
            s
        }
    }
}

fn special_name(rng: &mut Rng, stats: &mut Case) -> String {
    if rng.chance(1, 2) {
        straddle_name(rng, stats)
    } else {
        sized_name(rng, stats)
    }
}

/// longest prefix of at most 255 bytes at a character boundary
fn cut255(s: &str) -> String {
    let mut n = 0usize;
    for c in s.chars() {
        if n + c.len_utf8() > 255 {
            break;
        }
        n += c.len_utf8();
    }
    s[..n].to_string()
}

// ---------------------------------------------------------------- C07

fn c07(rng: &mut Rng, idx: usize) -> Case {
    match idx {
        0 => return c07_probe_k2(rng),
        1 => return c07_probe_k3(),
        2 => return c07_prefix_regression(),
        3 => {
            // round trip of an ontology of 70 000 terms whose records list every term
            // (implementation against the harness oracle only: beyond what the model can hold)
            let mut c = Case::new("big-roundtrip");
            c.op(format!("bigarena 70000 {}", rng.next()));
            c.stat("big_round_trips", 1);
            c.nontrivial = true;
            return c;
        }
        4 => {
            // a term with 65 537 direct parents (the parent count is a u32), a record of each kind
            // listing as many terms: independently encoded file, then the crate's own bytes
            let mut c = Case::new("big-fan");
            c.op(format!("bigfan 65537 {}", rng.next()));
            c.stat("big_fans", 1);
            c.nontrivial = true;
            return c;
        }
        _ => {}
    }
    if idx % 15 == 8 {
        // construction path: the JAX text files (the only one besides the binary format that yields
        // obsolete / replaced terms, here together with annotations on them), then the round trip
        let mut c = crate::gen_c09::c09(rng, "quick", 0);
        c.tag = format!("text-{}", c.tag);
        c.stat("text_route", 1);
        c.op("asbytes 0".to_string());
        c.op("roundtrip 0 1".to_string());
        c.op("dump 1".to_string());
        c.op("rtcheck 0 1".to_string());
        c.op("same 0 1".to_string());
        return c;
    }
    let path = rng.below(6); // 0-2 builder, 3-5 bytes v1..v3
    let rebuilt = rng.chance(1, 4);
    let tag = match (path < 3, rebuilt) {
        (true, false) => "builder",
        (false, false) => "bytes",
        (true, true) => "builder-rebuilt",
        (false, true) => "bytes-rebuilt",
    };
    let mut c = Case::new(tag);
    let max_terms = *rng.pick(&[3usize, 6, 12, 25]);
    let (mut f, shape) = gen_facts(rng, &DagOpts { max_terms, with_roots: true, max_recs: 5 });
    c.stat(&format!("shape_{shape:?}"), 1);
    if idx % 30 == 5 {
        // no gene at all, but diseases of both kinds: an empty section in front of non-empty ones
        f.recs[0].clear();
        f.links[0].clear();
        for k in 1..3 {
            if f.recs[k].is_empty() {
                f.recs[k].push((77, gen_name(rng)));
                let t = f.terms[rng.below(f.terms.len() as u64) as usize].0;
                f.links[k].push((77, t));
            }
        }
        c.stat("no_gene_but_diseases", 1);
    }
    if idx % 30 == 11 {
        // a file whose LAST byte is a line feed / carriage return: the only ORPHA disease is
        // annotated to HP:0000010 / 13 / 266 / 269 as its largest term
        let last = *rng.pick(&[10u32, 13, 266, 269]);
        if !f.terms.iter().any(|t| t.0 == last) {
            f.terms.push((last, gen_name(rng)));
            f.edges.push((118, last));
        }
        f.recs[2].clear();
        f.links[2].clear();
        f.recs[2].push((5, gen_name(rng)));
        f.links[2].push((5, last));
        if let Some(t) = f.terms.iter().find(|t| t.0 < last && t.0 != 1) {
            f.links[2].push((5, t.0));
        }
        c.stat("files_ending_in_a_line_end_byte", 1);
    }
    if idx % 30 == 23 {
        // a term with 9..13 / 255..513 direct parents, a term with as many children, records with
        // as many terms
        let p = *rng.pick(&[9usize, 10, 11, 12, 13, 255, 256, 257, 513]);
        f = gen_fan(rng, p);
        c.stat(&format!("fan_{p}"), 1);
    }
    if idx % 30 == 17 {
        // an is_a chain of depth 40..110, terms supplied in a random order
        let n = rng.range(40, 110) as usize;
        f = gen_deep_chain_rooted(rng, n);
        c.stat("deep_chains", 1);
    }
    // maximal record ids, records without terms, empty sections
    for k in 0..3 {
        if rng.chance(1, 6) && !f.recs[k].iter().any(|r| r.0 == u32::MAX) {
            f.recs[k].push((u32::MAX, gen_name(rng)));
            c.stat("record_id_u32_max", 1);
        }
        if rng.chance(1, 10) {
            f.recs[k].clear();
            f.links[k].clear();
        }
        if f.recs[k].is_empty() {
            c.stat("empty_sections", 1);
        }
        let linked: std::collections::BTreeSet<u32> = f.links[k].iter().map(|l| l.0).collect();
        c.stat("records_without_terms", f.recs[k].iter().filter(|r| !linked.contains(&r.0)).count() as u64);
    }
    if f.terms.iter().any(|t| t.0 == 0) {
        c.stat("term_id_0", 1);
    }
    if f.terms.iter().any(|t| t.0 == 9_999_999) {
        c.stat("term_id_9999999", 1);
    }
    // names around the limit
    let mut long_names = false;
    if rng.chance(2, 3) {
        let n = rng.range(1, 3);
        for _ in 0..n {
            let nm = special_name(rng, &mut c);
            match rng.below(4) {
                0 | 1 => {
                    let i = rng.below(f.terms.len() as u64) as usize;
                    f.terms[i].1 = nm;
                }
                2 => {
                    if !f.recs[0].is_empty() {
                        let i = rng.below(f.recs[0].len() as u64) as usize;
                        f.recs[0][i].1 = nm;
                    }
                }
                _ => {
                    let k = 1 + rng.below(2) as usize;
                    if !f.recs[k].is_empty() {
                        let i = rng.below(f.recs[k].len() as u64) as usize;
                        f.recs[k][i].1 = nm; // diseases: u32 length, never truncated
                    }
                }
            }
        }
    }
    let src: u32 = if rebuilt { 5 } else { 0 };
    if path < 3 {
        long_names = f.terms.iter().any(|t| t.1.len() > 255) || f.recs[0].iter().any(|r| r.1.len() > 255);
        // (with some rejected calls among the accepted ones: nothing of them reaches the file)
        let failing_permille = if rng.chance(1, 3) { 120 } else { 0 };
        facts_to_prog(rng, &f, &ProgOpts { shuffle: true, failing_permille, build_defaults: true, slot: 0 }, &mut c);
    } else {
        // the file formats cannot carry more than 255 bytes of a term / gene name
        for t in f.terms.iter_mut() {
            t.1 = cut255(&t.1);
        }
        for r in f.recs[0].iter_mut() {
            r.1 = cut255(&r.1);
        }
        let fv = (path - 2) as u8;
        let flags = gen_flags(rng, &mut f);
        c.stat(&format!("binary_v{fv}"), 1);
        c.stat("obsolete_or_replaced_terms", flags.len() as u64);
        facts_to_fops(rng, &f, &flags, fv, 0, true, &mut c);
    }
    if long_names {
        c.stat("cases_with_names_over_255_bytes", 1);
    }
    facts_stats(&f, &mut c);
    c.op("dump 0".to_string());
    if rebuilt {
        c.op("roundtrip 0 5".to_string());
        c.op("rtcheck 0 5".to_string());
    }
    c.op(format!("asbytes {src}"));
    c.op(format!("roundtrip {src} 1"));
    c.op("dump 1".to_string());
    c.op(format!("rtcheck {src} 1"));
    if !long_names || rebuilt {
        c.op(format!("same {src} 1"));
        // inside the theorem's hypotheses the recorded findings do not occur
        c.op(format!("probe K2 {src} 1"));
        c.op(format!("probe K3 {src} 1"));
    }
    // serialising the reloaded ontology again gives the same bytes (canonical form)
    c.op("asbytes 1".to_string());
    let nrec = f.recs[0].len() + f.recs[1].len() + f.recs[2].len();
    c.nontrivial = nrec > 0 && f.terms.len() >= 3;
    c
}

/// K2: categories / modifier are not serialised (ontology built WITHOUT defaults)
fn c07_probe_k2(rng: &mut Rng) -> Case {
    let mut c = Case::new("probe-K2");
    let (mut f, _) = gen_facts(rng, &DagOpts { max_terms: 10, with_roots: true, max_recs: 3 });
    let others: Vec<u32> = f.terms.iter().map(|t| t.0).filter(|x| *x != 1 && *x != 118).collect();
    for (i, o) in others.iter().enumerate() {
        f.edges.push((if i % 2 == 0 { 1 } else { 118 }, *o));
    }
    f.edges.sort_unstable();
    f.edges.dedup();
    facts_to_prog(rng, &f, &ProgOpts { shuffle: false, failing_permille: 0, build_defaults: false, slot: 0 }, &mut c);
    c.op("dump 0".to_string());
    c.op("roundtrip 0 1".to_string());
    c.op("dump 1".to_string());
    c.op("probe K2 0 1".to_string());
    c
}

/// K3: a replacement id HP:0000000 (only an obo file can produce it) re-loads as "no replacement"
fn c07_probe_k3() -> Case {
    let mut c = Case::new("probe-K3");
    c.op("obok3 0".to_string());
    c.op("dump 0".to_string());
    c.op("asbytes 0".to_string());
    c.op("roundtrip 0 1".to_string());
    c.op("dump 1".to_string());
    c.op("probe K3 0 1".to_string());
    c
}

/// regression input of the repaired defect: 254 x 'a' + 'é' as term and as gene name
fn c07_prefix_regression() -> Case {
    let mut c = Case::new("regression-name-254a-e-acute");
    let nm = format!("{}é", "a".repeat(254));
    c.op("new".to_string());
    c.op(format!("term 1 {}", name("All")));
    c.op(format!("term 118 {}", name("Phenotypic abnormality")));
    c.op(format!("term 2 {}", name(&nm)));
    c.op("complete".to_string());
    c.op("parent 1 118".to_string());
    c.op("parent 118 2".to_string());
    c.op("connect".to_string());
    c.op(format!("ann g 7 {} 2", name(&nm)));
    c.op(format!("ann o 7 {} 2", name(&nm)));
    c.op("ic".to_string());
    c.op("build def 0".to_string());
    c.op("asbytes 0".to_string());
    c.op("roundtrip 0 1".to_string());
    c.op("dump 1".to_string());
    c.op("rtcheck 0 1".to_string());
    c.stat("cases_with_names_over_255_bytes", 1);
    c.nontrivial = true;
    c
}

// ---------------------------------------------------------------- C08

/// the records the `f*` ops of `ops` accumulate (same code path as the interpreter)
fn facts_of_ops(ops: &[String]) -> RawFacts {
    let mut it = Interp::default();
    let mut out = vec![];
    for l in ops {
        let toks: Vec<&str> = l.split(' ').collect();
        it.exec(&toks, &mut out);
    }
    it.ext.facts.clone()
}

fn c08(rng: &mut Rng, tier: &str, idx: usize) -> Case {
    let shipped = "/repo/tests/example.hpo";
    if idx == 0 {
        // the shipped v3 file: decoded by both sides, sampled truncation offsets
        let mut c = Case::new("shipped-v3");
        let len = std::fs::metadata(shipped).map(|m| m.len()).unwrap_or(0) as usize;
        c.op(format!("frombytes @{shipped} 0"));
        c.op("dump 0".to_string());
        c.op(format!("verbyte @{shipped}"));
        c.op(format!("suffix @{shipped} {}", hex(&[0, 0, 0, 0, 0, 0, 0, 0])));
        let mut n = 0u64;
        if len > 20 {
            c.op(format!("cuts @{shipped} 0 12"));
            c.op(format!("cuts @{shipped} {} {}", len - 10, len));
            n += 22;
            for _ in 0..13 {
                let lo = rng.range(12, len as u64 - 20) as usize;
                c.op(format!("cuts @{shipped} {} {}", lo, lo + 10));
                n += 10;
            }
        }
        c.stat("truncation_offsets", n);
        c.stat("shipped_files", 1);
        c.nontrivial = true;
        return c;
    }
    if tier != "quick" && idx >= 5_000 {
        let j = idx - 5_000;
        if j < 44 {
            // every offset of the shipped v3 file
            let mut c = Case::new("shipped-v3-every-offset");
            c.op(format!("cuts @{shipped} {} {}", j * 1000, (j + 1) * 1000));
            c.stat("truncation_offsets", 1000);
            c.nontrivial = true;
            return c;
        }
        let file = if j == 44 { "/repo/tests/example_v1.hpo" } else { "/repo/tests/example_v2.hpo" };
        let mut c = Case::new("shipped-old-format");
        c.op(format!("frombytes @{file} 0"));
        c.op("dump 0".to_string());
        c.stat("shipped_files", 1);
        c.nontrivial = true;
        return c;
    }
    if idx == 7 {
        // counts beyond two bytes: a term with 65 537 direct parents in an independently encoded file
        let mut c = Case::new("big-fan");
        c.op(format!("bigfan 65537 {}", rng.next()));
        c.stat("big_fans", 1);
        c.nontrivial = true;
        return c;
    }
    let fv = 1 + (idx % 3) as u8;
    let noroots = rng.chance(1, 12);
    let mut c = Case::new(&format!("v{fv}{}", if noroots { "-noroots" } else { "" }));
    let max_terms = *rng.pick(&[2usize, 4, 6, 9, 14, 24]);
    let max_recs = *rng.pick(&[3usize, 3, 5]);
    let (mut f, _) = gen_facts(rng, &DagOpts { max_terms, with_roots: !noroots, max_recs });
    if idx % 40 == 23 && !noroots {
        // counts beyond one byte: a term with 255 .. 513 parents, a term with as many children, records
        // listing as many terms
        let width = *rng.pick(&[255usize, 256, 257, 300, 513]);
        f = gen_fan(rng, width);
        c.stat("fan_files", 1);
    }
    if idx % 40 == 17 && !noroots {
        // a file whose LAST byte is a line feed / carriage return: the only disease of the last
        // section (ORPHA in v3, OMIM in v1 / v2) has HP:0000010 / 13 / 266 / 269 as its largest term
        let last = *rng.pick(&[10u32, 13, 266, 269]);
        if !f.terms.iter().any(|t| t.0 == last) {
            f.terms.push((last, gen_name(rng)));
            f.edges.push((118, last));
        }
        let k = if fv == 3 { 2 } else { 1 };
        f.recs[2].clear();
        f.links[2].clear();
        f.recs[k].clear();
        f.links[k].clear();
        f.recs[k].push((5, gen_name(rng)));
        f.links[k].push((5, last));
        c.stat("files_ending_in_a_line_end_byte", 1);
    }
    let mut deep = false;
    if idx % 40 == 31 && !noroots {
        // an is_a chain of depth 40..110 (beyond any shipped ontology); the term records leaf first
        // in the first file, shuffled in the second: recursion depth of the ancestor caches
        let n = rng.range(40, 110) as usize;
        f = gen_deep_chain_rooted(rng, n);
        f.terms.reverse();
        deep = true;
        c.stat("deep_chain_files", 1);
    }
    if rng.chance(1, 8) {
        // a name of exactly 255 / 254 bytes, multi-byte at the end
        let i = rng.below(f.terms.len() as u64) as usize;
        f.terms[i].1 = format!("{}é", "a".repeat(*rng.pick(&[253usize, 252, 100])));
        c.stat("long_names", 1);
    }
    if rng.chance(1, 8) {
        for k in 0..3 {
            if rng.chance(1, 2) {
                f.recs[k].clear();
                f.links[k].clear();
                c.stat("empty_sections", 1);
            }
        }
    }
    // a record may list a term twice (the decoder inserts into a set)
    for k in 0..3 {
        if rng.chance(1, 5) && !f.links[k].is_empty() {
            let l = *rng.pick(&f.links[k]);
            f.links[k].push(l);
            c.stat("duplicate_term_in_record", 1);
        }
    }
    let flags = gen_flags(rng, &mut f);
    c.stat("obsolete_or_replaced_terms", flags.len() as u64);
    // order A
    let mut tmp = Case::new("");
    facts_to_fops(rng, &f, &flags, fv, 2, !deep, &mut tmp);
    let fload = tmp.ops.pop().unwrap_or_default();
    let bytes = encode(&facts_of_ops(&tmp.ops), fv);
    for op in &tmp.ops {
        c.op(op.clone());
    }
    c.op(format!("fenc {fv}"));
    c.op(fload);
    c.op(format!("frombytes {} 0", hex(&bytes)));
    c.op("dump 0".to_string());
    c.op("same 0 2".to_string());
    // order B: another permutation of the records of every section
    let mut tmp2 = Case::new("");
    facts_to_fops(rng, &f, &flags, fv, 3, true, &mut tmp2);
    tmp2.ops.pop();
    let bytes2 = encode(&facts_of_ops(&tmp2.ops), fv);
    c.op(format!("frombytes {} 1", hex(&bytes2)));
    c.op("same 0 1".to_string());
    if bytes2 != bytes {
        c.stat("files_with_permuted_records", 1);
    }
    // damage: every truncation offset, suffixes of 1-8 bytes, all 256 version bytes
    if bytes.len() > 6000 || (deep && bytes.len() > 400) {
        // a large (fan) file: the truncation offsets at both ends and three windows inside
        let n = bytes.len();
        c.op(format!("cuts {} 0 48", hex(&bytes)));
        c.op(format!("cuts {} {} {}", hex(&bytes), n - 48, n));
        for _ in 0..3 {
            let lo = rng.range(48, (n - 100) as u64) as usize;
            c.op(format!("cuts {} {} {}", hex(&bytes), lo, lo + 24));
        }
    } else {
        c.op(format!("cuts {} 0 {}", hex(&bytes), bytes.len()));
    }
    let ext: Vec<u8> = match rng.below(3) {
        0 => vec![0; 8],
        _ => (0..8).map(|_| rng.below(256) as u8).collect(),
    };
    c.op(format!("suffix {} {}", hex(&bytes), hex(&ext)));
    // a trailing line break is an extension like any other
    c.op(format!("suffix {} {}", hex(&bytes), *rng.pick(&["0a", "0d0a", "0a0a", "0d"])));
    if fv >= 2 {
        c.op(format!("verbyte {}", hex(&bytes)));
        c.stat("version_byte_values", 256);
        // the body without the release date behind every header
        c.op(format!("hdrbyte {}", hex(&bytes[8..])));
    } else {
        // a header-less v1 body behind "HPO" + every version byte
        c.op(format!("hdrbyte {}", hex(&bytes)));
        c.stat("version_byte_values", 256);
    }
    c.stat("file_bytes", bytes.len() as u64);
    c.stat("truncation_offsets", bytes.len() as u64);
    c.stat("suffixes", 8);
    c.stat(&format!("format_v{fv}"), 1);
    facts_stats(&f, &mut c);
    c.nontrivial = !noroots && f.terms.len() >= 2;
    c
}
