//! Extension ops of the interpreter (per-property queries). Each returns `false` for an unknown op.
use crate::interp::{term_ids, Interp};
use crate::proto::*;
use hpo::annotations::AnnotationId;
use hpo::term::HpoGroup;
use hpo::HpoTermId;
use std::collections::HashSet;

#[derive(Default)]
pub struct Ext {
    /// decoded records accumulated by the `f*` ops
    pub facts: crate::enc::RawFacts,
}

pub fn exec(it: &mut Interp, toks: &[&str], out: &mut Vec<String>) -> bool {
    group_ops(it, toks, out) || termid_ops(it, toks, out) || crate::ext2::exec(it, toks, out)
}

/// The group of the given ids, built through one of the crate's public constructors (chosen by
/// the ids themselves, so that a replay builds it the same way): `From<Vec<u32>>` and
/// `From<Vec<HpoTermId>>` (as given with non-adjacent repeats / ascending with repeated elements), `FromIterator<HpoTermId>`
/// (as given with the largest id once more at the end / ascending with repeats), `insert` by `insert`, `From<HashSet<HpoTermId>>`.
/// All of them yield the same sorted duplicate-free set (C12).
pub fn mk_group(ids: &[u32]) -> HpoGroup {
    let tid = |v: &[u32]| -> Vec<HpoTermId> { v.iter().map(|x| HpoTermId::from(*x)).collect() };
    let with_repeats = |v: &[u32]| -> Vec<u32> {
        let mut w = v.to_vec();
        if let Some(mx) = v.iter().max() {
            w.push(*mx);
        }
        if v.len() >= 3 {
            w.push(v[v.len() / 2]);
        }
        w
    };
    let h = ids.iter().fold(ids.len() as u64, |a, x| (a * 31 + u64::from(*x)) % 1_000_003);
    match h % 7 {
        6 => HpoGroup::from(tid(ids).into_iter().collect::<HashSet<HpoTermId>>()),
        0 => HpoGroup::from(with_repeats(ids)),
        1 => HpoGroup::from(tid(&with_repeats(ids))),
        2 => {
            let mut w = with_repeats(ids);
            w.sort_unstable();
            HpoGroup::from(tid(&w))
        }
        3 => tid(&with_repeats(ids)).into_iter().collect(),
        4 => {
            let mut w = with_repeats(ids);
            w.sort_unstable();
            tid(&w).into_iter().collect()
        }
        _ => {
            let mut g = HpoGroup::new();
            for x in with_repeats(ids) {
                g.insert(x);
            }
            g
        }
    }
}

fn reg<'a>(it: &'a Interp, r: &str) -> HpoGroup {
    it.regs.get(r).cloned().unwrap_or_default()
}

fn group_ops(it: &mut Interp, toks: &[&str], out: &mut Vec<String>) -> bool {
    match toks {
        ["gnew", r] => {
            it.regs.insert(r.to_string(), HpoGroup::new());
            true
        }
        ["gins", r, x] => {
            let Ok(x) = x.parse::<u32>() else { return false };
            let g = it.regs.entry(r.to_string()).or_default();
            let new = g.insert(x);
            out.push(b(new).to_string());
            true
        }
        ["gfrom", how, r, l] => {
            let Some(l) = unids(l) else { return false };
            let g: HpoGroup = match *how {
                "vec" => HpoGroup::from(l.iter().map(|x| HpoTermId::from(*x)).collect::<Vec<HpoTermId>>()),
                "vecu32" => HpoGroup::from(l.clone()),
                "set" => HpoGroup::from(l.iter().map(|x| HpoTermId::from(*x)).collect::<HashSet<HpoTermId>>()),
                "iter" => l.iter().map(|x| HpoTermId::from(*x)).collect::<HpoGroup>(),
                _ => return false,
            };
            it.regs.insert(r.to_string(), g);
            true
        }
        ["gor", a, bb, c] => {
            let (ga, gb) = (reg(it, a), reg(it, bb));
            // exercise the three operator impls: &a | &b, a | b, a | &b -- all must agree
            let r1 = &ga | &gb;
            let r2 = ga.clone() | gb.clone();
            let r3 = ga.clone() | &gb;
            if term_ids(&r1) != term_ids(&r2) || term_ids(&r1) != term_ids(&r3) {
                out.push("operator-impls-disagree".to_string());
            }
            it.regs.insert(c.to_string(), r1);
            true
        }
        ["gand", a, bb, c] => {
            let (ga, gb) = (reg(it, a), reg(it, bb));
            let r1 = &ga & &gb;
            let r2 = ga.clone() & gb.clone();
            let r3 = ga.clone() & &gb;
            if term_ids(&r1) != term_ids(&r2) || term_ids(&r1) != term_ids(&r3) {
                out.push("operator-impls-disagree".to_string());
            }
            it.regs.insert(c.to_string(), r1);
            true
        }
        ["gadd", a, x, c] => {
            let Ok(x) = x.parse::<u32>() else { return false };
            let ga = reg(it, a);
            let r1 = &ga + HpoTermId::from(x);
            let r2 = ga.clone() + HpoTermId::from(x);
            if term_ids(&r1) != term_ids(&r2) {
                out.push("operator-impls-disagree".to_string());
            }
            it.regs.insert(c.to_string(), r1);
            true
        }
        ["gorid", a, x, c] => {
            let Ok(x) = x.parse::<u32>() else { return false };
            let ga = reg(it, a);
            it.regs.insert(c.to_string(), &ga | HpoTermId::from(x));
            true
        }
        ["gshow", r] => {
            let g = reg(it, r);
            // len(), iter(), is_empty()
            out.push(format!("g {} {} empty={}", g.len(), term_ids(&g), b(g.is_empty())));
            // the iterator through the std adaptors: skip / step_by / nth-then-next / count / last / size_hint
            let all: Vec<u32> = g.iter().map(|x| x.as_u32()).collect();
            let mut fails: Vec<String> = vec![];
            for k in [0usize, 1, 2, 5, 31] {
                let sk: Vec<u32> = g.iter().skip(k).map(|x| x.as_u32()).collect();
                if sk != all.iter().skip(k).copied().collect::<Vec<u32>>() {
                    fails.push(format!("iter().skip({k})"));
                }
                let st: Vec<u32> = g.iter().step_by(k + 1).map(|x| x.as_u32()).collect();
                if st != all.iter().step_by(k + 1).copied().collect::<Vec<u32>>() {
                    fails.push(format!("iter().step_by({})", k + 1));
                }
                let mut i = g.iter();
                let a = i.nth(k).map(|x| x.as_u32());
                let bb = i.next().map(|x| x.as_u32());
                if a != all.get(k).copied() || bb != all.get(k + 1).copied() {
                    fails.push(format!("iter().nth({k}) then next()"));
                }
            }
            if g.iter().count() != all.len() || g.iter().last().map(|x| x.as_u32()) != all.last().copied() {
                fails.push("iter().count() / last()".to_string());
            }
            let (lo, hi) = g.iter().size_hint();
            if lo > all.len() || hi.is_some_and(|h| h < all.len()) {
                fails.push(format!("iter().size_hint() = ({lo}, {hi:?}) for {} ids", all.len()));
            }
            if !fails.is_empty() {
                out.push(format!("oracle FAIL group-iterator {}", fails.join(";").replace(' ', "_")));
            }
            true
        }
        ["ghas", r, x] => {
            let Ok(x) = x.parse::<u32>() else { return false };
            out.push(b(reg(it, r).contains(&HpoTermId::from(x))).to_string());
            true
        }
        ["gget", r, i] => {
            let Ok(i) = i.parse::<usize>() else { return false };
            out.push(opt(reg(it, r).get(i).map(|x| x.as_u32())));
            true
        }
        _ => false,
    }
}

fn termid_ops(_it: &mut Interp, toks: &[&str], out: &mut Vec<String>) -> bool {
    match toks {
        ["render", n] => {
            let Ok(n) = n.parse::<u32>() else { return false };
            out.push(HpoTermId::from(n).to_string());
            true
        }
        ["parse", h] => {
            let Some(s) = unname(h) else { return false };
            match HpoTermId::try_from(s.as_str()) {
                Ok(id) => out.push(format!("ok {}", id.as_u32())),
                Err(_) => out.push("err".to_string()),
            }
            true
        }
        ["tobe", n] => {
            let Ok(n) = n.parse::<u32>() else { return false };
            let bytes = HpoTermId::from(n).to_be_bytes();
            out.push(ids(bytes.iter().map(|x| u32::from(*x))));
            true
        }
        ["frombe", a, bb, c, d] => {
            let (Ok(a), Ok(bb), Ok(c), Ok(d)) = (a.parse::<u8>(), bb.parse::<u8>(), c.parse::<u8>(), d.parse::<u8>())
            else {
                return false;
            };
            out.push(HpoTermId::from([a, bb, c, d]).as_u32().to_string());
            true
        }
        ["rtrange", lo, hi] => {
            // a whole id range in one op: count of ids whose rendering parses back (and whose bytes
            // round-trip) + FNV-1a digest of all renderings
            let (Ok(lo), Ok(hi)) = (lo.parse::<u32>(), hi.parse::<u32>()) else { return false };
            let mut h: u64 = 0xcbf2_9ce4_8422_2325;
            let mut ok = 0u64;
            for n in lo..hi {
                let id = HpoTermId::from_u32(n);
                let s = id.to_string();
                for b in s.bytes() {
                    h ^= u64::from(b);
                    h = h.wrapping_mul(0x0000_0100_0000_01b3);
                }
                let back = HpoTermId::try_from(s.as_str()).ok().map(|x| x.as_u32());
                if back == Some(n) && HpoTermId::from(id.to_be_bytes()).as_u32() == n && id.as_u32() == n {
                    ok += 1;
                }
            }
            out.push(format!("rt {ok} {h}"));
            true
        }
        ["roundtrip", n] => {
            let Ok(n) = n.parse::<u32>() else { return false };
            let id = HpoTermId::from_u32(n);
            if id.to_usize() != n as usize || id.as_u32() != n {
                out.push(format!("oracle FAIL termid: to_usize / as_u32 of {n}"));
            }
            let s = id.to_string();
            let p = HpoTermId::try_from(s.as_str()).ok().map(|x| x.as_u32());
            let bb = HpoTermId::from(id.to_be_bytes()).as_u32();
            out.push(format!("{} {} {}", s, opt(p), bb));
            true
        }
        _ => false,
    }
}
