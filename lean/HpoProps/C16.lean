import HpoProofs.Facts
import HpoProps.C02
import HpoProofs.ObsEq
import HpoProofs.Ic
/-!
# C16 — the ontology is a function of the facts, not of the order they are supplied

Builder route. Facts: term facts (one per id: hypothesis `Functional`), is_a edge facts,
annotation calls. Two runs whose fact lists are permutations of each other (`List.Perm`; repeated
facts allowed) yield ontologies in which every lookup returns *equal* terms and records — every
field, including the canonical (sorted) groups. Only the iteration order (the order of `o.terms`)
may differ; it is not part of the statement.

The binary and text routes are reduced to the same builder steps by the C08 / C09 models
(record order inside a section = order of the `add_term` / `add_parent_unchecked` / record
calls) and are compared by the correspondence check of this property.
-/
namespace Hpo.C16
open Hpo Hpo.C01 Hpo.C02 Relation Group

/-- one fact per term id -/
def Functional (fs : List TermFact) : Prop := ∀ f ∈ fs, ∀ g ∈ fs, f.id = g.id → f = g

theorem find_perm (fs1 fs2 : List TermFact) (hp : fs1.Perm fs2) (hf : Functional fs1) (j : Nat) :
    fs1.find? (fun f => f.id = j) = fs2.find? (fun f => f.id = j) := by
  cases h1 : fs1.find? (fun f => f.id = j) with
  | none =>
    symm
    rw [List.find?_eq_none] at h1 ⊢
    intro x hx; exact h1 x (hp.mem_iff.2 hx)
  | some f1 =>
    have hm1 := List.mem_of_find?_eq_some h1
    have hid1 : f1.id = j := by have := List.find?_some h1; simpa using this
    cases h2 : fs2.find? (fun f => f.id = j) with
    | none =>
      rw [List.find?_eq_none] at h2
      have := h2 f1 (hp.mem_iff.1 hm1); simp [hid1] at this
    | some f2 =>
      have hm2 := hp.mem_iff.2 (List.mem_of_find?_eq_some h2)
      have hid2 : f2.id = j := by have := List.find?_some h2; simpa using this
      rw [hf f1 hm1 f2 hm2 (hid1.trans hid2.symm)]

theorem term_ext (t u : Term) (h0 : t.id = u.id) (h1 : fieldsOf t = fieldsOf u)
    (h2 : t.parents = u.parents) (h3 : t.children = u.children) : t = u := by
  cases t; cases u
  simp only [fieldsOf, Prod.mk.injEq] at h1
  simp_all

/-- state of two runs over permuted term and edge facts, before `connect_all_terms`:
every lookup returns the same term -/
theorem C16_terms_pre (fs1 fs2 : List TermFact) (es1 es2 : List EdgeFact)
    (hpf : fs1.Perm fs2) (hpe : es1.Perm es2) (hfun : Functional fs1) (o1 o2 : Onto)
    (h1 : runB (fs1.map TermFact.op ++ es1.map edgeOp) {} = some o1)
    (h2 : runB (fs2.map TermFact.op ++ es2.map edgeOp) {} = some o2) :
    ∀ j, getT o1.terms j = getT o2.terms j := by
  rw [runB_append, Option.bind_eq_some_iff] at h1 h2
  obtain ⟨a1, ha1, hb1⟩ := h1
  obtain ⟨a2, ha2, hb2⟩ := h2
  obtain ⟨t1, _⟩ := terms_phase fs1 a1 ha1
  obtain ⟨t2, _⟩ := terms_phase fs2 a2 ha2
  have hpre1 := (preInv_run _ {} a1 preInv_nil ha1).1
  have hpre2 := (preInv_run _ {} a2 preInv_nil ha2).1
  have ha : ∀ j, getT a1.terms j = getT a2.terms j := by
    intro j; rw [t1 j, t2 j, find_perm fs1 fs2 hpf hfun j]
  obtain ⟨p1, q1, r1, s1⟩ := edges_phase es1 a1 o1 hpre1 hb1
  obtain ⟨p2, q2, r2, s2⟩ := edges_phase es2 a2 o2 hpre2 hb2
  have hq1 := (preInv_run _ a1 o1 hpre1 hb1).1
  have hq2 := (preInv_run _ a2 o2 hpre2 hb2).1
  have hP : ∀ j, parentsOf o1.terms j = parentsOf o2.terms j := by
    intro j
    apply eq_of_sorted_of_mem_iff _ _ (hq1.sortedP j) (hq2.sortedP j)
    intro x
    rw [r1 j x, r2 j x]
    simp only [parentsOf, ha, hpe.mem_iff]
  have hC : ∀ j, childrenOf o1.terms j = childrenOf o2.terms j := by
    intro j
    apply eq_of_sorted_of_mem_iff _ _ (hq1.sortedC j) (hq2.sortedC j)
    intro x
    rw [s1 j x, s2 j x]
    simp only [childrenOf, ha, hpe.mem_iff]
  intro j
  have hs : (getT o1.terms j).isSome = (getT o2.terms j).isSome := by rw [p1 j, p2 j, ha j]
  have hf : (getT o1.terms j).map fieldsOf = (getT o2.terms j).map fieldsOf := by
    rw [q1 j, q2 j, ha j]
  cases g1 : getT o1.terms j with
  | none =>
    cases g2 : getT o2.terms j with
    | none => rfl
    | some _ => rw [g1, g2] at hs; simp at hs
  | some u1 =>
    cases g2 : getT o2.terms j with
    | none => rw [g1, g2] at hs; simp at hs
    | some u2 =>
      rw [g1, g2] at hf
      simp only [Option.map_some, Option.some.injEq] at hf
      have e1 := hP j
      have e2 := hC j
      simp only [parentsOf, childrenOf, g1, g2, Option.map_some, Option.getD_some] at e1 e2
      rw [term_ext u1 u2 ((getT_id g1).trans (getT_id g2).symm) hf e1 e2]

/-- **Terms, links and ancestors are order independent.** After `connect_all_terms`, every
lookup returns the same term (name, flags, parents, children, ancestors …) in both runs. -/
theorem C16_terms (fs1 fs2 : List TermFact) (es1 es2 : List EdgeFact)
    (hpf : fs1.Perm fs2) (hpe : es1.Perm es2) (hfun : Functional fs1) (o1 o2 oc1 oc2 : Onto)
    (h1 : runB (fs1.map TermFact.op ++ es1.map edgeOp) {} = some o1)
    (h2 : runB (fs2.map TermFact.op ++ es2.map edgeOp) {} = some o2)
    (hac : Acyclic o1) (c1 : o1.connectAll = .ok oc1) (c2 : o2.connectAll = .ok oc2) :
    ∀ j, getT oc1.terms j = getT oc2.terms j := by
  have hpre := C16_terms_pre fs1 fs2 es1 es2 hpf hpe hfun o1 o2 h1 h2
  have hq1 := (preInv_run _ {} o1 preInv_nil h1).1
  have hq2 := (preInv_run _ {} o2 preInv_nil h2).1
  have hlen : o2.terms.length = o1.terms.length := by
    -- both id lists are duplicate free with the same members
    have hm : ∀ a, a ∈ o1.terms.map (·.id) ↔ a ∈ o2.terms.map (·.id) := by
      intro a; rw [← getT_isSome_iff, ← getT_isSome_iff, hpre a]
    have := (List.perm_ext_iff_of_nodup hq1.nodup hq2.nodup).2 hm
    simpa using this.length_eq.symm
  have hac2 : Acyclic o2 := by
    obtain ⟨rank, hr, hb⟩ := hac
    refine ⟨rank, ?_, by rw [hlen]; exact hb⟩
    intro c p hp; apply hr c p; simpa [parentsOf, hpre c] using hp
  obtain ⟨x1, e1, _, u1, ex1, s1⟩ := C01_connect o1 hq1 hac
  obtain ⟨x2, e2, _, u2, ex2, s2⟩ := C01_connect o2 hq2 hac2
  rw [c1] at e1; cases e1
  rw [c2] at e2; cases e2
  have hisA : ∀ a b, isA o1 a b ↔ isA o2 a b := by
    intro a b; simp only [isA, parentsOf, hpre a]
  have hTG : ∀ a b, TransGen (isA o1) a b ↔ TransGen (isA o2) a b := by
    intro a b
    constructor
    · intro h; exact TransGen.mono (fun x y hxy => (hisA x y).1 hxy) a b h
    · intro h; exact TransGen.mono (fun x y hxy => (hisA x y).2 hxy) a b h
  have hall : ∀ j, allOf oc1.terms j = allOf oc2.terms j := by
    intro j
    by_cases hj : (getT o1.terms j).isSome
    · apply eq_of_sorted_of_mem_iff _ _ (s1 j) (s2 j)
      intro a
      rw [ex1 j (by rw [u1.isSome]; exact hj) a, ex2 j (by rw [u2.isSome, ← hpre j]; exact hj) a]
      exact hTG j a
    · have n1 : getT oc1.terms j = none := by
        have h' := u1.isSome j
        cases hg : getT oc1.terms j with
        | none => rfl
        | some t => rw [hg] at h'; exact absurd h'.symm hj
      have n2 : getT oc2.terms j = none := by
        have h' := u2.isSome j
        rw [← hpre j] at h'
        cases hg : getT oc2.terms j with
        | none => rfl
        | some t => rw [hg] at h'; exact absurd h'.symm hj
      simp [allOf, n1, n2]
  intro j
  rw [u1.2 j, u2.2 j, hpre j, hall j]

/-! ### annotations -/

/-- the direct terms of every record are determined by the set of successful annotation facts -/
theorem hposOf_facts (anc : Nat → List Nat) (ex : Nat → Prop) (rank : Nat → Nat)
    (hc : AncClosure anc ex rank) (ops : List AOp) :
    ∀ (o : Onto), AnnInv anc ex o → (∀ j, rank j < o.terms.length + 2) →
      ∀ k r d, d ∈ hposOf k (runA ops o) r ↔
        d ∈ hposOf k o r ∨ (ex d ∧ ∃ n, AOp.annotate k r n d ∈ ops) := by
  induction ops with
  | nil => intro o _ _ k r d; simp [runA]
  | cons op ops ih =>
    intro o hinv hf k r d
    have hstep := C02_direct_step anc ex rank hc o hinv hf k r
    have hnext : AnnInv anc ex (applyA o op) ∧ (applyA o op).terms.length = o.terms.length := by
      have := C02_history anc ex rank hc [op] o hinv hf
      simpa [runA] using this
    simp only [runA, List.foldl_cons]
    have := ih (applyA o op) hnext.1 (by rw [hnext.2]; exact hf) k r d
    simp only [runA] at this
    rw [this]
    cases op with
    | addRec k' n i =>
      rw [hstep.1 k' n i]
      simp
    | annotate k' rid n t =>
      by_cases hext : ex t
      · rw [hstep.2.2 k' rid n t hext]
        by_cases hkr : k = k' ∧ r = rid
        · obtain ⟨rfl, rfl⟩ := hkr
          simp only [and_self, ↓reduceIte, mem_insert, List.mem_cons, AOp.annotate.injEq, true_and]
          constructor
          · rintro ((rfl | h) | ⟨h1, n', h2⟩)
            · exact Or.inr ⟨hext, n, Or.inl ⟨rfl, rfl⟩⟩
            · exact Or.inl h
            · exact Or.inr ⟨h1, n', Or.inr h2⟩
          · rintro (h | ⟨h1, n', ⟨_, rfl⟩ | h2⟩)
            · exact Or.inl (Or.inr h)
            · exact Or.inl (Or.inl rfl)
            · exact Or.inr ⟨h1, n', h2⟩
        · simp only [hkr, ↓reduceIte, List.mem_cons, AOp.annotate.injEq]
          constructor
          · rintro (h | ⟨h1, n', h2⟩)
            · exact Or.inl h
            · exact Or.inr ⟨h1, n', Or.inr h2⟩
          · rintro (h | ⟨h1, n', ⟨rfl, rfl, _, _⟩ | h2⟩)
            · exact Or.inl h
            · exact absurd ⟨rfl, rfl⟩ hkr
            · exact Or.inr ⟨h1, n', h2⟩
      · rw [hstep.2.1 k' rid n t hext]
        simp only [List.mem_cons, AOp.annotate.injEq]
        constructor
        · rintro (h | ⟨h1, n', h2⟩)
          · exact Or.inl h
          · exact Or.inr ⟨h1, n', Or.inr h2⟩
        · rintro (h | ⟨h1, n', ⟨_, _, _, rfl⟩ | h2⟩)
          · exact Or.inl h
          · exact absurd h1 hext
          · exact Or.inr ⟨h1, n', h2⟩

/-- **Annotations are order independent.** Two annotation histories that are permutations of each
other, run on two connected ontologies with equal lookups (e.g. from `C16_terms`), link the same
records to every term and give every record the same direct terms, for each kind. -/
theorem C16_annotations (tops1 tops2 : List BOp) (o1 o2 oc1 oc2 : Onto)
    (h1 : runB tops1 {} = some o1) (h2 : runB tops2 {} = some o2)
    (hac1 : Acyclic o1) (hac2 : Acyclic o2)
    (c1 : o1.connectAll = .ok oc1) (c2 : o2.connectAll = .ok oc2)
    (hterms : ∀ j, getT oc1.terms j = getT oc2.terms j)
    (ops1 ops2 : List AOp) (hp : ops1.Perm ops2) (k : Kind) :
    (∀ r, hposOf k (runA ops1 oc1) r = hposOf k (runA ops2 oc2) r) ∧
    (∀ x, annOf k (runA ops1 oc1).terms x = annOf k (runA ops2 oc2).terms x) := by
  obtain ⟨inv1, ⟨rank1, cl1, f1⟩, z1, _⟩ := connected_annInv tops1 o1 oc1 h1 hac1 c1
  obtain ⟨inv2, ⟨rank2, cl2, f2⟩, z2, _⟩ := connected_annInv tops2 o2 oc2 h2 hac2 c2
  have H1 := (C02_history _ _ rank1 cl1 ops1 oc1 inv1 f1).1
  have H2 := (C02_history _ _ rank2 cl2 ops2 oc2 inv2 f2).1
  have hanc : ∀ j, ancOf oc1 j = ancOf oc2 j := by intro j; simp [ancOf, allOf, hterms j]
  have hex : ∀ j, present oc1 j ↔ present oc2 j := by intro j; simp [present, hterms j]
  have e0 : ∀ k r, hposOf k oc1 r = [] ∧ hposOf k oc2 r = [] := fun k r => ⟨z1 k r, z2 k r⟩
  have hh : ∀ r, hposOf k (runA ops1 oc1) r = hposOf k (runA ops2 oc2) r := by
    intro r
    apply eq_of_sorted_of_mem_iff _ _ (H1.hposSorted k r) (H2.hposSorted k r)
    intro d
    rw [hposOf_facts _ _ rank1 cl1 ops1 oc1 inv1 f1 k r d,
        hposOf_facts _ _ rank2 cl2 ops2 oc2 inv2 f2 k r d, (e0 k r).1, (e0 k r).2]
    simp only [List.not_mem_nil, false_or, hex d, hp.mem_iff]
  refine ⟨hh, ?_⟩
  intro x
  apply eq_of_sorted_of_mem_iff _ _ (H1.sorted k x) (H2.sorted k x)
  intro r
  rw [H1.linked k x r, H2.linked k x r]
  simp only [hh r, Up, hanc]

/-- **Records, terms and totals are order independent.** With one name per record id, two
permuted annotation histories on two connected ontologies with equal lookups give:
equal record lookups (id, name, direct terms), equal term lookups (every field), and the same
number of records per kind (the `N` of the information content). -/
theorem C16_records_and_terms (tops1 tops2 : List BOp) (o1 o2 oc1 oc2 : Onto)
    (h1 : runB tops1 {} = some o1) (h2 : runB tops2 {} = some o2)
    (hac1 : Acyclic o1) (hac2 : Acyclic o2)
    (c1 : o1.connectAll = .ok oc1) (c2 : o2.connectAll = .ok oc2)
    (hterms : ∀ j, getT oc1.terms j = getT oc2.terms j)
    (ops1 ops2 : List AOp) (hp : ops1.Perm ops2)
    (nameOf : Kind → Nat → List Char) (hn : NamesFunctional nameOf ops1) :
    (∀ k r, getR ((runA ops1 oc1).recs k) r = getR ((runA ops2 oc2).recs k) r) ∧
    (∀ j, getT (runA ops1 oc1).terms j = getT (runA ops2 oc2).terms j) ∧
    (∀ k, ((runA ops1 oc1).recs k).length = ((runA ops2 oc2).recs k).length) := by
  obtain ⟨inv1, ⟨rank1, cl1, f1⟩, z1, _⟩ := connected_annInv tops1 o1 oc1 h1 hac1 c1
  obtain ⟨inv2, ⟨rank2, cl2, f2⟩, z2, _⟩ := connected_annInv tops2 o2 oc2 h2 hac2 c2
  have hn2 : NamesFunctional nameOf ops2 := fun op hop => hn op (hp.mem_iff.2 hop)
  have e1 : ∀ k r, getR (oc1.recs k) r = none := by
    intro k r
    obtain ⟨_, hrest0⟩ := preInv_run tops1 {} o1 preInv_nil h1
    obtain ⟨x, e, hrest, _⟩ := C01_connect o1 (preInv_run tops1 {} o1 preInv_nil h1).1 hac1
    rw [c1] at e; cases e
    have : oc1.recs k = [] := by rw [hrest, hrest0]; cases k <;> rfl
    simp [this, getR]
  have e2 : ∀ k r, getR (oc2.recs k) r = none := by
    intro k r
    obtain ⟨_, hrest0⟩ := preInv_run tops2 {} o2 preInv_nil h2
    obtain ⟨x, e, hrest, _⟩ := C01_connect o2 (preInv_run tops2 {} o2 preInv_nil h2).1 hac2
    rw [c2] at e; cases e
    have : oc2.recs k = [] := by rw [hrest, hrest0]; cases k <;> rfl
    simp [this, getR]
  obtain ⟨H1, _, core1, ex1, nm1⟩ := runA_recs _ _ rank1 cl1 nameOf ops1 hn oc1 inv1 f1
    (fun k r x hx => by rw [e1] at hx; cases hx)
  obtain ⟨H2, _, core2, ex2, nm2⟩ := runA_recs _ _ rank2 cl2 nameOf ops2 hn2 oc2 inv2 f2
    (fun k r x hx => by rw [e2] at hx; cases hx)
  have hex : ∀ j, present oc1 j ↔ present oc2 j := by intro j; simp [present, hterms j]
  have htouch : ∀ k r, (∃ op ∈ ops1, op.touches (present oc1) k r) ↔
      (∃ op ∈ ops2, op.touches (present oc2) k r) := by
    intro k r
    have : ∀ op : AOp, op.touches (present oc1) k r ↔ op.touches (present oc2) k r := by
      intro op; cases op <;> simp [AOp.touches, hex]
    constructor
    · rintro ⟨op, hop, ht⟩; exact ⟨op, hp.mem_iff.1 hop, (this op).1 ht⟩
    · rintro ⟨op, hop, ht⟩; exact ⟨op, hp.mem_iff.2 hop, (this op).2 ht⟩
  have hann := fun k => C16_annotations tops1 tops2 o1 o2 oc1 oc2 h1 h2 hac1 hac2 c1 c2 hterms ops1 ops2 hp k
  have hsome : ∀ k r, (getR ((runA ops1 oc1).recs k) r).isSome ↔ (getR ((runA ops2 oc2).recs k) r).isSome := by
    intro k r
    rw [ex1 k r, ex2 k r, e1, e2]
    simp only [Option.isSome_none, Bool.false_eq_true, false_or]
    exact htouch k r
  have hrecs : ∀ k r, getR ((runA ops1 oc1).recs k) r = getR ((runA ops2 oc2).recs k) r := by
    intro k r
    cases g1 : getR ((runA ops1 oc1).recs k) r with
    | none =>
      cases g2 : getR ((runA ops2 oc2).recs k) r with
      | none => rfl
      | some _ => have := (hsome k r).2 (by simp [g2]); simp [g1] at this
    | some x1 =>
      cases g2 : getR ((runA ops2 oc2).recs k) r with
      | none => have := (hsome k r).1 (by simp [g1]); simp [g2] at this
      | some x2 =>
        have hh := (hann k).1 r
        simp only [hposOf, g1, g2, Option.map_some, Option.getD_some] at hh
        rw [rec_ext x1 x2 ((getR_id g1).trans (getR_id g2).symm)
          ((nm1 k r x1 g1).trans (nm2 k r x2 g2).symm) hh]
  refine ⟨hrecs, ?_, ?_⟩
  · intro j
    have hc : (getT (runA ops1 oc1).terms j).map coreOf = (getT (runA ops2 oc2).terms j).map coreOf := by
      rw [core1 j, core2 j, hterms j]
    have ha := fun k => (hann k).2 j
    cases g1 : getT (runA ops1 oc1).terms j with
    | none =>
      cases g2 : getT (runA ops2 oc2).terms j with
      | none => rfl
      | some _ => rw [g1, g2] at hc; simp at hc
    | some t1 =>
      cases g2 : getT (runA ops2 oc2).terms j with
      | none => rw [g1, g2] at hc; simp at hc
      | some t2 =>
        rw [g1, g2] at hc
        simp only [Option.map_some, Option.some.injEq] at hc
        have hg := ha .gene; have ho := ha .omim; have hr := ha .orpha
        simp only [annOf, g1, g2, Option.map_some, Option.getD_some, Term.ann] at hg ho hr
        rw [term_ext_ann t1 t2 hc hg ho hr]
  · intro k
    have hnd1 := recIds_nodup ops1 oc1 (fun k' => by
      have : ∀ r, getR (oc1.recs k') r = none := e1 k'
      cases hl : oc1.recs k' with
      | nil => simp
      | cons x xs => have := this x.id; rw [hl] at this; simp [getR] at this) _ _ rank1 cl1 inv1 f1 k
    have hnd2 := recIds_nodup ops2 oc2 (fun k' => by
      have : ∀ r, getR (oc2.recs k') r = none := e2 k'
      cases hl : oc2.recs k' with
      | nil => simp
      | cons x xs => have := this x.id; rw [hl] at this; simp [getR] at this) _ _ rank2 cl2 inv2 f2 k
    have hm : ∀ a, a ∈ ((runA ops1 oc1).recs k).map (·.id) ↔ a ∈ ((runA ops2 oc2).recs k).map (·.id) := by
      intro a; rw [← getR_isSome_iff, ← getR_isSome_iff]; exact hsome k a
    have := ((List.perm_ext_iff_of_nodup hnd1 hnd2).2 hm).length_eq
    simpa using this

/-- **Information content and default groups are order independent.** Two builder states with
equal term lookups and equal numbers of records per kind (e.g. from `C16_records_and_terms`) give,
after `calculate_information_content`, equal term lookups again (now including the stored
information content of the three kinds), and `build_with_defaults` assigns the same categories and
modifier roots. -/
theorem C16_ic_and_defaults (b1 b2 r1 r2 : Onto)
    (hterms : ∀ j, getT b1.terms j = getT b2.terms j)
    (hsmall1 : ∀ j, (getT b1.terms j).isSome → j < maxId)
    (hcount : ∀ k, (b1.recs k).length = (b2.recs k).length)
    (h1 : b1.calcIc = .ok r1) (h2 : b2.calcIc = .ok r2) :
    (∀ j, getT r1.terms j = getT r2.terms j) ∧
    (∀ d1 d2, r1.buildWithDefaults = .ok d1 → r2.buildWithDefaults = .ok d2 →
      d1.categories = d2.categories ∧ d1.modifier = d2.modifier ∧
      ∀ j, getT d1.terms j = getT d2.terms j) := by
  obtain ⟨t1, _, _, _⟩ := calcIc_ok b1 r1 h1
  obtain ⟨t2, _, _, _⟩ := calcIc_ok b2 r2 h2
  have hg := hcount .gene; have ho := hcount .omim; have hr := hcount .orpha
  simp only [Onto.recs] at hg ho hr
  have hT : ∀ j, getT r1.terms j = getT r2.terms j := by
    intro j
    rw [t1, t2, getT_map _ _ (fun t => by simp [setIc_id]), getT_map _ _ (fun t => by simp [setIc_id]),
      hterms j, hg, ho, hr]
  refine ⟨hT, ?_⟩
  intro d1 d2 hd1 hd2
  have hsmall1' : ∀ j, (getT r1.terms j).isSome → j < maxId := by
    intro j hj
    apply hsmall1 j
    rw [t1, getT_map _ _ (fun t => by simp [setIc_id])] at hj
    cases hgj : getT b1.terms j with
    | none => rw [hgj] at hj; simp at hj
    | some _ => rfl
  have hsmall2' : ∀ j, (getT r2.terms j).isSome → j < maxId := by
    intro j hj; rw [← hT j] at hj; exact hsmall1' j hj
  have hget : ∀ j, r1.get j = r2.get j := by
    intro j; rw [get_eq_getT r1 j hsmall1', get_eq_getT r2 j hsmall2', hT j]
  unfold Onto.buildWithDefaults Onto.defaultCategories Onto.defaultModifier Onto.buildMinimal at hd1 hd2
  have e1 : ∀ i, ({ r1 with categories := [], modifier := [] } : Onto).get i = r1.get i := fun _ => rfl
  have e2 : ∀ i, ({ r2 with categories := [], modifier := [] } : Onto).get i = r2.get i := fun _ => rfl
  simp only [e1, e2] at hd1 hd2
  rw [hget 1, hget Onto.phenotypeId] at hd1
  cases g1 : r2.get 1 with
  | none => simp [g1, Res.bind] at hd2
  | some root =>
    cases g2 : r2.get Onto.phenotypeId with
    | none => simp [g1, g2, Res.bind] at hd2
    | some ph =>
      simp only [g1, g2, Res.bind, Res.ok.injEq] at hd1 hd2
      subst hd1; subst hd2
      exact ⟨rfl, rfl, hT⟩

/-! ### non-vacuity: the diamond of C01 from two different orders (and a repeated fact) -/

def tf : List TermFact := [⟨[], 9, false, none⟩, ⟨[], 3, false, none⟩, ⟨[], 7, false, none⟩, ⟨['x'], 5, false, none⟩]
def ef : List EdgeFact := [(9, 3), (9, 7), (3, 5), (7, 5)]

example : Functional tf := by unfold Functional; decide
example : tf.Perm tf.reverse ∧ ef.Perm ef.reverse := ⟨(List.reverse_perm tf).symm, (List.reverse_perm ef).symm⟩
example : ∃ o1 o2, runB (tf.map TermFact.op ++ ef.map edgeOp) {} = some o1 ∧
    runB (tf.reverse.map TermFact.op ++ ef.reverse.map edgeOp) {} = some o2 ∧
    o1.ids ≠ o2.ids ∧ getT o1.terms 5 = getT o2.terms 5 := by
  refine ⟨(runB (tf.map TermFact.op ++ ef.map edgeOp) {}).getD {},
    (runB (tf.reverse.map TermFact.op ++ ef.reverse.map edgeOp) {}).getD {}, by decide, by decide, by decide, by decide⟩

end Hpo.C16
