import HpoProofs.Path
/-!
# C11 — distances and paths between terms are valid walks of minimal length

Property theorems only (definitions and helper lemmas: `HpoProofs/Path.lean`).

Model functions (`HpoModel/Read.lean`, mirroring `src/term/hpoterm.rs`):
`distToAnc` / `pathToAnc` (`distance_to_ancestor` / `path_to_ancestor`, recursion over the DAG
with fuel), `distToTerm` / `pathToTerm` (`distance_to_term` / `path_to_term`).

Specification side:
* `o.par i`            the parent ids of the term with id `i`
* `Chain par t a n`    a chain of `n` parent links from `t` up to `a` (inductive)
* `Shortest par t a d` `Chain par t a d ∧ ∀ n, Chain par t a n → d ≤ n`  (least chain length)
* `ChainPath par t p a` the id list `p` is a chain link by link: starts after `t`, ends in `a`
* `Walk par x p`       consecutive ids of `x :: p` are joined by a parent link or a child link

Hypotheses (`PathWF o rank`, a structure of explicit predicates): every parent id resolves;
`all_parents` is the transitive closure of `parents` (`closed` — the conclusion of C01);
the parent relation is acyclic, witnessed by a rank function that decreases along parent links
and is below the fuel (`o.fuel = #terms + 2` for the two-term functions).  No bound on the size
or depth of the ontology.  `Res.ok` in the conclusions also says: no panic, no divergence.
-/
namespace Hpo.C11
open Hpo Hpo.Onto

variable {o : Onto} {rank : Nat → Nat}

/-- `distance_to_ancestor`: the result is `Some d` iff `d` is the least length of a chain of
parent links from the term up to `a`; it is `None` iff `a` is neither the term nor in its ancestor
closure, iff there is no chain at all. -/
theorem C11_dist_anc (wf : PathWF o rank) {i : Nat} {t : Term} (ht : o.get i = some t)
    {fuel : Nat} (hf : rank i < fuel) (a : Nat) :
    (∀ d, distToAnc fuel o t a = .ok (some d) ↔
      (Chain o.par i a d ∧ ∀ n, Chain o.par i a n → d ≤ n)) ∧
    (distToAnc fuel o t a = .ok none ↔ (a ≠ i ∧ a ∉ t.allParents)) ∧
    (distToAnc fuel o t a = .ok none ↔ ¬ ∃ n, Chain o.par i a n) := by
  obtain ⟨r, hr, hs⟩ := distToAnc_spec wf a fuel i t ht hf
  have hnone : distToAnc fuel o t a = .ok none ↔ ¬ ∃ n, Chain o.par i a n := by
    rw [hr]
    cases r with
    | none => exact ⟨fun _ => hs, fun _ => rfl⟩
    | some d =>
      constructor
      · intro h; cases h
      · intro h; exact absurd ⟨d, hs.1⟩ h
  refine ⟨fun d => ?_, ?_, hnone⟩
  · rw [hr]
    cases r with
    | none =>
      constructor
      · intro h; cases h
      · intro h; exact absurd ⟨d, h.1⟩ hs
    | some e =>
      constructor
      · intro h; cases h; exact hs
      · intro h; rw [Shortest.unique hs h]
  · rw [hnone]
    have := wf.reach_iff ht a
    unfold Reach at this
    rw [this]
    constructor
    · intro h; exact ⟨fun e => h (Or.inl e), fun e => h (Or.inr e)⟩
    · rintro ⟨h1, h2⟩ (e | e)
      · exact h1 e
      · exact h2 e

/-- `path_to_ancestor`: a returned path is a chain of parent links, witnessed link by link, that
starts at a parent of the term and ends in the ancestor, and its length is the distance; a path is
returned exactly when a distance is. -/
theorem C11_path_anc (wf : PathWF o rank) {i : Nat} {t : Term} (ht : o.get i = some t)
    {fuel : Nat} (hf : rank i < fuel) (a : Nat) :
    (∀ p, pathToAnc fuel o t a = .ok (some p) →
      ChainPath o.par i p a ∧ (i :: p).getLast? = some a ∧
      distToAnc fuel o t a = .ok (some p.length)) ∧
    (pathToAnc fuel o t a = .ok none ↔ distToAnc fuel o t a = .ok none) ∧
    (∃ r, pathToAnc fuel o t a = .ok r) := by
  obtain ⟨r, hr, hs⟩ := pathToAnc_spec wf a fuel i t ht hf
  obtain ⟨r', hr', hs'⟩ := distToAnc_spec wf a fuel i t ht hf
  refine ⟨fun p hp => ?_, ?_, ⟨r, hr⟩⟩
  · rw [hr] at hp
    cases hp
    obtain ⟨d, rfl, hd⟩ := hs'.of_reach ⟨p.length, hs.1.chain⟩
    have : Shortest o.par i a p.length := ⟨hs.1.chain, hs.2⟩
    rw [hr', hd.unique this]
    exact ⟨hs.1, hs.1.getLast, rfl⟩
  · rw [hr, hr']
    cases r with
    | none =>
      cases r' with
      | none => simp
      | some d => exact absurd ⟨d, hs'.1⟩ hs
    | some p =>
      cases r' with
      | none => exact absurd ⟨p.length, hs.1.chain⟩ hs'
      | some d => simp

/-- `distance_to_term`: the result is `Some d` iff `d` is the minimum over the common ancestors `c`
(the two terms included) of the sum of the two shortest upward distances; `None` iff the terms have
no common ancestor. -/
theorem C11_dist_term (wf : PathWF o rank) {i j : Nat} {a b : Term}
    (ha : o.get i = some a) (hb : o.get j = some b) :
    (∀ d, o.distToTerm a b = .ok (some d) ↔
      ((∃ c dx dy, Shortest o.par i c dx ∧ Shortest o.par j c dy ∧ d = dx + dy) ∧
       ∀ c dx dy, Shortest o.par i c dx → Shortest o.par j c dy → d ≤ dx + dy)) ∧
    (o.distToTerm a b = .ok none ↔ ¬ ∃ c, (∃ n, Chain o.par i c n) ∧ (∃ m, Chain o.par j c m)) := by
  obtain ⟨r, hr, hs⟩ := distToTerm_spec wf ha hb
  refine ⟨fun d => ?_, ?_⟩
  · rw [hr]
    constructor
    · intro h; cases h; exact hs
    · intro h
      have : TermSpec o.par i j (some d) := h
      rw [hs.unique this]
  · rw [hr]
    constructor
    · intro h; cases h; exact hs
    · intro h
      have : TermSpec o.par i j none := h
      rw [hs.unique this]

/-- `distance_to_term` is symmetric -/
theorem C11_dist_symm (wf : PathWF o rank) {i j : Nat} {a b : Term}
    (ha : o.get i = some a) (hb : o.get j = some b) :
    o.distToTerm a b = o.distToTerm b a := by
  obtain ⟨r, hr, hs⟩ := distToTerm_spec wf ha hb
  obtain ⟨r', hr', hs'⟩ := distToTerm_spec wf hb ha
  rw [hr, hr', hs.unique hs'.symm]

/-- `path_to_term` for two distinct terms: a returned path is a walk along parent / child links
that starts at a neighbour of the first term, ends in the second term and has exactly
`distance_to_term` steps; no path is returned exactly when there is no distance (no common
ancestor). -/
theorem C11_path_term (wf : PathWF o rank) {i j : Nat} {a b : Term}
    (ha : o.get i = some a) (hb : o.get j = some b) (hij : i ≠ j) :
    (∀ p, o.pathToTerm a b = .ok (some p) →
      Walk o.par i p ∧ p.getLast? = some j ∧ o.distToTerm a b = .ok (some p.length)) ∧
    (o.pathToTerm a b = .ok none ↔ o.distToTerm a b = .ok none) ∧
    (∃ r, o.pathToTerm a b = .ok r) := by
  obtain ⟨r, hr, hs⟩ := pathToTerm_spec wf ha hb hij
  obtain ⟨r', hr', hs'⟩ := distToTerm_spec wf ha hb
  refine ⟨fun p hp => ?_, ?_, ⟨r, hr⟩⟩
  · rw [hr] at hp
    cases hp
    rw [hr', hs'.unique hs.2.2]
    exact ⟨hs.1, hs.2.1, rfl⟩
  · rw [hr, hr']
    cases r with
    | none =>
      have : TermSpec o.par i j none := hs
      rw [hs'.unique this]
      simp
    | some p =>
      rw [hs'.unique hs.2.2]
      simp

/-- The defect that was repaired (`fix: path_to_term ...`): on the 7-term DAG `dag7`
(`10 → 11 → 12 → 13 → 14 → 15` and the shared parent `16` of `10` and `15`) the distance between
`10` and its ancestor `15` is 2, but the function as pinned (`pathToTermPrefix`, with the ancestor
shortcut) returns the 5-step chain; the function as it stands returns the 2-step walk over `16`. -/
theorem C11_path_shortcut_counterexample :
    ∃ a b, dag7.get 10 = some a ∧ dag7.get 15 = some b ∧
      dag7.distToTerm a b = .ok (some 2) ∧
      dag7.pathToTermPrefix a b = .ok (some [11, 12, 13, 14, 15]) ∧
      dag7.pathToTerm a b = .ok (some [16, 15]) := by
  refine ⟨_, _, rfl, rfl, ?_, ?_, ?_⟩ <;> decide

/-- non-vacuity: the hypotheses hold on the 7-term DAG (a multi-parent node, two routes of different
length to the same ancestor), and the theorems give the expected concrete values there -/
example : PathWF dag7 dag7Rank := dag7_wf

example : ∃ t, dag7.get 10 = some t ∧ distToAnc dag7.fuel dag7 t 15 = .ok (some 5) ∧
    pathToAnc dag7.fuel dag7 t 15 = .ok (some [11, 12, 13, 14, 15]) ∧
    distToAnc dag7.fuel dag7 t 10 = .ok (some 0) := by
  refine ⟨_, rfl, ?_, ?_, ?_⟩ <;> decide

example : Shortest dag7.par 10 15 5 := by
  obtain ⟨t, ht, hd, _⟩ : ∃ t, dag7.get 10 = some t ∧ distToAnc dag7.fuel dag7 t 15 = .ok (some 5) ∧ True :=
    ⟨_, rfl, by decide, trivial⟩
  exact ((C11_dist_anc dag7_wf ht (by decide) 15).1 5).1 hd

end Hpo.C11
