import HpoProofs.Text
import HpoProofs.TextRefine
import HpoProps.C07
/-!
# C09 — the JAX text loaders build exactly the ontology the three files describe

Model: `HpoModel/Text.lean` (character-level mirror of `src/parser.rs`, `src/parser/hp_obo.rs`).
The theorems are token level and unbounded: for every id below 2^32, every name / symbol / label
(any characters other than the separator the format reserves, in particular `": "` and non-ASCII
text), any number of extra trailing columns with any content.
`renderG2P`, `renderP2G`, `renderDiseaseRow`, `renderStanza` (in `HpoProofs/Text.lean`) are the
JAX renderings of a fact; `IsTail '\t' tail` = nothing or a tab followed by any text.

Whole files (`HpoProofs/TextRefine.lean`): a `Rendering` is one way of writing the three files down
(header lines, release date, blocks of hp.obo in file order, rows of the gene file and of
phenotype.hpoa, file endings); `Rendering.Ok` are the lexical side conditions; `R.terms`, `R.grows`,
`R.drows` are the facts in file order.
* `C09_file_in_order`: loading = the Builder-model program over the facts in file order;
* `C09_obo_builder_run`, `C09_rows_annotation_calls`, `C09_file_is_builder_run`: that program is a
  builder run of the checked API (`runB` / `runA` of C01, C02, C16) — literally the same ontology;
* `C09_file`: any two renderings of the same facts (stanzas and rows permuted, other labels, extra
  tags, other stanzas, endings) load to ontologies with equal lookups (via `C16_*`);
* `C09_file_builder`: … equal to what the checked Builder API builds from the facts in any order,
  `Reachable`, hence round-trips through the binary format (`C07_roundtrip`);
* `C09_unknown_term`: a row naming a term without stanza makes the load fail with `DoesNotExist`;
  `C09_isa_absent_target`: what an `is_a` line naming a term without stanza does (hence `IsaClosed`).
-/
namespace Hpo.C09
open Hpo Hpo.Text Hpo.C01 Hpo.C16 Hpo.Binary

/-! ## lexing -/

/-- `split(c)` returns exactly the fields that were joined with `c`, when no field contains `c` -/
theorem C09_lex_split (c : Char) (fields : List (List Char)) (hne : fields ≠ [])
    (h : ∀ f ∈ fields, c ∉ f) : splitOnChar c (joinWith c fields) = fields :=
  splitOnChar_joinWith c fields hne h

/-- `split_once(c)` cuts at the first `c` -/
theorem C09_lex_splitOnce (c : Char) (a b : List Char) (h : c ∉ a) :
    splitOnce c (a ++ c :: b) = some (a, b) :=
  splitOnce_append c a b h

/-- `split_once(": ")` cuts a `key: value` line after the key, whatever the value contains -/
theorem C09_lex_keyValue (k v : List Char) (h : ':' ∉ k) :
    splitOnceStr colonSp (k ++ colonSp ++ v) = some (k, v) :=
  splitOnceStr_colonSp k v h

/-! ## gene rows -/

/-- `genes_to_phenotype.txt`: columns 1, 2, 3 are gene id, symbol, term id; further columns are
ignored; the row becomes exactly one `annotate_gene(id, symbol, term)` call -/
theorem C09_gene_row (g h : Nat) (sym tail : List Char) (hg : g < 4294967296) (hh : h < 4294967296)
    (hs : '\t' ∉ sym) (ht : IsTail '\t' tail) (ls : List (List Char)) (o : Onto) :
    parseGeneRow false (renderG2P g sym h tail) = .ok (g, sym, h) ∧
    geneRows false (renderG2P g sym h tail :: ls) o =
      (o.annotate .gene g sym h).bind (geneRows false ls) := by
  have e : parseGeneRow false (renderG2P g sym h tail) = .ok (g, sym, h) := by
    simpa [parseGeneRow] using parseG2P_render g h sym tail hg hh hs ht
  exact ⟨e, by simp [geneRows, e, Res.bind]⟩

/-- `phenotype_to_genes.txt`: columns 1, 3, 4 are term id, gene id, symbol; the label column and
further columns are ignored -/
theorem C09_gene_row_transitive (g h : Nat) (sym label tail : List Char) (hg : g < 4294967296)
    (hh : h < 4294967296) (hs : '\t' ∉ sym) (hl : '\t' ∉ label) (ht : IsTail '\t' tail)
    (ls : List (List Char)) (o : Onto) :
    parseGeneRow true (renderP2G g sym h label tail) = .ok (g, sym, h) ∧
    geneRows true (renderP2G g sym h label tail :: ls) o =
      (o.annotate .gene g sym h).bind (geneRows true ls) := by
  have e : parseGeneRow true (renderP2G g sym h label tail) = .ok (g, sym, h) := by
    simpa [parseGeneRow] using parseP2G_render g h sym label tail hg hh hs hl ht
  exact ⟨e, by simp [geneRows, e, Res.bind]⟩

/-- the header line of a gene file (`#…`, `ncbi_gene_id…` or `hpo_id…`) is removed, nothing else -/
theorem C09_gene_header (hdr rest : List Char) (hnl : '\n' ∉ hdr)
    (hh : startsWith ['#'] hdr = true ∨ startsWith hdrNcbi hdr = true ∨ startsWith hdrHpo hdr = true) :
    removeHeader (hdr ++ '\n' :: rest) = .ok rest := by
  unfold removeHeader
  rw [splitOnce_append '\n' hdr rest hnl]
  rcases hh with h | h | h <;> simp [h]

/-! ## disease rows -/

/-- an `OMIM:<id>` row whose qualifier is not `NOT` becomes exactly one
`annotate_omim_disease(id, name, term)` call; extra columns are ignored -/
theorem C09_disease_row_omim (d h : Nat) (name q tail : List Char) (hd : d < 4294967296)
    (hh : h < 4294967296) (hname : '\t' ∉ name) (hq : '\t' ∉ q) (hnot : q ≠ kNot)
    (ht : IsTail '\t' tail) (ls : List (List Char)) (o : Onto) :
    diseaseRows (renderDiseaseRow pOmim (TermId.decimal d) name q (TermId.render h) tail :: ls) o =
      (o.annotate .omim d name h).bind (diseaseRows ls) := by
  have e := parseDiseaseComponents_render pOmim (TermId.decimal d) name q (TermId.render h) tail 'O'
    ['M', 'I', 'M'] rfl (by decide) (EndsNonWs_render h) ht (by decide) (by decide)
    (not_mem_decimal d '\t' tab_digitVal) hname hq
    (not_mem_render h '\t' tab_digitVal (by decide) (by decide) (by decide))
  have hs : startsWith pOmim (renderDiseaseRow pOmim (TermId.decimal d) name q (TermId.render h) tail) = true :=
    startsWith_append _ _
  simp [diseaseRows, parseDiseaseRow, hs, e, hnot, parse_render h hh, parseU32_decimal d hd, Res.bind]

/-- an `ORPHA:<id>` row likewise becomes one `annotate_orpha_disease` call (never an OMIM one) -/
theorem C09_disease_row_orpha (d h : Nat) (name q tail : List Char) (hd : d < 4294967296)
    (hh : h < 4294967296) (hname : '\t' ∉ name) (hq : '\t' ∉ q) (hnot : q ≠ kNot)
    (ht : IsTail '\t' tail) (ls : List (List Char)) (o : Onto) :
    diseaseRows (renderDiseaseRow pOrpha (TermId.decimal d) name q (TermId.render h) tail :: ls) o =
      (o.annotate .orpha d name h).bind (diseaseRows ls) := by
  have e := parseDiseaseComponents_render pOrpha (TermId.decimal d) name q (TermId.render h) tail 'O'
    ['R', 'P', 'H', 'A'] rfl (by decide) (EndsNonWs_render h) ht (by decide) (by decide)
    (not_mem_decimal d '\t' tab_digitVal) hname hq
    (not_mem_render h '\t' tab_digitVal (by decide) (by decide) (by decide))
  have hs : startsWith pOrpha (renderDiseaseRow pOrpha (TermId.decimal d) name q (TermId.render h) tail) = true :=
    startsWith_append _ _
  have hn : startsWith pOmim (renderDiseaseRow pOrpha (TermId.decimal d) name q (TermId.render h) tail) = false := by
    simp [renderDiseaseRow, pOrpha, pOmim, startsWith]
  simp [diseaseRows, parseDiseaseRow, hs, hn, e, hnot, parse_render h hh, parseU32_decimal d hd, Res.bind]

/-- a `NOT` row of either database is skipped: no record, no link (whatever its id and term
columns contain) -/
theorem C09_disease_row_not (db id name hpo tail : List Char) (hdb : db = pOmim ∨ db = pOrpha)
    (hid : '\t' ∉ id) (hname : '\t' ∉ name) (hhpo : '\t' ∉ hpo) (hend : EndsNonWs hpo)
    (ht : IsTail '\t' tail) (ls : List (List Char)) (o : Onto) :
    diseaseRows (renderDiseaseRow db id name kNot hpo tail :: ls) o = diseaseRows ls o := by
  rcases hdb with rfl | rfl
  · have e := parseDiseaseComponents_render pOmim id name kNot hpo tail 'O'
      ['M', 'I', 'M'] rfl (by decide) hend ht (by decide) (by decide) hid hname (by decide) hhpo
    have hs : startsWith pOmim (renderDiseaseRow pOmim id name kNot hpo tail) = true := startsWith_append _ _
    simp [diseaseRows, parseDiseaseRow, hs, e, Res.bind]
  · have e := parseDiseaseComponents_render pOrpha id name kNot hpo tail 'O'
      ['R', 'P', 'H', 'A'] rfl (by decide) hend ht (by decide) (by decide) hid hname (by decide) hhpo
    have hs : startsWith pOrpha (renderDiseaseRow pOrpha id name kNot hpo tail) = true := startsWith_append _ _
    have hn : startsWith pOmim (renderDiseaseRow pOrpha id name kNot hpo tail) = false := by
      simp [renderDiseaseRow, pOrpha, pOmim, startsWith]
    simp [diseaseRows, parseDiseaseRow, hs, hn, e, Res.bind]

/-- every other line — `#` comments, the column header, rows of other databases (DECIPHER), blank
lines — is ignored, whatever it contains -/
theorem C09_disease_row_other (line : List Char) (h1 : startsWith pOmim line = false)
    (h2 : startsWith pOrpha line = false) (ls : List (List Char)) (o : Onto) :
    diseaseRows (line :: ls) o = diseaseRows ls o := by
  simp [diseaseRows, parseDiseaseRow, h1, h2, Res.bind]

/-- instances of `C09_disease_row_other`: comment lines, DECIPHER rows, the column header -/
theorem C09_disease_row_ignored (rest : List Char) :
    startsWith pOmim ('#' :: rest) = false ∧ startsWith pOrpha ('#' :: rest) = false ∧
    startsWith pOmim ("DECIPHER".toList ++ rest) = false ∧ startsWith pOrpha ("DECIPHER".toList ++ rest) = false ∧
    startsWith pOmim ("database_id".toList ++ rest) = false ∧ startsWith pOrpha ("database_id".toList ++ rest) = false ∧
    startsWith pOmim [] = false ∧ startsWith pOrpha [] = false := by
  simp [pOmim, pOrpha, startsWith]

/-! ## hp.obo blocks -/

/-- a rendered `[Term]` stanza — id, name (may contain `": "` and non-ASCII text), other tags,
several `is_a: HP:… ! label` lines, `is_obsolete: true`, `replaced_by: HP:…`, more other tags —
is read back as exactly that term with exactly those parents -/
theorem C09_stanza (id : Nat) (name : List Char) (obs : Bool) (repl : Option Nat)
    (parents : List (Nat × List Char)) (extras1 extras2 : List (List Char × List Char))
    (hid : id < 4294967296) (hrepl : ∀ r, repl = some r → r < 4294967296)
    (hpar : ∀ p ∈ parents, p.1 < 4294967296) (hok : StanzaOk name parents extras1 extras2) :
    parseBlock (renderStanza id name obs repl parents extras1 extras2) =
      .ok (.term { id := id, name := name, obsolete := obs, replacement := repl } (parents.map (·.1))) := by
  simpa using parseBlock_stanza id name obs repl parents extras1 extras2 hid hrepl hpar hok [] (Or.inl rfl)

/-- a block that is neither a `[Term]` stanza nor the header contributes nothing … -/
theorem C09_other_block (b : List Char) (h1 : stripPrefix termPrefix b = none)
    (h2 : startsWith formatPrefix b = false) : parseBlock b = .ok .other :=
  parseBlock_other b h1 h2

/-- … in particular `[Typedef]` and `[Instance]` stanzas with any content, and the empty block -/
theorem C09_typedef_ignored (rest : List Char) :
    parseBlock ("[Typedef]".toList ++ rest) = .ok .other ∧
    parseBlock ("[Instance]".toList ++ rest) = .ok .other ∧ parseBlock [] = .ok .other := by
  refine ⟨parseBlock_other _ ?_ ?_, parseBlock_other _ ?_ ?_, parseBlock_other _ ?_ ?_⟩ <;>
    simp [termPrefix, formatPrefix, stripPrefix, startsWith]

/-- the header block yields the release version of its `data-version: hp/releases/YYYY-MM-DD`
line, wherever in the block that line stands -/
theorem C09_version (pre post : List (List Char)) (y1 y2 y3 y4 m1 m2 d1 d2 : Nat)
    (hy1 : y1 < 10) (hy2 : y2 < 10) (hy3 : y3 < 10) (hy4 : y4 < 10) (hm1 : m1 < 10) (hm2 : m2 < 10)
    (hd1 : d1 < 10) (hd2 : d2 < 10)
    (hpre : ∀ l ∈ pre, stripPrefix versionPrefix l = none) (hok : ∀ l ∈ pre ++ post, LineOk l) :
    parseBlock (joinWith '\n' (headerLines pre post y1 y2 y3 y4 m1 m2 d1 d2)) =
      .ok (.header (1000 * y1 + 100 * y2 + 10 * y3 + y4, 10 * m1 + m2, 10 * d1 + d2)) := by
  simpa using parseBlock_header pre post y1 y2 y3 y4 m1 m2 d1 d2 hy1 hy2 hy3 hy4 hm1 hm2 hd1 hd2 hpre hok []
    (Or.inl rfl)

/-! ## whole files -/

/-- `split("\n\n")` returns exactly the blocks that were joined by blank lines (no block contains a
blank line or ends in a line feed) -/
theorem C09_lex_blocks (blocks : List (List Char)) (hne : blocks ≠ []) (h : ∀ b ∈ blocks, BlockOk b) :
    splitOnStr blankLine (joinStr blankLine blocks) = blocks :=
  splitOnStr_joinStr blocks hne h

/-- `lines()` returns exactly the rows that were joined by line feeds, with or without a final one -/
theorem C09_lex_lines (rows : List (List Char)) (ending : List Char) (h : ∀ l ∈ rows, LineOk l)
    (hend : RowsEnd rows ending) : lines (joinWith '\n' rows ++ ending) = rows :=
  lines_rows rows ending h hend

/-- A whole rendered `hp.obo` — header block, then `[Term]` stanzas and other stanzas (`items` is
ANY list, hence any order and any mixture), separated by blank lines, ending with nothing, a line feed, or a blank line — is read as exactly the
term stanzas in file order, each with its name, obsolete flag, replacement and `is_a` parents,
plus the release version. -/
theorem C09_obo_file (pre post : List (List Char)) (y1 y2 y3 y4 m1 m2 d1 d2 : Nat)
    (hy1 : y1 < 10) (hy2 : y2 < 10) (hy3 : y3 < 10) (hy4 : y4 < 10) (hm1 : m1 < 10) (hm2 : m2 < 10)
    (hd1 : d1 < 10) (hd2 : d2 < 10)
    (hpre : ∀ l ∈ pre, stripPrefix versionPrefix l = none) (hok : ∀ l ∈ pre ++ post, LineOk l)
    (items : List Item) (hitems : ∀ i ∈ items, i.Ok) (ending : List Char)
    (hend : ending = [] ∨ ending = ['\n'] ∨ ending = blankLine) :
    readObo (joinStr blankLine
        (joinWith '\n' (headerLines pre post y1 y2 y3 y4 m1 m2 d1 d2) :: items.map Item.render) ++ ending) =
      .ok { terms := itemsTerms items,
            version := (1000 * y1 + 100 * y2 + 10 * y3 + y4, 10 * m1 + m2, 10 * d1 + d2) } :=
  readObo_file pre post y1 y2 y3 y4 m1 m2 d1 d2 hy1 hy2 hy3 hy4 hm1 hm2 hd1 hd2 hpre hok items hitems ending hend

/-- a whole gene file of either flavour: the header line is dropped and the rows (any list, any
order) are exactly one `annotate_gene` call each, in file order -/
theorem C09_gene_file (tr : Bool) (hdr : List Char) (rows : List GRow) (ending : List Char)
    (hnl : '\n' ∉ hdr)
    (hh : startsWith ['#'] hdr = true ∨ startsWith hdrNcbi hdr = true ∨ startsWith hdrHpo hdr = true)
    (h : ∀ r ∈ rows, r.Ok) (hend : RowsEnd rows ending) :
    removeHeader (hdr ++ '\n' :: (joinWith '\n' (rows.map (GRow.render tr)) ++ ending)) =
      .ok (joinWith '\n' (rows.map (GRow.render tr)) ++ ending) ∧
    ∀ o, geneRows tr (lines (joinWith '\n' (rows.map (GRow.render tr)) ++ ending)) o = annotateGenes rows o :=
  geneFile_render tr hdr rows ending hnl hh h hend

/-- a whole phenotype.hpoa (comment block, column header, OMIM / ORPHA / `NOT` / DECIPHER rows in
any order): exactly one `annotate_omim_disease` / `annotate_orpha_disease` call per OMIM / ORPHA
row whose qualifier is not `NOT`, in file order; every other line contributes nothing -/
theorem C09_hpoa_file (rows : List DRow) (ending : List Char) (h : ∀ r ∈ rows, r.Ok)
    (hend : RowsEnd rows ending) (o : Onto) :
    diseaseRows (lines (joinWith '\n' (rows.map DRow.render) ++ ending)) o = annotateDiseases rows o :=
  hpoaFile_render rows ending h hend o

/-- **Loading = the builder program in file order.** Loading three rendered files — for ANY list of
stanzas / rows, i.e. any order — is exactly the Builder-model program `buildFromFacts` over the facts
in file order:
`add_term` per `[Term]` stanza (with name, obsolete flag, replacement), the release version,
`add_parent_unchecked` per `is_a` line, `connect_all_terms`, one `annotate_gene` per gene row, one
`annotate_omim_disease` / `annotate_orpha_disease` per OMIM / ORPHA row that is not `NOT`,
`calculate_information_content`, `build_with_defaults`; header / comment lines, other stanza types
and other databases contribute nothing. Both loaders (`tr`). No hypothesis on the facts themselves
(any ids, cycles, unknown terms: the equation also covers failing and panicking loads).
The three file endings the generator emits (nothing / one line feed / line feed + blank line after
the last block; nothing / one line feed after the last row) and rows with trailing empty columns
(`IsTail`) are covered. (Formerly `C09_file_partial`; nothing in it is partial: that the program does
not depend on the order and agrees with the checked Builder API is `C09_file`, `C09_file_builder`.) -/
theorem C09_file_in_order (tr : Bool)
    (pre post : List (List Char)) (y1 y2 y3 y4 m1 m2 d1 d2 : Nat)
    (hy1 : y1 < 10) (hy2 : y2 < 10) (hy3 : y3 < 10) (hy4 : y4 < 10) (hm1 : m1 < 10) (hm2 : m2 < 10)
    (hd1 : d1 < 10) (hd2 : d2 < 10)
    (hpre : ∀ l ∈ pre, stripPrefix versionPrefix l = none) (hok : ∀ l ∈ pre ++ post, LineOk l)
    (items : List Item) (hitems : ∀ i ∈ items, i.Ok) (oboEnd : List Char)
    (hoboEnd : oboEnd = [] ∨ oboEnd = ['\n'] ∨ oboEnd = blankLine)
    (hdr : List Char) (grows : List GRow) (geneEnd : List Char) (hnl : '\n' ∉ hdr)
    (hh : startsWith ['#'] hdr = true ∨ startsWith hdrNcbi hdr = true ∨ startsWith hdrHpo hdr = true)
    (hg : ∀ r ∈ grows, r.Ok) (hgeneEnd : RowsEnd grows geneEnd)
    (drows : List DRow) (hpoaEnd : List Char) (hd : ∀ r ∈ drows, r.Ok) (hhpoaEnd : RowsEnd drows hpoaEnd) :
    loadJax tr
      (joinStr blankLine
        (joinWith '\n' (headerLines pre post y1 y2 y3 y4 m1 m2 d1 d2) :: items.map Item.render) ++ oboEnd)
      (hdr ++ '\n' :: (joinWith '\n' (grows.map (GRow.render tr)) ++ geneEnd))
      (joinWith '\n' (drows.map DRow.render) ++ hpoaEnd) =
    buildFromFacts (itemsTerms items)
      (1000 * y1 + 100 * y2 + 10 * y3 + y4, 10 * m1 + m2, 10 * d1 + d2) grows drows :=
  loadJax_render tr pre post y1 y2 y3 y4 m1 m2 d1 d2 hy1 hy2 hy3 hy4 hm1 hm2 hd1 hd2 hpre hok items hitems
    oboEnd hoboEnd hdr grows geneEnd hnl hh hg hgeneEnd drows hpoaEnd hd hhpoaEnd

/-- the same statement for a `Rendering` (the bundle of all these parameters) -/
theorem C09_rendering_in_order (tr : Bool) (R : Rendering) (h : R.Ok) :
    loadJax tr R.obo (R.gene tr) R.hpoa = buildFromFacts R.terms R.version R.grows R.drows :=
  loadJax_rendering tr R h

/-! ## the load is a builder run of the checked API (C01 / C02 / C16) -/

/-- **hp.obo = `runB`.** When every `is_a` target is a `[Term]` stanza of the file (`IsaClosed`),
the builder half of `read_obo_file` is the term-level call history of C01 / C16 on the empty
builder: one `BOp.term` per stanza (name, id, obsolete flag, replacement), in file order, followed
by one `BOp.parent` (= checked `add_parent`; `add_parent_unchecked` on present ids is the same
transition, `C01_unchecked_eq_checked`) per `is_a` line, in file order — plus the release version
of the header (`setV`). `none` (an id ≥ 10^7: the arena panics) on both sides alike. -/
theorem C09_obo_builder_run (items : List Item) (v : Nat × Nat × Nat) (hisa : IsaClosed (itemsTerms items)) :
    oboBuild { terms := itemsTerms items, version := v } =
      (runB ((stanzaFacts (itemsTerms items)).map TermFact.op ++
        (stanzaEdges (itemsTerms items)).map edgeOp) {}).map (setV v) :=
  oboBuild_eq_runB _ v (itemsTerms_bare items) hisa

/-- **An `is_a` line naming a term that has no stanza** (why `IsaClosed` is a hypothesis): the
loader's `add_parent_unchecked` does not fail — the child gets a parent id that resolves to nothing
and the arena's placeholder slot 0 gets the child — whereas the checked `add_parent` refuses
(`DoesNotExist`, builder unchanged). Such files are outside `C09_file`; the generator does not
emit them (the real JAX files are closed). -/
theorem C09_isa_absent_target (o : Onto) (p c : Nat) (tc : Term) (hp : getT o.terms p = none)
    (hps : p < maxId) (hc : getT o.terms c = some tc) (hcs : c < maxId) :
    o.addParentUnchecked p c =
      some { o with slot0 := o.slot0.addChild c, terms := modT o.terms c (·.addParent p) } ∧
    o.addParent p c = .err .doesNotExist := by
  have h1 : ¬ p ≥ maxId := Nat.not_le.2 hps
  have h2 : ¬ c ≥ maxId := Nat.not_le.2 hcs
  constructor
  · simp [Onto.addParentUnchecked, Onto.modUnchecked, h1, h2, hp, hc]
  · simp [Onto.addParent, Onto.get, arenaGet, h1, h2, hp, hc]

/-- **gene / disease rows = `runA`.** On the connected ontology of a term-level builder run, when
every term annotated by a row is one of the terms, the two row loops never fail and are the
annotation call history of C02 / C16: one `AOp.annotate .gene` per gene row, one
`AOp.annotate .omim` / `.orpha` per OMIM / ORPHA row that is not `NOT`, in file order. -/
theorem C09_rows_annotation_calls (fs : List TermFact) (es : List EdgeFact) (a oc : Onto)
    (hrun : runB (fs.map TermFact.op ++ es.map edgeOp) {} = some a) (hac : Acyclic a)
    (hc : a.connectAll = .ok oc) (grows : List GRow) (drows : List DRow)
    (hg : ∀ r ∈ grows, ∃ f ∈ fs, f.id = r.h)
    (hd : ∀ orpha d name q h tail, DRow.link orpha d name q h tail ∈ drows → ∃ f ∈ fs, f.id = h) :
    (annotateGenes grows oc).bind (annotateDiseases drows) = .ok (runA (fileOps grows drows) oc) := by
  apply rows_eq_runA ⟨hrun, hac, hc⟩
  intro op hop
  rcases List.mem_append.1 hop with h | h
  · obtain ⟨r, hr, rfl⟩ := List.mem_map.1 h
    exact hg r hr
  · obtain ⟨orpha, d, name, q, hh, tail, hrow, rfl⟩ := (mem_diseaseOps drows op).1 h
    exact hd orpha d name q hh tail hrow

/-- **Failure case: unknown term.** When a gene row, or an OMIM / ORPHA row that is not `NOT`, names
a term that is not a stanza of hp.obo (the obo file itself being well formed: ids below 10^7,
`is_a` targets present, no cycle), the load fails with `DoesNotExist` — for both loaders and every
order of stanzas and rows. -/
theorem C09_unknown_term (tr : Bool) (R : Rendering) (h : R.Ok)
    (hsmall : ∀ s ∈ R.terms, s.1.id < maxId) (hisa : IsaClosed R.terms) (hac : AcyclicFacts R.terms)
    (hbad : (∃ r ∈ R.grows, ¬ IsStanza R.terms r.h) ∨
      (∃ orpha d name q hh tail, DRow.link orpha d name q hh tail ∈ R.drows ∧ ¬ IsStanza R.terms hh)) :
    loadJax tr R.obo (R.gene tr) R.hpoa = .err .doesNotExist := by
  rw [loadJax_rendering tr R h]
  apply buildFromFacts_unknown_term R.terms R.version R.grows R.drows (itemsTerms_bare _) hsmall hisa hac
  rcases hbad with ⟨r, hr, hn⟩ | ⟨orpha, d, name, q, hh, tail, hrow, hn⟩
  · exact ⟨r.op, List.mem_append_left _ (List.mem_map_of_mem hr), hn⟩
  · exact ⟨.annotate (dbKind orpha) d name hh,
      List.mem_append_right _ ((mem_diseaseOps _ _).2 ⟨orpha, d, name, q, hh, tail, hrow, rfl⟩), hn⟩

/-- **The loaded ontology IS the builder's.** For a rendering of well-formed facts (`WFfacts`: term
ids below 10^7, every `is_a` target and every annotated term a stanza, no is_a cycle, at most
65 535 distinct genes / OMIM / ORPHA diseases, stanzas for `HP:0000001` and `HP:0000118`) the load
succeeds, and returns literally the ontology `d` that the checked Builder API produces from the
facts in file order — `new_term` per stanza, `add_parent` per `is_a`, `connect_all_terms`,
`annotate_*` per row, `calculate_information_content`, `build_with_defaults`, none of them failing —
with the release version of the header. -/
theorem C09_file_is_builder_run (tr : Bool) (R : Rendering) (h : R.Ok)
    (W : WFfacts R.terms R.grows R.drows) :
    ∃ a oc r d,
      runB ((stanzaFacts R.terms).map TermFact.op ++ (stanzaEdges R.terms).map edgeOp) {} = some a ∧
      Acyclic a ∧ a.connectAll = .ok oc ∧
      (runA (fileOps R.grows R.drows) oc).calcIc = .ok r ∧ r.buildWithDefaults = .ok d ∧
      loadJax tr R.obo (R.gene tr) R.hpoa = .ok { d with version := R.version } := by
  obtain ⟨a, oc, r, d, B, hl⟩ := buildFromFacts_ok R.terms R.version R.grows R.drows (itemsTerms_bare _) W
  exact ⟨a, oc, r, d, B.run, B.acyclic, B.connect, B.ic, B.build, (loadJax_rendering tr R h).trans hl⟩

/-- permuting the blocks of hp.obo permutes the term stanzas the loader sees -/
theorem C09_stanza_order (items1 items2 : List Item) (h : items1.Perm items2) :
    (itemsTerms items1).Perm (itemsTerms items2) :=
  itemsTerms_perm h

/-- **C09_file — the loaders build the ontology the files describe, whatever the order.**
Two renderings (either loader each) whose term stanzas, gene rows and disease rows are permutations
of each other (`List.Perm`; by `C09_stanza_order` in particular any permutation of the blocks of
hp.obo — and also other `is_a` labels, extra tags, other stanza types, header lines, file endings),
with the same release date, of well-formed facts (`WFfacts`, see `C09_file_is_builder_run`) with one
stanza per term id (`Functional`) and one name per gene / disease id (`NamesFunctional`): both
loads succeed, and the two ontologies have equal lookups — `getT` for every term id (name, obsolete
flag, replacement, parents, children, ancestors, linked genes / OMIM / ORPHA diseases, the three
information-content pairs), `getR` for every kind and record id (name, direct terms) — equal
categories, equal modifier roots and the release version of the header. Only the iteration order of
terms and records may differ. (Via `C16_terms`, `C16_records_and_terms`, `C16_ic_and_defaults`.) -/
theorem C09_file (tr1 tr2 : Bool) (R1 R2 : Rendering) (h1 : R1.Ok) (h2 : R2.Ok)
    (hv : R1.version = R2.version) (hpt : R1.terms.Perm R2.terms) (hpg : R1.grows.Perm R2.grows)
    (hpd : R1.drows.Perm R2.drows) (W : WFfacts R1.terms R1.grows R1.drows)
    (hfun : Functional (stanzaFacts R1.terms))
    (nameOf : Kind → Nat → List Char) (hn : NamesFunctional nameOf (fileOps R1.grows R1.drows)) :
    ∃ o1 o2, loadJax tr1 R1.obo (R1.gene tr1) R1.hpoa = .ok o1 ∧
      loadJax tr2 R2.obo (R2.gene tr2) R2.hpoa = .ok o2 ∧
      (∀ j, getT o1.terms j = getT o2.terms j) ∧
      (∀ k r, getR (o1.recs k) r = getR (o2.recs k) r) ∧
      o1.categories = o2.categories ∧ o1.modifier = o2.modifier ∧
      o1.version = R1.version ∧ o2.version = R1.version := by
  have W2 := W.perm hpt hpg hpd
  obtain ⟨a1, oc1, r1, d1, B1, l1⟩ := buildFromFacts_ok R1.terms R1.version R1.grows R1.drows (itemsTerms_bare _) W
  obtain ⟨a2, oc2, r2, d2, B2, l2⟩ := buildFromFacts_ok R2.terms R2.version R2.grows R2.drows (itemsTerms_bare _) W2
  have S := (builderRun_perm B1 B2 (stanzaFacts_perm hpt) (stanzaEdges_perm hpt) (fileOps_perm hpg hpd)
    hfun nameOf hn).setV R1.version
  refine ⟨_, _, (loadJax_rendering tr1 R1 h1).trans l1, (loadJax_rendering tr2 R2 h2).trans (hv ▸ l2),
    S.terms, S.recs, S.categories, S.modifier, rfl, rfl⟩

/-- **C09_file_builder — the loaded ontology is the Builder API's, and round-trips.**
For a rendering of well-formed facts (one stanza per term id, one name per record id) and ANY
ordering `fs`, `es`, `aops` of its term facts, is_a facts and annotation calls, the checked Builder
API program — `new_term` per term fact, `add_parent` per is_a fact, `connect_all_terms`, `annotate_*`
per call (`runB` / `runA`, failing calls would be ignored: there are none), `calcIc`,
`build_with_defaults` — succeeds with some ontology `d`, the load succeeds with some `o`, `o` and `d`
have equal lookups, categories and modifier roots (`o` additionally carries the release version of
the header), `o` is `Reachable` (`reachable_of_builder`), and therefore — when it is encodable at
all (`EncOK`: ids and counts fit their binary fields) — `from_bytes(as_bytes(o))` succeeds and
returns `o` up to the documented cut of over-long names (`C07_roundtrip`). -/
theorem C09_file_builder (tr : Bool) (R : Rendering) (h : R.Ok) (W : WFfacts R.terms R.grows R.drows)
    (hfun : Functional (stanzaFacts R.terms))
    (nameOf : Kind → Nat → List Char) (hn : NamesFunctional nameOf (fileOps R.grows R.drows))
    (fs : List TermFact) (es : List EdgeFact) (aops : List AOp)
    (hpf : (stanzaFacts R.terms).Perm fs) (hpe : (stanzaEdges R.terms).Perm es)
    (hpa : (fileOps R.grows R.drows).Perm aops) :
    ∃ o a oc r d, loadJax tr R.obo (R.gene tr) R.hpoa = .ok o ∧
      runB (fs.map TermFact.op ++ es.map edgeOp) {} = some a ∧ a.connectAll = .ok oc ∧
      (runA aops oc).calcIc = .ok r ∧ r.buildWithDefaults = .ok d ∧
      (∀ j, getT o.terms j = getT d.terms j) ∧ (∀ k r, getR (o.recs k) r = getR (d.recs k) r) ∧
      o.categories = d.categories ∧ o.modifier = d.modifier ∧ o.version = R.version ∧
      Reachable o ∧
      (EncOK o → decodeBytes (encodeOnto o) = .ok (truncOnto o) ∧ ObsTrunc o (truncOnto o)) := by
  obtain ⟨a0, oc0, r0, d0, B0, l0⟩ := buildFromFacts_ok R.terms R.version R.grows R.drows (itemsTerms_bare _) W
  obtain ⟨a, oc, r, d, B⟩ := builderRun_exists fs es aops
    (by
      intro f hf
      obtain ⟨s, hs, rfl⟩ := List.mem_map.1 (hpf.mem_iff.2 hf)
      exact W.small s hs)
    (by
      obtain ⟨rank, hr⟩ := acyclicEdges_of_facts R.terms W.acyclic
      exact ⟨rank, fun e he => hr e (hpe.mem_iff.2 he)⟩)
    (by
      intro k ids hnd hall
      apply W.fit k ids hnd
      intro i hi
      obtain ⟨op, hop, he⟩ := hall i hi
      exact ⟨op, hpa.mem_iff.2 hop, he⟩)
    (by
      obtain ⟨f, hf, e⟩ := (mem_stanzaFacts R.terms 1).2 W.root
      exact ⟨f, hpf.mem_iff.1 hf, e⟩)
    (by
      obtain ⟨f, hf, e⟩ := (mem_stanzaFacts R.terms _).2 W.phenotype
      exact ⟨f, hpf.mem_iff.1 hf, e⟩)
  have S := builderRun_perm B0 B hpf hpe hpa hfun nameOf hn
  have hreach : Reachable (setV R.version d0) := reachable_setV B0.reachable R.version
  exact ⟨_, a, oc, r, d, (loadJax_rendering tr R h).trans l0, B.run, B.connect, B.ic, B.build, S.terms,
    fun k r => by rw [recs_setV]; exact S.recs k r, S.categories, S.modifier, rfl, hreach,
    fun he => C07.C07_roundtrip _ hreach he⟩

/-! ## non-vacuity -/
example : (Item.other "[Typedef]".toList ["id: has_part".toList, "is_a: HP:0000001 ! All".toList]).Ok := by
  refine ⟨?_, ?_, ?_⟩
  · intro l hl
    simp at hl
    rcases hl with rfl | rfl | rfl <;> exact ⟨by decide, by decide, by decide⟩
  · intro s; simp [termPrefix, stripPrefix]
  · intro s; simp [formatPrefix, startsWith]
example : (DRow.ignored "DECIPHER:1\tDeletion\t\tHP:0000001".toList).Ok :=
  ⟨by decide, by decide, by decide, by decide, by decide⟩
example : (DRow.excluded true "7x".toList "Only: excluded".toList "HP:zz".toList "\tPMID:1".toList).Ok :=
  ⟨⟨by decide, by decide, by decide⟩, ⟨by decide, by decide, by decide⟩, ⟨by decide, by decide, by decide⟩,
    ⟨'z', by decide, by decide⟩, Or.inr ⟨_, rfl⟩, by decide, by decide⟩
set_option maxRecDepth 8192 in
example : readObo "format-version: 1.2\n\n[Term]\nid: HP:0000001\nname: A\n\n[Typedef]\nid: x\n".toList =
    .ok { terms := [({ id := 1, name := "A".toList }, [])], version := (0, 0, 0) } := by decide

/-! non-vacuity of `C09_file` / `C09_file_builder`: a three-term ontology (`HP:1` ← `HP:118` ← `HP:5`)
with an ignored `[Typedef]` stanza, a gene on `HP:5` (twice), an OMIM disease on `HP:5`, an ORPHA
disease on `HP:118`, a `NOT` row and a comment; the second rendering has the blocks and rows in
reverse order, other `is_a` labels, another header line and other endings. -/

def exItems : List Item :=
  [.stanza 1 "All".toList false none [] [] [],
   .other "[Typedef]".toList ["id: has_part".toList],
   .stanza 118 "Phenotypic abnormality".toList false none [(1, "All".toList)] [("def".toList, "x: y".toList)] [],
   .stanza 5 "Leaf: é".toList false none [(118, "Phenotypic abnormality".toList)] [] []]

def exItems2 : List Item :=
  [.stanza 5 "Leaf: é".toList false none [(118, "other label".toList)] [] [("comment".toList, "c".toList)],
   .stanza 118 "Phenotypic abnormality".toList false none [(1, "".toList)] [] [],
   .stanza 1 "All".toList false none [] [] []]

def exGrows : List GRow := [⟨10, "G1".toList, 5, "Leaf".toList, []⟩, ⟨10, "G1".toList, 5, "Leaf".toList, "\tx".toList⟩]

def exDrows : List DRow :=
  [.ignored "#comment".toList, .link false 7 "D 7".toList [] 5 [], .link true 7 "O 7".toList [] 118 "\tPMID:1".toList,
   .excluded false "7".toList "D 7".toList "HP:0000001".toList []]

def exR1 : Rendering :=
  { pre := [], post := [], y1 := 2, y2 := 0, y3 := 2, y4 := 3, m1 := 1, m2 := 0, d1 := 0, d2 := 9,
    items := exItems, oboEnd := ['\n'], hdr := "ncbi_gene_id\tgene_symbol".toList, grows := exGrows, geneEnd := ['\n'],
    drows := exDrows, hpoaEnd := [] }

def exR2 : Rendering :=
  { pre := [], post := ["ontology: hp".toList], y1 := 2, y2 := 0, y3 := 2, y4 := 3, m1 := 1, m2 := 0, d1 := 0, d2 := 9,
    items := exItems2, oboEnd := [], hdr := "#hdr".toList, grows := exGrows.reverse, geneEnd := [],
    drows := exDrows.reverse, hpoaEnd := ['\n'] }

theorem exItems_ok : ∀ i ∈ exItems ++ exItems2, i.Ok := by
  have neutralDef : Neutral "def".toList := by unfold Neutral; decide
  have neutralComment : Neutral "comment".toList := by unfold Neutral; decide
  intro i hi
  simp only [exItems, exItems2, List.cons_append, List.nil_append, List.mem_cons, List.not_mem_nil, or_false] at hi
  rcases hi with rfl | rfl | rfl | rfl | rfl | rfl | rfl
  · exact ⟨by decide, by simp, by simp, ⟨by decide, by simp, by simp⟩⟩
  · refine ⟨?_, ?_, ?_⟩
    · intro l hl
      simp at hl
      rcases hl with rfl | rfl <;> exact ⟨by decide, by decide, by decide⟩
    · intro s; simp [termPrefix, stripPrefix]
    · intro s; simp [formatPrefix, startsWith]
  · refine ⟨by decide, by simp, by simp, ⟨by decide, ?_, ?_⟩⟩
    · intro p hp; simp at hp; subst hp; exact ⟨by decide, by decide⟩
    · intro e he; simp at he; subst he
      exact ⟨neutralDef, ⟨by decide, by decide, by decide⟩, by decide, by decide⟩
  · refine ⟨by decide, by simp, by simp, ⟨by decide, ?_, by simp⟩⟩
    intro p hp; simp at hp; subst hp; exact ⟨by decide, by decide⟩
  · refine ⟨by decide, by simp, by simp, ⟨by decide, ?_, ?_⟩⟩
    · intro p hp; simp at hp; subst hp; exact ⟨by decide, by decide⟩
    · intro e he; simp at he; subst he
      exact ⟨neutralComment, ⟨by decide, by decide, by decide⟩, by decide, by decide⟩
  · refine ⟨by decide, by simp, by simp, ⟨by decide, ?_, by simp⟩⟩
    intro p hp; simp at hp; subst hp; exact ⟨by decide, by decide⟩
  · exact ⟨by decide, by simp, by simp, ⟨by decide, by simp, by simp⟩⟩

theorem exGrows_ok : ∀ r ∈ exGrows, r.Ok := by
  intro r hr
  simp only [exGrows, List.mem_cons, List.not_mem_nil, or_false] at hr
  rcases hr with rfl | rfl
  · exact ⟨by decide, by decide, ⟨by decide, by decide, by decide⟩, ⟨by decide, by decide, by decide⟩,
      Or.inl rfl, by decide, by decide⟩
  · exact ⟨by decide, by decide, ⟨by decide, by decide, by decide⟩, ⟨by decide, by decide, by decide⟩,
      Or.inr ⟨_, rfl⟩, by decide, by decide⟩

theorem exDrows_ok : ∀ r ∈ exDrows, r.Ok := by
  intro r hr
  simp only [exDrows, List.mem_cons, List.not_mem_nil, or_false] at hr
  rcases hr with rfl | rfl | rfl | rfl
  · exact ⟨by decide, by decide, by decide, by decide, by decide⟩
  · exact ⟨by decide, by decide, ⟨by decide, by decide, by decide⟩, ⟨by decide, by decide, by decide⟩,
      by decide, Or.inl rfl, by decide, by decide⟩
  · exact ⟨by decide, by decide, ⟨by decide, by decide, by decide⟩, ⟨by decide, by decide, by decide⟩,
      by decide, Or.inr ⟨_, rfl⟩, by decide, by decide⟩
  · exact ⟨⟨by decide, by decide, by decide⟩, ⟨by decide, by decide, by decide⟩, ⟨by decide, by decide, by decide⟩,
      ⟨'1', by decide, by decide⟩, Or.inl rfl, by decide, by decide⟩

theorem exR1_ok : exR1.Ok :=
  { y1 := by decide, y2 := by decide, y3 := by decide, y4 := by decide, m1 := by decide, m2 := by decide,
    d1 := by decide, d2 := by decide, pre := by simp [exR1], header := by simp [exR1],
    items := fun i hi => exItems_ok i (List.mem_append_left _ hi), oboEnd := Or.inr (Or.inl rfl),
    hdrLine := by decide, hdr := Or.inr (Or.inl (by decide)), grows := exGrows_ok,
    geneEnd := Or.inr ⟨rfl, by decide⟩, drows := exDrows_ok, hpoaEnd := Or.inl rfl }

theorem exR2_ok : exR2.Ok :=
  { y1 := by decide, y2 := by decide, y3 := by decide, y4 := by decide, m1 := by decide, m2 := by decide,
    d1 := by decide, d2 := by decide, pre := by simp [exR2],
    header := by
      intro l hl; simp [exR2] at hl; subst hl; exact ⟨by decide, by decide, by decide⟩,
    items := fun i hi => exItems_ok i (List.mem_append_right _ hi), oboEnd := Or.inl rfl,
    hdrLine := by decide, hdr := Or.inl (by decide),
    grows := fun r hr => exGrows_ok r (List.mem_reverse.1 hr), geneEnd := Or.inl rfl,
    drows := fun r hr => exDrows_ok r (List.mem_reverse.1 hr),
    hpoaEnd := Or.inr ⟨rfl, by decide⟩ }

/-- same facts: the stanzas of the second file are a permutation of those of the first (although the
block lists differ in length, labels and extra tags), rows reversed, same release date -/
theorem exPerm : exR1.terms.Perm exR2.terms ∧ exR1.grows.Perm exR2.grows ∧ exR1.drows.Perm exR2.drows ∧
    exR1.version = exR2.version ∧ exR1.terms ≠ exR2.terms :=
  ⟨by
    show (itemsTerms exItems).Perm (itemsTerms exItems2)
    simp only [exItems, exItems2, itemsTerms, List.map_cons, List.map_nil]
    exact (List.reverse_perm _).symm,
   (List.reverse_perm _).symm, (List.reverse_perm _).symm, rfl, by decide⟩

theorem exWF : WFfacts exR1.terms exR1.grows exR1.drows :=
  { small := by decide
    isa := by unfold IsaClosed; decide
    acyclic := ⟨fun j => if j = 1 then 0 else if j = 118 then 1 else 2, by decide⟩
    geneTerms := by unfold IsStanza; decide
    diseaseTerms := by
      intro orpha d name q h tail hm
      simp only [exR1, exDrows, List.mem_cons, List.not_mem_nil, or_false, reduceCtorEq, false_or,
        DRow.link.injEq] at hm
      rcases hm with ⟨_, _, _, _, rfl, _⟩ | ⟨_, _, _, _, rfl, _⟩ <;> unfold IsStanza <;> decide
    fit := countsFit_of_length _ (by decide)
    root := by unfold IsStanza; decide
    phenotype := by unfold IsStanza; decide }

theorem exFun : Functional (stanzaFacts exR1.terms) := by unfold Functional; decide

/-- one name per gene / disease id, stated on the rows (`namesFunctional_fileOps`) -/
def exNameOf (k : Kind) (_ : Nat) : List Char :=
  match k with | .gene => "G1".toList | .omim => "D 7".toList | .orpha => "O 7".toList
theorem exNames : NamesFunctional exNameOf (fileOps exR1.grows exR1.drows) := by
  apply namesFunctional_fileOps
  · decide
  · intro orpha d name q h tail hm
    simp only [exR1, exDrows, List.mem_cons, List.not_mem_nil, or_false, reduceCtorEq, false_or,
      DRow.link.injEq] at hm
    rcases hm with ⟨rfl, _, rfl, _⟩ | ⟨rfl, _, rfl, _⟩ <;> rfl

/-- a row naming `HP:0000009`, which has no stanza: hypothesis of `C09_unknown_term` -/
example : ∃ r ∈ [(⟨10, "G1".toList, 9, [], []⟩ : GRow)], ¬ IsStanza exR1.terms r.h := by
  unfold IsStanza; decide

/-- all hypotheses of `C09_file` together (first file through `load_from_jax_files`, second through
the transitive loader), and of `C09_file_builder` with the facts handed to the Builder in reverse -/
example : ∃ o1 o2, loadJax false exR1.obo (exR1.gene false) exR1.hpoa = .ok o1 ∧
    loadJax true exR2.obo (exR2.gene true) exR2.hpoa = .ok o2 ∧ (∀ j, getT o1.terms j = getT o2.terms j) := by
  obtain ⟨o1, o2, l1, l2, ht, _⟩ := C09_file false true exR1 exR2 exR1_ok exR2_ok exPerm.2.2.2.1 exPerm.1
    exPerm.2.1 exPerm.2.2.1 exWF exFun exNameOf exNames
  exact ⟨o1, o2, l1, l2, ht⟩
example : ∃ o, loadJax false exR1.obo (exR1.gene false) exR1.hpoa = .ok o ∧ Reachable o := by
  obtain ⟨o, _, _, _, _, l, _, _, _, _, _, _, _, _, _, hr, _⟩ := C09_file_builder false exR1 exR1_ok exWF exFun
    exNameOf exNames _ _ _ (List.reverse_perm _).symm (List.reverse_perm _).symm (List.reverse_perm _).symm
  exact ⟨o, l, hr⟩

end Hpo.C09
