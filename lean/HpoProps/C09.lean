import HpoProofs.Text
/-!
# C09 — the JAX text loaders build exactly the ontology the three files describe

Model: `HpoModel/Text.lean` (character-level mirror of `src/parser.rs`, `src/parser/hp_obo.rs`).
The theorems are token level and unbounded: for every id below 2^32, every name / symbol / label
(any characters other than the separator the format reserves, in particular `": "` and non-ASCII
text), any number of extra trailing columns with any content.
`renderG2P`, `renderP2G`, `renderDiseaseRow`, `renderStanza` (in `HpoProofs/Text.lean`) are the
JAX renderings of a fact; `IsTail '\t' tail` = nothing or a tab followed by any text.
-/
namespace Hpo.C09
open Hpo Hpo.Text

/-! ## lexing -/

/-- `split(c)` returns exactly the fields that were joined with `c`, when no field contains `c` -/
theorem C09_lex_split (c : Char) (fields : List (List Char)) (hne : fields ≠ [])
    (h : ∀ f ∈ fields, c ∉ f) : splitOnChar c (joinWith c fields) = fields :=
  splitOnChar_joinWith c fields hne h

/-- `split_once(c)` cuts at the first `c` -/
theorem C09_lex_splitOnce (c : Char) (a b : List Char) (h : c ∉ a) :
    splitOnce c (a ++ c :: b) = some (a, b) :=
  splitOnce_append c a b h

/-- `split_once(": ")` cuts a `key: value` line after the key, whatever the value contains -/
theorem C09_lex_keyValue (k v : List Char) (h : ':' ∉ k) :
    splitOnceStr colonSp (k ++ colonSp ++ v) = some (k, v) :=
  splitOnceStr_colonSp k v h

/-! ## gene rows -/

/-- `genes_to_phenotype.txt`: columns 1, 2, 3 are gene id, symbol, term id; further columns are
ignored; the row becomes exactly one `annotate_gene(id, symbol, term)` call -/
theorem C09_gene_row (g h : Nat) (sym tail : List Char) (hg : g < 4294967296) (hh : h < 4294967296)
    (hs : '\t' ∉ sym) (ht : IsTail '\t' tail) (ls : List (List Char)) (o : Onto) :
    parseGeneRow false (renderG2P g sym h tail) = .ok (g, sym, h) ∧
    geneRows false (renderG2P g sym h tail :: ls) o =
      (o.annotate .gene g sym h).bind (geneRows false ls) := by
  have e : parseGeneRow false (renderG2P g sym h tail) = .ok (g, sym, h) := by
    simpa [parseGeneRow] using parseG2P_render g h sym tail hg hh hs ht
  exact ⟨e, by simp [geneRows, e, Res.bind]⟩

/-- `phenotype_to_genes.txt`: columns 1, 3, 4 are term id, gene id, symbol; the label column and
further columns are ignored -/
theorem C09_gene_row_transitive (g h : Nat) (sym label tail : List Char) (hg : g < 4294967296)
    (hh : h < 4294967296) (hs : '\t' ∉ sym) (hl : '\t' ∉ label) (ht : IsTail '\t' tail)
    (ls : List (List Char)) (o : Onto) :
    parseGeneRow true (renderP2G g sym h label tail) = .ok (g, sym, h) ∧
    geneRows true (renderP2G g sym h label tail :: ls) o =
      (o.annotate .gene g sym h).bind (geneRows true ls) := by
  have e : parseGeneRow true (renderP2G g sym h label tail) = .ok (g, sym, h) := by
    simpa [parseGeneRow] using parseP2G_render g h sym label tail hg hh hs hl ht
  exact ⟨e, by simp [geneRows, e, Res.bind]⟩

/-- the header line of a gene file (`#…`, `ncbi_gene_id…` or `hpo_id…`) is removed, nothing else -/
theorem C09_gene_header (hdr rest : List Char) (hnl : '\n' ∉ hdr)
    (hh : startsWith ['#'] hdr = true ∨ startsWith hdrNcbi hdr = true ∨ startsWith hdrHpo hdr = true) :
    removeHeader (hdr ++ '\n' :: rest) = .ok rest := by
  unfold removeHeader
  rw [splitOnce_append '\n' hdr rest hnl]
  rcases hh with h | h | h <;> simp [h]

/-! ## disease rows -/

/-- an `OMIM:<id>` row whose qualifier is not `NOT` becomes exactly one
`annotate_omim_disease(id, name, term)` call; extra columns are ignored -/
theorem C09_disease_row_omim (d h : Nat) (name q tail : List Char) (hd : d < 4294967296)
    (hh : h < 4294967296) (hname : '\t' ∉ name) (hq : '\t' ∉ q) (hnot : q ≠ kNot)
    (ht : IsTail '\t' tail) (ls : List (List Char)) (o : Onto) :
    diseaseRows (renderDiseaseRow pOmim (TermId.decimal d) name q (TermId.render h) tail :: ls) o =
      (o.annotate .omim d name h).bind (diseaseRows ls) := by
  have e := parseDiseaseComponents_render pOmim (TermId.decimal d) name q (TermId.render h) tail 'O'
    ['M', 'I', 'M'] rfl (by decide) (EndsNonWs_render h) ht (by decide) (by decide)
    (not_mem_decimal d '\t' tab_digitVal) hname hq
    (not_mem_render h '\t' tab_digitVal (by decide) (by decide) (by decide))
  have hs : startsWith pOmim (renderDiseaseRow pOmim (TermId.decimal d) name q (TermId.render h) tail) = true :=
    startsWith_append _ _
  simp [diseaseRows, parseDiseaseRow, hs, e, hnot, parse_render h hh, parseU32_decimal d hd, Res.bind]

/-- an `ORPHA:<id>` row likewise becomes one `annotate_orpha_disease` call (never an OMIM one) -/
theorem C09_disease_row_orpha (d h : Nat) (name q tail : List Char) (hd : d < 4294967296)
    (hh : h < 4294967296) (hname : '\t' ∉ name) (hq : '\t' ∉ q) (hnot : q ≠ kNot)
    (ht : IsTail '\t' tail) (ls : List (List Char)) (o : Onto) :
    diseaseRows (renderDiseaseRow pOrpha (TermId.decimal d) name q (TermId.render h) tail :: ls) o =
      (o.annotate .orpha d name h).bind (diseaseRows ls) := by
  have e := parseDiseaseComponents_render pOrpha (TermId.decimal d) name q (TermId.render h) tail 'O'
    ['R', 'P', 'H', 'A'] rfl (by decide) (EndsNonWs_render h) ht (by decide) (by decide)
    (not_mem_decimal d '\t' tab_digitVal) hname hq
    (not_mem_render h '\t' tab_digitVal (by decide) (by decide) (by decide))
  have hs : startsWith pOrpha (renderDiseaseRow pOrpha (TermId.decimal d) name q (TermId.render h) tail) = true :=
    startsWith_append _ _
  have hn : startsWith pOmim (renderDiseaseRow pOrpha (TermId.decimal d) name q (TermId.render h) tail) = false := by
    simp [renderDiseaseRow, pOrpha, pOmim, startsWith]
  simp [diseaseRows, parseDiseaseRow, hs, hn, e, hnot, parse_render h hh, parseU32_decimal d hd, Res.bind]

/-- a `NOT` row of either database is skipped: no record, no link (whatever its id and term
columns contain) -/
theorem C09_disease_row_not (db id name hpo tail : List Char) (hdb : db = pOmim ∨ db = pOrpha)
    (hid : '\t' ∉ id) (hname : '\t' ∉ name) (hhpo : '\t' ∉ hpo) (hend : EndsNonWs hpo)
    (ht : IsTail '\t' tail) (ls : List (List Char)) (o : Onto) :
    diseaseRows (renderDiseaseRow db id name kNot hpo tail :: ls) o = diseaseRows ls o := by
  rcases hdb with rfl | rfl
  · have e := parseDiseaseComponents_render pOmim id name kNot hpo tail 'O'
      ['M', 'I', 'M'] rfl (by decide) hend ht (by decide) (by decide) hid hname (by decide) hhpo
    have hs : startsWith pOmim (renderDiseaseRow pOmim id name kNot hpo tail) = true := startsWith_append _ _
    simp [diseaseRows, parseDiseaseRow, hs, e, Res.bind]
  · have e := parseDiseaseComponents_render pOrpha id name kNot hpo tail 'O'
      ['R', 'P', 'H', 'A'] rfl (by decide) hend ht (by decide) (by decide) hid hname (by decide) hhpo
    have hs : startsWith pOrpha (renderDiseaseRow pOrpha id name kNot hpo tail) = true := startsWith_append _ _
    have hn : startsWith pOmim (renderDiseaseRow pOrpha id name kNot hpo tail) = false := by
      simp [renderDiseaseRow, pOrpha, pOmim, startsWith]
    simp [diseaseRows, parseDiseaseRow, hs, hn, e, Res.bind]

/-- every other line — `#` comments, the column header, rows of other databases (DECIPHER), blank
lines — is ignored, whatever it contains -/
theorem C09_disease_row_other (line : List Char) (h1 : startsWith pOmim line = false)
    (h2 : startsWith pOrpha line = false) (ls : List (List Char)) (o : Onto) :
    diseaseRows (line :: ls) o = diseaseRows ls o := by
  simp [diseaseRows, parseDiseaseRow, h1, h2, Res.bind]

/-- instances of `C09_disease_row_other`: comment lines, DECIPHER rows, the column header -/
theorem C09_disease_row_ignored (rest : List Char) :
    startsWith pOmim ('#' :: rest) = false ∧ startsWith pOrpha ('#' :: rest) = false ∧
    startsWith pOmim ("DECIPHER".toList ++ rest) = false ∧ startsWith pOrpha ("DECIPHER".toList ++ rest) = false ∧
    startsWith pOmim ("database_id".toList ++ rest) = false ∧ startsWith pOrpha ("database_id".toList ++ rest) = false ∧
    startsWith pOmim [] = false ∧ startsWith pOrpha [] = false := by
  simp [pOmim, pOrpha, startsWith]

/-! ## hp.obo blocks -/

/-- a rendered `[Term]` stanza — id, name (may contain `": "` and non-ASCII text), other tags,
several `is_a: HP:… ! label` lines, `is_obsolete: true`, `replaced_by: HP:…`, more other tags —
is read back as exactly that term with exactly those parents -/
theorem C09_stanza (id : Nat) (name : List Char) (obs : Bool) (repl : Option Nat)
    (parents : List (Nat × List Char)) (extras1 extras2 : List (List Char × List Char))
    (hid : id < 4294967296) (hrepl : ∀ r, repl = some r → r < 4294967296)
    (hpar : ∀ p ∈ parents, p.1 < 4294967296) (hok : StanzaOk name parents extras1 extras2) :
    parseBlock (renderStanza id name obs repl parents extras1 extras2) =
      .ok (.term { id := id, name := name, obsolete := obs, replacement := repl } (parents.map (·.1))) := by
  simpa using parseBlock_stanza id name obs repl parents extras1 extras2 hid hrepl hpar hok [] (Or.inl rfl)

/-- a block that is neither a `[Term]` stanza nor the header contributes nothing … -/
theorem C09_other_block (b : List Char) (h1 : stripPrefix termPrefix b = none)
    (h2 : startsWith formatPrefix b = false) : parseBlock b = .ok .other :=
  parseBlock_other b h1 h2

/-- … in particular `[Typedef]` and `[Instance]` stanzas with any content, and the empty block -/
theorem C09_typedef_ignored (rest : List Char) :
    parseBlock ("[Typedef]".toList ++ rest) = .ok .other ∧
    parseBlock ("[Instance]".toList ++ rest) = .ok .other ∧ parseBlock [] = .ok .other := by
  refine ⟨parseBlock_other _ ?_ ?_, parseBlock_other _ ?_ ?_, parseBlock_other _ ?_ ?_⟩ <;>
    simp [termPrefix, formatPrefix, stripPrefix, startsWith]

/-- the header block yields the release version of its `data-version: hp/releases/YYYY-MM-DD`
line, wherever in the block that line stands -/
theorem C09_version (pre post : List (List Char)) (y1 y2 y3 y4 m1 m2 d1 d2 : Nat)
    (hy1 : y1 < 10) (hy2 : y2 < 10) (hy3 : y3 < 10) (hy4 : y4 < 10) (hm1 : m1 < 10) (hm2 : m2 < 10)
    (hd1 : d1 < 10) (hd2 : d2 < 10)
    (hpre : ∀ l ∈ pre, stripPrefix versionPrefix l = none) (hok : ∀ l ∈ pre ++ post, LineOk l) :
    parseBlock (joinWith '\n' (headerLines pre post y1 y2 y3 y4 m1 m2 d1 d2)) =
      .ok (.header (1000 * y1 + 100 * y2 + 10 * y3 + y4, 10 * m1 + m2, 10 * d1 + d2)) := by
  simpa using parseBlock_header pre post y1 y2 y3 y4 m1 m2 d1 d2 hy1 hy2 hy3 hy4 hm1 hm2 hd1 hd2 hpre hok []
    (Or.inl rfl)

/-! ## whole files -/

/-- `split("\n\n")` returns exactly the blocks that were joined by blank lines (no block contains a
blank line or ends in a line feed) -/
theorem C09_lex_blocks (blocks : List (List Char)) (hne : blocks ≠ []) (h : ∀ b ∈ blocks, BlockOk b) :
    splitOnStr blankLine (joinStr blankLine blocks) = blocks :=
  splitOnStr_joinStr blocks hne h

/-- `lines()` returns exactly the rows that were joined by line feeds, with or without a final one -/
theorem C09_lex_lines (rows : List (List Char)) (ending : List Char) (h : ∀ l ∈ rows, LineOk l)
    (hend : RowsEnd rows ending) : lines (joinWith '\n' rows ++ ending) = rows :=
  lines_rows rows ending h hend

/-- A whole rendered `hp.obo` — header block, then `[Term]` stanzas and other stanzas (`items` is
ANY list, hence any order and any mixture), separated by blank lines, ending with nothing, a line feed, or a blank line — is read as exactly the
term stanzas in file order, each with its name, obsolete flag, replacement and `is_a` parents,
plus the release version. -/
theorem C09_obo_file (pre post : List (List Char)) (y1 y2 y3 y4 m1 m2 d1 d2 : Nat)
    (hy1 : y1 < 10) (hy2 : y2 < 10) (hy3 : y3 < 10) (hy4 : y4 < 10) (hm1 : m1 < 10) (hm2 : m2 < 10)
    (hd1 : d1 < 10) (hd2 : d2 < 10)
    (hpre : ∀ l ∈ pre, stripPrefix versionPrefix l = none) (hok : ∀ l ∈ pre ++ post, LineOk l)
    (items : List Item) (hitems : ∀ i ∈ items, i.Ok) (ending : List Char)
    (hend : ending = [] ∨ ending = ['\n'] ∨ ending = blankLine) :
    readObo (joinStr blankLine
        (joinWith '\n' (headerLines pre post y1 y2 y3 y4 m1 m2 d1 d2) :: items.map Item.render) ++ ending) =
      .ok { terms := itemsTerms items,
            version := (1000 * y1 + 100 * y2 + 10 * y3 + y4, 10 * m1 + m2, 10 * d1 + d2) } :=
  readObo_file pre post y1 y2 y3 y4 m1 m2 d1 d2 hy1 hy2 hy3 hy4 hm1 hm2 hd1 hd2 hpre hok items hitems ending hend

/-- a whole gene file of either flavour: the header line is dropped and the rows (any list, any
order) are exactly one `annotate_gene` call each, in file order -/
theorem C09_gene_file (tr : Bool) (hdr : List Char) (rows : List GRow) (ending : List Char)
    (hnl : '\n' ∉ hdr)
    (hh : startsWith ['#'] hdr = true ∨ startsWith hdrNcbi hdr = true ∨ startsWith hdrHpo hdr = true)
    (h : ∀ r ∈ rows, r.Ok) (hend : RowsEnd rows ending) :
    removeHeader (hdr ++ '\n' :: (joinWith '\n' (rows.map (GRow.render tr)) ++ ending)) =
      .ok (joinWith '\n' (rows.map (GRow.render tr)) ++ ending) ∧
    ∀ o, geneRows tr (lines (joinWith '\n' (rows.map (GRow.render tr)) ++ ending)) o = annotateGenes rows o :=
  geneFile_render tr hdr rows ending hnl hh h hend

/-- a whole phenotype.hpoa (comment block, column header, OMIM / ORPHA / `NOT` / DECIPHER rows in
any order): exactly one `annotate_omim_disease` / `annotate_orpha_disease` call per OMIM / ORPHA
row whose qualifier is not `NOT`, in file order; every other line contributes nothing -/
theorem C09_hpoa_file (rows : List DRow) (ending : List Char) (h : ∀ r ∈ rows, r.Ok)
    (hend : RowsEnd rows ending) (o : Onto) :
    diseaseRows (lines (joinWith '\n' (rows.map DRow.render) ++ ending)) o = annotateDiseases rows o :=
  hpoaFile_render rows ending h hend o

/-- **C09_file (partial).** Loading three rendered files — for ANY list of stanzas / rows, i.e. any
order — is exactly the Builder-model program `buildFromFacts` over the facts in file order:
`add_term` per `[Term]` stanza (with name, obsolete flag, replacement), the release version,
`add_parent_unchecked` per `is_a` line, `connect_all_terms`, one `annotate_gene` per gene row, one
`annotate_omim_disease` / `annotate_orpha_disease` per OMIM / ORPHA row that is not `NOT`,
`calculate_information_content`, `build_with_defaults`; header / comment lines, other stanza types
and other databases contribute nothing. Both loaders (`tr`).

Full statement `C09_file` (NOT proved here, `_partial`):
  `∀ perm of items / grows / drows, loadJax … (render perm) ≃ buildVia Builder API facts ≃ loadFacts 3 facts`
(observational equality of the dumps). The missing step — `buildFromFacts` does not depend on the
order of its stanzas and rows and agrees with the checked `add_parent` API and with the binary
loader — is the statement of C16 about the Builder model; for C09 it rests on the correspondence
check (`same 0 1`, `same 0 2` on every well-formed generated case). The three file endings the
generator emits (nothing / one line feed / line feed + blank line after the last block; nothing /
one line feed after the last row) and rows with trailing empty columns (`IsTail`) are covered. -/
theorem C09_file_partial (tr : Bool)
    (pre post : List (List Char)) (y1 y2 y3 y4 m1 m2 d1 d2 : Nat)
    (hy1 : y1 < 10) (hy2 : y2 < 10) (hy3 : y3 < 10) (hy4 : y4 < 10) (hm1 : m1 < 10) (hm2 : m2 < 10)
    (hd1 : d1 < 10) (hd2 : d2 < 10)
    (hpre : ∀ l ∈ pre, stripPrefix versionPrefix l = none) (hok : ∀ l ∈ pre ++ post, LineOk l)
    (items : List Item) (hitems : ∀ i ∈ items, i.Ok) (oboEnd : List Char)
    (hoboEnd : oboEnd = [] ∨ oboEnd = ['\n'] ∨ oboEnd = blankLine)
    (hdr : List Char) (grows : List GRow) (geneEnd : List Char) (hnl : '\n' ∉ hdr)
    (hh : startsWith ['#'] hdr = true ∨ startsWith hdrNcbi hdr = true ∨ startsWith hdrHpo hdr = true)
    (hg : ∀ r ∈ grows, r.Ok) (hgeneEnd : RowsEnd grows geneEnd)
    (drows : List DRow) (hpoaEnd : List Char) (hd : ∀ r ∈ drows, r.Ok) (hhpoaEnd : RowsEnd drows hpoaEnd) :
    loadJax tr
      (joinStr blankLine
        (joinWith '\n' (headerLines pre post y1 y2 y3 y4 m1 m2 d1 d2) :: items.map Item.render) ++ oboEnd)
      (hdr ++ '\n' :: (joinWith '\n' (grows.map (GRow.render tr)) ++ geneEnd))
      (joinWith '\n' (drows.map DRow.render) ++ hpoaEnd) =
    buildFromFacts (itemsTerms items)
      (1000 * y1 + 100 * y2 + 10 * y3 + y4, 10 * m1 + m2, 10 * d1 + d2) grows drows :=
  loadJax_render tr pre post y1 y2 y3 y4 m1 m2 d1 d2 hy1 hy2 hy3 hy4 hm1 hm2 hd1 hd2 hpre hok items hitems
    oboEnd hoboEnd hdr grows geneEnd hnl hh hg hgeneEnd drows hpoaEnd hd hhpoaEnd

/-! ## non-vacuity -/
example : (Item.other "[Typedef]".toList ["id: has_part".toList, "is_a: HP:0000001 ! All".toList]).Ok := by
  refine ⟨?_, ?_, ?_⟩
  · intro l hl
    simp at hl
    rcases hl with rfl | rfl | rfl <;> exact ⟨by decide, by decide, by decide⟩
  · intro s; simp [termPrefix, stripPrefix]
  · intro s; simp [formatPrefix, startsWith]
example : (DRow.ignored "DECIPHER:1\tDeletion\t\tHP:0000001".toList).Ok :=
  ⟨by decide, by decide, by decide, by decide, by decide⟩
example : (DRow.excluded true "7x".toList "Only: excluded".toList "HP:zz".toList "\tPMID:1".toList).Ok :=
  ⟨⟨by decide, by decide, by decide⟩, ⟨by decide, by decide, by decide⟩, ⟨by decide, by decide, by decide⟩,
    ⟨'z', by decide, by decide⟩, Or.inr ⟨_, rfl⟩, by decide, by decide⟩
set_option maxRecDepth 8192 in
example : readObo "format-version: 1.2\n\n[Term]\nid: HP:0000001\nname: A\n\n[Typedef]\nid: x\n".toList =
    .ok { terms := [({ id := 1, name := "A".toList }, [])], version := (0, 0, 0) } := by decide

end Hpo.C09
