import HpoProofs.Text
/-!
# C09 — the JAX text loaders build exactly the ontology the three files describe

Model: `HpoModel/Text.lean` (character-level mirror of `src/parser.rs`, `src/parser/hp_obo.rs`).
The theorems are token level and unbounded: for every id below 2^32, every name / symbol / label
(any characters other than the separator the format reserves, in particular `": "` and non-ASCII
text), any number of extra trailing columns with any content.
`renderG2P`, `renderP2G`, `renderDiseaseRow`, `renderStanza` (in `HpoProofs/Text.lean`) are the
JAX renderings of a fact; `IsTail '\t' tail` = nothing or a tab followed by any text.
-/
namespace Hpo.C09
open Hpo Hpo.Text

/-! ## lexing -/

/-- `split(c)` returns exactly the fields that were joined with `c`, when no field contains `c` -/
theorem C09_lex_split (c : Char) (fields : List (List Char)) (hne : fields ≠ [])
    (h : ∀ f ∈ fields, c ∉ f) : splitOnChar c (joinWith c fields) = fields :=
  splitOnChar_joinWith c fields hne h

/-- `split_once(c)` cuts at the first `c` -/
theorem C09_lex_splitOnce (c : Char) (a b : List Char) (h : c ∉ a) :
    splitOnce c (a ++ c :: b) = some (a, b) :=
  splitOnce_append c a b h

/-- `split_once(": ")` cuts a `key: value` line after the key, whatever the value contains -/
theorem C09_lex_keyValue (k v : List Char) (h : ':' ∉ k) :
    splitOnceStr colonSp (k ++ colonSp ++ v) = some (k, v) :=
  splitOnceStr_colonSp k v h

/-! ## gene rows -/

/-- `genes_to_phenotype.txt`: columns 1, 2, 3 are gene id, symbol, term id; further columns are
ignored; the row becomes exactly one `annotate_gene(id, symbol, term)` call -/
theorem C09_gene_row (g h : Nat) (sym tail : List Char) (hg : g < 4294967296) (hh : h < 4294967296)
    (hs : '\t' ∉ sym) (ht : IsTail '\t' tail) (ls : List (List Char)) (o : Onto) :
    parseGeneRow false (renderG2P g sym h tail) = .ok (g, sym, h) ∧
    geneRows false (renderG2P g sym h tail :: ls) o =
      (o.annotate .gene g sym h).bind (geneRows false ls) := by
  have e : parseGeneRow false (renderG2P g sym h tail) = .ok (g, sym, h) := by
    simpa [parseGeneRow] using parseG2P_render g h sym tail hg hh hs ht
  exact ⟨e, by simp [geneRows, e, Res.bind]⟩

/-- `phenotype_to_genes.txt`: columns 1, 3, 4 are term id, gene id, symbol; the label column and
further columns are ignored -/
theorem C09_gene_row_transitive (g h : Nat) (sym label tail : List Char) (hg : g < 4294967296)
    (hh : h < 4294967296) (hs : '\t' ∉ sym) (hl : '\t' ∉ label) (ht : IsTail '\t' tail)
    (ls : List (List Char)) (o : Onto) :
    parseGeneRow true (renderP2G g sym h label tail) = .ok (g, sym, h) ∧
    geneRows true (renderP2G g sym h label tail :: ls) o =
      (o.annotate .gene g sym h).bind (geneRows true ls) := by
  have e : parseGeneRow true (renderP2G g sym h label tail) = .ok (g, sym, h) := by
    simpa [parseGeneRow] using parseP2G_render g h sym label tail hg hh hs hl ht
  exact ⟨e, by simp [geneRows, e, Res.bind]⟩

/-- the header line of a gene file (`#…`, `ncbi_gene_id…` or `hpo_id…`) is removed, nothing else -/
theorem C09_gene_header (hdr rest : List Char) (hnl : '\n' ∉ hdr)
    (hh : startsWith ['#'] hdr = true ∨ startsWith hdrNcbi hdr = true ∨ startsWith hdrHpo hdr = true) :
    removeHeader (hdr ++ '\n' :: rest) = .ok rest := by
  unfold removeHeader
  rw [splitOnce_append '\n' hdr rest hnl]
  rcases hh with h | h | h <;> simp [h]

/-! ## disease rows -/

/-- an `OMIM:<id>` row whose qualifier is not `NOT` becomes exactly one
`annotate_omim_disease(id, name, term)` call; extra columns are ignored -/
theorem C09_disease_row_omim (d h : Nat) (name q tail : List Char) (hd : d < 4294967296)
    (hh : h < 4294967296) (hname : '\t' ∉ name) (hq : '\t' ∉ q) (hnot : q ≠ kNot)
    (ht : IsTail '\t' tail) (ls : List (List Char)) (o : Onto) :
    diseaseRows (renderDiseaseRow pOmim (TermId.decimal d) name q (TermId.render h) tail :: ls) o =
      (o.annotate .omim d name h).bind (diseaseRows ls) := by
  have e := parseDiseaseComponents_render pOmim (TermId.decimal d) name q (TermId.render h) tail 'O'
    ['M', 'I', 'M'] rfl (by decide) (EndsNonWs_render h) ht (by decide) (by decide)
    (not_mem_decimal d '\t' tab_digitVal) hname hq
    (not_mem_render h '\t' tab_digitVal (by decide) (by decide) (by decide))
  have hs : startsWith pOmim (renderDiseaseRow pOmim (TermId.decimal d) name q (TermId.render h) tail) = true :=
    startsWith_append _ _
  simp [diseaseRows, parseDiseaseRow, hs, e, hnot, parse_render h hh, parseU32_decimal d hd, Res.bind]

/-- an `ORPHA:<id>` row likewise becomes one `annotate_orpha_disease` call (never an OMIM one) -/
theorem C09_disease_row_orpha (d h : Nat) (name q tail : List Char) (hd : d < 4294967296)
    (hh : h < 4294967296) (hname : '\t' ∉ name) (hq : '\t' ∉ q) (hnot : q ≠ kNot)
    (ht : IsTail '\t' tail) (ls : List (List Char)) (o : Onto) :
    diseaseRows (renderDiseaseRow pOrpha (TermId.decimal d) name q (TermId.render h) tail :: ls) o =
      (o.annotate .orpha d name h).bind (diseaseRows ls) := by
  have e := parseDiseaseComponents_render pOrpha (TermId.decimal d) name q (TermId.render h) tail 'O'
    ['R', 'P', 'H', 'A'] rfl (by decide) (EndsNonWs_render h) ht (by decide) (by decide)
    (not_mem_decimal d '\t' tab_digitVal) hname hq
    (not_mem_render h '\t' tab_digitVal (by decide) (by decide) (by decide))
  have hs : startsWith pOrpha (renderDiseaseRow pOrpha (TermId.decimal d) name q (TermId.render h) tail) = true :=
    startsWith_append _ _
  have hn : startsWith pOmim (renderDiseaseRow pOrpha (TermId.decimal d) name q (TermId.render h) tail) = false := by
    simp [renderDiseaseRow, pOrpha, pOmim, startsWith]
  simp [diseaseRows, parseDiseaseRow, hs, hn, e, hnot, parse_render h hh, parseU32_decimal d hd, Res.bind]

/-- a `NOT` row of either database is skipped: no record, no link (whatever its id and term
columns contain) -/
theorem C09_disease_row_not (db id name hpo tail : List Char) (hdb : db = pOmim ∨ db = pOrpha)
    (hid : '\t' ∉ id) (hname : '\t' ∉ name) (hhpo : '\t' ∉ hpo) (hend : EndsNonWs hpo)
    (ht : IsTail '\t' tail) (ls : List (List Char)) (o : Onto) :
    diseaseRows (renderDiseaseRow db id name kNot hpo tail :: ls) o = diseaseRows ls o := by
  rcases hdb with rfl | rfl
  · have e := parseDiseaseComponents_render pOmim id name kNot hpo tail 'O'
      ['M', 'I', 'M'] rfl (by decide) hend ht (by decide) (by decide) hid hname (by decide) hhpo
    have hs : startsWith pOmim (renderDiseaseRow pOmim id name kNot hpo tail) = true := startsWith_append _ _
    simp [diseaseRows, parseDiseaseRow, hs, e, Res.bind]
  · have e := parseDiseaseComponents_render pOrpha id name kNot hpo tail 'O'
      ['R', 'P', 'H', 'A'] rfl (by decide) hend ht (by decide) (by decide) hid hname (by decide) hhpo
    have hs : startsWith pOrpha (renderDiseaseRow pOrpha id name kNot hpo tail) = true := startsWith_append _ _
    have hn : startsWith pOmim (renderDiseaseRow pOrpha id name kNot hpo tail) = false := by
      simp [renderDiseaseRow, pOrpha, pOmim, startsWith]
    simp [diseaseRows, parseDiseaseRow, hs, hn, e, Res.bind]

/-- every other line — `#` comments, the column header, rows of other databases (DECIPHER), blank
lines — is ignored, whatever it contains -/
theorem C09_disease_row_other (line : List Char) (h1 : startsWith pOmim line = false)
    (h2 : startsWith pOrpha line = false) (ls : List (List Char)) (o : Onto) :
    diseaseRows (line :: ls) o = diseaseRows ls o := by
  simp [diseaseRows, parseDiseaseRow, h1, h2, Res.bind]

/-- instances of `C09_disease_row_other`: comment lines, DECIPHER rows, the column header -/
theorem C09_disease_row_ignored (rest : List Char) :
    startsWith pOmim ('#' :: rest) = false ∧ startsWith pOrpha ('#' :: rest) = false ∧
    startsWith pOmim ("DECIPHER".toList ++ rest) = false ∧ startsWith pOrpha ("DECIPHER".toList ++ rest) = false ∧
    startsWith pOmim ("database_id".toList ++ rest) = false ∧ startsWith pOrpha ("database_id".toList ++ rest) = false ∧
    startsWith pOmim [] = false ∧ startsWith pOrpha [] = false := by
  simp [pOmim, pOrpha, startsWith]

/-! ## hp.obo blocks -/

/-- a rendered `[Term]` stanza — id, name (may contain `": "` and non-ASCII text), other tags,
several `is_a: HP:… ! label` lines, `is_obsolete: true`, `replaced_by: HP:…`, more other tags —
is read back as exactly that term with exactly those parents -/
theorem C09_stanza (id : Nat) (name : List Char) (obs : Bool) (repl : Option Nat)
    (parents : List (Nat × List Char)) (extras1 extras2 : List (List Char × List Char))
    (hid : id < 4294967296) (hrepl : ∀ r, repl = some r → r < 4294967296)
    (hpar : ∀ p ∈ parents, p.1 < 4294967296) (hok : StanzaOk name parents extras1 extras2) :
    parseBlock (renderStanza id name obs repl parents extras1 extras2) =
      .ok (.term { id := id, name := name, obsolete := obs, replacement := repl } (parents.map (·.1))) :=
  parseBlock_stanza id name obs repl parents extras1 extras2 hid hrepl hpar hok

/-- a block that is neither a `[Term]` stanza nor the header contributes nothing … -/
theorem C09_other_block (b : List Char) (h1 : stripPrefix termPrefix b = none)
    (h2 : startsWith formatPrefix b = false) : parseBlock b = .ok .other :=
  parseBlock_other b h1 h2

/-- … in particular `[Typedef]` and `[Instance]` stanzas with any content, and the empty block -/
theorem C09_typedef_ignored (rest : List Char) :
    parseBlock ("[Typedef]".toList ++ rest) = .ok .other ∧
    parseBlock ("[Instance]".toList ++ rest) = .ok .other ∧ parseBlock [] = .ok .other := by
  refine ⟨parseBlock_other _ ?_ ?_, parseBlock_other _ ?_ ?_, parseBlock_other _ ?_ ?_⟩ <;>
    simp [termPrefix, formatPrefix, stripPrefix, startsWith]

/-- the header block yields the release version of its `data-version: hp/releases/YYYY-MM-DD`
line, wherever in the block that line stands -/
theorem C09_version (pre post : List (List Char)) (y1 y2 y3 y4 m1 m2 d1 d2 : Nat)
    (hy1 : y1 < 10) (hy2 : y2 < 10) (hy3 : y3 < 10) (hy4 : y4 < 10) (hm1 : m1 < 10) (hm2 : m2 < 10)
    (hd1 : d1 < 10) (hd2 : d2 < 10)
    (hpre : ∀ l ∈ pre, stripPrefix versionPrefix l = none) (hok : ∀ l ∈ pre ++ post, LineOk l) :
    parseBlock (joinWith '\n' (headerLines pre post y1 y2 y3 y4 m1 m2 d1 d2)) =
      .ok (.header (1000 * y1 + 100 * y2 + 10 * y3 + y4, 10 * m1 + m2, 10 * d1 + d2)) :=
  parseBlock_header pre post y1 y2 y3 y4 m1 m2 d1 d2 hy1 hy2 hy3 hy4 hm1 hm2 hd1 hd2 hpre hok

/-! ## non-vacuity -/
set_option maxRecDepth 8192 in
example : renderStanza 218 "b: é".toList true (some 1) [(217, "X".toList), (1, "All".toList)]
      [("def".toList, "\"H: m\" [P:1]".toList)] [("xref".toList, "A:B".toList)] =
    ("[Term]\nid: HP:0000218\nname: b: é\ndef: \"H: m\" [P:1]\n" ++
     "is_a: HP:0000217 ! X\nis_a: HP:0000001 ! All\nis_obsolete: true\nreplaced_by: HP:0000001\nxref: A:B").toList := by
  decide
example : StanzaOk "High palate: é".toList [(217, "Xerostomia".toList)]
    [("def".toList, "\"Height: more\" [PMID:1]".toList)] [("xref".toList, "A:B".toList)] := by
  refine ⟨by decide, by decide, ?_⟩
  intro e he
  simp at he
  rcases he with rfl | rfl <;> exact ⟨⟨by decide, by decide, by decide, by decide, by decide, by decide⟩,
    ⟨by decide, by decide, by decide⟩, by decide, by decide⟩
example : parseBlock "[Term]\nid: HP:0000218\nname: b: c\nis_a: HP:0000217 ! X\nis_a: HP:0000001\n".toList
    = .ok (.term { id := 218, name := "b: c".toList } [217]) := by decide
example : joinWith '\n' (headerLines ["saved-by: x".toList] [] 2 0 2 2 1 0 0 5) =
    "format-version: 1.2\nsaved-by: x\ndata-version: hp/releases/2022-10-05".toList := by decide
example : parseGeneRow false "10\tNAT2\tHP:0000007\tAutosomal recessive inheritance\t-\tOMIM:243400".toList
    = .ok (10, "NAT2".toList, 7) := by decide
example : renderG2P 10 "NAT2".toList 7 "\tfoo\tbar".toList = "10\tNAT2\tHP:0000007\tfoo\tbar".toList := by decide
example : parseGeneRow true "HP:0000002\tAbnormality of body height\t81848\tSPRY4\t\torphadata".toList
    = .ok (81848, "SPRY4".toList, 2) := by decide
example : parseDiseaseRow "OMIM:609153\tPseudohyperkalemia: type é\tNOT\tHP:0001878\tPMID:2766660".toList = .ok none := by decide
example : parseDiseaseRow "ORPHA:600171\tGonadal agenesis\t\tHP:0000055\tOMIM:600171\tTAS\t\t".toList
    = .ok (some (.orpha, "600171".toList, "Gonadal agenesis".toList, 55)) := by decide
example : IsTail '\t' "\tPMID:1\tTAS".toList := Or.inr ⟨_, rfl⟩

end Hpo.C09
