import HpoProps.C02
/-!
# C15 — rejected builder calls have no effect; built ontologies have no dangling ids

`addParentSt` / `annotateSt` model a call as the sequence of look-ups and in-place mutations the
code performs and return the builder *as it is left behind* together with the result, so
"an `Err` leaves the builder unchanged" is a statement with content (it is false for the code
before the two `fix:` commits, see the counterexamples at the end).
-/
namespace Hpo.C15
open Hpo Hpo.C01 Hpo.C02 Relation Group

/-! ### a failing call has no effect -/

/-- `add_parent`: whenever the result is not `Ok`, the builder is exactly as before — for every
builder state and all ids (absent, ≥ 10^7, equal ids …) -/
theorem C15_add_parent_error_no_effect (o : Onto) (p c : Nat)
    (h : (o.addParentSt p c).2 ≠ .ok ()) : (o.addParentSt p c).1 = o := by
  unfold Onto.addParentSt at h ⊢
  cases hc : o.get c with
  | none => rfl
  | some tc =>
    cases hp : o.get p with
    | none => rfl
    | some tp =>
      -- the child is still there after the parent was mutated, so the third look-up cannot fail
      have : (({ o with terms := modT o.terms p (·.addChild c) } : Onto).get c).isSome := by
        have hc' : (o.get c).isSome := by simp [hc]
        unfold Onto.get arenaGet at hc' ⊢
        simp only at hc' ⊢
        split
        · rename_i hge; simp [hge] at hc'
        · rename_i hge
          simp only [hge, ↓reduceIte] at hc'
          rw [getT_modT o.terms p c (·.addChild c) (fun _ => rfl)]
          cases hg : getT o.terms c with
          | none => simp [hg] at hc'
          | some _ => simp
      obtain ⟨tc', htc'⟩ := Option.isSome_iff_exists.1 this
      simp only [hc, hp, htc'] at h
      exact absurd rfl h

/-- the stateful model and the functional one (`addParent`, used in C01/C02) agree -/
theorem addParentSt_ok (o : Onto) (p c : Nat) :
    ((o.addParentSt p c).2 = .ok () → o.addParent p c = .ok (o.addParentSt p c).1) ∧
    ((o.addParentSt p c).2 ≠ .ok () → o.addParent p c = .err .doesNotExist) := by
  unfold Onto.addParentSt Onto.addParent
  cases hc : o.get c with
  | none => simp
  | some tc =>
    cases hp : o.get p with
    | none => simp
    | some tp =>
      have : (({ o with terms := modT o.terms p (·.addChild c) } : Onto).get c).isSome := by
        have hc' : (o.get c).isSome := by simp [hc]
        unfold Onto.get arenaGet at hc' ⊢
        simp only at hc' ⊢
        split
        · rename_i hge; simp [hge] at hc'
        · rename_i hge
          simp only [hge, ↓reduceIte] at hc'
          rw [getT_modT o.terms p c (·.addChild c) (fun _ => rfl)]
          cases hg : getT o.terms c with
          | none => simp [hg] at hc'
          | some _ => simp
      obtain ⟨tc', htc'⟩ := Option.isSome_iff_exists.1 this
      simp [htc']

/-- `annotate_*`: on every state reachable by the builder API (invariant `AnnInv`), whenever the
result is not `Ok` the builder is exactly as before, and the only possible failure is
`DoesNotExist` for an unknown term (no panic, no divergence). -/
theorem C15_annotate_error_no_effect (anc : Nat → List Nat) (ex : Nat → Prop) (rank : Nat → Nat)
    (hc : AncClosure anc ex rank) (o : Onto) (hinv : AnnInv anc ex o)
    (hf : ∀ j, rank j < o.terms.length + 2) (k : Kind) (rid : Nat) (n : List Char) (t : Nat)
    (h : (o.annotateSt k rid n t).2 ≠ .ok ()) :
    (o.annotateSt k rid n t).1 = o ∧ (o.annotateSt k rid n t).2 = .err .doesNotExist ∧ ¬ ex t := by
  rcases annInv_annotate anc ex rank hc o k rid n t hinv hf with ⟨he, hne⟩ | ⟨hext, o', hok, _⟩
  · unfold Onto.annotate at he
    unfold Onto.annotateSt
    cases hg : o.get t with
    | none => exact ⟨rfl, rfl, hne⟩
    | some tm =>
      exfalso
      apply hne
      refine (hinv.pres t).1 ?_
      rw [get_eq_getT o t hinv.small] at hg; simp [hg]
  · exfalso
    apply h
    unfold Onto.annotate at hok
    unfold Onto.annotateSt
    cases hg : o.get t with
    | none => simp [hg] at hok
    | some tm => simp only [hg] at hok; simp [hok]

/-- the stateful model agrees with `annotate` (used in C02) -/
theorem annotateSt_ok (o : Onto) (k : Kind) (rid : Nat) (n : List Char) (t : Nat) (o' : Onto)
    (h : o.annotate k rid n t = .ok o') : o.annotateSt k rid n t = (o', .ok ()) := by
  unfold Onto.annotate at h
  unfold Onto.annotateSt
  cases hg : o.get t with
  | none => simp [hg] at h
  | some tm => simp only [hg] at h; simp [h]

/-! ### the result equals the ontology built from the successful calls alone -/

/-- run a history, recording per call whether it succeeded -/
def runSt {σ α : Type} (step : σ → α → σ × Bool) : List α → σ → σ × List Bool
  | [], s => (s, [])
  | a :: as, s => ((runSt step as (step s a).1).1, (step s a).2 :: (runSt step as (step s a).1).2)

/-- the calls whose flag is `true` -/
def keep {α : Type} : List α → List Bool → List α
  | a :: as, b :: bs => if b then a :: keep as bs else keep as bs
  | _, _ => []

/-- Generic: for any step function whose failing calls leave the state unchanged, the final state
equals the state reached by the successful calls alone (which then all succeed). -/
theorem C15_filter_errors {σ α : Type} (step : σ → α → σ × Bool)
    (hfail : ∀ s a, (step s a).2 = false → (step s a).1 = s) :
    ∀ (ops : List α) (s : σ),
      (runSt step (keep ops (runSt step ops s).2) s).1 = (runSt step ops s).1 ∧
      (runSt step (keep ops (runSt step ops s).2) s).2 =
        List.replicate (keep ops (runSt step ops s).2).length true := by
  intro ops
  induction ops with
  | nil => intro s; simp [runSt, keep]
  | cons a ops ih =>
    intro s
    simp only [runSt, keep]
    cases hb : (step s a).2 with
    | false =>
      simp only [Bool.false_eq_true, ↓reduceIte]
      have hs := hfail s a hb
      rw [hs]
      exact ih s
    | true =>
      simp only [↓reduceIte, runSt, hb, List.length_cons, List.replicate_succ]
      have := ih (step s a).1
      exact ⟨this.1, by rw [this.2]⟩

/-- instance: histories of `add_parent` calls on any builder state -/
theorem C15_filter_errors_add_parent (ops : List (Nat × Nat)) (o : Onto) :
    let step := fun (o : Onto) (pc : Nat × Nat) =>
      ((o.addParentSt pc.1 pc.2).1, decide ((o.addParentSt pc.1 pc.2).2 = .ok ()))
    (runSt step (keep ops (runSt step ops o).2) o).1 = (runSt step ops o).1 :=
  (C15_filter_errors _ (fun s a h => C15_add_parent_error_no_effect s a.1 a.2 (by simpa using h)) ops o).1

/-- the same with a state invariant (needed where "failing calls change nothing" holds on
reachable states only) -/
theorem C15_filter_errors_inv {σ α : Type} (step : σ → α → σ × Bool) (Inv : σ → Prop)
    (hinv : ∀ s a, Inv s → Inv (step s a).1)
    (hfail : ∀ s a, Inv s → (step s a).2 = false → (step s a).1 = s) :
    ∀ (ops : List α) (s : σ), Inv s →
      (runSt step (keep ops (runSt step ops s).2) s).1 = (runSt step ops s).1 ∧
      (runSt step (keep ops (runSt step ops s).2) s).2 =
        List.replicate (keep ops (runSt step ops s).2).length true := by
  intro ops
  induction ops with
  | nil => intro s _; simp [runSt, keep]
  | cons a ops ih =>
    intro s hs
    simp only [runSt, keep]
    cases hb : (step s a).2 with
    | false =>
      simp only [Bool.false_eq_true, ↓reduceIte]
      have hs' := hfail s a hs hb
      rw [hs']
      exact ih s hs
    | true =>
      simp only [↓reduceIte, runSt, hb, List.length_cons, List.replicate_succ]
      have := ih (step s a).1 (hinv s a hs)
      exact ⟨this.1, by rw [this.2]⟩

/-- instance: histories of `annotate_*` calls (all three kinds, any ids) on any state reachable
through the builder API: the final builder equals the one reached by the successful calls alone -/
theorem C15_filter_errors_annotate (anc : Nat → List Nat) (ex : Nat → Prop) (rank : Nat → Nat)
    (hc : AncClosure anc ex rank) (n : Nat) (hn : ∀ j, rank j < n + 2)
    (ops : List (Kind × Nat × List Char × Nat)) (o : Onto)
    (hinv : AnnInv anc ex o) (hlen : o.terms.length = n) :
    let step := fun (o : Onto) (c : Kind × Nat × List Char × Nat) =>
      ((o.annotateSt c.1 c.2.1 c.2.2.1 c.2.2.2).1,
       decide ((o.annotateSt c.1 c.2.1 c.2.2.1 c.2.2.2).2 = .ok ()))
    (runSt step (keep ops (runSt step ops o).2) o).1 = (runSt step ops o).1 := by
  intro step
  refine (C15_filter_errors_inv step (fun o => AnnInv anc ex o ∧ o.terms.length = n) ?_ ?_ ops o
    ⟨hinv, hlen⟩).1
  · rintro s ⟨k, rid, nm, t⟩ ⟨hs, hl⟩
    have hf : ∀ j, rank j < s.terms.length + 2 := by rw [hl]; exact hn
    rcases annInv_annotate anc ex rank hc s k rid nm t hs hf with ⟨he, hne⟩ | ⟨_, o', hok, hinv', hlen', _⟩
    · have h1 : (s.annotateSt k rid nm t).2 ≠ .ok () := by
        unfold Onto.annotate at he
        unfold Onto.annotateSt
        cases hg : s.get t with
        | none => simp
        | some tm =>
          exfalso; apply hne
          refine (hs.pres t).1 ?_
          rw [get_eq_getT s t hs.small] at hg; simp [hg]
      have := (C15_annotate_error_no_effect anc ex rank hc s hs hf k rid nm t h1).1
      simp only [step]
      rw [this]; exact ⟨hs, hl⟩
    · have := annotateSt_ok s k rid nm t o' hok
      simp only [step, this]
      exact ⟨hinv', hlen'.trans hl⟩
  · rintro s ⟨k, rid, nm, t⟩ ⟨hs, hl⟩ hb
    have hf : ∀ j, rank j < s.terms.length + 2 := by rw [hl]; exact hn
    have h1 : (s.annotateSt k rid nm t).2 ≠ .ok () := by simpa [step] using hb
    exact (C15_annotate_error_no_effect anc ex rank hc s hs hf k rid nm t h1).1

/-! ### built ontologies are referentially closed -/

/-- every id handed out by the read API resolves in the same ontology -/
structure RefClosed (o : Onto) : Prop where
  parents : ∀ j p, p ∈ parentsOf o.terms j → (getT o.terms p).isSome
  children : ∀ j c, c ∈ childrenOf o.terms j → (getT o.terms c).isSome
  ancestors : ∀ j a, a ∈ allOf o.terms j → (getT o.terms a).isSome
  termRecs : ∀ k j r, r ∈ annOf k o.terms j → (getR (o.recs k) r).isSome
  recTerms : ∀ k r d, d ∈ hposOf k o r → (getT o.terms d).isSome

/-- After ANY history of term-level calls, `connect_all_terms`, and ANY history of annotation
calls — failing calls included — the builder is referentially closed. -/
theorem C15_closed (tops : List BOp) (o oc : Onto) (hrun : runB tops {} = some o)
    (hac : Acyclic o) (hc : o.connectAll = .ok oc) (aops : List AOp) :
    RefClosed (runA aops oc) := by
  obtain ⟨hpre, _⟩ := preInv_run tops {} o preInv_nil hrun
  obtain ⟨oc', hc', _, hupd, hex, _⟩ := C01_connect o hpre hac
  rw [hc] at hc'; cases hc'
  obtain ⟨hinv, ⟨rank, hcl, hf⟩, _, _⟩ := connected_annInv tops o oc hrun hac hc
  have H := (C02_history _ _ rank hcl aops oc hinv hf).1
  -- terms of the final builder differ from `oc` only in annotation fields
  have hall : ∀ j, allOf (runA aops oc).terms j = allOf oc.terms j := fun j => H.ancF j
  have hpres : ∀ j, (getT (runA aops oc).terms j).isSome ↔ (getT oc.terms j).isSome := fun j => H.pres j
  have hpc : ∀ j, parentsOf (runA aops oc).terms j = parentsOf oc.terms j ∧
      childrenOf (runA aops oc).terms j = childrenOf oc.terms j := by
    -- by induction over the annotation history: only `ann` fields and records change
    have : ∀ (ops : List AOp) (o1 : Onto), AnnInv (ancOf oc) (present oc) o1 →
        (∀ j, rank j < o1.terms.length + 2) →
        ∀ j, parentsOf (runA ops o1).terms j = parentsOf o1.terms j ∧
          childrenOf (runA ops o1).terms j = childrenOf o1.terms j := by
      intro ops
      induction ops with
      | nil => intro o1 _ _ j; exact ⟨rfl, rfl⟩
      | cons op ops ih =>
        intro o1 h1 hf1 j
        simp only [runA, List.foldl_cons]
        cases op with
        | addRec k n i =>
          have ht : (o1.addRec k n i).terms = o1.terms := by simp [Onto.addRec, terms_setRecs]
          have := ih (o1.addRec k n i) (annInv_addRec _ _ o1 k n i h1) (by rw [ht]; exact hf1) j
          simpa [runA, applyA, ht] using this
        | annotate k rid n t =>
          rcases annInv_annotate _ _ rank hcl o1 k rid n t h1 hf1 with ⟨he, _⟩ | ⟨_, o', hok, hinv', hlen, _⟩
          · simp only [applyA, he]; exact ih o1 h1 hf1 j
          · simp only [applyA, hok]
            have h2 := ih o' hinv' (by rw [hlen]; exact hf1) j
            -- one successful annotate: `link` only touches `ann k`
            unfold Onto.annotate at hok
            cases hg : o1.get t with
            | none => simp [hg] at hok
            | some tm =>
              simp only [hg] at hok
              have hst1 : LState (ancOf oc) (present oc) k (o1.addTermToRec k n rid t).terms := by
                rw [terms_addTermToRec]; exact h1.lstate _ _ k
              have hup : UpClosedAbove (ancOf oc) k (o1.addTermToRec k n rid t).terms rid t := by
                rw [terms_addTermToRec]; intro x _ hx y hy
                exact h1.upclosed _ _ rank hcl k x rid hx y hy
              have hext : present oc t := (h1.pres t).1 (by
                rw [get_eq_getT o1 t h1.small] at hg; simp [hg])
              obtain ⟨o'', hl, p⟩ := link_post _ _ k rid rank hcl (o1.addTermToRec k n rid t).linkFuel
                (o1.addTermToRec k n rid t) t
                (by simp only [Onto.linkFuel, terms_addTermToRec]; exact hf1 t) hext hst1 hup
              rw [hl] at hok; cases hok
              have e1 : parentsOf o'.terms j = parentsOf o1.terms j := by
                unfold parentsOf; rw [p.upd.2 j, terms_addTermToRec]
                cases getT o1.terms j with
                | none => rfl
                | some u => cases k <;> rfl
              have e2 : childrenOf o'.terms j = childrenOf o1.terms j := by
                unfold childrenOf; rw [p.upd.2 j, terms_addTermToRec]
                cases getT o1.terms j with
                | none => rfl
                | some u => cases k <;> rfl
              exact ⟨h2.1.trans e1, h2.2.trans e2⟩
    exact this aops oc hinv hf
  have hP : ∀ j, parentsOf oc.terms j = parentsOf o.terms j := fun j => hupd.parents_eq j
  have hCh : ∀ j, childrenOf oc.terms j = childrenOf o.terms j := by
    intro j; simp only [childrenOf, hupd.2 j]; cases getT o.terms j <;> rfl
  constructor
  · intro j p hp
    rw [(hpc j).1, hP] at hp
    rw [hpres, hupd.isSome]; exact hpre.closedP j p hp
  · intro j c hc'
    rw [(hpc j).2, hCh] at hc'
    rw [hpres, hupd.isSome]; exact hpre.closedC j c hc'
  · intro j a ha
    rw [hall] at ha
    rw [hpres]
    have hj : (getT oc.terms j).isSome := by
      cases hg : getT oc.terms j with
      | none => simp [allOf, hg] at ha
      | some _ => rfl
    have h1 := (hex j hj a).1 ha
    have : ∃ c, a ∈ parentsOf o.terms c := by
      cases h1 with
      | single h => exact ⟨_, h⟩
      | tail _ h => exact ⟨_, h⟩
    obtain ⟨c, hc''⟩ := this
    rw [hupd.isSome]; exact hpre.closedP c a hc''
  · intro k j r hr
    obtain ⟨d, hd, _⟩ := (H.linked k j r).1 hr
    unfold hposOf at hd
    cases hg : getR ((runA aops oc).recs k) r with
    | none => simp [hg] at hd
    | some _ => rfl
  · intro k r d hd
    exact (H.pres d).2 (H.recTerms k r d hd)

/-- hence every resolving iterator of the read API succeeds (`Onto.resolve` returns `none` where
the real iterator panics on an unknown id) -/
theorem C15_iterators_total (o : Onto) (h : RefClosed o) (hs : ∀ j, (getT o.terms j).isSome → j < maxId) :
    ∀ j, (o.resolve (parentsOf o.terms j)).isSome ∧ (o.resolve (childrenOf o.terms j)).isSome ∧
      (o.resolve (allOf o.terms j)).isSome := by
  have key : ∀ ids : List Nat, (∀ x ∈ ids, (getT o.terms x).isSome) → (o.resolve ids).isSome := by
    intro ids
    induction ids with
    | nil => intro _; rfl
    | cons x xs ih =>
      intro hx
      have hx1 := hx x (by simp)
      obtain ⟨t, ht⟩ := Option.isSome_iff_exists.1 hx1
      have : o.get x = some t := by rw [get_eq_getT o x hs]; exact ht
      simp only [Onto.resolve, this]
      have := ih (fun y hy => hx y (by simp [hy]))
      cases hr : o.resolve xs with
      | none => simp [hr] at this
      | some _ => simp
  intro j
  exact ⟨key _ (h.parents j), key _ (h.children j), key _ (h.ancestors j)⟩

/-! ### the code before the two `fix:` commits violated the property -/

def twoTerms : Onto := ((runB [.term [] 200, .term [] 201] {}).getD {})

/-- F1: `add_parent(200, 999)` with 999 absent returned `Err` but left 999 among the children of
200 — a dangling id (`children()` then panicked) -/
theorem C15_add_parent_counterexample :
    (twoTerms.addParentStPrefix 200 999).2 = .err .doesNotExist ∧
    childrenOf (twoTerms.addParentStPrefix 200 999).1.terms 200 = [999] ∧
    ((twoTerms.addParentStPrefix 200 999).1.resolve [999]).isNone := by decide

/-- F2: `annotate_gene(7, _, 999)` with 999 absent returned `Err` but created gene 7 with the
dangling direct term 999 (the number of genes changed from 0 to 1) -/
theorem C15_annotate_counterexample :
    (twoTerms.annotateStPrefix .gene 7 [] 999).2 = .err .doesNotExist ∧
    hposOf .gene (twoTerms.annotateStPrefix .gene 7 [] 999).1 7 = [999] ∧
    (twoTerms.annotateStPrefix .gene 7 [] 999).1.genes.length = 1 ∧ twoTerms.genes.length = 0 := by
  decide

/-- non-vacuity of the fixed behaviour on the same input -/
example : (twoTerms.addParentSt 200 999) = (twoTerms, .err .doesNotExist) := by decide
example : (twoTerms.annotateSt .gene 7 [] 999) = (twoTerms, .err .doesNotExist) := by decide

end Hpo.C15
