import HpoProofs.Group
import HpoProofs.Arena
import HpoModel.Read
/-!
# C19 — default categories and modifiers classify every term as documented

`build_with_defaults`, `is_modifier`, `categories` on any builder state (`Onto`); "descends from"
is membership in the term's ancestor group, which C01 proves to be the transitive closure.
-/
namespace Hpo.C19
open Hpo Hpo.Group

/-- children of `HP:0000001` / `HP:0000118` in a builder state -/
def kids (o : Onto) (i : Nat) : List Nat := ((o.get i).map (·.children)).getD []

/-- building with defaults fails exactly when one of the two root terms is missing — with an
error, never a panic — and otherwise succeeds -/
theorem C19_error_iff (o : Onto) :
    (o.buildWithDefaults = .err .doesNotExist ↔ ((o.get 1).isNone ∨ (o.get Onto.phenotypeId).isNone)) ∧
    ((∃ o', o.buildWithDefaults = .ok o') ↔ ((o.get 1).isSome ∧ (o.get Onto.phenotypeId).isSome)) := by
  unfold Onto.buildWithDefaults Onto.defaultCategories Onto.defaultModifier Onto.buildMinimal
  have e : ∀ i, ({ o with categories := [], modifier := [] } : Onto).get i = o.get i := fun _ => rfl
  simp only [e]
  cases h1 : o.get 1 with
  | none => simp [Res.bind]
  | some r =>
    cases h2 : o.get Onto.phenotypeId with
    | none => simp [Res.bind]
    | some p => simp [Res.bind]

/-- the modifier roots are exactly the children of HP:0000001 other than HP:0000118, the categories
are those plus the children of HP:0000118; both in ascending order; nothing else changes -/
theorem C19_defaults (o o' : Onto) (h : o.buildWithDefaults = .ok o') :
    (∀ x, x ∈ o'.modifier ↔ x ∈ kids o 1 ∧ x ≠ 118) ∧
    (∀ x, x ∈ o'.categories ↔ (x ∈ kids o 1 ∧ x ≠ 118) ∨ x ∈ kids o 118) ∧
    Sorted o'.modifier ∧ Sorted o'.categories ∧
    o'.terms = o.terms ∧ o'.genes = o.genes ∧ o'.omim = o.omim ∧ o'.orpha = o.orpha ∧
    o'.version = o.version := by
  unfold Onto.buildWithDefaults Onto.defaultCategories Onto.defaultModifier Onto.buildMinimal at h
  have e : ∀ i, ({ o with categories := [], modifier := [] } : Onto).get i = o.get i := fun _ => rfl
  simp only [e] at h
  cases h1 : o.get 1 with
  | none => simp [h1, Res.bind] at h
  | some r =>
    cases h2 : o.get Onto.phenotypeId with
    | none => simp [h1, h2, Res.bind] at h
    | some p =>
      simp only [h1, h2, Res.bind, Res.ok.injEq] at h
      subst h
      have hp : o.get 118 = some p := h2
      have hd : ∀ x : Nat, (decide (x ≠ 118) = true) ↔ (x ≠ 118) := fun x => by
        by_cases h : x = 118 <;> simp [h]
      refine ⟨?_, ?_, sorted_ofList _, sorted_ofList _, rfl, rfl, rfl, rfl, rfl⟩
      · intro x
        rw [mem_ofList, List.mem_filter]
        simp only [kids, h1, Option.map_some, Option.getD_some, Onto.phenotypeId]
        exact ⟨fun ⟨a, b⟩ => ⟨a, of_decide_eq_true b⟩, fun ⟨a, b⟩ => ⟨a, decide_eq_true b⟩⟩
      · intro x
        rw [mem_ofList, List.mem_append, List.mem_filter]
        simp only [kids, h1, hp, Option.map_some, Option.getD_some, Onto.phenotypeId]
        constructor
        · rintro (⟨a, b⟩ | c)
          · exact Or.inl ⟨a, of_decide_eq_true b⟩
          · exact Or.inr c
        · rintro (⟨a, b⟩ | c)
          · exact Or.inl ⟨a, decide_eq_true b⟩
          · exact Or.inr c

/-- a term is a modifier iff it is, or descends from, a modifier root -/
theorem C19_is_modifier_iff (o : Onto) (t : Term) :
    o.isModifier t = true ↔ ∃ m ∈ o.modifier, m = t.id ∨ m ∈ t.allParents := by
  simp [Onto.isModifier, contains_iff, mem_addId]

/-- the categories of a term are exactly the category terms it equals or descends from,
in ascending id order -/
theorem C19_categories_of (o : Onto) (t : Term) (hs : Sorted o.categories) :
    (∀ c, c ∈ o.categoriesOf t ↔ c ∈ o.categories ∧ (c = t.id ∨ c ∈ t.allParents)) ∧
    Sorted (o.categoriesOf t) := by
  refine ⟨?_, sorted_filter _ _ hs⟩
  intro c
  simp [Onto.categoriesOf, contains_iff, mem_addId]

/-! ### non-vacuity: roots 1, 118, modifier branch 5 (with child 6), categories 5, 200, 300 -/
def ex19 : Onto :=
  { terms := [{ id := 1, name := [], children := [5, 118] },
              { id := 118, name := [], parents := [1], allParents := [1], children := [200, 300] },
              { id := 5, name := [], parents := [1], allParents := [1], children := [6] },
              { id := 6, name := [], parents := [5], allParents := [1, 5] },
              { id := 200, name := [], parents := [118], allParents := [1, 118] },
              { id := 300, name := [], parents := [118], allParents := [1, 118] }] }

example : ∃ o', ex19.buildWithDefaults = .ok o' ∧ o'.modifier = [5] ∧ o'.categories = [5, 200, 300] ∧
    o'.isModifier { id := 6, name := [], allParents := [1, 5] } = true ∧
    o'.isModifier { id := 200, name := [], allParents := [1, 118] } = false ∧
    o'.categoriesOf { id := 6, name := [], allParents := [1, 5] } = [5] := by
  refine ⟨(ex19.buildWithDefaults).toOption.getD {}, by decide, by decide, by decide, by decide, by decide, by decide⟩

example : ({ terms := [{ id := 1, name := [] }] } : Onto).buildWithDefaults = .err .doesNotExist := by
  decide

end Hpo.C19
