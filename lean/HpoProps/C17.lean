import HpoProofs.LinkageClosed
/-!
# C17 — hierarchical clustering returns a valid dendrogram built from closest pairs

Property theorems only (helper lemmas: `HpoProofs/Linkage.lean`).  `cluster m lt mean d members`
is the model of `Linkage::{union, single, complete, average}` on the input sets `members` with the
distance callback `d`, over ANY numeric type `F` with ANY comparison `lt` and mean `mean`
(the driver runs it at `Float32`); `n = members.length` is unbounded.  The bookkeeping theorems
need no assumption on the distances at all (ties included); `C17_closest` assumes a linear order.

`mergedIdx cl = [lhs₀, rhs₀, lhs₁, rhs₁, …]`, `sz n cl i` = 1 for an input (`i < n`), else the
recorded size of cluster `i − n`; `pairsLex l` = `(l[i], l[j])` for `i < j` in lexicographic order;
`leaves n cl i` = the inputs below index `i` of the dendrogram (`[i]` for an input, leaves of `lhs`
followed by leaves of `rhs` for a cluster, see `C17_dendrogram`); `leafDist d members a b` = the
callback's answer for the inputs `a`, `b` in input order (`d members[a] members[b]` for a symmetric `d`).
-/
namespace Hpo.C17
open Hpo Hpo.Linkage

variable {F : Type}

/-- the clustering never panics (every `expect`/index of the loops is justified) and the fuel
`n + 1` of the model suffices -/
theorem C17_total (m : Method) (lt : F → F → Bool) (mean : F → F → F)
    (d : List Nat → List Nat → F) (members : List (List Nat)) :
    ∃ sf, cluster m lt mean d members = some sf ∧ sf.dm = [] ∧ sf.n = members.length := by
  obtain ⟨sf, h1, _, h3, h4, _⟩ := cluster_spec m lt mean d members
  exact ⟨sf, h1, h3, h4⟩

/-- exactly `n − 1` merges -/
theorem C17_count (m : Method) (lt : F → F → Bool) (mean : F → F → F)
    (d : List Nat → List Nat → F) (members : List (List Nat)) (sf : State F)
    (h : cluster m lt mean d members = some sf) : sf.clusters.length = members.length - 1 := by
  obtain ⟨sf', h1, h2, h3, h4, _⟩ := cluster_spec m lt mean d members
  rw [h] at h1; cases h1
  rw [← h4]; exact final_count sf h2 h3

/-- every input and every intermediate cluster — the indices `0 … 2n−3` — is merged exactly once
(occurs exactly once as `lhs` or `rhs`); the root `2n−2` and anything beyond never -/
theorem C17_each_once (m : Method) (lt : F → F → Bool) (mean : F → F → F)
    (d : List Nat → List Nat → F) (members : List (List Nat)) (sf : State F)
    (h : cluster m lt mean d members = some sf) (hn : 2 ≤ members.length) (i : Nat) :
    (mergedIdx sf.clusters).count i = if i < 2 * members.length - 2 then 1 else 0 := by
  obtain ⟨sf', h1, h2, h3, h4, _⟩ := cluster_spec m lt mean d members
  rw [h] at h1; cases h1
  obtain ⟨hm, hnd, _⟩ := final_bookkeeping sf h2 h3 (by omega)
  rw [h4] at hm
  split
  · rename_i hi
    exact List.count_eq_one_of_mem hnd ((hm i).2 hi)
  · rename_i hi
    exact List.count_eq_zero_of_not_mem (fun hc => hi ((hm i).1 hc))

/-- the `k`-th merge joins two distinct earlier entries: `lhs < rhs < n + k`, so the cluster it
creates is addressable as index `n + k` by later merges only -/
theorem C17_addressable (m : Method) (lt : F → F → Bool) (mean : F → F → F)
    (d : List Nat → List Nat → F) (members : List (List Nat)) (sf : State F)
    (h : cluster m lt mean d members = some sf) (k : Nat) (hk : k < sf.clusters.length) :
    sf.clusters[k].lhs < sf.clusters[k].rhs ∧ sf.clusters[k].rhs < members.length + k := by
  obtain ⟨sf', h1, h2, h3, h4, _⟩ := cluster_spec m lt mean d members
  rw [h] at h1; cases h1
  rw [← h4]; exact h2.addr k hk

/-- sizes add up: the size of every merge is the sum of the sizes of its two sides (1 for an
input, the recorded size for a cluster), and the last merge has size `n` -/
theorem C17_sizes (m : Method) (lt : F → F → Bool) (mean : F → F → F)
    (d : List Nat → List Nat → F) (members : List (List Nat)) (sf : State F)
    (h : cluster m lt mean d members = some sf) :
    (∀ k (hk : k < sf.clusters.length),
      sf.clusters[k].size = sz members.length sf.clusters sf.clusters[k].lhs
        + sz members.length sf.clusters sf.clusters[k].rhs) ∧
    (2 ≤ members.length → (sf.clusters.getLast?).map (·.size) = some members.length) := by
  obtain ⟨sf', h1, h2, h3, h4, _⟩ := cluster_spec m lt mean d members
  rw [h] at h1; cases h1
  constructor
  · intro k hk
    have ha := h2.addr k hk
    have hs := (mkCluster_fields (h2.sizes k hk)).2.2.2
    rw [sz_take _ _ _ _ (by omega), sz_take _ _ _ _ (by omega)] at hs
    rw [← h4]; exact hs
  · intro hn
    have hc := final_count sf h2 h3
    obtain ⟨_, _, hsz⟩ := final_bookkeeping sf h2 h3 (by omega)
    rw [h4] at hsz hc
    have hlast : sf.clusters.getLast? = sf.clusters[members.length - 2]? := by
      rw [List.getLast?_eq_getElem?, hc]; congr 1
    rw [hlast]
    unfold sz Linkage.sizeOf at hsz
    have e1 : ¬ (2 * members.length - 2 < members.length) := by omega
    have e2 : 2 * members.length - 2 - members.length = members.length - 2 := by omega
    rw [if_neg e1, e2] at hsz
    cases hx : sf.clusters[members.length - 2]? with
    | none => rw [hx] at hsz; simp at hsz; omega
    | some c => rw [hx] at hsz; simpa using hsz

/-- the reported leaf order is a permutation of `0..n` -/
theorem C17_leaf_order (m : Method) (lt : F → F → Bool) (mean : F → F → F)
    (d : List Nat → List Nat → F) (members : List (List Nat)) (sf : State F)
    (h : cluster m lt mean d members = some sf) (hn : 2 ≤ members.length) :
    (indicies sf.n sf.clusters).Perm (List.range members.length) := by
  obtain ⟨sf', h1, h2, h3, h4, _⟩ := cluster_spec m lt mean d members
  rw [h] at h1; cases h1
  obtain ⟨hm, hnd, _⟩ := final_bookkeeping sf h2 h3 (by omega)
  rw [indicies_eq, h4]
  rw [h4] at hm
  apply (List.perm_ext_iff_of_nodup (hnd.filter _) List.nodup_range).2
  intro i
  simp only [List.mem_filter, hm i, decide_eq_true_eq, List.mem_range]
  omega

/-- initially the distance callback is asked exactly once, with each unordered pair of input sets
exactly once, in lexicographic order of their positions; the index pairs under which the answers
are stored are the pairs `i < j < n`, each once -/
theorem C17_callback_initial (m : Method) (lt : F → F → Bool) (mean : F → F → F)
    (d : List Nat → List Nat → F) (members : List (List Nat)) (sf : State F)
    (h : cluster m lt mean d members = some sf) :
    sf.log.head? = some (pairsLex members) ∧
    (indexPairs members.length).Nodup ∧
    (∀ q, q ∈ indexPairs members.length ↔ q.1 < q.2 ∧ q.2 < members.length) ∧
    (pairsLex members).length = (indexPairs members.length).length := by
  obtain ⟨sf', h1, _, _, _, h5⟩ := cluster_spec m lt mean d members
  rw [h] at h1; cases h1
  refine ⟨h5, nodup_indexPairs _, mem_indexPairs _, ?_⟩
  rw [indexPairs_eq]
  exact length_pairsLex_of_length _ _ (by simp)

/-- Every merge joins the pair that is closest at that moment, at the reported distance:
`trace[k]` is the state in which the loop performs its `k`-th merge (there are exactly as many as
merges); its matrix holds exactly the pairs `i < j` of live entries (`KeysOK`), the clusters
recorded so far are the first `k` of the result, and the `k`-th recorded cluster `(lhs, rhs, dist)`
is an entry of that matrix whose distance is minimal.  For a tie-free matrix this entry is the
unique argmin (second part). -/
theorem C17_closest [LinearOrder F] (m : Method) (lt : F → F → Bool)
    (hlt : ∀ a b, lt a b = true ↔ a < b) (mean : F → F → F)
    (d : List Nat → List Nat → F) (members : List (List Nat)) (sf : State F)
    (h : cluster m lt mean d members = some sf) :
    (trace (stepOf m lt mean d) (members.length + 1) (init d members)).length = sf.clusters.length ∧
    ∀ k sk, (trace (stepOf m lt mean d) (members.length + 1) (init d members))[k]? = some sk →
      sk.clusters = sf.clusters.take k ∧ KeysOK sk ∧
      ∃ c, sf.clusters[k]? = some c ∧ ((c.lhs, c.rhs), c.dist) ∈ sk.dm ∧
        (∀ e ∈ sk.dm, c.dist ≤ e.2) ∧
        ((∀ e ∈ sk.dm, ∀ e' ∈ sk.dm, e.2 = e'.2 → e = e') →
          ∀ e ∈ sk.dm, e ≠ ((c.lhs, c.rhs), c.dist) → c.dist < e.2) := by
  have hi := inv_init d members
  have hcard : (liveSet (init d members).sets).card < members.length + 1 := by
    have := hi.card; simp only [init, List.length_nil, Nat.add_zero] at this ⊢; omega
  have hst := fun s hs hne => stepOf_step m lt mean d s hs hne
  constructor
  · have := length_trace lt (stepOf m lt mean d) hst (stepOf_log m lt mean d)
      (members.length + 1) (init d members) sf hi hcard h
    simpa [init] using this
  · intro k sk hk
    obtain ⟨h1, _, h3, c, h4, h5⟩ := trace_spec lt (stepOf m lt mean d) hst (stepOf_log m lt mean d)
      (members.length + 1) (init d members) sf hi hcard h k sk hk
    simp only [init, List.length_nil, Nat.zero_add] at h3 h4
    obtain ⟨hm, hmin⟩ := closest_min lt hlt sk.dm _ h5
    refine ⟨h3, h1.keys, c, h4, hm, hmin, ?_⟩
    intro htie e he hne
    rcases lt_or_eq_of_le (hmin e he) with hl | heq
    · exact hl
    · exact absurd (htie _ hm _ he heq).symm hne

/-- Distance update of `single`/`complete`/`average` (one iteration of `arithmetic_cluster(func)`
in any state): after merging the closest pair `(a, b)` into the new entry `new = sets.len()`, every
remaining live entry `i` gets `D(i, new) = func(D(i, a), D(i, b))` — both old distances exist,
looked up under the `(smaller, larger)` key — and every distance between untouched entries is kept. -/
theorem C17_update_arith (lt : F → F → Bool) (func : F → F → F) (s s' : State F)
    (h : arithStep lt func s = some s') :
    ∃ a b d, closest lt s.dm = some ((a, b), d) ∧
      (∀ i, isLive s.sets i = true → i ≠ a → i ≠ b →
        ∃ v1 v2, dmGet s.dm (keyOf i a) = some v1 ∧ dmGet s.dm (keyOf i b) = some v2 ∧
          dmGet s'.dm (i, s.sets.length) = some (func v1 v2)) ∧
      (∀ q : Nat × Nat, q.1 ≠ a → q.1 ≠ b → q.2 ≠ a → q.2 ≠ b → q.2 ≠ s.sets.length →
        dmGet s'.dm q = dmGet s.dm q) :=
  arithStep_update lt func s s' h

/-- single linkage: `func` is the minimum of the two parts -/
theorem C17_update_single [LinearOrder F] (lt : F → F → Bool) (hlt : ∀ a b, lt a b = true ↔ a < b)
    (v1 v2 : F) : fmin lt v1 v2 = min v1 v2 := by
  unfold fmin
  by_cases h : v1 < v2
  · rw [if_pos ((hlt _ _).2 h), min_eq_left (le_of_lt h)]
  · have : ¬ lt v1 v2 = true := fun hc => h ((hlt _ _).1 hc)
    rw [if_neg this, min_eq_right (not_lt.1 h)]

/-- complete linkage: `func` is the maximum of the two parts -/
theorem C17_update_complete [LinearOrder F] (lt : F → F → Bool) (hlt : ∀ a b, lt a b = true ↔ a < b)
    (v1 v2 : F) : fmax lt v1 v2 = max v1 v2 := by
  unfold fmax
  by_cases h : v2 < v1
  · rw [if_pos ((hlt _ _).2 h), max_eq_left (le_of_lt h)]
  · have : ¬ lt v2 v1 = true := fun hc => h ((hlt _ _).1 hc)
    rw [if_neg this, max_eq_right (not_lt.1 h)]

/-- average linkage as implemented: `func` is the caller's `mean` of the two parts (the mean of the
two direct cluster nodes, `(v1 + v2) / 2` in the code — not weighted by cluster sizes), i.e. the
step function of `Method.average` is `arithStep` with `mean`; single and complete use `fmin`/`fmax`,
union the callback on the merged set -/
theorem C17_update_average (lt : F → F → Bool) (mean : F → F → F) (d : List Nat → List Nat → F) :
    stepOf .average lt mean d = arithStep lt mean ∧
    stepOf .single lt mean d = arithStep lt (fmin lt) ∧
    stepOf .complete lt mean d = arithStep lt (fmax lt) ∧
    stepOf .union lt mean d = unionStep lt d :=
  ⟨rfl, rfl, rfl, rfl⟩

/-- union linkage (one iteration of `cluster_set_unions` in any state):
the two closest sets `x = sets[a]`, `y = sets[b]` are replaced by their union (`extend`) appended as
the new last entry `new = sets.len()`, the distance callback is called exactly once, with the pairs
`(union, live entry)` in index order followed by `(union, union)`, and afterwards the matrix holds,
for every live entry `i` other than the two merged ones, the callback's value `d (x ∪ y) setᵢ`
under the key `(i, new)`; every entry whose key touches neither `a`, `b` nor `new` is unchanged
(the keys touching `a` or `b` are gone and there are no others: `KeysOK` in `C17_closest`). -/
theorem C17_update_union (lt : F → F → Bool) (d : List Nat → List Nat → F) (s s' : State F)
    (h : unionStep lt d s = some s') :
    ∃ a b dist x y, closest lt s.dm = some ((a, b), dist) ∧
      (s.sets[a]?).join = some x ∧ (s.sets[b]?).join = some y ∧
      s'.sets = takeTwo s.sets a b ++ [some (Group.insertAll x y)] ∧
      s'.log = s.log ++ [rowPairs (Group.insertAll x y)
        (takeTwo s.sets a b ++ [some (Group.insertAll x y)])] ∧
      (∀ i si, s.sets[i]? = some (some si) → i ≠ a → i ≠ b →
        dmGet s'.dm (i, s.sets.length) = some (d (Group.insertAll x y) si)) ∧
      (∀ q : Nat × Nat, q.1 ≠ a → q.1 ≠ b → q.2 ≠ a → q.2 ≠ b → q.2 ≠ s.sets.length →
        dmGet s'.dm q = dmGet s.dm q) :=
  unionStep_update lt d s s' h

/-- every state in which a merge is performed satisfies the invariant (in particular its matrix
holds exactly the pairs of live entries), so the update theorems apply to every merge of a run -/
theorem C17_trace_inv (m : Method) (lt : F → F → Bool) (mean : F → F → F)
    (d : List Nat → List Nat → F) (members : List (List Nat)) (sf : State F)
    (h : cluster m lt mean d members = some sf) (k : Nat) (sk : State F)
    (hk : (trace (stepOf m lt mean d) (members.length + 1) (init d members))[k]? = some sk) :
    Inv sk ∧ sk.dm ≠ [] ∧ sk.n = members.length := by
  have hi := inv_init d members
  have hcard : (liveSet (init d members).sets).card < members.length + 1 := by
    have := hi.card; simp only [init, List.length_nil, Nat.add_zero] at this ⊢; omega
  obtain ⟨h1, h2, _, c, _, h5⟩ := trace_spec lt (stepOf m lt mean d)
    (fun s hs hne => stepOf_step m lt mean d s hs hne) (stepOf_log m lt mean d)
    (members.length + 1) (init d members) sf hi hcard h k sk hk
  refine ⟨h1, ?_, by rw [h2]; rfl⟩
  intro he; rw [he] at h5; simp [closest] at h5

/-- Closed form of single linkage, for ANY strict linear comparison `lt` (irreflexive, transitive,
total — the three hypotheses; no other structure on `F`): in the state before the `k`-th merge the
stored distance `v` of any two live entries `i < j` is the MINIMUM of the input distances
`leafDist a b` over all pairs of leaves `a` below `i`, `b` below `j` — it is one of them and none is
`lt`-smaller —, and the distance recorded for the `k`-th merge is the minimum over the leaves of its
two sides.  Leaf sets are those of the final dendrogram (`C17_dendrogram`). -/
theorem C17_single_closed_form (lt : F → F → Bool) (hirr : ∀ a, lt a a = false)
    (htrans : ∀ a b c, lt a b = true → lt b c = true → lt a c = true)
    (htot : ∀ a b, lt a b = true ∨ a = b ∨ lt b a = true)
    (mean : F → F → F) (d : List Nat → List Nat → F) (members : List (List Nat)) (sf : State F)
    (h : cluster .single lt mean d members = some sf) (k : Nat) (sk : State F)
    (hk : (trace (stepOf .single lt mean d) (members.length + 1) (init d members))[k]? = some sk) :
    (∀ i j, i < j → isLive sk.sets i = true → isLive sk.sets j = true →
      ∃ v, dmGet sk.dm (i, j) = some v ∧
        (∃ a ∈ leaves members.length sf.clusters i, ∃ b ∈ leaves members.length sf.clusters j,
          v = leafDist d members a b) ∧
        (∀ a ∈ leaves members.length sf.clusters i, ∀ b ∈ leaves members.length sf.clusters j,
          lt (leafDist d members a b) v = false)) ∧
    ∃ c, sf.clusters[k]? = some c ∧
      (∃ a ∈ leaves members.length sf.clusters c.lhs, ∃ b ∈ leaves members.length sf.clusters c.rhs,
        c.dist = leafDist d members a b) ∧
      (∀ a ∈ leaves members.length sf.clusters c.lhs, ∀ b ∈ leaves members.length sf.clusters c.rhs,
        lt (leafDist d members a b) c.dist = false) :=
  closed_form .single lt lt mean d rfl hirr htrans htot members sf h k sk hk

/-- Closed form of complete linkage (same hypotheses): the stored distance of two live entries is
the MAXIMUM of the input distances over all pairs of leaves — it is one of them and it is
`lt`-smaller than none —, and so is the distance recorded for the `k`-th merge. -/
theorem C17_complete_closed_form (lt : F → F → Bool) (hirr : ∀ a, lt a a = false)
    (htrans : ∀ a b c, lt a b = true → lt b c = true → lt a c = true)
    (htot : ∀ a b, lt a b = true ∨ a = b ∨ lt b a = true)
    (mean : F → F → F) (d : List Nat → List Nat → F) (members : List (List Nat)) (sf : State F)
    (h : cluster .complete lt mean d members = some sf) (k : Nat) (sk : State F)
    (hk : (trace (stepOf .complete lt mean d) (members.length + 1) (init d members))[k]? = some sk) :
    (∀ i j, i < j → isLive sk.sets i = true → isLive sk.sets j = true →
      ∃ v, dmGet sk.dm (i, j) = some v ∧
        (∃ a ∈ leaves members.length sf.clusters i, ∃ b ∈ leaves members.length sf.clusters j,
          v = leafDist d members a b) ∧
        (∀ a ∈ leaves members.length sf.clusters i, ∀ b ∈ leaves members.length sf.clusters j,
          lt v (leafDist d members a b) = false)) ∧
    ∃ c, sf.clusters[k]? = some c ∧
      (∃ a ∈ leaves members.length sf.clusters c.lhs, ∃ b ∈ leaves members.length sf.clusters c.rhs,
        c.dist = leafDist d members a b) ∧
      (∀ a ∈ leaves members.length sf.clusters c.lhs, ∀ b ∈ leaves members.length sf.clusters c.rhs,
        lt c.dist (leafDist d members a b) = false) :=
  closed_form .complete lt (fun x y => lt y x) mean d rfl hirr
    (fun a b c h1 h2 => htrans c b a h2 h1)
    (fun a b => by rcases htot a b with h | h | h <;> simp [h]) members sf h k sk hk

/-- the input distance of the closed forms is the callback on the two inputs when the callback is
symmetric (the property's quantifier), and it is symmetric in any case -/
theorem C17_leafDist (d : List Nat → List Nat → F) (members : List (List Nat)) (a b : Nat) :
    leafDist d members a b = leafDist d members b a ∧
    ((∀ x y, d x y = d y x) →
      leafDist d members a b = d (members[a]?.getD []) (members[b]?.getD [])) :=
  ⟨leafDist_comm d members a b, fun hd => leafDist_of_symm d hd members a b⟩

/-- the "initial distances" of the closed forms: `Linkage::new` stores under `(i, j)`, `i < j < n`,
the callback's answer for the `i`-th and `j`-th input, which is `leafDist i j` -/
theorem C17_initial_distance (d : List Nat → List Nat → F) (members : List (List Nat)) (i j : Nat)
    (hij : i < j) (hj : j < members.length) :
    dmGet (init d members).dm (i, j) = some (leafDist d members i j) ∧
    leafDist d members i j = d (members[i]?.getD []) (members[j]?.getD []) := by
  have e : leafDist d members i j = d (members[i]?.getD []) (members[j]?.getD []) := by
    unfold leafDist keyOf; rw [if_pos hij]
  exact ⟨by rw [e]; exact init_dmGet d members i j hij hj, e⟩

/-- every linear order (in Mathlib's sense) that `lt` decides satisfies the three order hypotheses
of the closed forms -/
theorem C17_order_hyps [LinearOrder F] (lt : F → F → Bool) (hlt : ∀ a b, lt a b = true ↔ a < b) :
    (∀ a, lt a a = false) ∧
    (∀ a b c, lt a b = true → lt b c = true → lt a c = true) ∧
    (∀ a b, lt a b = true ∨ a = b ∨ lt b a = true) := by
  refine ⟨?_, ?_, ?_⟩
  · intro a
    cases h : lt a a
    · rfl
    · exact absurd ((hlt a a).1 h) (lt_irrefl a)
  · intro a b c h1 h2
    exact (hlt a c).2 (lt_trans ((hlt a b).1 h1) ((hlt b c).1 h2))
  · intro a b
    rcases lt_trichotomy a b with h | h | h
    · exact Or.inl ((hlt a b).2 h)
    · exact Or.inr (Or.inl h)
    · exact Or.inr (Or.inr ((hlt b a).2 h))

/-- The merges form a binary tree over the inputs (`n ≥ 2`, all methods, any distances): there are
`n − 1` merges, merge `k` creating index `n + k`; every index below the root `2n − 2` is the child
(`lhs` or `rhs`) of exactly one merge, and that merge comes later (`i < n + k`); the two children of
a merge differ and the root is nobody's child; the leaf set of an input is itself, that of cluster
`n + k` is the leaf set of its `lhs` followed by that of its `rhs` and has the recorded size; and
the leaf set of the last merge — the root — is all of `0..n` (each input once). -/
theorem C17_dendrogram (m : Method) (lt : F → F → Bool) (mean : F → F → F)
    (d : List Nat → List Nat → F) (members : List (List Nat)) (sf : State F)
    (h : cluster m lt mean d members = some sf) (hn : 2 ≤ members.length) :
    sf.clusters.length = members.length - 1 ∧
    (∀ i, i < 2 * members.length - 2 →
      ∃ k, ∃ hk : k < sf.clusters.length,
        (sf.clusters[k].lhs = i ∨ sf.clusters[k].rhs = i) ∧ i < members.length + k ∧
        ∀ k' (hk' : k' < sf.clusters.length),
          (sf.clusters[k'].lhs = i ∨ sf.clusters[k'].rhs = i) → k' = k) ∧
    (∀ k (hk : k < sf.clusters.length), sf.clusters[k].lhs ≠ sf.clusters[k].rhs ∧
      sf.clusters[k].lhs < 2 * members.length - 2 ∧ sf.clusters[k].rhs < 2 * members.length - 2) ∧
    (∀ i, i < members.length → leaves members.length sf.clusters i = [i]) ∧
    (∀ k (hk : k < sf.clusters.length),
      leaves members.length sf.clusters (members.length + k) =
        leaves members.length sf.clusters sf.clusters[k].lhs ++
          leaves members.length sf.clusters sf.clusters[k].rhs ∧
      (leaves members.length sf.clusters (members.length + k)).length = sf.clusters[k].size) ∧
    (leaves members.length sf.clusters (2 * members.length - 2)).Perm
      (List.range members.length) := by
  have hcount := C17_count m lt mean d members sf h
  have honce := C17_each_once m lt mean d members sf h hn
  have haddr := C17_addressable m lt mean d members sf h
  have hsizes := (C17_sizes m lt mean d members sf h).1
  have hnd : (mergedIdx sf.clusters).Nodup := by
    apply List.nodup_iff_count_le_one.2
    intro i; rw [honce i]; split <;> omega
  have hmem : ∀ i, i ∈ mergedIdx sf.clusters ↔ i < 2 * members.length - 2 := by
    intro i
    rw [← List.count_pos_iff, honce i]
    split <;> simp [*]
  refine ⟨hcount, ?_, ?_, fun i hi => leaves_input _ _ _ hi, ?_,
    final_root m lt mean d members sf h hn⟩
  · intro i hi
    obtain ⟨k, hk, hc⟩ := (mem_mergedIdx sf.clusters i).1 ((hmem i).2 hi)
    refine ⟨k, hk, hc, ?_, ?_⟩
    · have := haddr k hk
      rcases hc with hc | hc <;> omega
    · intro k' hk' hc'
      exact mergedIdx_unique sf.clusters hnd i k' k hk' hk hc' hc
  · intro k hk
    have := haddr k hk
    refine ⟨by omega, ?_, ?_⟩
    · exact (hmem _).1 ((mem_mergedIdx sf.clusters _).2 ⟨k, hk, Or.inl rfl⟩)
    · exact (hmem _).1 ((mem_mergedIdx sf.clusters _).2 ⟨k, hk, Or.inr rfl⟩)
  · intro k hk
    have := haddr k hk
    refine ⟨leaves_cluster _ _ k hk (by omega) (by omega), ?_⟩
    rw [length_leaves members.length sf.clusters
      (fun k hk => by have := haddr k hk; omega) hsizes _ (by omega)]
    have e1 : ¬ (members.length + k < members.length) := by omega
    simp [sz, Linkage.sizeOf, e1, List.getElem?_eq_getElem hk]

/-! ### non-vacuity -/

/-- four inputs, single linkage over `Nat` distances: the model merges (0,1) at 1, (2,3) at 2 and
the two clusters (4,5) at `min` = 5 -/
example :
    ((cluster .single (fun a b : Nat => decide (a < b)) (fun a b => (a + b) / 2)
        (fun a b => match a, b with
          | [0], [1] => 1 | [2], [3] => 2 | [0], [2] => 5 | [0], [3] => 7 | [1], [2] => 6 | _, _ => 9)
        [[0], [1], [2], [3]]).map fun s =>
      (s.clusters.map fun c => (c.lhs, c.rhs, c.dist, c.size), indicies s.n s.clusters))
    = some ([(0, 1, 1, 2), (2, 3, 2, 2), (4, 5, 5, 4)], [0, 1, 2, 3]) := by
  decide

/-- the order hypothesis of `C17_closest` / `C17_update_single` is satisfiable (here: `Nat`) -/
example : ∀ a b : Nat, (decide (a < b) = true ↔ a < b) := by simp

/-- average linkage on four inputs with an exact mean over `Nat` (even distances): after merging
(0,1) at 2 the distances of the new entry 4 are the means (8+12)/2 = 10 and (10+14)/2 = 12 -/
example :
    ((cluster .average (fun a b : Nat => decide (a < b)) (fun a b => (a + b) / 2)
        (fun a b => match a, b with
          | [0], [1] => 2 | [2], [3] => 4 | [0], [2] => 8 | [0], [3] => 10 | [1], [2] => 12 | _, _ => 14)
        [[0], [1], [2], [3]]).map fun s =>
      s.clusters.map fun c => (c.lhs, c.rhs, c.dist, c.size))
    = some [(0, 1, 2, 2), (2, 3, 4, 2), (4, 5, 11, 4)] := by
  decide

/-- the three order hypotheses of the closed forms are satisfiable (here: `<` on `Nat`) -/
example : (∀ a : Nat, decide (a < a) = false) ∧
    (∀ a b c : Nat, decide (a < b) = true → decide (b < c) = true → decide (a < c) = true) ∧
    (∀ a b : Nat, decide (a < b) = true ∨ a = b ∨ decide (b < a) = true) := by
  refine ⟨by simp, ?_, ?_⟩
  · intro a b c; simp only [decide_eq_true_eq]; omega
  · intro a b; simp only [decide_eq_true_eq]; omega

/-- the closed forms on the four-input example above: the last merge joins the clusters 4 = {0, 1}
and 5 = {2, 3}; single linkage reports min {5, 7, 6, 9} = 5, complete linkage max = 9; the leaf
set of the root 6 is `[0, 1, 2, 3]` -/
example :
    let dd : List Nat → List Nat → Nat := fun a b => match a, b with
      | [0], [1] => 1 | [2], [3] => 2 | [0], [2] => 5 | [0], [3] => 7 | [1], [2] => 6 | _, _ => 9
    let lt : Nat → Nat → Bool := fun a b => decide (a < b)
    let mem : List (List Nat) := [[0], [1], [2], [3]]
    ((cluster .single lt (fun a b => (a + b) / 2) dd mem).map fun s =>
      (s.clusters.map (·.dist), leaves 4 s.clusters 4, leaves 4 s.clusters 5, leaves 4 s.clusters 6))
      = some ([1, 2, 5], [0, 1], [2, 3], [0, 1, 2, 3]) ∧
    ((cluster .complete lt (fun a b => (a + b) / 2) dd mem).map fun s =>
      (s.clusters.map (·.dist), leaves 4 s.clusters 4, leaves 4 s.clusters 5)) =
      some ([1, 2, 9], [0, 1], [2, 3]) ∧
    [leafDist dd mem 0 2, leafDist dd mem 0 3, leafDist dd mem 1 2, leafDist dd mem 3 1] = [5, 7, 6, 9] := by
  decide

/-- union linkage: the hypothesis of `C17_update_union` is satisfiable — one step on three inputs
merges the closest pair (0, 1) and stores the callback's value for (union, set₂) under (2, 3) -/
example :
    ((unionStep (fun a b : Nat => decide (a < b)) (fun a b => a.length * 10 + b.length + b.head!)
        (init (fun a b => a.head! + b.head!) [[1], [2], [7]])).map fun s => (s.sets, s.dm))
    = some ([none, none, some [7], some [1, 2]], [((2, 3), 28)]) := by
  decide

end Hpo.C17
