import HpoProofs.Linkage
/-!
# C17 — hierarchical clustering returns a valid dendrogram built from closest pairs

Property theorems only (helper lemmas: `HpoProofs/Linkage.lean`).  `cluster m lt mean d members`
is the model of `Linkage::{union, single, complete, average}` on the input sets `members` with the
distance callback `d`, over ANY numeric type `F` with ANY comparison `lt` and mean `mean`
(the driver runs it at `Float32`); `n = members.length` is unbounded.  The bookkeeping theorems
need no assumption on the distances at all (ties included); `C17_closest` assumes a linear order.

`mergedIdx cl = [lhs₀, rhs₀, lhs₁, rhs₁, …]`, `sz n cl i` = 1 for an input (`i < n`), else the
recorded size of cluster `i − n`; `pairsLex l` = `(l[i], l[j])` for `i < j` in lexicographic order.
-/
namespace Hpo.C17
open Hpo Hpo.Linkage

variable {F : Type}

/-- the clustering never panics (every `expect`/index of the loops is justified) and the fuel
`n + 1` of the model suffices -/
theorem C17_total (m : Method) (lt : F → F → Bool) (mean : F → F → F)
    (d : List Nat → List Nat → F) (members : List (List Nat)) :
    ∃ sf, cluster m lt mean d members = some sf ∧ sf.dm = [] ∧ sf.n = members.length := by
  obtain ⟨sf, h1, _, h3, h4, _⟩ := cluster_spec m lt mean d members
  exact ⟨sf, h1, h3, h4⟩

/-- exactly `n − 1` merges -/
theorem C17_count (m : Method) (lt : F → F → Bool) (mean : F → F → F)
    (d : List Nat → List Nat → F) (members : List (List Nat)) (sf : State F)
    (h : cluster m lt mean d members = some sf) : sf.clusters.length = members.length - 1 := by
  obtain ⟨sf', h1, h2, h3, h4, _⟩ := cluster_spec m lt mean d members
  rw [h] at h1; cases h1
  rw [← h4]; exact final_count sf h2 h3

/-- every input and every intermediate cluster — the indices `0 … 2n−3` — is merged exactly once
(occurs exactly once as `lhs` or `rhs`); the root `2n−2` and anything beyond never -/
theorem C17_each_once (m : Method) (lt : F → F → Bool) (mean : F → F → F)
    (d : List Nat → List Nat → F) (members : List (List Nat)) (sf : State F)
    (h : cluster m lt mean d members = some sf) (hn : 2 ≤ members.length) (i : Nat) :
    (mergedIdx sf.clusters).count i = if i < 2 * members.length - 2 then 1 else 0 := by
  obtain ⟨sf', h1, h2, h3, h4, _⟩ := cluster_spec m lt mean d members
  rw [h] at h1; cases h1
  obtain ⟨hm, hnd, _⟩ := final_bookkeeping sf h2 h3 (by omega)
  rw [h4] at hm
  split
  · rename_i hi
    exact List.count_eq_one_of_mem hnd ((hm i).2 hi)
  · rename_i hi
    exact List.count_eq_zero_of_not_mem (fun hc => hi ((hm i).1 hc))

/-- the `k`-th merge joins two distinct earlier entries: `lhs < rhs < n + k`, so the cluster it
creates is addressable as index `n + k` by later merges only -/
theorem C17_addressable (m : Method) (lt : F → F → Bool) (mean : F → F → F)
    (d : List Nat → List Nat → F) (members : List (List Nat)) (sf : State F)
    (h : cluster m lt mean d members = some sf) (k : Nat) (hk : k < sf.clusters.length) :
    sf.clusters[k].lhs < sf.clusters[k].rhs ∧ sf.clusters[k].rhs < members.length + k := by
  obtain ⟨sf', h1, h2, h3, h4, _⟩ := cluster_spec m lt mean d members
  rw [h] at h1; cases h1
  rw [← h4]; exact h2.addr k hk

/-- sizes add up: the size of every merge is the sum of the sizes of its two sides (1 for an
input, the recorded size for a cluster), and the last merge has size `n` -/
theorem C17_sizes (m : Method) (lt : F → F → Bool) (mean : F → F → F)
    (d : List Nat → List Nat → F) (members : List (List Nat)) (sf : State F)
    (h : cluster m lt mean d members = some sf) :
    (∀ k (hk : k < sf.clusters.length),
      sf.clusters[k].size = sz members.length sf.clusters sf.clusters[k].lhs
        + sz members.length sf.clusters sf.clusters[k].rhs) ∧
    (2 ≤ members.length → (sf.clusters.getLast?).map (·.size) = some members.length) := by
  obtain ⟨sf', h1, h2, h3, h4, _⟩ := cluster_spec m lt mean d members
  rw [h] at h1; cases h1
  constructor
  · intro k hk
    have ha := h2.addr k hk
    have hs := (mkCluster_fields (h2.sizes k hk)).2.2.2
    rw [sz_take _ _ _ _ (by omega), sz_take _ _ _ _ (by omega)] at hs
    rw [← h4]; exact hs
  · intro hn
    have hc := final_count sf h2 h3
    obtain ⟨_, _, hsz⟩ := final_bookkeeping sf h2 h3 (by omega)
    rw [h4] at hsz hc
    have hlast : sf.clusters.getLast? = sf.clusters[members.length - 2]? := by
      rw [List.getLast?_eq_getElem?, hc]; congr 1
    rw [hlast]
    unfold sz Linkage.sizeOf at hsz
    have e1 : ¬ (2 * members.length - 2 < members.length) := by omega
    have e2 : 2 * members.length - 2 - members.length = members.length - 2 := by omega
    rw [if_neg e1, e2] at hsz
    cases hx : sf.clusters[members.length - 2]? with
    | none => rw [hx] at hsz; simp at hsz; omega
    | some c => rw [hx] at hsz; simpa using hsz

/-- the reported leaf order is a permutation of `0..n` -/
theorem C17_leaf_order (m : Method) (lt : F → F → Bool) (mean : F → F → F)
    (d : List Nat → List Nat → F) (members : List (List Nat)) (sf : State F)
    (h : cluster m lt mean d members = some sf) (hn : 2 ≤ members.length) :
    (indicies sf.n sf.clusters).Perm (List.range members.length) := by
  obtain ⟨sf', h1, h2, h3, h4, _⟩ := cluster_spec m lt mean d members
  rw [h] at h1; cases h1
  obtain ⟨hm, hnd, _⟩ := final_bookkeeping sf h2 h3 (by omega)
  rw [indicies_eq, h4]
  rw [h4] at hm
  apply (List.perm_ext_iff_of_nodup (hnd.filter _) List.nodup_range).2
  intro i
  simp only [List.mem_filter, hm i, decide_eq_true_eq, List.mem_range]
  omega

/-- initially the distance callback is asked exactly once, with each unordered pair of input sets
exactly once, in lexicographic order of their positions; the index pairs under which the answers
are stored are the pairs `i < j < n`, each once -/
theorem C17_callback_initial (m : Method) (lt : F → F → Bool) (mean : F → F → F)
    (d : List Nat → List Nat → F) (members : List (List Nat)) (sf : State F)
    (h : cluster m lt mean d members = some sf) :
    sf.log.head? = some (pairsLex members) ∧
    (indexPairs members.length).Nodup ∧
    (∀ q, q ∈ indexPairs members.length ↔ q.1 < q.2 ∧ q.2 < members.length) ∧
    (pairsLex members).length = (indexPairs members.length).length := by
  obtain ⟨sf', h1, _, _, _, h5⟩ := cluster_spec m lt mean d members
  rw [h] at h1; cases h1
  refine ⟨h5, nodup_indexPairs _, mem_indexPairs _, ?_⟩
  rw [indexPairs_eq]
  exact length_pairsLex_of_length _ _ (by simp)

/-- Every merge joins the pair that is closest at that moment, at the reported distance:
`trace[k]` is the state in which the loop performs its `k`-th merge (there are exactly as many as
merges); its matrix holds exactly the pairs `i < j` of live entries (`KeysOK`), the clusters
recorded so far are the first `k` of the result, and the `k`-th recorded cluster `(lhs, rhs, dist)`
is an entry of that matrix whose distance is minimal.  For a tie-free matrix this entry is the
unique argmin (second part). -/
theorem C17_closest [LinearOrder F] (m : Method) (lt : F → F → Bool)
    (hlt : ∀ a b, lt a b = true ↔ a < b) (mean : F → F → F)
    (d : List Nat → List Nat → F) (members : List (List Nat)) (sf : State F)
    (h : cluster m lt mean d members = some sf) :
    (trace (stepOf m lt mean d) (members.length + 1) (init d members)).length = sf.clusters.length ∧
    ∀ k sk, (trace (stepOf m lt mean d) (members.length + 1) (init d members))[k]? = some sk →
      sk.clusters = sf.clusters.take k ∧ KeysOK sk ∧
      ∃ c, sf.clusters[k]? = some c ∧ ((c.lhs, c.rhs), c.dist) ∈ sk.dm ∧
        (∀ e ∈ sk.dm, c.dist ≤ e.2) ∧
        ((∀ e ∈ sk.dm, ∀ e' ∈ sk.dm, e.2 = e'.2 → e = e') →
          ∀ e ∈ sk.dm, e ≠ ((c.lhs, c.rhs), c.dist) → c.dist < e.2) := by
  have hi := inv_init d members
  have hcard : (liveSet (init d members).sets).card < members.length + 1 := by
    have := hi.card; simp only [init, List.length_nil, Nat.add_zero] at this ⊢; omega
  have hst := fun s hs hne => stepOf_step m lt mean d s hs hne
  constructor
  · have := length_trace lt (stepOf m lt mean d) hst (stepOf_log m lt mean d)
      (members.length + 1) (init d members) sf hi hcard h
    simpa [init] using this
  · intro k sk hk
    obtain ⟨h1, _, h3, c, h4, h5⟩ := trace_spec lt (stepOf m lt mean d) hst (stepOf_log m lt mean d)
      (members.length + 1) (init d members) sf hi hcard h k sk hk
    simp only [init, List.length_nil, Nat.zero_add] at h3 h4
    obtain ⟨hm, hmin⟩ := closest_min lt hlt sk.dm _ h5
    refine ⟨h3, h1.keys, c, h4, hm, hmin, ?_⟩
    intro htie e he hne
    rcases lt_or_eq_of_le (hmin e he) with hl | heq
    · exact hl
    · exact absurd (htie _ hm _ he heq).symm hne

/-- Distance update of `single`/`complete`/`average` (one iteration of `arithmetic_cluster(func)`
in any state): after merging the closest pair `(a, b)` into the new entry `new = sets.len()`, every
remaining live entry `i` gets `D(i, new) = func(D(i, a), D(i, b))` — both old distances exist,
looked up under the `(smaller, larger)` key — and every distance between untouched entries is kept. -/
theorem C17_update_arith (lt : F → F → Bool) (func : F → F → F) (s s' : State F)
    (h : arithStep lt func s = some s') :
    ∃ a b d, closest lt s.dm = some ((a, b), d) ∧
      (∀ i, isLive s.sets i = true → i ≠ a → i ≠ b →
        ∃ v1 v2, dmGet s.dm (keyOf i a) = some v1 ∧ dmGet s.dm (keyOf i b) = some v2 ∧
          dmGet s'.dm (i, s.sets.length) = some (func v1 v2)) ∧
      (∀ q : Nat × Nat, q.1 ≠ a → q.1 ≠ b → q.2 ≠ a → q.2 ≠ b → q.2 ≠ s.sets.length →
        dmGet s'.dm q = dmGet s.dm q) :=
  arithStep_update lt func s s' h

/-- single linkage: `func` is the minimum of the two parts -/
theorem C17_update_single [LinearOrder F] (lt : F → F → Bool) (hlt : ∀ a b, lt a b = true ↔ a < b)
    (v1 v2 : F) : fmin lt v1 v2 = min v1 v2 := by
  unfold fmin
  by_cases h : v1 < v2
  · rw [if_pos ((hlt _ _).2 h), min_eq_left (le_of_lt h)]
  · have : ¬ lt v1 v2 = true := fun hc => h ((hlt _ _).1 hc)
    rw [if_neg this, min_eq_right (not_lt.1 h)]

/-- complete linkage: `func` is the maximum of the two parts -/
theorem C17_update_complete [LinearOrder F] (lt : F → F → Bool) (hlt : ∀ a b, lt a b = true ↔ a < b)
    (v1 v2 : F) : fmax lt v1 v2 = max v1 v2 := by
  unfold fmax
  by_cases h : v2 < v1
  · rw [if_pos ((hlt _ _).2 h), max_eq_left (le_of_lt h)]
  · have : ¬ lt v2 v1 = true := fun hc => h ((hlt _ _).1 hc)
    rw [if_neg this, max_eq_right (not_lt.1 h)]

/-- average linkage as implemented: `func` is the caller's `mean` of the two parts (the mean of the
two direct cluster nodes, `(v1 + v2) / 2` in the code — not weighted by cluster sizes), i.e. the
step function of `Method.average` is `arithStep` with `mean`; single and complete use `fmin`/`fmax`,
union the callback on the merged set -/
theorem C17_update_average (lt : F → F → Bool) (mean : F → F → F) (d : List Nat → List Nat → F) :
    stepOf .average lt mean d = arithStep lt mean ∧
    stepOf .single lt mean d = arithStep lt (fmin lt) ∧
    stepOf .complete lt mean d = arithStep lt (fmax lt) ∧
    stepOf .union lt mean d = unionStep lt d :=
  ⟨rfl, rfl, rfl, rfl⟩

/-- union linkage (one iteration of `cluster_set_unions` in any state):
the two closest sets are replaced by their union (`extend`) appended as the new last entry, and the
distance callback is called exactly once, with the pairs `(union, live entry)` in index order followed
by `(union, union)`.
PARTIAL — proved: the argument sequence of the callback (this theorem) and, in `C17_closest`, that
the matrix afterwards holds exactly the pairs of live entries.  Not proved (full statement):
`∀ i, isLive s.sets i → i ≠ a → i ≠ b → dmGet s'.dm (i, s.sets.length) = some (d (x ∪ y) setᵢ)`
and `dmGet s'.dm q = dmGet s.dm q` for keys `q` not touching `a`, `b`, `s.sets.length`;
the correspondence check compares these values on every union run. -/
theorem C17_update_union_partial (lt : F → F → Bool) (d : List Nat → List Nat → F) (s s' : State F)
    (h : unionStep lt d s = some s') :
    ∃ a b dist x y, closest lt s.dm = some ((a, b), dist) ∧
      (s.sets[a]?).join = some x ∧ (s.sets[b]?).join = some y ∧
      s'.sets = takeTwo s.sets a b ++ [some (Group.insertAll x y)] ∧
      s'.log = s.log ++ [rowPairs (Group.insertAll x y)
        (takeTwo s.sets a b ++ [some (Group.insertAll x y)])] := by
  unfold unionStep at h
  split at h
  · cases h
  · rename_i e he
    split at h
    · cases h
    · split at h
      · split at h
        · cases h
        · rename_i mm hm
          split at h
          · cases h
          · cases h
            obtain ⟨⟨a, b⟩, dist⟩ := e
            simp only at hm ⊢
            unfold mergeSets at hm
            split at hm
            · rename_i x y hx hy
              cases hm
              exact ⟨a, b, dist, x, y, he, hx, hy, rfl, by rw [combosLast_append_some]⟩
            · cases hm
      · cases h

/-- every state in which a merge is performed satisfies the invariant (in particular its matrix
holds exactly the pairs of live entries), so the update theorems apply to every merge of a run -/
theorem C17_trace_inv (m : Method) (lt : F → F → Bool) (mean : F → F → F)
    (d : List Nat → List Nat → F) (members : List (List Nat)) (sf : State F)
    (h : cluster m lt mean d members = some sf) (k : Nat) (sk : State F)
    (hk : (trace (stepOf m lt mean d) (members.length + 1) (init d members))[k]? = some sk) :
    Inv sk ∧ sk.dm ≠ [] ∧ sk.n = members.length := by
  have hi := inv_init d members
  have hcard : (liveSet (init d members).sets).card < members.length + 1 := by
    have := hi.card; simp only [init, List.length_nil, Nat.add_zero] at this ⊢; omega
  obtain ⟨h1, h2, _, c, _, h5⟩ := trace_spec lt (stepOf m lt mean d)
    (fun s hs hne => stepOf_step m lt mean d s hs hne) (stepOf_log m lt mean d)
    (members.length + 1) (init d members) sf hi hcard h k sk hk
  refine ⟨h1, ?_, by rw [h2]; rfl⟩
  intro he; rw [he] at h5; simp [closest] at h5

/-! ### non-vacuity -/

/-- four inputs, single linkage over `Nat` distances: the model merges (0,1) at 1, (2,3) at 2 and
the two clusters (4,5) at `min` = 5 -/
example :
    ((cluster .single (fun a b : Nat => decide (a < b)) (fun a b => (a + b) / 2)
        (fun a b => match a, b with
          | [0], [1] => 1 | [2], [3] => 2 | [0], [2] => 5 | [0], [3] => 7 | [1], [2] => 6 | _, _ => 9)
        [[0], [1], [2], [3]]).map fun s =>
      (s.clusters.map fun c => (c.lhs, c.rhs, c.dist, c.size), indicies s.n s.clusters))
    = some ([(0, 1, 1, 2), (2, 3, 2, 2), (4, 5, 5, 4)], [0, 1, 2, 3]) := by
  decide

/-- the order hypothesis of `C17_closest` / `C17_update_single` is satisfiable (here: `Nat`) -/
example : ∀ a b : Nat, (decide (a < b) = true ↔ a < b) := by simp

/-- average linkage on four inputs with an exact mean over `Nat` (even distances): after merging
(0,1) at 2 the distances of the new entry 4 are the means (8+12)/2 = 10 and (10+14)/2 = 12 -/
example :
    ((cluster .average (fun a b : Nat => decide (a < b)) (fun a b => (a + b) / 2)
        (fun a b => match a, b with
          | [0], [1] => 2 | [2], [3] => 4 | [0], [2] => 8 | [0], [3] => 10 | [1], [2] => 12 | _, _ => 14)
        [[0], [1], [2], [3]]).map fun s =>
      s.clusters.map fun c => (c.lhs, c.rhs, c.dist, c.size))
    = some [(0, 1, 2, 2), (2, 3, 4, 2), (4, 5, 11, 4)] := by
  decide

end Hpo.C17
