import HpoProofs.Linkage
/-!
# C17 — hierarchical clustering returns a valid dendrogram built from closest pairs

Property theorems only (helper lemmas: `HpoProofs/Linkage.lean`).  `cluster m lt mean d members`
is the model of `Linkage::{union, single, complete, average}` on the input sets `members` with the
distance callback `d`, over ANY numeric type `F` with ANY comparison `lt` and mean `mean`
(the driver runs it at `Float32`); `n = members.length` is unbounded.  The bookkeeping theorems
need no assumption on the distances at all (ties included); `C17_closest` assumes a linear order.

`mergedIdx cl = [lhs₀, rhs₀, lhs₁, rhs₁, …]`, `sz n cl i` = 1 for an input (`i < n`), else the
recorded size of cluster `i − n`; `pairsLex l` = `(l[i], l[j])` for `i < j` in lexicographic order.
-/
namespace Hpo.C17
open Hpo Hpo.Linkage

variable {F : Type}

/-- the clustering never panics (every `expect`/index of the loops is justified) and the fuel
`n + 1` of the model suffices -/
theorem C17_total (m : Method) (lt : F → F → Bool) (mean : F → F → F)
    (d : List Nat → List Nat → F) (members : List (List Nat)) :
    ∃ sf, cluster m lt mean d members = some sf ∧ sf.dm = [] ∧ sf.n = members.length := by
  obtain ⟨sf, h1, _, h3, h4, _⟩ := cluster_spec m lt mean d members
  exact ⟨sf, h1, h3, h4⟩

/-- exactly `n − 1` merges -/
theorem C17_count (m : Method) (lt : F → F → Bool) (mean : F → F → F)
    (d : List Nat → List Nat → F) (members : List (List Nat)) (sf : State F)
    (h : cluster m lt mean d members = some sf) : sf.clusters.length = members.length - 1 := by
  obtain ⟨sf', h1, h2, h3, h4, _⟩ := cluster_spec m lt mean d members
  rw [h] at h1; cases h1
  rw [← h4]; exact final_count sf h2 h3

/-- every input and every intermediate cluster — the indices `0 … 2n−3` — is merged exactly once
(occurs exactly once as `lhs` or `rhs`); the root `2n−2` and anything beyond never -/
theorem C17_each_once (m : Method) (lt : F → F → Bool) (mean : F → F → F)
    (d : List Nat → List Nat → F) (members : List (List Nat)) (sf : State F)
    (h : cluster m lt mean d members = some sf) (hn : 2 ≤ members.length) (i : Nat) :
    (mergedIdx sf.clusters).count i = if i < 2 * members.length - 2 then 1 else 0 := by
  obtain ⟨sf', h1, h2, h3, h4, _⟩ := cluster_spec m lt mean d members
  rw [h] at h1; cases h1
  obtain ⟨hm, hnd, _⟩ := final_bookkeeping sf h2 h3 (by omega)
  rw [h4] at hm
  split
  · rename_i hi
    exact List.count_eq_one_of_mem hnd ((hm i).2 hi)
  · rename_i hi
    exact List.count_eq_zero_of_not_mem (fun hc => hi ((hm i).1 hc))

/-- the `k`-th merge joins two distinct earlier entries: `lhs < rhs < n + k`, so the cluster it
creates is addressable as index `n + k` by later merges only -/
theorem C17_addressable (m : Method) (lt : F → F → Bool) (mean : F → F → F)
    (d : List Nat → List Nat → F) (members : List (List Nat)) (sf : State F)
    (h : cluster m lt mean d members = some sf) (k : Nat) (hk : k < sf.clusters.length) :
    sf.clusters[k].lhs < sf.clusters[k].rhs ∧ sf.clusters[k].rhs < members.length + k := by
  obtain ⟨sf', h1, h2, h3, h4, _⟩ := cluster_spec m lt mean d members
  rw [h] at h1; cases h1
  rw [← h4]; exact h2.addr k hk

/-- sizes add up: the size of every merge is the sum of the sizes of its two sides (1 for an
input, the recorded size for a cluster), and the last merge has size `n` -/
theorem C17_sizes (m : Method) (lt : F → F → Bool) (mean : F → F → F)
    (d : List Nat → List Nat → F) (members : List (List Nat)) (sf : State F)
    (h : cluster m lt mean d members = some sf) :
    (∀ k (hk : k < sf.clusters.length),
      sf.clusters[k].size = sz members.length sf.clusters sf.clusters[k].lhs
        + sz members.length sf.clusters sf.clusters[k].rhs) ∧
    (2 ≤ members.length → (sf.clusters.getLast?).map (·.size) = some members.length) := by
  obtain ⟨sf', h1, h2, h3, h4, _⟩ := cluster_spec m lt mean d members
  rw [h] at h1; cases h1
  constructor
  · intro k hk
    have ha := h2.addr k hk
    have hs := (mkCluster_fields (h2.sizes k hk)).2.2.2
    rw [sz_take _ _ _ _ (by omega), sz_take _ _ _ _ (by omega)] at hs
    rw [← h4]; exact hs
  · intro hn
    have hc := final_count sf h2 h3
    obtain ⟨_, _, hsz⟩ := final_bookkeeping sf h2 h3 (by omega)
    rw [h4] at hsz hc
    have hlast : sf.clusters.getLast? = sf.clusters[members.length - 2]? := by
      rw [List.getLast?_eq_getElem?, hc]; congr 1
    rw [hlast]
    unfold sz Linkage.sizeOf at hsz
    have e1 : ¬ (2 * members.length - 2 < members.length) := by omega
    have e2 : 2 * members.length - 2 - members.length = members.length - 2 := by omega
    rw [if_neg e1, e2] at hsz
    cases hx : sf.clusters[members.length - 2]? with
    | none => rw [hx] at hsz; simp at hsz; omega
    | some c => rw [hx] at hsz; simpa using hsz

/-- the reported leaf order is a permutation of `0..n` -/
theorem C17_leaf_order (m : Method) (lt : F → F → Bool) (mean : F → F → F)
    (d : List Nat → List Nat → F) (members : List (List Nat)) (sf : State F)
    (h : cluster m lt mean d members = some sf) (hn : 2 ≤ members.length) :
    (indicies sf.n sf.clusters).Perm (List.range members.length) := by
  obtain ⟨sf', h1, h2, h3, h4, _⟩ := cluster_spec m lt mean d members
  rw [h] at h1; cases h1
  obtain ⟨hm, hnd, _⟩ := final_bookkeeping sf h2 h3 (by omega)
  rw [indicies_eq, h4]
  rw [h4] at hm
  apply (List.perm_ext_iff_of_nodup (hnd.filter _) List.nodup_range).2
  intro i
  simp only [List.mem_filter, hm i, decide_eq_true_eq, List.mem_range]
  omega

/-- initially the distance callback is asked exactly once, with each unordered pair of input sets
exactly once, in lexicographic order of their positions; the index pairs under which the answers
are stored are the pairs `i < j < n`, each once -/
theorem C17_callback_initial (m : Method) (lt : F → F → Bool) (mean : F → F → F)
    (d : List Nat → List Nat → F) (members : List (List Nat)) (sf : State F)
    (h : cluster m lt mean d members = some sf) :
    sf.log.head? = some (pairsLex members) ∧
    (indexPairs members.length).Nodup ∧
    (∀ q, q ∈ indexPairs members.length ↔ q.1 < q.2 ∧ q.2 < members.length) ∧
    (pairsLex members).length = (indexPairs members.length).length := by
  obtain ⟨sf', h1, _, _, _, h5⟩ := cluster_spec m lt mean d members
  rw [h] at h1; cases h1
  refine ⟨h5, nodup_indexPairs _, mem_indexPairs _, ?_⟩
  rw [indexPairs_eq]
  exact length_pairsLex_of_length _ _ (by simp)

/-- Every merge joins the pair that is closest at that moment, at the reported distance:
`trace[k]` is the state in which the loop performs its `k`-th merge (there are exactly as many as
merges); its matrix holds exactly the pairs `i < j` of live entries (`KeysOK`), the clusters
recorded so far are the first `k` of the result, and the `k`-th recorded cluster `(lhs, rhs, dist)`
is an entry of that matrix whose distance is minimal.  For a tie-free matrix this entry is the
unique argmin (second part). -/
theorem C17_closest [LinearOrder F] (m : Method) (lt : F → F → Bool)
    (hlt : ∀ a b, lt a b = true ↔ a < b) (mean : F → F → F)
    (d : List Nat → List Nat → F) (members : List (List Nat)) (sf : State F)
    (h : cluster m lt mean d members = some sf) :
    (trace (stepOf m lt mean d) (members.length + 1) (init d members)).length = sf.clusters.length ∧
    ∀ k sk, (trace (stepOf m lt mean d) (members.length + 1) (init d members))[k]? = some sk →
      sk.clusters = sf.clusters.take k ∧ KeysOK sk ∧
      ∃ c, sf.clusters[k]? = some c ∧ ((c.lhs, c.rhs), c.dist) ∈ sk.dm ∧
        (∀ e ∈ sk.dm, c.dist ≤ e.2) ∧
        ((∀ e ∈ sk.dm, ∀ e' ∈ sk.dm, e.2 = e'.2 → e = e') →
          ∀ e ∈ sk.dm, e ≠ ((c.lhs, c.rhs), c.dist) → c.dist < e.2) := by
  have hi := inv_init d members
  have hcard : (liveSet (init d members).sets).card < members.length + 1 := by
    have := hi.card; simp only [init, List.length_nil, Nat.add_zero] at this ⊢; omega
  have hst := fun s hs hne => stepOf_step m lt mean d s hs hne
  constructor
  · have := length_trace lt (stepOf m lt mean d) hst (stepOf_log m lt mean d)
      (members.length + 1) (init d members) sf hi hcard h
    simpa [init] using this
  · intro k sk hk
    obtain ⟨h1, _, h3, c, h4, h5⟩ := trace_spec lt (stepOf m lt mean d) hst (stepOf_log m lt mean d)
      (members.length + 1) (init d members) sf hi hcard h k sk hk
    simp only [init, List.length_nil, Nat.zero_add] at h3 h4
    obtain ⟨hm, hmin⟩ := closest_min lt hlt sk.dm _ h5
    refine ⟨h3, h1.keys, c, h4, hm, hmin, ?_⟩
    intro htie e he hne
    rcases lt_or_eq_of_le (hmin e he) with hl | heq
    · exact hl
    · exact absurd (htie _ hm _ he heq).symm hne

/-! ### non-vacuity -/

/-- four inputs, single linkage over `Nat` distances: the model merges (0,1) at 1, (2,3) at 2 and
the two clusters (4,5) at `min` = 5 -/
example :
    ((cluster .single (fun a b : Nat => decide (a < b)) (fun a b => (a + b) / 2)
        (fun a b => match a, b with
          | [0], [1] => 1 | [2], [3] => 2 | [0], [2] => 5 | [0], [3] => 7 | [1], [2] => 6 | _, _ => 9)
        [[0], [1], [2], [3]]).map fun s =>
      (s.clusters.map fun c => (c.lhs, c.rhs, c.dist, c.size), indicies s.n s.clusters))
    = some ([(0, 1, 1, 2), (2, 3, 2, 2), (4, 5, 5, 4)], [0, 1, 2, 3]) := by
  decide

end Hpo.C17
