import HpoModel.Linkage
namespace Hpo.C17
open Hpo Hpo.Linkage
theorem C17_stub : (indexPairs 3) = [(0,1),(0,2),(1,2)] := by decide
end Hpo.C17
