import HpoProofs.NumReal
import HpoProofs.Rounded
import HpoProofs.Ic
import HpoProps.C02
import HpoProofs.ObsEq
import HpoProofs.Bulk
import HpoProofs.BulkFast
/-!
# C03 — information content equals −ln(n/N) for each annotation kind

The stored value of a term for kind `k` is computed from the pair `(n, N)` that
`calculate_information_content` hands to `InformationContent::calculate`; `icValue` is the formula,
written once over the numeric interface `Num` with *checked* division and evaluated here over ℝ
(the driver evaluates the same definition in `Float32`; the VALUE under `f32`/`logf` rounding is
outside the theorems — label *partial*, see DESIGN.md 2.5), and a second time at `RVal R` for an
arbitrary rounding regime `R : Rounding` (`HpoProofs/Rounded.lean`): definedness, sign, zero cases
and monotonicity hold for EVERY correctly-rounding arithmetic (`C03_*_rounded`).
-/
namespace Hpo.C03
open Hpo Hpo.C02 Group

/-- what the three passes store: for every term and kind the pair (number of records of the kind
linked to the term after inheritance, number of records of the kind), or `(0,0)` if one is 0;
nothing else changes; the three kinds are computed independently -/
theorem C03_counts (o o' : Onto) (h : o.calcIc = .ok o') :
    o'.terms = o.terms.map (fun t =>
      ((t.setIc .gene (icPair o.genes.length t.genes.length)).setIc .omim
        (icPair o.omim.length t.omim.length)).setIc .orpha (icPair o.orpha.length t.orpha.length)) ∧
    o'.genes = o.genes ∧ o'.omim = o.omim ∧ o'.orpha = o.orpha :=
  calcIc_ok o o' h

/-- the only way `calculate_information_content` fails is `TryFromIntError` (a non-zero count
beyond 65 535); it never panics -/
theorem C03_error_kind (o : Onto) :
    (∃ o', o.calcIc = .ok o') ∨ o.calcIc = .err .tryFromInt := by
  unfold Onto.calcIc Onto.calcIcKind
  rcases icFold_cases .gene (o.recs .gene).length o.terms with ⟨t1, h1⟩ | h1
  · rw [h1]; simp only [Res.bind]
    rcases icFold_cases .omim (({ o with terms := t1 } : Onto).recs .omim).length t1 with ⟨t2, h2⟩ | h2
    · rw [h2]; simp only [Res.bind]
      rcases icFold_cases .orpha (({ o with terms := t2 } : Onto).recs .orpha).length t2 with ⟨t3, h3⟩ | h3
      · rw [h3]; left; exact ⟨_, rfl⟩
      · rw [h3]; right; rfl
    · rw [h2]; right; rfl
  · rw [h1]; right; rfl

/-! ### the value, over ℝ -/

/-- **Value.** `icValue (n, N)` is defined (no zero denominator is divided by) and equals
`0` if `n = 0 ∨ N = 0`, else `−ln(n/N)` -/
theorem C03_value (total cur : Nat) :
    (icValue (icPair total cur) : Option ℝ) =
      some (if total = 0 ∨ cur = 0 then 0 else -Real.log ((cur : ℝ) / (total : ℝ))) := by
  unfold icValue icPair
  by_cases h0 : total = 0 ∨ cur = 0
  · simp [h0, Num.ofNat]
  · have h1 : ¬ total = 0 := fun h => h0 (Or.inl h)
    have h2 : ¬ cur = 0 := fun h => h0 (Or.inr h)
    have ht : (total : ℝ) ≠ 0 := by exact_mod_cast h1
    simp [h0, h1, h2, Num.div?, Num.ofNat, Num.neg, Num.log, ht]

/-- the same for whatever pair `InformationContent::calculate(total, current)` stores — this is the
function `HpoSet::information_content` uses as well (C13: `current` = size of the union over the
members, `total` = number of records) -/
theorem C03_value_of_calc (total cur : Nat) (p : Nat × Nat) (h : Onto.icCalc total cur = .ok p) :
    (icValue p : Option ℝ) =
      some (if total = 0 ∨ cur = 0 then 0 else -Real.log ((cur : ℝ) / (total : ℝ))) := by
  rw [((icCalc_ok_iff total cur p).1 h).1]
  exact C03_value total cur

/-- **Never negative** (and, being a real number, never NaN or infinite) when `n ≤ N` -/
theorem C03_nonneg (total cur : Nat) (h : cur ≤ total) :
    ∃ v : ℝ, (icValue (icPair total cur) : Option ℝ) = some v ∧ 0 ≤ v := by
  refine ⟨_, C03_value total cur, ?_⟩
  split
  · exact le_refl 0
  · rename_i h0
    have h1 : total ≠ 0 := fun h => h0 (Or.inl h)
    have h2 : cur ≠ 0 := fun h => h0 (Or.inr h)
    have hT : (0 : ℝ) < total := by exact_mod_cast Nat.pos_of_ne_zero h1
    have hC : (0 : ℝ) < cur := by exact_mod_cast Nat.pos_of_ne_zero h2
    have hle : (cur : ℝ) / total ≤ 1 := by
      rw [div_le_one hT]; exact_mod_cast h
    have := Real.log_nonpos (le_of_lt (div_pos hC hT)) hle
    linarith

/-- **Monotone.** With the same total, more linked records means lower information content:
`n_d ≤ n_a → ic(a) ≤ ic(d)` for `n_d > 0` -/
theorem C03_monotone_counts (total na nd : Nat) (hd : 0 < nd) (h : nd ≤ na) (hN : na ≤ total) :
    ∀ va vd : ℝ, (icValue (icPair total na) : Option ℝ) = some va →
      (icValue (icPair total nd) : Option ℝ) = some vd → va ≤ vd := by
  intro va vd ha hdv
  rw [C03_value] at ha hdv
  have hT : total ≠ 0 := by omega
  have hna : na ≠ 0 := by omega
  have hnd : nd ≠ 0 := by omega
  simp only [hT, hna, hnd, or_self, ↓reduceIte, Option.some.injEq] at ha hdv
  subst ha; subst hdv
  have hTp : (0 : ℝ) < total := by exact_mod_cast Nat.pos_of_ne_zero hT
  have hdp : (0 : ℝ) < nd := by exact_mod_cast hd
  have : (nd : ℝ) / total ≤ (na : ℝ) / total := by
    apply div_le_div_of_nonneg_right _ (le_of_lt hTp); exact_mod_cast h
  have := Real.log_le_log (div_pos hdp hTp) this
  linarith

/-! ### counts of builder histories: `n ≤ N`, and `n` grows towards the ancestors -/

/-- **n ≤ N and ancestor ⊇ descendant** for every term of every ontology the Builder produces:
the records linked to a term are distinct records of the ontology, and every record linked to a
term is linked to each of its ancestors. Together with `C03_nonneg` / `C03_monotone_counts`:
information content is never negative and never decreases from an ancestor to a descendant
(among annotated terms). -/
theorem C03_count_facts (tops : List BOp) (o oc : Onto) (hrun : runB tops {} = some o)
    (hac : C01.Acyclic o) (hc : o.connectAll = .ok oc) (ops : List AOp) (k : Kind) :
    (∀ x, (annOf k (runA ops oc).terms x).length ≤ ((runA ops oc).recs k).length) ∧
    (∀ d a, a ∈ ancOf oc d →
      (annOf k (runA ops oc).terms d).length ≤ (annOf k (runA ops oc).terms a).length) := by
  obtain ⟨hinv, ⟨rank, hcl, hf⟩, _, _⟩ := connected_annInv tops o oc hrun hac hc
  have H := (C02_history _ _ rank hcl ops oc hinv hf).1
  have hres := (C02_resolves tops o oc hrun hac hc ops k).1
  have hrecs0 : ∀ k, ((oc.recs k).map (·.id)).Nodup := by
    intro k'
    obtain ⟨_, hrest0⟩ := preInv_run tops {} o preInv_nil hrun
    obtain ⟨oc', hc', hrest, _⟩ := C01.C01_connect o (preInv_run tops {} o preInv_nil hrun).1 hac
    rw [hc] at hc'; cases hc'
    have : oc.recs k' = [] := by rw [hrest, hrest0]; cases k' <;> rfl
    simp [this]
  have hnd := recIds_nodup ops oc hrecs0 _ _ rank hcl hinv hf k
  constructor
  · intro x
    have h1 : (annOf k (runA ops oc).terms x).Nodup := (H.sorted k x).nodup
    have h2 : annOf k (runA ops oc).terms x ⊆ ((runA ops oc).recs k).map (·.id) := by
      intro r hr
      exact (getR_isSome_iff _ r).1 (hres x r hr)
    have := List.Nodup.length_le_of_subset h1 h2
    simpa using this
  · intro d a ha
    have h1 : (annOf k (runA ops oc).terms d).Nodup := (H.sorted k d).nodup
    apply List.Nodup.length_le_of_subset h1
    intro r hr
    exact H.upclosed _ _ rank hcl k d r hr a ha

/-! ### tie machinery: large record sets -/

/-- The one-pass bulk insertion the driver runs for ontologies with tens of thousands of records
(the u16 limit of the calculation, ic close to 0) is the `count`-fold repetition of the Builder
call `add_gene` / `add_omim_disease` / `add_orpha_disease` — the harness makes exactly those calls. -/
theorem C03_bulk_is_repeated_add (o : Onto) (k : Kind) (name : List Char) (first count : Nat) :
    o.addRecRangeFast k name first count = o.addRecRange k name first count :=
  Onto.addRecRangeFast_eq o k name first count

/-- The one-pass bulk annotation the driver runs (`bulkann`: when a guard evaluated on the term and
its cached ancestors holds, the records `first+count-1, …, first` are appended and the ids are put in
front of the annotation groups of the term and its cached ancestors; otherwise the calls are made one
by one) is the `count`-fold repetition of the Builder call `annotate_*` in descending id order,
stopping at the first error — for all arguments; the harness makes exactly those calls. -/
theorem C03_bulk_annotate_is_repeated_annotate (o : Onto) (k : Kind) (name : List Char)
    (t first count : Nat) :
    o.annotateRangeFast k name t first count = o.annotateRange k name t first count :=
  Onto.annotateRangeFast_eq o k name t first count

/-! ### the sign / order clauses for EVERY correctly-rounding arithmetic

`R : Rounding` (`HpoProofs/Rounded.lean`) is a structure of explicit hypotheses on a rounding
function and a library logarithm (monotone, small integers exact, no flush to zero in the normal
range, `lg` monotone with `lg 1 = 0`; NOT exact); `RVal R` evaluates the SAME `icValue` with every
operation rounded: `rnd (lg (rnd (n / N)) * (-1))`.  What these theorems leave to trust is only
that `f32` with the platform `logf` is such an arithmetic. -/

/-- without annotations (or without records) the value is exactly 0 -/
theorem C03_zero_rounded (R : Rounding) (total cur : Nat) (h : total = 0 ∨ cur = 0) :
    (icValue (icPair total cur) : Option (RVal R)) = some ⟨0⟩ := by
  unfold icValue icPair
  simp only [h, if_true, or_self]
  congr 1
  apply RVal.ext'
  simp

/-- **Defined and never negative under rounding**: for counts `n ≤ N ≤ 65535` (the code's `u16`
guard) no zero denominator is divided by, the argument of the logarithm is positive (never
`ln 0 = -inf`) and the result is ≥ 0 -/
theorem C03_nonneg_rounded (R : Rounding) (total cur : Nat) (h : cur ≤ total) (hT : total ≤ 65535) :
    ∃ v : RVal R, (icValue (icPair total cur) : Option (RVal R)) = some v ∧ 0 ≤ v.v := by
  by_cases h0 : total = 0 ∨ cur = 0
  · exact ⟨_, C03_zero_rounded R total cur h0, le_refl _⟩
  · have hc : 0 < cur := Nat.pos_of_ne_zero fun e => h0 (Or.inr e)
    refine ⟨_, by simp only [icPair, h0, if_false]; exact icValue_rounded R hc h hT, ?_⟩
    obtain ⟨hp, h1⟩ := ratio_bounds R hc h hT
    apply R.rnd_nonneg
    have := R.lg_nonpos hp h1
    linarith

/-- a term that carries every record of the kind (the root) has information content exactly 0
under rounding as well: `rnd (N / N) = 1`, `lg 1 = 0`, `0 * (-1) = 0` (`-0.0 == 0.0` in `f32`) -/
theorem C03_all_records_rounded (R : Rounding) (total : Nat) (hT : total ≤ 65535) :
    (icValue (icPair total total) : Option (RVal R)) = some ⟨0⟩ := by
  by_cases h0 : total = 0
  · exact C03_zero_rounded R total total (Or.inl h0)
  · have hp : 0 < total := Nat.pos_of_ne_zero h0
    have hne : (total : ℝ) ≠ 0 := by exact_mod_cast h0
    simp only [icPair, h0, or_self, if_false]
    rw [icValue_rounded R hp (le_refl _) hT, div_self hne, R.rnd_one, R.lg_one]
    congr 1
    apply RVal.ext'
    simp

/-- **Monotone under rounding.** With the same total, more linked records never means a higher
ROUNDED information content: every step (`rnd (n / N)`, `lg`, `* (-1)`) is monotone -/
theorem C03_monotone_counts_rounded (R : Rounding) (total na nd : Nat) (hd : 0 < nd) (h : nd ≤ na)
    (hN : na ≤ total) (hT : total ≤ 65535) :
    ∀ va vd : RVal R, (icValue (icPair total na) : Option (RVal R)) = some va →
      (icValue (icPair total nd) : Option (RVal R)) = some vd → va.v ≤ vd.v := by
  intro va vd ha hdv
  have hT0 : ¬ (total = 0 ∨ na = 0) := by omega
  have hT1 : ¬ (total = 0 ∨ nd = 0) := by omega
  simp only [icPair, hT0, hT1, if_false] at ha hdv
  rw [icValue_rounded R (by omega) hN hT] at ha
  rw [icValue_rounded R hd (by omega) hT] at hdv
  injection ha with ha; injection hdv with hdv
  subst ha; subst hdv
  have hTp : (0 : ℝ) < total := by exact_mod_cast (show 0 < total by omega)
  have hq : R.rnd ((nd : ℝ) / total) ≤ R.rnd ((na : ℝ) / total) := by
    apply R.mono
    apply div_le_div_of_nonneg_right _ hTp.le
    exact_mod_cast h
  have hpd := (ratio_bounds R hd (by omega : nd ≤ total) hT).1
  have hpa := (ratio_bounds R (by omega : 0 < na) hN hT).1
  have hl := R.lg_mono (Set.mem_Ioi.2 hpd) (Set.mem_Ioi.2 hpa) hq
  apply R.mono
  linarith

/-! ### non-vacuity -/
/-- the exact arithmetic is a `Rounding`, and there the rounded value is the real one -/
example : (icValue (icPair 4 1) : Option (RVal Rounding.exact)) = some ⟨-Real.log ((1 : ℝ) / 4)⟩ := by
  have := icValue_rounded Rounding.exact (n := 1) (N := 4) (by norm_num) (by norm_num) (by norm_num)
  simp only [icPair]
  rw [show ((if (4 : ℕ) = 0 ∨ (1 : ℕ) = 0 then ((0 : ℕ), (0 : ℕ)) else (1, 4)) : ℕ × ℕ) = (1, 4) by decide, this]
  congr 1
  apply RVal.ext'
  simp [Rounding.exact]
/-- … and in the genuinely inexact regime `Rounding.grid` (every result, also of `ln`, rounded
down to a multiple of 2^-126) the theorems apply just the same -/
example : ∃ v : RVal Rounding.grid, (icValue (icPair 4 1) : Option (RVal Rounding.grid)) = some v ∧
    0 ≤ v.v := C03_nonneg_rounded Rounding.grid 4 1 (by norm_num) (by norm_num)
example : Rounding.grid.rnd (((2 : ℝ)⁻¹) ^ 127) = 0 ∧ ((2 : ℝ)⁻¹) ^ 127 ≠ 0 := Rounding.grid_inexact
example : (icValue (icPair 4 1) : Option ℝ) = some (-Real.log ((1 : ℝ) / 4)) := by
  rw [C03_value]; norm_num
example : (icValue (icPair 0 0) : Option ℝ) = some 0 := by rw [C03_value]; simp
example : Onto.icCalc 70000 3 = .err .tryFromInt := by decide
example : Onto.icCalc 70000 0 = .ok (0, 0) := by decide

end Hpo.C03
