import HpoProofs.NumReal
import HpoProofs.Ic
import HpoProps.C02
import HpoProofs.ObsEq
import HpoProofs.Bulk
/-!
# C03 — information content equals −ln(n/N) for each annotation kind

The stored value of a term for kind `k` is computed from the pair `(n, N)` that
`calculate_information_content` hands to `InformationContent::calculate`; `icValue` is the formula,
written once over the numeric interface `Num` with *checked* division and evaluated here over ℝ
(the driver evaluates the same definition in `Float32`; rounding of `f32`/`logf` is outside the
model — label *partial*, see DESIGN.md 2.5).
-/
namespace Hpo.C03
open Hpo Hpo.C02 Group

/-- what the three passes store: for every term and kind the pair (number of records of the kind
linked to the term after inheritance, number of records of the kind), or `(0,0)` if one is 0;
nothing else changes; the three kinds are computed independently -/
theorem C03_counts (o o' : Onto) (h : o.calcIc = .ok o') :
    o'.terms = o.terms.map (fun t =>
      ((t.setIc .gene (icPair o.genes.length t.genes.length)).setIc .omim
        (icPair o.omim.length t.omim.length)).setIc .orpha (icPair o.orpha.length t.orpha.length)) ∧
    o'.genes = o.genes ∧ o'.omim = o.omim ∧ o'.orpha = o.orpha :=
  calcIc_ok o o' h

/-- the only way `calculate_information_content` fails is `TryFromIntError` (a non-zero count
beyond 65 535); it never panics -/
theorem C03_error_kind (o : Onto) :
    (∃ o', o.calcIc = .ok o') ∨ o.calcIc = .err .tryFromInt := by
  unfold Onto.calcIc Onto.calcIcKind
  rcases icFold_cases .gene (o.recs .gene).length o.terms with ⟨t1, h1⟩ | h1
  · rw [h1]; simp only [Res.bind]
    rcases icFold_cases .omim (({ o with terms := t1 } : Onto).recs .omim).length t1 with ⟨t2, h2⟩ | h2
    · rw [h2]; simp only [Res.bind]
      rcases icFold_cases .orpha (({ o with terms := t2 } : Onto).recs .orpha).length t2 with ⟨t3, h3⟩ | h3
      · rw [h3]; left; exact ⟨_, rfl⟩
      · rw [h3]; right; rfl
    · rw [h2]; right; rfl
  · rw [h1]; right; rfl

/-! ### the value, over ℝ -/

/-- **Value.** `icValue (n, N)` is defined (no zero denominator is divided by) and equals
`0` if `n = 0 ∨ N = 0`, else `−ln(n/N)` -/
theorem C03_value (total cur : Nat) :
    (icValue (icPair total cur) : Option ℝ) =
      some (if total = 0 ∨ cur = 0 then 0 else -Real.log ((cur : ℝ) / (total : ℝ))) := by
  unfold icValue icPair
  by_cases h0 : total = 0 ∨ cur = 0
  · simp [h0, Num.ofNat]
  · have h1 : ¬ total = 0 := fun h => h0 (Or.inl h)
    have h2 : ¬ cur = 0 := fun h => h0 (Or.inr h)
    have ht : (total : ℝ) ≠ 0 := by exact_mod_cast h1
    simp [h0, h1, h2, Num.div?, Num.ofNat, Num.neg, Num.log, ht]

/-- the same for whatever pair `InformationContent::calculate(total, current)` stores — this is the
function `HpoSet::information_content` uses as well (C13: `current` = size of the union over the
members, `total` = number of records) -/
theorem C03_value_of_calc (total cur : Nat) (p : Nat × Nat) (h : Onto.icCalc total cur = .ok p) :
    (icValue p : Option ℝ) =
      some (if total = 0 ∨ cur = 0 then 0 else -Real.log ((cur : ℝ) / (total : ℝ))) := by
  rw [((icCalc_ok_iff total cur p).1 h).1]
  exact C03_value total cur

/-- **Never negative** (and, being a real number, never NaN or infinite) when `n ≤ N` -/
theorem C03_nonneg (total cur : Nat) (h : cur ≤ total) :
    ∃ v : ℝ, (icValue (icPair total cur) : Option ℝ) = some v ∧ 0 ≤ v := by
  refine ⟨_, C03_value total cur, ?_⟩
  split
  · exact le_refl 0
  · rename_i h0
    have h1 : total ≠ 0 := fun h => h0 (Or.inl h)
    have h2 : cur ≠ 0 := fun h => h0 (Or.inr h)
    have hT : (0 : ℝ) < total := by exact_mod_cast Nat.pos_of_ne_zero h1
    have hC : (0 : ℝ) < cur := by exact_mod_cast Nat.pos_of_ne_zero h2
    have hle : (cur : ℝ) / total ≤ 1 := by
      rw [div_le_one hT]; exact_mod_cast h
    have := Real.log_nonpos (le_of_lt (div_pos hC hT)) hle
    linarith

/-- **Monotone.** With the same total, more linked records means lower information content:
`n_d ≤ n_a → ic(a) ≤ ic(d)` for `n_d > 0` -/
theorem C03_monotone_counts (total na nd : Nat) (hd : 0 < nd) (h : nd ≤ na) (hN : na ≤ total) :
    ∀ va vd : ℝ, (icValue (icPair total na) : Option ℝ) = some va →
      (icValue (icPair total nd) : Option ℝ) = some vd → va ≤ vd := by
  intro va vd ha hdv
  rw [C03_value] at ha hdv
  have hT : total ≠ 0 := by omega
  have hna : na ≠ 0 := by omega
  have hnd : nd ≠ 0 := by omega
  simp only [hT, hna, hnd, or_self, ↓reduceIte, Option.some.injEq] at ha hdv
  subst ha; subst hdv
  have hTp : (0 : ℝ) < total := by exact_mod_cast Nat.pos_of_ne_zero hT
  have hdp : (0 : ℝ) < nd := by exact_mod_cast hd
  have : (nd : ℝ) / total ≤ (na : ℝ) / total := by
    apply div_le_div_of_nonneg_right _ (le_of_lt hTp); exact_mod_cast h
  have := Real.log_le_log (div_pos hdp hTp) this
  linarith

/-! ### counts of builder histories: `n ≤ N`, and `n` grows towards the ancestors -/

/-- **n ≤ N and ancestor ⊇ descendant** for every term of every ontology the Builder produces:
the records linked to a term are distinct records of the ontology, and every record linked to a
term is linked to each of its ancestors. Together with `C03_nonneg` / `C03_monotone_counts`:
information content is never negative and never decreases from an ancestor to a descendant
(among annotated terms). -/
theorem C03_count_facts (tops : List BOp) (o oc : Onto) (hrun : runB tops {} = some o)
    (hac : C01.Acyclic o) (hc : o.connectAll = .ok oc) (ops : List AOp) (k : Kind) :
    (∀ x, (annOf k (runA ops oc).terms x).length ≤ ((runA ops oc).recs k).length) ∧
    (∀ d a, a ∈ ancOf oc d →
      (annOf k (runA ops oc).terms d).length ≤ (annOf k (runA ops oc).terms a).length) := by
  obtain ⟨hinv, ⟨rank, hcl, hf⟩, _, _⟩ := connected_annInv tops o oc hrun hac hc
  have H := (C02_history _ _ rank hcl ops oc hinv hf).1
  have hres := (C02_resolves tops o oc hrun hac hc ops k).1
  have hrecs0 : ∀ k, ((oc.recs k).map (·.id)).Nodup := by
    intro k'
    obtain ⟨_, hrest0⟩ := preInv_run tops {} o preInv_nil hrun
    obtain ⟨oc', hc', hrest, _⟩ := C01.C01_connect o (preInv_run tops {} o preInv_nil hrun).1 hac
    rw [hc] at hc'; cases hc'
    have : oc.recs k' = [] := by rw [hrest, hrest0]; cases k' <;> rfl
    simp [this]
  have hnd := recIds_nodup ops oc hrecs0 _ _ rank hcl hinv hf k
  constructor
  · intro x
    have h1 : (annOf k (runA ops oc).terms x).Nodup := (H.sorted k x).nodup
    have h2 : annOf k (runA ops oc).terms x ⊆ ((runA ops oc).recs k).map (·.id) := by
      intro r hr
      exact (getR_isSome_iff _ r).1 (hres x r hr)
    have := List.Nodup.length_le_of_subset h1 h2
    simpa using this
  · intro d a ha
    have h1 : (annOf k (runA ops oc).terms d).Nodup := (H.sorted k d).nodup
    apply List.Nodup.length_le_of_subset h1
    intro r hr
    exact H.upclosed _ _ rank hcl k d r hr a ha

/-! ### tie machinery: large record sets -/

/-- The one-pass bulk insertion the driver runs for ontologies with tens of thousands of records
(the u16 limit of the calculation, ic close to 0) is the `count`-fold repetition of the Builder
call `add_gene` / `add_omim_disease` / `add_orpha_disease` — the harness makes exactly those calls. -/
theorem C03_bulk_is_repeated_add (o : Onto) (k : Kind) (name : List Char) (first count : Nat) :
    o.addRecRangeFast k name first count = o.addRecRange k name first count :=
  Onto.addRecRangeFast_eq o k name first count

/-! ### non-vacuity -/
example : (icValue (icPair 4 1) : Option ℝ) = some (-Real.log ((1 : ℝ) / 4)) := by
  rw [C03_value]; norm_num
example : (icValue (icPair 0 0) : Option ℝ) = some 0 := by rw [C03_value]; simp
example : Onto.icCalc 70000 3 = .err .tryFromInt := by decide
example : Onto.icCalc 70000 0 = .ok (0, 0) := by decide

end Hpo.C03
