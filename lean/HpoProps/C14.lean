import HpoProofs.SubOntology
/-!
# C14 — sub-ontologies keep shortest leaf-root chains, induced links, phenotype links

Property theorems only (helper lemmas: `HpoProofs/SubOntology.lean`, `HpoProofs/Path.lean`).

Model: `Onto.subOntology o root leaves` (`HpoModel/SubOntology.lean`, mirroring
`Ontology::sub_ontology`): collect the leaves and `path_to_ancestor(leaf, root)`
(`collectLeaves`, `NotImplemented` when there is no path), copy names / flags (`copyTerms`), add
the parent links between retained terms (`linkInduced`), `connect_all_terms`, filter and
re-annotate the records of the three kinds (`copyRecs`), information content, `build_minimal`.

Hypotheses: `PathWF o rank` for the SOURCE ontology (parents resolve, `all_parents` = transitive
closure of `parents` — the conclusion of C01 —, acyclic via a rank function), `root` and every
leaf are terms of the source (`o.get l.id = some l`).  No bound on sizes.  Theorems about a
successful call are stated for every `o'` with `o.subOntology root leaves = .ok o'`.
-/
namespace Hpo.C14
open Hpo Hpo.Onto

variable {o : Onto} {rank : Nat → Nat}

/-
Full statement (not proved in full):

  theorem C14_error_iff : (∃ e, o.subOntology root leaves = .err e) ↔ ∃ l ∈ leaves, ¬ Reach o.par l.id root.id

What is missing for it: that the builder run AFTER the collection stage (`connect_all_terms`,
`annotate_*`, information content) never fails on the induced sub-DAG; that needs the invariants
of C01 / C02 for the builder model and the bound of 65 535 records per kind
(`calculate_information_content`).  Proved: the refusal direction in full, and for the other
direction that the collection stage succeeds with exactly the expected id set, so that the call
equals the builder run `subOntologyOf` on that set.
-/
/-- refusal: if some leaf is neither root nor a descendant of root the call fails with
`NotImplemented`; otherwise the collection stage succeeds and the call is the builder run on the
collected id set (leaves and their kept chains) -/
theorem C14_error_iff_partial (wf : PathWF o rank) (root : Term) (leaves : List Term)
    (hl : ∀ l ∈ leaves, o.get l.id = some l) :
    ((∃ l ∈ leaves, ¬ Reach o.par l.id root.id) → o.subOntology root leaves = .err .notImplemented) ∧
    ((∀ l ∈ leaves, Reach o.par l.id root.id) → ∃ ids,
      o.subOntology root leaves = subOntologyOf o isPhenotype ids ∧ Group.Sorted ids ∧
      ∀ x, x ∈ ids ↔ ∃ l ∈ leaves, x = l.id ∨ x ∈ o.chosenPath root.id l) ∧
    (∀ o', o.subOntology root leaves = .ok o' → ∀ l ∈ leaves, Reach o.par l.id root.id) := by
  have spec := collectLeaves_spec wf root.id leaves [] hl
  refine ⟨fun h => ?_, fun h => ?_, fun o' h => ?_⟩
  · simp [subOntology, subOntologyWith, spec.1 h, Res.bind]
  · obtain ⟨ids, hc, hs, hm⟩ := spec.2 h
    refine ⟨ids, by simp [subOntology, subOntologyWith, hc, Res.bind], hs Group.sorted_nil, ?_⟩
    intro x; rw [hm x]; simp
  · obtain ⟨ids, f⟩ := subOntology_facts wf hl h
    exact f.below

/-- the result contains root and every leaf (for a non-empty collection of leaves) -/
theorem C14_contains (wf : PathWF o rank) {root : Term} {leaves : List Term}
    (hl : ∀ l ∈ leaves, o.get l.id = some l) (hne : leaves ≠ []) {o' : Onto}
    (h : o.subOntology root leaves = .ok o') :
    (o'.get root.id).isSome ∧ ∀ l ∈ leaves, (o'.get l.id).isSome := by
  obtain ⟨ids, f⟩ := subOntology_facts wf hl h
  refine ⟨?_, fun l hlm => (f.mem_iff _).1 ((f.mem _).2 ⟨l, hlm, Or.inl rfl⟩)⟩
  cases leaves with
  | nil => exact absurd rfl hne
  | cons l ls =>
    have hlm : l ∈ l :: ls := List.mem_cons_self
    have hc := (chosenPath_spec wf (hl l hlm) (f.below l hlm)).1
    have hlast := hc.getLast
    apply (f.mem_iff _).1
    apply (f.mem _).2
    refine ⟨l, hlm, ?_⟩
    cases hp : o.chosenPath root.id l with
    | nil => rw [hp] at hlast; simp at hlast; exact Or.inl hlast.symm
    | cons x xs =>
      rw [hp] at hlast
      right
      have : (x :: xs).getLast? = some root.id := by simpa [List.getLast?_cons_cons] using hlast
      exact List.mem_of_getLast? this

/-- only terms that lie on a shortest parent chain from some leaf to root are retained: a retained
id splits a chain from a leaf to root whose total length is the least chain length -/
theorem C14_on_shortest_chain (wf : PathWF o rank) {root : Term} {leaves : List Term}
    (hl : ∀ l ∈ leaves, o.get l.id = some l) {o' : Onto}
    (h : o.subOntology root leaves = .ok o') (x : Nat) (hx : (o'.get x).isSome) :
    ∃ l ∈ leaves, ∃ n m, Chain o.par l.id x n ∧ Chain o.par x root.id m ∧
      Shortest o.par l.id root.id (n + m) := by
  obtain ⟨ids, f⟩ := subOntology_facts wf hl h
  obtain ⟨l, hlm, hx'⟩ := (f.mem x).1 ((f.mem_iff x).2 hx)
  obtain ⟨hc, hs⟩ := chosenPath_spec wf (hl l hlm) (f.below l hlm)
  refine ⟨l, hlm, ?_⟩
  rcases hx' with rfl | hp
  · exact ⟨0, _, Chain.refl _, hs.1, by simpa using hs⟩
  · obtain ⟨n, m, h1, h2, he⟩ := hc.split hp
    exact ⟨n, m, h1, h2, he ▸ hs⟩

/-- every retained term is a term of the source, with its name, obsolete flag and replacement copied -/
theorem C14_copied (wf : PathWF o rank) {root : Term} {leaves : List Term}
    (hl : ∀ l ∈ leaves, o.get l.id = some l) {o' : Onto}
    (h : o.subOntology root leaves = .ok o') (x : Nat) (t' : Term) (hx : o'.get x = some t') :
    ∃ t, o.get x = some t ∧ t'.id = t.id ∧ t'.name = t.name ∧ t'.obsolete = t.obsolete ∧
      t'.replacement = t.replacement := by
  obtain ⟨ids, f⟩ := subOntology_facts wf hl h
  obtain ⟨t, t'', ht, ht'', hs, _⟩ := f.present x ((f.mem_iff x).2 (by simp [hx]))
  rw [hx] at ht''; cases ht''
  exact ⟨t, ht, hs⟩

/-- the parent links (and child links) of the result are exactly the links of the source between
retained terms -/
theorem C14_induced (wf : PathWF o rank) {root : Term} {leaves : List Term}
    (hl : ∀ l ∈ leaves, o.get l.id = some l) {o' : Onto}
    (h : o.subOntology root leaves = .ok o') (c : Nat) (t' : Term) (hc : o'.get c = some t') :
    (∀ p, p ∈ t'.parents ↔ p ∈ o.par c ∧ (o'.get p).isSome) ∧
    (∀ d, d ∈ t'.children ↔ c ∈ o.par d ∧ (o'.get d).isSome) := by
  obtain ⟨ids, f⟩ := subOntology_facts wf hl h
  obtain ⟨t, t'', ht, ht'', _, hp, hch⟩ := f.present c ((f.mem_iff c).2 (by simp [hc]))
  rw [hc] at ht''; cases ht''
  constructor
  · intro p; rw [hp p, Onto.par_eq ht, f.mem_iff]
  · intro d; rw [hch d, f.mem_iff]; exact And.comm

/-- each leaf reaches root in the result at its original distance -/
theorem C14_distance (wf : PathWF o rank) {root : Term} {leaves : List Term}
    (hl : ∀ l ∈ leaves, o.get l.id = some l) {o' : Onto}
    (h : o.subOntology root leaves = .ok o') (l : Term) (hlm : l ∈ leaves) (d : Nat) :
    Shortest o'.par l.id root.id d ↔ Shortest o.par l.id root.id d := by
  obtain ⟨ids, f⟩ := subOntology_facts wf hl h
  obtain ⟨hc, hs⟩ := chosenPath_spec wf (hl l hlm) (f.below l hlm)
  have hc' : ChainPath o'.par l.id (o.chosenPath root.id l) root.id :=
    f.chainPath hc ((f.mem _).2 ⟨l, hlm, Or.inl rfl⟩) (fun z hz => (f.mem _).2 ⟨l, hlm, Or.inr hz⟩)
  have hs' : Shortest o'.par l.id root.id (o.chosenPath root.id l).length :=
    ⟨hc'.chain, fun n hn => hs.2 n (f.chain_sub hn)⟩
  constructor
  · intro hd; rw [hd.unique hs']; exact hs
  · intro hd; rw [hd.unique hs]; exact hs'

/-- the fixed phenotype filter: a retained id is a phenotype id iff the source term is not a
modifier term (`is_modifier`: the term or one of its ancestors is a modifier root); a record passes
iff it is directly annotated to such a retained term -/
theorem C14_record_filter (ids : List Nat) :
    (∀ x, x ∈ phenotypeIds o isPhenotype ids ↔ x ∈ ids ∧ o.isModifier (o.srcTerm x) = false) ∧
    (∀ r : Rec, (Group.bitand r.hpos (phenotypeIds o isPhenotype ids)).isEmpty = false ↔
      ∃ d ∈ r.hpos, d ∈ ids ∧ o.isModifier (o.srcTerm d) = false) := by
  have key : ∀ t : Term, isPhenotype o t = true ↔ o.isModifier t = false := by
    intro t
    simp only [isPhenotype, isModifier, List.isEmpty_iff]
    constructor
    · intro h
      apply Bool.eq_false_iff.2
      intro hm
      obtain ⟨m, hm1, hm2⟩ := List.any_eq_true.1 hm
      have : m ∈ Group.bitand (Group.addId t.allParents t.id) o.modifier :=
        (Group.mem_bitand _ _ _).2 ⟨(Group.contains_iff _ _).1 hm2, hm1⟩
      rw [h] at this; cases this
    · intro h
      apply List.eq_nil_iff_forall_not_mem.2
      intro m hm
      obtain ⟨h1, h2⟩ := (Group.mem_bitand _ _ _).1 hm
      have : (o.modifier.any fun m => Group.contains (Group.addId t.allParents t.id) m) = true :=
        List.any_eq_true.2 ⟨m, h2, (Group.contains_iff _ _).2 h1⟩
      rw [this] at h; cases h
  have mem : ∀ (l : List Nat) x, x ∈ phenotypeIds o isPhenotype l ↔ x ∈ l ∧ o.isModifier (o.srcTerm x) = false := by
    intro l x
    induction l with
    | nil => simp [phenotypeIds]
    | cons i is ih =>
      simp only [phenotypeIds]
      by_cases hp : isPhenotype o (o.srcTerm i) = true
      · simp only [hp, if_true, List.mem_cons, ih]
        constructor
        · rintro (rfl | ⟨h1, h2⟩)
          · exact ⟨Or.inl rfl, (key _).1 hp⟩
          · exact ⟨Or.inr h1, h2⟩
        · rintro ⟨rfl | h1, h2⟩
          · exact Or.inl rfl
          · exact Or.inr ⟨h1, h2⟩
      · have hp' : isPhenotype o (o.srcTerm i) = false := by simpa using hp
        simp only [hp', Bool.false_eq_true, if_false, List.mem_cons]
        rw [ih]
        constructor
        · rintro ⟨h1, h2⟩; exact ⟨Or.inr h1, h2⟩
        · rintro ⟨rfl | h1, h2⟩
          · exact absurd ((key _).2 h2) hp
          · exact ⟨h1, h2⟩
  refine ⟨mem ids, fun r => ?_⟩
  constructor
  · intro h
    cases hb : Group.bitand r.hpos (phenotypeIds o isPhenotype ids) with
    | nil => rw [hb] at h; cases h
    | cons d ds =>
      have : d ∈ Group.bitand r.hpos (phenotypeIds o isPhenotype ids) := by rw [hb]; exact List.mem_cons_self
      obtain ⟨h1, h2⟩ := (Group.mem_bitand _ _ _).1 this
      exact ⟨d, h1, (mem ids d).1 h2⟩
  · rintro ⟨d, h1, h2⟩
    have : d ∈ Group.bitand r.hpos (phenotypeIds o isPhenotype ids) :=
      (Group.mem_bitand _ _ _).2 ⟨h1, (mem ids d).2 h2⟩
    cases hb : Group.bitand r.hpos (phenotypeIds o isPhenotype ids) with
    | nil => rw [hb] at this; cases this
    | cons _ _ => rfl

/-- records (genes, OMIM diseases, ORPHA diseases; `k` is the kind): a record of the source is
kept iff it is directly annotated to at least one retained term that is not a modifier term; every
record of the result comes from a source record with the same id and name, and is linked to
exactly the retained subset of that record's direct terms (as a strictly ascending group).
Hypothesis on the source: record ids are unique per kind (they are keys of a hash map). -/
theorem C14_records (wf : PathWF o rank) {root : Term} {leaves : List Term}
    (hl : ∀ l ∈ leaves, o.get l.id = some l) (hrecs : ∀ k, ((o.recs k).map (·.id)).Nodup) {o' : Onto}
    (h : o.subOntology root leaves = .ok o') (k : Kind) :
    (∀ r ∈ o.recs k, (∃ r' ∈ o'.recs k, r'.id = r.id) ↔
      ∃ d ∈ r.hpos, (o'.get d).isSome ∧ o.isModifier (o.srcTerm d) = false) ∧
    (∀ r' ∈ o'.recs k, ∃ r ∈ o.recs k, r'.id = r.id ∧ r'.name = r.name ∧
      (∀ t, t ∈ r'.hpos ↔ t ∈ r.hpos ∧ (o'.get t).isSome) ∧ Group.Sorted r'.hpos) := by
  obtain ⟨ids, f⟩ := subOntology_facts wf hl h
  have hid : ∀ i ∈ ids, (o.srcTerm i).id = i := by
    intro i hi
    obtain ⟨t, ht⟩ := f.resolves i hi
    rw [srcTerm_of_get ht]; exact Onto.get_id_p ht
  have e := subOntologyOf_recs f.of f.sorted.nodup hid hrecs k
  obtain ⟨fmem, fpass⟩ := C14_record_filter (o := o) ids
  have hsub : ∀ x ∈ phenotypeIds o isPhenotype ids, x ∈ ids := fun x hx => ((fmem x).1 hx).1
  constructor
  · intro r hr
    constructor
    · rintro ⟨r', hr', hid'⟩
      rw [e] at hr'
      obtain ⟨r2, hr2, hk⟩ := List.mem_filterMap.1 hr'
      obtain ⟨k1, _, _, k4⟩ := keepRec_some hk
      have : r2 = r := eq_of_nodup_map_id (hrecs k) hr2 hr (k1.symm.trans hid')
      subst this
      obtain ⟨d, hd, hdi, hdm⟩ := (fpass r2).1 k4
      exact ⟨d, hd, (f.mem_iff d).1 hdi, hdm⟩
    · rintro ⟨d, hd, hdi, hdm⟩
      have := (fpass r).2 ⟨d, hd, (f.mem_iff d).2 hdi, hdm⟩
      obtain ⟨r', hk⟩ := keepRec_isSome hsub this
      exact ⟨r', by rw [e]; exact List.mem_filterMap.2 ⟨r, hr, hk⟩, (keepRec_some hk).1⟩
  · intro r' hr'
    rw [e] at hr'
    obtain ⟨r, hr, hk⟩ := List.mem_filterMap.1 hr'
    obtain ⟨k1, k2, k3, _⟩ := keepRec_some hk
    refine ⟨r, hr, k1, k2, ?_, ?_⟩
    · intro t
      rw [k3, Group.mem_insertAll, Group.mem_bitand, ← f.mem_iff]
      simp
    · rw [k3]; exact Group.sorted_insertAll _ _ Group.sorted_nil

/-- The defect that was repaired (`fix: sub_ontology treats a modifier root itself as a modifier
term`): in `modOnto` (root `1` with the modifier root `5` and the phenotype branch `118 → 200`;
gene `7` annotated only to the modifier root `5`) with all four terms retained, the filter as
pinned (`isPhenotypePrefix`: `all_parents & modifier` without the term itself) counts the modifier
root `5` as a phenotype term, so gene `7` passes; the filter as it stands excludes `5` and gene `7`. -/
theorem C14_modifier_root_counterexample :
    ∃ t5, modOnto.get 5 = some t5 ∧ modOnto.isModifier t5 = true ∧
      phenotypeIds modOnto isPhenotypePrefix [1, 5, 118, 200] = [1, 5, 118, 200] ∧
      (Group.bitand [5] (phenotypeIds modOnto isPhenotypePrefix [1, 5, 118, 200])).isEmpty = false ∧
      phenotypeIds modOnto isPhenotype [1, 5, 118, 200] = [1, 118, 200] ∧
      (Group.bitand [5] (phenotypeIds modOnto isPhenotype [1, 5, 118, 200])).isEmpty = true := by
  refine ⟨_, rfl, ?_, ?_, ?_, ?_, ?_⟩ <;> decide

/-- non-vacuity: the hypotheses hold on `modOnto` (a modifier branch, a phenotype branch, an
obsolete term with a replacement, genes on a modifier root and on a phenotype term) -/
example : PathWF modOnto modRank := modOnto_wf

example : ∀ k, ((modOnto.recs k).map (·.id)).Nodup := by intro k; cases k <;> decide

example : ∃ rt l, modOnto.get 1 = some rt ∧ modOnto.get 200 = some l ∧
    collectLeaves modOnto rt.id [l] [] = .ok [1, 118, 200] := ⟨_, _, rfl, rfl, by decide⟩

example : ∃ rt l, modOnto.get 118 = some rt ∧ modOnto.get 5 = some l ∧
    (match modOnto.subOntology rt [l] with | .err .notImplemented => true | _ => false) = true :=
  ⟨_, _, rfl, rfl, by decide⟩

end Hpo.C14
