import HpoProofs.SubOntologyRun
/-!
# C14 — sub-ontologies keep shortest leaf-root chains, induced links, phenotype links

Property theorems only (helper lemmas: `HpoProofs/SubOntology.lean`, `HpoProofs/SubOntologyRun.lean`,
`HpoProofs/Path.lean`).

Model: `Onto.subOntology o root leaves` (`HpoModel/SubOntology.lean`, mirroring
`Ontology::sub_ontology`): collect the leaves and `path_to_ancestor(leaf, root)`
(`collectLeaves`, `NotImplemented` when there is no path), copy names / flags (`copyTerms`), add
the parent links between retained terms (`linkInduced`), `connect_all_terms`, filter and
re-annotate the records of the three kinds (`copyRecs`), information content, `build_minimal`.

Hypotheses: `PathWF o rank` for the SOURCE ontology (parents resolve, `all_parents` = transitive
closure of `parents` — the conclusion of C01 —, acyclic via a rank function), `root` and every
leaf are terms of the source (`o.get l.id = some l`).  No bound on sizes, except in
`C14_error_iff`: at most 65 535 records per kind in the source (what
`calculate_information_content` needs in order not to fail with `TryFromIntError`).  Theorems about
a successful call are stated for every `o'` with `o.subOntology root leaves = .ok o'`.
The builder run after the collection stage is analysed in `HpoProofs/SubOntologyRun.lean`
(`subOntologyOf_run`, `subOntologyOf_total`, `runFacts_of_run`) on top of C01–C03.
-/
namespace Hpo.C14
open Hpo Hpo.Onto

variable {o : Onto} {rank : Nat → Nat}

/-- **Refusal iff a leaf is outside root's subtree; otherwise success.**  For a well-formed source
(`PathWF o rank`: parents resolve, `all_parents` is the closure — the conclusion of C01 —, acyclic),
leaves that are terms of the source, and at most 65 535 records per kind (the bound
`calculate_information_content` needs: counts are converted through `u16`), the call fails with
`NotImplemented` iff some leaf is neither root nor a descendant of root, and returns `Ok` iff every
leaf is root or a descendant of root.  (So no other outcome — other error, panic, divergence —
is possible.)  The builder run after the collection stage never fails: `copyTerms` is a `runB` of
`new_term` calls on distinct ids < 10^7, `linkInduced` a `runB` of successful `add_parent` calls,
the induced relation is irreflexive so `connect_all_terms` succeeds (C01), every `annotate_*` is on
a retained term (C02), and the result has at most as many records per kind as the source (C03). -/
theorem C14_error_iff (wf : PathWF o rank) (root : Term) (leaves : List Term)
    (hl : ∀ l ∈ leaves, o.get l.id = some l) (hcount : ∀ k, (o.recs k).length ≤ 65535) :
    (o.subOntology root leaves = .err .notImplemented ↔ ∃ l ∈ leaves, ¬ Reach o.par l.id root.id) ∧
    ((∃ o', o.subOntology root leaves = .ok o') ↔ ∀ l ∈ leaves, Reach o.par l.id root.id) := by
  have spec := collectLeaves_spec wf root.id leaves [] hl
  have hok : (∀ l ∈ leaves, Reach o.par l.id root.id) → ∃ o', o.subOntology root leaves = .ok o' := by
    intro h
    obtain ⟨ids, hc, hs, hm⟩ := spec.2 h
    have hmem : ∀ x, x ∈ ids ↔ ∃ l ∈ leaves, x = l.id ∨ x ∈ o.chosenPath root.id l := by
      intro x; rw [hm x]; simp
    have hres : ∀ x ∈ ids, ∃ t, o.get x = some t := by
      intro x hx
      obtain ⟨l, hlm, rfl | hp⟩ := (hmem x).1 hx
      · exact ⟨l, hl l hlm⟩
      · exact (chosenPath_spec wf (hl l hlm) (h l hlm)).1.mem_resolves wf hp ⟨l, hl l hlm⟩
    obtain ⟨o', ho'⟩ := subOntologyOf_total wf isPhenotype (hs Group.sorted_nil).nodup hres hcount
    exact ⟨o', by simp [subOntology, subOntologyWith, hc, Res.bind, ho']⟩
  have herr : (∃ l ∈ leaves, ¬ Reach o.par l.id root.id) → o.subOntology root leaves = .err .notImplemented := by
    intro h; simp [subOntology, subOntologyWith, spec.1 h, Res.bind]
  refine ⟨⟨fun h => ?_, herr⟩, ⟨fun h => ?_, hok⟩⟩
  · apply Classical.byContradiction
    intro hn
    have hall : ∀ l ∈ leaves, Reach o.par l.id root.id := by
      intro l hlm
      apply Classical.byContradiction
      intro hr; exact hn ⟨l, hlm, hr⟩
    obtain ⟨o', ho'⟩ := hok hall
    rw [ho'] at h; cases h
  · obtain ⟨o', ho'⟩ := h
    obtain ⟨ids, f⟩ := subOntology_facts wf hl ho'
    exact f.below

/-- the collection stage: when every leaf is root or below root, the call is the builder run
`subOntologyOf` on the collected id set — the leaves and their kept chains, strictly ascending -/
theorem C14_collection_stage (wf : PathWF o rank) (root : Term) (leaves : List Term)
    (hl : ∀ l ∈ leaves, o.get l.id = some l) (h : ∀ l ∈ leaves, Reach o.par l.id root.id) :
    ∃ ids, o.subOntology root leaves = subOntologyOf o isPhenotype ids ∧ Group.Sorted ids ∧
      ∀ x, x ∈ ids ↔ ∃ l ∈ leaves, x = l.id ∨ x ∈ o.chosenPath root.id l := by
  obtain ⟨ids, hc, hs, hm⟩ := (collectLeaves_spec wf root.id leaves [] hl).2 h
  refine ⟨ids, by simp [subOntology, subOntologyWith, hc, Res.bind], hs Group.sorted_nil, ?_⟩
  intro x; rw [hm x]; simp

/-- **A successful call is a builder run**: the result is `build_minimal` of
`calculate_information_content` of an `annotate_*` history (calls `(kind, id, name)` of source
records on retained terms) on `connect_all_terms` of a `new_term` / `add_parent` history whose
terms are exactly the retained ids and whose is_a relation is acyclic.  Every theorem of C01, C02,
C03, C15 and C16 about builder runs therefore applies to the result verbatim. -/
theorem C14_is_builder_run (wf : PathWF o rank) {root : Term} {leaves : List Term}
    (hl : ∀ l ∈ leaves, o.get l.id = some l) {o' : Onto}
    (h : o.subOntology root leaves = .ok o') :
    ∃ tops aops b2 b3 b7, runB tops {} = some b2 ∧ C01.Acyclic b2 ∧ b2.connectAll = .ok b3 ∧
      (∀ j, (getT b2.terms j).isSome ↔ (o'.get j).isSome) ∧
      (∀ op ∈ aops, ∃ k, ∃ r ∈ o.recs k, ∃ t, (o'.get t).isSome ∧ op = .annotate k r.id r.name t) ∧
      (runA aops b3).calcIc = .ok b7 ∧ o' = b7.buildMinimal := by
  obtain ⟨ids, tops, aops, b2, b3, b7, f, hrun, pres, hac, hc, hops, h7, e⟩ := subOntology_run wf hl h
  refine ⟨tops, aops, b2, b3, b7, hrun, hac, hc, ?_, ?_, h7, e⟩
  · intro j; rw [pres.mem j]; exact f.mem_iff j
  · intro op hop
    obtain ⟨k, r, hr, t, ht, e'⟩ := hops op hop
    exact ⟨k, r, hr, t, (f.mem_iff t).1 ht, e'⟩

/-- **The result again satisfies the conclusions of C01–C03** (it is a builder run):
* C01 — the ancestor group of every retained term is exactly the transitive closure of the induced
  parent relation (links of the source between retained terms), strictly ascending;
* C02 — a record id is on a term iff the record is directly annotated to the term or to one of its
  descendants; record ids on terms and direct terms of records resolve in the result;
* C03 — for every term and kind the stored pair is `(n, N)` (`(0,0)` if one is 0) with `n` the
  number of records on the term and `N` the number of records of the kind, `n ≤ N`, and `n` does not
  decrease from a term to its ancestors (so the information content −ln(n/N) of `C03_value` is
  defined, non-negative and monotone). -/
theorem C14_again (wf : PathWF o rank) {root : Term} {leaves : List Term}
    (hl : ∀ l ∈ leaves, o.get l.id = some l) {o' : Onto}
    (h : o.subOntology root leaves = .ok o') :
    (∀ x t', o'.get x = some t' →
      (∀ a, a ∈ t'.allParents ↔
        Relation.TransGen (fun c p => p ∈ o.par c ∧ (o'.get c).isSome ∧ (o'.get p).isSome) x a) ∧
      Group.Sorted t'.allParents) ∧
    (∀ k x t', o'.get x = some t' →
      (∀ r, r ∈ t'.ann k ↔ ∃ rc d, getR (o'.recs k) r = some rc ∧ d ∈ rc.hpos ∧
        (d = x ∨ ∃ td, o'.get d = some td ∧ x ∈ td.allParents)) ∧
      (∀ r ∈ t'.ann k, (getR (o'.recs k) r).isSome) ∧ Group.Sorted (t'.ann k)) ∧
    (∀ k r rc, getR (o'.recs k) r = some rc → ∀ d ∈ rc.hpos, (o'.get d).isSome) ∧
    (∀ k x t', o'.get x = some t' →
      (t'.ann k).length ≤ (o'.recs k).length ∧
      t'.ic k = icPair (o'.recs k).length (t'.ann k).length ∧
      ∀ a ta, a ∈ t'.allParents → o'.get a = some ta → (t'.ann k).length ≤ (ta.ann k).length) := by
  obtain ⟨ids, tops, aops, b2, b3, b7, f, hrun, pres, hac, hc, _, h7, e⟩ := subOntology_run wf hl h
  have F := runFacts_of_run tops b2 b3 hrun hac hc aops b7 h7
  rw [← e] at F
  have hget : ∀ j, o'.get j = getT o'.terms j := fun j => get_eq_getT o' j F.small
  have hrel : (fun c p => p ∈ parentsOf o'.terms c) =
      fun c p => p ∈ o.par c ∧ (o'.get c).isSome ∧ (o'.get p).isSome := by
    funext c p
    rw [← par_eq_parentsOf F.small c]
    apply propext
    rw [f.par_iff c p, f.mem_iff c, f.mem_iff p]
    constructor
    · rintro ⟨a, b, c⟩; exact ⟨c, a, b⟩
    · rintro ⟨a, b, c⟩; exact ⟨b, c, a⟩
  refine ⟨?_, ?_, ?_, ?_⟩
  · intro x t' hx
    rw [hget] at hx
    have hall : allOf o'.terms x = t'.allParents := by simp [allOf, hx]
    refine ⟨fun a => ?_, ?_⟩
    · rw [← hall, ← hrel]; exact F.closure x (by simp [hx]) a
    · rw [← hall]; exact F.sortedAll x
  · intro k x t' hx
    rw [hget] at hx
    have hann : annOf k o'.terms x = t'.ann k := by simp [annOf, hx]
    refine ⟨fun r => ?_, ?_, ?_⟩
    · rw [← hann, F.linked k x r]
      constructor
      · rintro ⟨d, hd, hu⟩
        obtain ⟨rc, hrc, hdm⟩ := mem_hposOf.1 hd
        refine ⟨rc, d, hrc, hdm, ?_⟩
        rcases hu with hu | hu
        · exact Or.inl hu
        · obtain ⟨td, htd, hxm⟩ := mem_allOf.1 hu
          exact Or.inr ⟨td, by rw [hget]; exact htd, hxm⟩
      · rintro ⟨rc, d, hrc, hdm, hu⟩
        refine ⟨d, mem_hposOf.2 ⟨rc, hrc, hdm⟩, ?_⟩
        rcases hu with hu | ⟨td, htd, hxm⟩
        · exact Or.inl hu
        · exact Or.inr (mem_allOf.2 ⟨td, by rw [← hget]; exact htd, hxm⟩)
    · intro r hr; rw [← hann] at hr; exact F.annRecs k x r hr
    · rw [← hann]; exact F.sortedAnn k x
  · intro k r rc hrc d hd
    rw [hget]; exact F.recTerms k r d (mem_hposOf.2 ⟨rc, hrc, hd⟩)
  · intro k x t' hx
    rw [hget] at hx
    have hann : annOf k o'.terms x = t'.ann k := by simp [annOf, hx]
    refine ⟨?_, F.ic k x t' hx, ?_⟩
    · rw [← hann]; exact F.count_le k x
    · intro a ta ha hta
      rw [hget] at hta
      have hann' : annOf k o'.terms a = ta.ann k := by simp [annOf, hta]
      rw [← hann, ← hann']
      exact F.count_mono k x a (mem_allOf.2 ⟨t', hx, ha⟩)

/-- … and it is again a well-formed ontology in the sense of C11 and of this file: the hypotheses
`PathWF`, "at most 65 535 records per kind" and "record ids unique per kind" of the theorems here
hold for the result (when the count bound holds for the source), so distances / paths (C11) and
further `sub_ontology` calls on the result are covered by the same theorems -/
theorem C14_result_wf (wf : PathWF o rank) {root : Term} {leaves : List Term}
    (hl : ∀ l ∈ leaves, o.get l.id = some l) {o' : Onto}
    (h : o.subOntology root leaves = .ok o') :
    (∃ rank', PathWF o' rank') ∧ (∀ k, ((o'.recs k).map (·.id)).Nodup) ∧
    (∀ k, (o'.recs k).length ≤ (o.recs k).length) := by
  obtain ⟨ids, tops, aops, b2, b3, b7, f, hrun, pres, hac, hc, hops, h7, e⟩ := subOntology_run wf hl h
  have F := runFacts_of_run tops b2 b3 hrun hac hc aops b7 h7
  rw [← e] at F
  refine ⟨F.pathWF, F.recIds, fun k => ?_⟩
  rw [e]
  exact run_count tops b2 b3 hrun hac hc aops b7 h7 o (fun op hop => by
    obtain ⟨k, r, hr, t, _, e'⟩ := hops op hop
    exact ⟨k, r, hr, t, e'⟩) k

/-- the result contains root and every leaf (for a non-empty collection of leaves) -/
theorem C14_contains (wf : PathWF o rank) {root : Term} {leaves : List Term}
    (hl : ∀ l ∈ leaves, o.get l.id = some l) (hne : leaves ≠ []) {o' : Onto}
    (h : o.subOntology root leaves = .ok o') :
    (o'.get root.id).isSome ∧ ∀ l ∈ leaves, (o'.get l.id).isSome := by
  obtain ⟨ids, f⟩ := subOntology_facts wf hl h
  refine ⟨?_, fun l hlm => (f.mem_iff _).1 ((f.mem _).2 ⟨l, hlm, Or.inl rfl⟩)⟩
  cases leaves with
  | nil => exact absurd rfl hne
  | cons l ls =>
    have hlm : l ∈ l :: ls := List.mem_cons_self
    have hc := (chosenPath_spec wf (hl l hlm) (f.below l hlm)).1
    have hlast := hc.getLast
    apply (f.mem_iff _).1
    apply (f.mem _).2
    refine ⟨l, hlm, ?_⟩
    cases hp : o.chosenPath root.id l with
    | nil => rw [hp] at hlast; simp at hlast; exact Or.inl hlast.symm
    | cons x xs =>
      rw [hp] at hlast
      right
      have : (x :: xs).getLast? = some root.id := by simpa [List.getLast?_cons_cons] using hlast
      exact List.mem_of_getLast? this

/-- only terms that lie on a shortest parent chain from some leaf to root are retained: a retained
id splits a chain from a leaf to root whose total length is the least chain length -/
theorem C14_on_shortest_chain (wf : PathWF o rank) {root : Term} {leaves : List Term}
    (hl : ∀ l ∈ leaves, o.get l.id = some l) {o' : Onto}
    (h : o.subOntology root leaves = .ok o') (x : Nat) (hx : (o'.get x).isSome) :
    ∃ l ∈ leaves, ∃ n m, Chain o.par l.id x n ∧ Chain o.par x root.id m ∧
      Shortest o.par l.id root.id (n + m) := by
  obtain ⟨ids, f⟩ := subOntology_facts wf hl h
  obtain ⟨l, hlm, hx'⟩ := (f.mem x).1 ((f.mem_iff x).2 hx)
  obtain ⟨hc, hs⟩ := chosenPath_spec wf (hl l hlm) (f.below l hlm)
  refine ⟨l, hlm, ?_⟩
  rcases hx' with rfl | hp
  · exact ⟨0, _, Chain.refl _, hs.1, by simpa using hs⟩
  · obtain ⟨n, m, h1, h2, he⟩ := hc.split hp
    exact ⟨n, m, h1, h2, he ▸ hs⟩

/-- every retained term is a term of the source, with its name, obsolete flag and replacement copied -/
theorem C14_copied (wf : PathWF o rank) {root : Term} {leaves : List Term}
    (hl : ∀ l ∈ leaves, o.get l.id = some l) {o' : Onto}
    (h : o.subOntology root leaves = .ok o') (x : Nat) (t' : Term) (hx : o'.get x = some t') :
    ∃ t, o.get x = some t ∧ t'.id = t.id ∧ t'.name = t.name ∧ t'.obsolete = t.obsolete ∧
      t'.replacement = t.replacement := by
  obtain ⟨ids, f⟩ := subOntology_facts wf hl h
  obtain ⟨t, t'', ht, ht'', hs, _⟩ := f.present x ((f.mem_iff x).2 (by simp [hx]))
  rw [hx] at ht''; cases ht''
  exact ⟨t, ht, hs⟩

/-- the parent links (and child links) of the result are exactly the links of the source between
retained terms -/
theorem C14_induced (wf : PathWF o rank) {root : Term} {leaves : List Term}
    (hl : ∀ l ∈ leaves, o.get l.id = some l) {o' : Onto}
    (h : o.subOntology root leaves = .ok o') (c : Nat) (t' : Term) (hc : o'.get c = some t') :
    (∀ p, p ∈ t'.parents ↔ p ∈ o.par c ∧ (o'.get p).isSome) ∧
    (∀ d, d ∈ t'.children ↔ c ∈ o.par d ∧ (o'.get d).isSome) := by
  obtain ⟨ids, f⟩ := subOntology_facts wf hl h
  obtain ⟨t, t'', ht, ht'', _, hp, hch⟩ := f.present c ((f.mem_iff c).2 (by simp [hc]))
  rw [hc] at ht''; cases ht''
  constructor
  · intro p; rw [hp p, Onto.par_eq ht, f.mem_iff]
  · intro d; rw [hch d, f.mem_iff]; exact And.comm

/-- each leaf reaches root in the result at its original distance -/
theorem C14_distance (wf : PathWF o rank) {root : Term} {leaves : List Term}
    (hl : ∀ l ∈ leaves, o.get l.id = some l) {o' : Onto}
    (h : o.subOntology root leaves = .ok o') (l : Term) (hlm : l ∈ leaves) (d : Nat) :
    Shortest o'.par l.id root.id d ↔ Shortest o.par l.id root.id d := by
  obtain ⟨ids, f⟩ := subOntology_facts wf hl h
  obtain ⟨hc, hs⟩ := chosenPath_spec wf (hl l hlm) (f.below l hlm)
  have hc' : ChainPath o'.par l.id (o.chosenPath root.id l) root.id :=
    f.chainPath hc ((f.mem _).2 ⟨l, hlm, Or.inl rfl⟩) (fun z hz => (f.mem _).2 ⟨l, hlm, Or.inr hz⟩)
  have hs' : Shortest o'.par l.id root.id (o.chosenPath root.id l).length :=
    ⟨hc'.chain, fun n hn => hs.2 n (f.chain_sub hn)⟩
  constructor
  · intro hd; rw [hd.unique hs']; exact hs
  · intro hd; rw [hd.unique hs]; exact hs'

/-- the fixed phenotype filter: a retained id is a phenotype id iff the source term is not a
modifier term (`is_modifier`: the term or one of its ancestors is a modifier root); a record passes
iff it is directly annotated to such a retained term -/
theorem C14_record_filter (ids : List Nat) :
    (∀ x, x ∈ phenotypeIds o isPhenotype ids ↔ x ∈ ids ∧ o.isModifier (o.srcTerm x) = false) ∧
    (∀ r : Rec, (Group.bitand r.hpos (phenotypeIds o isPhenotype ids)).isEmpty = false ↔
      ∃ d ∈ r.hpos, d ∈ ids ∧ o.isModifier (o.srcTerm d) = false) := by
  have key : ∀ t : Term, isPhenotype o t = true ↔ o.isModifier t = false := by
    intro t
    simp only [isPhenotype, isModifier, List.isEmpty_iff]
    constructor
    · intro h
      apply Bool.eq_false_iff.2
      intro hm
      obtain ⟨m, hm1, hm2⟩ := List.any_eq_true.1 hm
      have : m ∈ Group.bitand (Group.addId t.allParents t.id) o.modifier :=
        (Group.mem_bitand _ _ _).2 ⟨(Group.contains_iff _ _).1 hm2, hm1⟩
      rw [h] at this; cases this
    · intro h
      apply List.eq_nil_iff_forall_not_mem.2
      intro m hm
      obtain ⟨h1, h2⟩ := (Group.mem_bitand _ _ _).1 hm
      have : (o.modifier.any fun m => Group.contains (Group.addId t.allParents t.id) m) = true :=
        List.any_eq_true.2 ⟨m, h2, (Group.contains_iff _ _).2 h1⟩
      rw [this] at h; cases h
  have mem : ∀ (l : List Nat) x, x ∈ phenotypeIds o isPhenotype l ↔ x ∈ l ∧ o.isModifier (o.srcTerm x) = false := by
    intro l x
    induction l with
    | nil => simp [phenotypeIds]
    | cons i is ih =>
      simp only [phenotypeIds]
      by_cases hp : isPhenotype o (o.srcTerm i) = true
      · simp only [hp, if_true, List.mem_cons, ih]
        constructor
        · rintro (rfl | ⟨h1, h2⟩)
          · exact ⟨Or.inl rfl, (key _).1 hp⟩
          · exact ⟨Or.inr h1, h2⟩
        · rintro ⟨rfl | h1, h2⟩
          · exact Or.inl rfl
          · exact Or.inr ⟨h1, h2⟩
      · have hp' : isPhenotype o (o.srcTerm i) = false := by simpa using hp
        simp only [hp', Bool.false_eq_true, if_false, List.mem_cons]
        rw [ih]
        constructor
        · rintro ⟨h1, h2⟩; exact ⟨Or.inr h1, h2⟩
        · rintro ⟨rfl | h1, h2⟩
          · exact absurd ((key _).2 h2) hp
          · exact ⟨h1, h2⟩
  refine ⟨mem ids, fun r => ?_⟩
  constructor
  · intro h
    cases hb : Group.bitand r.hpos (phenotypeIds o isPhenotype ids) with
    | nil => rw [hb] at h; cases h
    | cons d ds =>
      have : d ∈ Group.bitand r.hpos (phenotypeIds o isPhenotype ids) := by rw [hb]; exact List.mem_cons_self
      obtain ⟨h1, h2⟩ := (Group.mem_bitand _ _ _).1 this
      exact ⟨d, h1, (mem ids d).1 h2⟩
  · rintro ⟨d, h1, h2⟩
    have : d ∈ Group.bitand r.hpos (phenotypeIds o isPhenotype ids) :=
      (Group.mem_bitand _ _ _).2 ⟨h1, (mem ids d).2 h2⟩
    cases hb : Group.bitand r.hpos (phenotypeIds o isPhenotype ids) with
    | nil => rw [hb] at this; cases this
    | cons _ _ => rfl

/-- records (genes, OMIM diseases, ORPHA diseases; `k` is the kind): a record of the source is
kept iff it is directly annotated to at least one retained term that is not a modifier term; every
record of the result comes from a source record with the same id and name, and is linked to
exactly the retained subset of that record's direct terms (as a strictly ascending group).
Hypothesis on the source: record ids are unique per kind (they are keys of a hash map). -/
theorem C14_records (wf : PathWF o rank) {root : Term} {leaves : List Term}
    (hl : ∀ l ∈ leaves, o.get l.id = some l) (hrecs : ∀ k, ((o.recs k).map (·.id)).Nodup) {o' : Onto}
    (h : o.subOntology root leaves = .ok o') (k : Kind) :
    (∀ r ∈ o.recs k, (∃ r' ∈ o'.recs k, r'.id = r.id) ↔
      ∃ d ∈ r.hpos, (o'.get d).isSome ∧ o.isModifier (o.srcTerm d) = false) ∧
    (∀ r' ∈ o'.recs k, ∃ r ∈ o.recs k, r'.id = r.id ∧ r'.name = r.name ∧
      (∀ t, t ∈ r'.hpos ↔ t ∈ r.hpos ∧ (o'.get t).isSome) ∧ Group.Sorted r'.hpos) := by
  obtain ⟨ids, f⟩ := subOntology_facts wf hl h
  have hid : ∀ i ∈ ids, (o.srcTerm i).id = i := by
    intro i hi
    obtain ⟨t, ht⟩ := f.resolves i hi
    rw [srcTerm_of_get ht]; exact Onto.get_id_p ht
  have e := subOntologyOf_recs f.of f.sorted.nodup hid hrecs k
  obtain ⟨fmem, fpass⟩ := C14_record_filter (o := o) ids
  have hsub : ∀ x ∈ phenotypeIds o isPhenotype ids, x ∈ ids := fun x hx => ((fmem x).1 hx).1
  constructor
  · intro r hr
    constructor
    · rintro ⟨r', hr', hid'⟩
      rw [e] at hr'
      obtain ⟨r2, hr2, hk⟩ := List.mem_filterMap.1 hr'
      obtain ⟨k1, _, _, k4⟩ := keepRec_some hk
      have : r2 = r := eq_of_nodup_map_id (hrecs k) hr2 hr (k1.symm.trans hid')
      subst this
      obtain ⟨d, hd, hdi, hdm⟩ := (fpass r2).1 k4
      exact ⟨d, hd, (f.mem_iff d).1 hdi, hdm⟩
    · rintro ⟨d, hd, hdi, hdm⟩
      have := (fpass r).2 ⟨d, hd, (f.mem_iff d).2 hdi, hdm⟩
      obtain ⟨r', hk⟩ := keepRec_isSome hsub this
      exact ⟨r', by rw [e]; exact List.mem_filterMap.2 ⟨r, hr, hk⟩, (keepRec_some hk).1⟩
  · intro r' hr'
    rw [e] at hr'
    obtain ⟨r, hr, hk⟩ := List.mem_filterMap.1 hr'
    obtain ⟨k1, k2, k3, _⟩ := keepRec_some hk
    refine ⟨r, hr, k1, k2, ?_, ?_⟩
    · intro t
      rw [k3, Group.mem_insertAll, Group.mem_bitand, ← f.mem_iff]
      simp
    · rw [k3]; exact Group.sorted_insertAll _ _ Group.sorted_nil

/-- The defect that was repaired (`fix: sub_ontology treats a modifier root itself as a modifier
term`), end to end.  `modOnto`: root `1` with the modifier root `5` and the phenotype branch
`118 → 200`; gene `7` is annotated only to the modifier root `5`, gene `8` to `5` and to the
phenotype term `200`.  `sub_ontology(root = 1, leaves = [5, 200])` retains all four terms.
The function as pinned (`subOntologyPrefix`, filter `all_parents & modifier` without the term
itself) counts the retained modifier root `5` as a phenotype term and KEEPS gene `7`; the function
as it stands (`subOntology`) drops gene `7` and keeps gene `8`.  Both calls are evaluated in full
(collection, copy, links, `connect_all_terms`, annotations, information content). -/
theorem C14_modifier_root_counterexample :
    modOnto.get 1 = some modRoot ∧ modOnto.get 5 = some modLeaf5 ∧ modOnto.get 200 = some modLeaf200 ∧
    modOnto.isModifier modLeaf5 = true ∧
    (∀ g ∈ modOnto.genes, g.id = 7 → g.hpos = [5]) ∧
    -- the filter alone
    phenotypeIds modOnto isPhenotypePrefix [1, 5, 118, 200] = [1, 5, 118, 200] ∧
    (Group.bitand [5] (phenotypeIds modOnto isPhenotypePrefix [1, 5, 118, 200])).isEmpty = false ∧
    phenotypeIds modOnto isPhenotype [1, 5, 118, 200] = [1, 118, 200] ∧
    (Group.bitand [5] (phenotypeIds modOnto isPhenotype [1, 5, 118, 200])).isEmpty = true ∧
    -- the whole calls
    modOnto.subOntologyPrefix modRoot [modLeaf5, modLeaf200] = .ok modSubPrefix ∧
    modOnto.subOntology modRoot [modLeaf5, modLeaf200] = .ok modSub ∧
    modSubPrefix.terms.map (·.id) = [1, 5, 118, 200] ∧ modSub.terms.map (·.id) = [1, 5, 118, 200] ∧
    getR modSubPrefix.genes 7 = some { id := 7, name := ['G'], hpos := [5] } ∧
    getR modSub.genes 7 = none ∧
    getR modSub.genes 8 = some { id := 8, name := ['H'], hpos := [5, 200] } ∧
    annOf .gene modSubPrefix.terms 5 = [7, 8] ∧ annOf .gene modSub.terms 5 = [8] := by
  refine ⟨?_, ?_, ?_, ?_, ?_, ?_, ?_, ?_, ?_, ?_, ?_, ?_, ?_, ?_, ?_, ?_, ?_, ?_⟩ <;> decide

/-- non-vacuity: the hypotheses hold on `modOnto` (a modifier branch, a phenotype branch, an
obsolete term with a replacement, genes on a modifier root and on a phenotype term) -/
example : PathWF modOnto modRank := modOnto_wf

example : ∀ k, ((modOnto.recs k).map (·.id)).Nodup := by intro k; cases k <;> decide

example : ∀ k, (modOnto.recs k).length ≤ 65535 := by intro k; cases k <;> decide

example : ∀ l ∈ [modLeaf5, modLeaf200], modOnto.get l.id = some l := by decide

/-- the successful branch of `C14_error_iff` / `C14_again` / `C14_is_builder_run` is inhabited -/
example : ∃ o', modOnto.subOntology modRoot [modLeaf5, modLeaf200] = .ok o' := ⟨modSub, by decide⟩

example : ∃ rt l, modOnto.get 1 = some rt ∧ modOnto.get 200 = some l ∧
    collectLeaves modOnto rt.id [l] [] = .ok [1, 118, 200] := ⟨_, _, rfl, rfl, by decide⟩

example : ∃ rt l, modOnto.get 118 = some rt ∧ modOnto.get 5 = some l ∧
    (match modOnto.subOntology rt [l] with | .err .notImplemented => true | _ => false) = true :=
  ⟨_, _, rfl, rfl, by decide⟩

end Hpo.C14

