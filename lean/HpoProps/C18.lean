import HpoProofs.Compare
import HpoProps.C07
/-!
# C18 — ontology comparison reports exactly the differences

Property theorems only (helper lemmas: `HpoProofs/Compare.lean`, model: `HpoModel/Compare.lean`).
`l` = old (lhs), `r` = new (rhs).  Explicit, decidable hypotheses:
  `KeysOk o`          every arena term is the one its id resolves to (unique ids inside the id table)
  `RecKeysOk rs`      one record per id (a `HashMap`)
  `ParentsResolve o`  every direct parent id is a term (otherwise `parents()` panics, and so does
                      `changed_hpo_terms` — modelled and compared, see the generator's `dangling_parent`)
Reading of "replacement" (as the code has it): `replaced_by().map(id)`, the replacement id RESOLVED in
the term's own ontology (`replId`); a replacement id that is not a term reads `None`.
No bound on the size of the ontologies.
-/
namespace Hpo.C18
open Hpo Hpo.Group Hpo.Compare

/-- added = in the new ontology and not resolvable in the old one, removed = the converse — for
terms and for the three record kinds -/
theorem C18_added_removed (l r : Onto) :
    (∀ t, t ∈ addedTerms l r ↔ t ∈ r.terms ∧ l.get t.id = none) ∧
    (∀ t, t ∈ removedTerms l r ↔ t ∈ l.terms ∧ r.get t.id = none) ∧
    (∀ k x, x ∈ addedRecs k l r ↔ x ∈ r.recs k ∧ getR (l.recs k) x.id = none) ∧
    (∀ k x, x ∈ removedRecs k l r ↔ x ∈ l.recs k ∧ getR (r.recs k) x.id = none) := by
  simp [addedTerms, removedTerms, addedRecs, removedRecs, List.mem_filter]

/-- as sets of ids: exactly the ids present in only one of the two (ids of the id table) -/
theorem C18_added_removed_ids (l r : Onto)
    (hl : ∀ t ∈ l.terms, t.id < maxId) (hr : ∀ t ∈ r.terms, t.id < maxId) (i : Nat) :
    (i ∈ (addedTerms l r).map (·.id) ↔ i ∈ r.ids ∧ i ∉ l.ids) ∧
    (i ∈ (removedTerms l r).map (·.id) ↔ i ∈ l.ids ∧ i ∉ r.ids) ∧
    (∀ k, (i ∈ (addedRecs k l r).map (·.id) ↔ i ∈ (r.recs k).map (·.id) ∧ i ∉ (l.recs k).map (·.id)) ∧
          (i ∈ (removedRecs k l r).map (·.id) ↔ i ∈ (l.recs k).map (·.id) ∧ i ∉ (r.recs k).map (·.id))) := by
  have key : ∀ (a b : Onto), (∀ t ∈ b.terms, t.id < maxId) →
      (i ∈ (b.terms.filter (fun t => (a.get t.id).isNone)).map (·.id) ↔ i ∈ b.ids ∧ i ∉ a.ids) := by
    intro a b hb
    simp only [List.mem_map, List.mem_filter, Onto.ids, Option.isNone_iff_eq_none]
    constructor
    · rintro ⟨t, ⟨h1, h2⟩, rfl⟩
      refine ⟨⟨t, h1, rfl⟩, ?_⟩
      have hlt := hb t h1
      unfold Onto.get arenaGet at h2
      rw [if_neg (by omega)] at h2
      simpa using getT_eq_none.1 h2
    · rintro ⟨⟨t, h1, rfl⟩, h2⟩
      refine ⟨t, ⟨h1, ?_⟩, rfl⟩
      have hlt := hb t h1
      unfold Onto.get arenaGet
      rw [if_neg (by omega)]
      exact getT_eq_none.2 (by simpa using h2)
  have keyR : ∀ (a b : List Rec),
      (i ∈ (b.filter (fun x => (getR a x.id).isNone)).map (·.id) ↔ i ∈ b.map (·.id) ∧ i ∉ a.map (·.id)) := by
    intro a b
    simp only [List.mem_map, List.mem_filter, Option.isNone_iff_eq_none]
    constructor
    · rintro ⟨t, ⟨h1, h2⟩, rfl⟩
      exact ⟨⟨t, h1, rfl⟩, by simpa using getR_eq_none_s.1 h2⟩
    · rintro ⟨⟨t, h1, rfl⟩, h2⟩
      exact ⟨t, ⟨h1, getR_eq_none_s.2 (by simpa using h2)⟩, rfl⟩
  exact ⟨key l r hr, key r l hl, fun k => ⟨keyR (l.recs k) (r.recs k), keyR (r.recs k) (l.recs k)⟩⟩

/-- changed terms: a delta is reported exactly for the terms present in both ontologies that differ in
name, direct parent set, obsolete flag or (resolved) replacement; the delta carries the old/new
values and the exact parent differences -/
theorem C18_changed_terms (l r : Onto) (hl : ParentsResolve l) (hr : ParentsResolve r) :
    ∃ ds, changedTerms l r = .ok ds ∧
      ∀ d, d ∈ ds ↔ ∃ tl ∈ l.terms, ∃ tr, r.get tl.id = some tr ∧ d = delta l r tl tr ∧
        (tl.name ≠ tr.name ∨ ¬ (∀ p, p ∈ tl.parents ↔ p ∈ tr.parents) ∨ tl.obsolete ≠ tr.obsolete ∨
          replId l tl ≠ replId r tr) :=
  changedFold_ok l r hr l.terms hl

/-- the content of a term delta: id, (old, new) name / obsolete / replacement, added parents =
new \ old, removed parents = old \ new (both strictly ascending), and the accessors return `None`
exactly for an unchanged component -/
theorem C18_term_delta (l r : Onto) (tl tr : Term) :
    (delta l r tl tr).id = tl.id ∧
    (delta l r tl tr).names = (tl.name, tr.name) ∧
    (delta l r tl tr).obsolete = (tl.obsolete, tr.obsolete) ∧
    (delta l r tl tr).replacement = (replId l tl, replId r tr) ∧
    (∀ p, p ∈ (delta l r tl tr).addedParents ↔ p ∈ tr.parents ∧ p ∉ tl.parents) ∧
    (∀ p, p ∈ (delta l r tl tr).removedParents ↔ p ∈ tl.parents ∧ p ∉ tr.parents) ∧
    Sorted (delta l r tl tr).addedParents ∧ Sorted (delta l r tl tr).removedParents ∧
    ((delta l r tl tr).changedName = none ↔ tl.name = tr.name) ∧
    ((delta l r tl tr).addedParents? = none ↔ ∀ p ∈ tr.parents, p ∈ tl.parents) ∧
    ((delta l r tl tr).removedParents? = none ↔ ∀ p ∈ tl.parents, p ∈ tr.parents) ∧
    ((delta l r tl tr).changedObsolete = none ↔ tl.obsolete = tr.obsolete) ∧
    ((delta l r tl tr).changedReplacement = none ↔ replId l tl = replId r tr) := by
  refine ⟨rfl, rfl, rfl, rfl, ?_, ?_, sorted_diff _ _ (sorted_ofList _), sorted_diff _ _ (sorted_ofList _),
    ?_, ?_, ?_, ?_, ?_⟩
  · intro p; simp [delta, mkDelta, mem_diff, mem_ofList]
  · intro p; simp [delta, mkDelta, mem_diff, mem_ofList]
  · exact ite_none_iff _
  · exact addedParents?_none l r tl tr
  · exact removedParents?_none l r tl tr
  · exact ite_none_iff _
  · exact ite_none_iff _

/-- changed genes / diseases: a delta exactly for the records present in both that differ in name or
in their direct term set; it carries old/new name, the sizes, added = new \ old, removed = old \ new -/
theorem C18_changed_annotations (k : Kind) (l r : Onto) (d : AnnDelta) :
    (d ∈ changedRecs k l r ↔
      ∃ a ∈ l.recs k, ∃ b, getR (r.recs k) a.id = some b ∧ d = mkAnnDelta a b ∧
        (a.name ≠ b.name ∨ ¬ (∀ t, t ∈ a.hpos ↔ t ∈ b.hpos))) ∧
    ∀ a b : Rec,
      (mkAnnDelta a b).id = a.id ∧ (mkAnnDelta a b).names = (a.name, b.name) ∧
      (mkAnnDelta a b).nTerms = (a.hpos.length, b.hpos.length) ∧
      (∀ t, t ∈ (mkAnnDelta a b).addedTerms ↔ t ∈ b.hpos ∧ t ∉ a.hpos) ∧
      (∀ t, t ∈ (mkAnnDelta a b).removedTerms ↔ t ∈ a.hpos ∧ t ∉ b.hpos) :=
  ⟨mem_changedRecs k l r d, fun _ _ =>
    ⟨rfl, rfl, rfl, fun t => mem_diff _ _ t, fun t => mem_diff _ _ t⟩⟩

/-- comparing an ontology with itself reports nothing -/
theorem C18_self (o : Onto) (hk : KeysOk o) (hp : ParentsResolve o)
    (hg : ∀ k, RecKeysOk (o.recs k)) :
    addedTerms o o = [] ∧ removedTerms o o = [] ∧ changedTerms o o = .ok [] ∧
    ∀ k, addedRecs k o o = [] ∧ removedRecs k o o = [] ∧ changedRecs k o o = [] := by
  have hterms : o.terms.filter (fun t => (o.get t.id).isNone) = [] := by
    rw [List.filter_eq_nil_iff]
    intro t ht; simp [hk t ht]
  refine ⟨hterms, hterms, ?_, fun k => ?_⟩
  · obtain ⟨ds, hds, hmem⟩ := C18_changed_terms o o hp hp
    rw [hds]
    congr
    cases ds with
    | nil => rfl
    | cons d ds =>
      obtain ⟨tl, h1, tr, h2, _, h4⟩ := (hmem d).1 (by simp)
      rw [hk tl h1] at h2; cases h2
      rcases h4 with h | h | h | h
      · exact absurd rfl h
      · exact absurd (fun _ => Iff.rfl) h
      · exact absurd rfl h
      · exact absurd rfl h
  · have hrecs : (o.recs k).filter (fun x => (getR (o.recs k) x.id).isNone) = [] := by
      rw [List.filter_eq_nil_iff]
      intro x hx; simp [hg k x hx]
    refine ⟨hrecs, hrecs, ?_⟩
    cases hc : changedRecs k o o with
    | nil => rfl
    | cons d ds =>
      obtain ⟨a, h1, b, h2, _, h4⟩ := (mem_changedRecs k o o d).1 (by rw [hc]; simp)
      rw [hg k a h1] at h2; cases h2
      rcases h4 with h | h
      · exact absurd rfl h
      · exact absurd (fun _ => Iff.rfl) h

/-- swapping the arguments swaps added with removed (as the same lists) and mirrors every delta:
the changed ids are the same, old and new values (and added/removed parents or terms) trade places -/
theorem C18_swap (l r : Onto) (hkl : KeysOk l) (hkr : KeysOk r)
    (hpl : ParentsResolve l) (hpr : ParentsResolve r)
    (hgl : ∀ k, RecKeysOk (l.recs k)) (hgr : ∀ k, RecKeysOk (r.recs k)) :
    addedTerms l r = removedTerms r l ∧ removedTerms l r = addedTerms r l ∧
    (∀ k, addedRecs k l r = removedRecs k r l ∧ removedRecs k l r = addedRecs k r l) ∧
    (∃ ds ds', changedTerms l r = .ok ds ∧ changedTerms r l = .ok ds' ∧
      ∀ d, d ∈ ds ↔ d.swap ∈ ds') ∧
    (∀ k d, d ∈ changedRecs k l r ↔ d.swap ∈ changedRecs k r l) := by
  refine ⟨rfl, rfl, fun k => ⟨rfl, rfl⟩, ?_, ?_⟩
  · obtain ⟨ds, hds, hmem⟩ := C18_changed_terms l r hpl hpr
    obtain ⟨ds', hds', hmem'⟩ := C18_changed_terms r l hpr hpl
    refine ⟨ds, ds', hds, hds', ?_⟩
    have half : ∀ (a b : Onto), KeysOk a → ∀ d,
        (∃ ta ∈ a.terms, ∃ tb, b.get ta.id = some tb ∧ d = delta a b ta tb ∧ Differ a b ta tb) →
        (∃ tb ∈ b.terms, ∃ ta, a.get tb.id = some ta ∧ d.swap = delta b a tb ta ∧ Differ b a tb ta) := by
      rintro a b hka d ⟨ta, h1, tb, h2, rfl, h4⟩
      have hid := Onto.get_id_s h2
      refine ⟨tb, Onto.get_mem_s h2, ta, by rw [hid]; exact hka ta h1, ?_, h4.symm⟩
      rw [delta_swap a b ta tb hid]
    intro d
    rw [hmem, hmem']
    constructor
    · exact half l r hkl d
    · intro h
      have := half r l hkr d.swap h
      rwa [TermDelta.swap_swap] at this
  · intro k d
    have half : ∀ (a b : Onto), RecKeysOk (a.recs k) → ∀ d,
        d ∈ changedRecs k a b → d.swap ∈ changedRecs k b a := by
      intro a b hka d hd
      obtain ⟨x, h1, y, h2, rfl, h4⟩ := (mem_changedRecs k a b d).1 hd
      have hid := getR_id_s h2
      refine (mem_changedRecs k b a _).2 ⟨y, getR_mem_s h2, x, by rw [hid]; exact hka x h1, ?_, h4.symm⟩
      rw [mkAnnDelta_swap x y hid]
    constructor
    · exact half l r (hgl k) d
    · intro h
      have := half r l (hgr k) d.swap h
      rwa [AnnDelta.swap_swap] at this

/-! ### non-vacuity: two small ontologies that differ by a rename, a parent, an obsolete flag with a
replacement, an added term, a removed gene and a changed disease -/

def exL : Onto :=
  { terms := [
      { id := 1, name := ['a'], children := [118] },
      { id := 118, name := ['b'], parents := [1], allParents := [1], children := [7] },
      { id := 7, name := ['c'], parents := [118], allParents := [1, 118] },
      { id := 9, name := ['d'], parents := [1], allParents := [1], replacement := some 999 }],
    genes := [{ id := 1, name := ['g'], hpos := [7] }, { id := 2, name := ['h'], hpos := [9] }],
    omim := [{ id := 3, name := ['o'], hpos := [7] }] }

def exR : Onto :=
  { terms := [
      { id := 1, name := ['a'], children := [118, 7] },
      { id := 118, name := ['B'], parents := [1], allParents := [1], children := [7] },
      { id := 7, name := ['c'], parents := [1, 118], allParents := [1, 118] },
      { id := 9, name := ['d'], parents := [1], allParents := [1], obsolete := true, replacement := some 7 },
      { id := 10, name := ['e'] }],
    genes := [{ id := 1, name := ['g'], hpos := [7] }],
    omim := [{ id := 3, name := ['o'], hpos := [7, 9] }] }

example : KeysOk exL ∧ KeysOk exR ∧ ParentsResolve exL ∧ ParentsResolve exR ∧
    (∀ k, RecKeysOk (exL.recs k)) ∧ (∀ k, RecKeysOk (exR.recs k)) := by
  refine ⟨by decide, by decide, by decide, by decide, ?_, ?_⟩ <;> intro k <;> cases k <;> decide

example : (addedTerms exL exR).map (·.id) = [10] ∧ (removedTerms exL exR).map (·.id) = [] ∧
    (removedRecs .gene exL exR).map (·.id) = [2] := by decide

/-- 118 renamed, 7 gained parent 1, 9 became obsolete with a replacement that now resolves
(999 is not a term of the old ontology: it reads `none` there) -/
example : changedTerms exL exR = .ok [
    { id := 118, names := (['b'], ['B']), addedParents := [], removedParents := [],
      obsolete := (false, false), replacement := (none, none) },
    { id := 7, names := (['c'], ['c']), addedParents := [1], removedParents := [],
      obsolete := (false, false), replacement := (none, none) },
    { id := 9, names := (['d'], ['d']), addedParents := [], removedParents := [],
      obsolete := (false, true), replacement := (none, some 7) }] := by decide

example : changedRecs .omim exL exR =
    [{ id := 3, names := (['o'], ['o']), nTerms := (1, 2), addedTerms := [9], removedTerms := [] }] := by
  decide

example : changedTerms exL exL = .ok [] := by decide

/-- **Round trip.** Comparing an ontology with its binary round trip reports nothing: for every
ontology reachable through the Builder route (`Reachable`, C07) whose names fit the 255-byte limit,
`from_bytes(as_bytes(o))` *is* `o` (`C07_roundtrip_identity`), so the comparison is the
self-comparison of `C18_self`. -/
theorem C18_roundtrip (o : Onto) (hr : Hpo.Binary.Reachable o) (he : Hpo.Binary.EncOK o)
    (hs : o.slot0 = placeholder) (ht : ∀ t ∈ o.terms, (Proto.utf8 t.name).length ≤ 255)
    (hgn : ∀ r ∈ o.genes, (Proto.utf8 r.name).length ≤ 255)
    (hk : KeysOk o) (hp : ParentsResolve o) (hg : ∀ k, RecKeysOk (o.recs k)) :
    ∃ o', Hpo.Binary.decodeBytes (Hpo.Binary.encodeOnto o) = .ok o' ∧
      addedTerms o o' = [] ∧ removedTerms o o' = [] ∧ changedTerms o o' = .ok [] ∧
      ∀ k, addedRecs k o o' = [] ∧ removedRecs k o o' = [] ∧ changedRecs k o o' = [] :=
  ⟨o, Hpo.C07.C07_roundtrip_identity o hr he hs ht hgn, C18_self o hk hp hg⟩

end Hpo.C18
