import HpoModel.Hypergeom
namespace Hpo.C06
open Hpo Hpo.Hypergeom
theorem C06_stub : hmax 3 2 = 2 := by decide
end Hpo.C06
