import HpoProofs.Hypergeom
import HpoProofs.Enrich
import HpoProofs.HypergeomFast
/-!
# C06 — enrichment reports exact hypergeometric tail probabilities and fold changes

Property theorems only (helper lemmas: `HpoProofs/Hypergeom.lean`, `HpoProofs/Enrich.lean`).

* `pmf N K n i = C(K,i)·C(N−K,n−i)/C(N,n)` (for `i ≤ n`, else `0`) over `ℚ`, with Mathlib's `Nat.choose`;
* `tail N K n k = Σ_{k ≤ i ≤ n} pmf i = P[X ≥ k]`, `X ~ Hypergeometric(N, K, n)`;
* `sfQ N K n x` = the model's `sfModel N K n x` (the three branches of `Hypergeometric::sf`, evaluated
  with the model's own binomials) read as a rational number.

All statements are for every `N, K, n, k` (no size bound).  What the `f64` code adds on top of the
exact value — `ln` of the factorial table / Lanczos `ln_gamma`, `exp`, the rounded sum and its clamp —
is outside these theorems (PARTIAL: covered by the tolerance of the correspondence check only).
-/
namespace Hpo.C06
open Hpo Hpo.Hypergeom Finset
open Hpo.Hypergeom.RatNum

/-- the model's binomial coefficients (Pascal recursion, and the multiplicative evaluation the
driver runs) are Mathlib's `Nat.choose` -/
theorem C06_choose (n k : ℕ) : choose n k = Nat.choose n k ∧ chooseMul n k = Nat.choose n k :=
  ⟨choose_eq n k, chooseMul_eq n k⟩

/-- Vandermonde: the probabilities of `Hypergeometric(N, K, n)` sum to one -/
theorem C06_pmf_sum (N K n : ℕ) (hK : K ≤ N) (hn : n ≤ N) :
    ∑ i ∈ range (n + 1), pmf N K n i = 1 :=
  pmf_sum N K n hK hn

/-- no mass outside `[max(0, n+K−N), min(K, n)]` (the code's `min()` and `max()`), none is negative -/
theorem C06_pmf_zero_outside (N K n i : ℕ) (hK : K ≤ N) :
    (i < hmin N K n ∨ hmax K n < i → pmf N K n i = 0) ∧ 0 ≤ pmf N K n i :=
  ⟨pmf_zero_outside N K n i hK, pmf_nonneg N K n i⟩

/-- the p-value `sf(k − 1)` — whichever of the three branches `x < min → 1`, `x ≥ max → 0`, summed
tail is taken — is exactly `P[X ≥ k]` -/
theorem C06_sf_is_tail (N K n k : ℕ) (hK : K ≤ N) (hn : n ≤ N) (hk : 0 < k) :
    sfQ N K n (k - 1) = ∑ i ∈ Icc k n, pmf N K n i :=
  sfQ_eq_tail N K n k hK hn hk

/-- p-values lie in `[0, 1]` -/
theorem C06_range (N K n k : ℕ) (hK : K ≤ N) (hn : n ≤ N) (hk : 0 < k) :
    0 ≤ sfQ N K n (k - 1) ∧ sfQ N K n (k - 1) ≤ 1 :=
  sfQ_range N K n k hK hn hk

/-- p-values never increase as `k` grows with `N, K, n` fixed -/
theorem C06_antitone (N K n k k' : ℕ) (hK : K ≤ N) (hn : n ≤ N) (hk : 0 < k) (h : k ≤ k') :
    sfQ N K n (k' - 1) ≤ sfQ N K n (k - 1) :=
  sfQ_antitone N K n k k' hK hn hk h

/-- fold enrichment `(k/n)/(K/N)`: every (checked) division is defined and the value is `k·N/(n·K)` -/
theorem C06_fold (k n K N : ℕ) (hk : 0 < k) (hkn : k ≤ n) (hkK : k ≤ K) (hKN : K ≤ N) :
    (foldEnrichment k n K N : Option ℚ) = some ((k * N : ℚ) / (n * K)) :=
  fold_eq k n K N hk hkn hkK hKN

/-- record set: for a duplicate-free sample drawn from the background (terms listing each
annotation once), the enrichment of any kind does not panic and returns exactly one record per
annotation linked to at least one sample term; its count `k` is the number of linked sample terms,
its `K` the number of linked background terms, and the parameters satisfy `0 < k ≤ min(K, n)`,
`K ≤ N`, `n ≤ N` (`N`/`n` = number of background/sample terms) -/
theorem C06_records (kind : Kind) (bg sample : List Term)
    (hsub : sample ⊆ bg) (hnd : sample.Nodup) (hann : ∀ t ∈ bg, (t.ann kind).Nodup) :
    ∃ recs, enrichment kind bg sample = .ok recs ∧
      (recs.map (·.id)).Nodup ∧
      (∀ r, r ∈ recs.map (·.id) ↔ ∃ t ∈ sample, r ∈ t.ann kind) ∧
      ∀ e ∈ recs,
        e.count = sample.countP (fun t => decide (e.id ∈ t.ann kind)) ∧
        e.K = bg.countP (fun t => decide (e.id ∈ t.ann kind)) ∧
        0 < e.count ∧ e.count ≤ e.K ∧ e.count ≤ sample.length ∧ e.K ≤ bg.length ∧
        sample.length ≤ bg.length :=
  enrichment_records kind bg sample hsub hnd hann

/-- end to end: every reported record carries `P[X ≥ k]` for
`X ~ Hypergeometric(N = |background|, K = linked background terms, n = |sample|)`, a p-value in
`[0,1]`, and the fold enrichment `k·N/(n·K)` -/
theorem C06_enrichment (kind : Kind) (bg sample : List Term)
    (hsub : sample ⊆ bg) (hnd : sample.Nodup) (hann : ∀ t ∈ bg, (t.ann kind).Nodup) :
    ∃ recs, enrichment kind bg sample = .ok recs ∧ ∀ e ∈ recs,
      ((pvalue bg.length sample.length e).1 : ℚ) / (pvalue bg.length sample.length e).2
          = ∑ i ∈ Icc e.count sample.length, pmf bg.length e.K sample.length i ∧
      0 ≤ ((pvalue bg.length sample.length e).1 : ℚ) / (pvalue bg.length sample.length e).2 ∧
      ((pvalue bg.length sample.length e).1 : ℚ) / (pvalue bg.length sample.length e).2 ≤ 1 ∧
      (foldEnrichment e.count sample.length e.K bg.length : Option ℚ)
          = some ((e.count * bg.length : ℚ) / (sample.length * e.K)) := by
  obtain ⟨recs, hok, _, _, hrec⟩ := enrichment_records kind bg sample hsub hnd hann
  refine ⟨recs, hok, ?_⟩
  intro e he
  obtain ⟨_, _, hpos, hkK, hkn, hKN, hnN⟩ := hrec e he
  have ht := sfQ_eq_tail bg.length e.K sample.length e.count hKN hnN hpos
  have hr := sfQ_range bg.length e.K sample.length e.count hKN hnN hpos
  exact ⟨ht, hr.1, hr.2, fold_eq _ _ _ _ hpos hkn hkK hKN⟩

/-! ### what the driver evaluates for large populations -/

/-- The linear-time tail the driver runs (two running binomials updated multiplicatively, leading
zero terms skipped) is the model's tail, survival function and p-value — for all arguments. -/
theorem C06_fast_tail_is_model (N K n x cnt i : ℕ) (e : Enr) :
    tailNumFast K (N - K) n cnt i = tailNum K (N - K) n cnt i ∧
    sfModelFast N K n x = sfModel N K n x ∧
    pvalueFast N n e = pvalue N n e :=
  ⟨tailNumFast_eq K (N - K) n cnt i, sfModelFast_eq N K n x, pvalueFast_eq N n e⟩

/-! ### non-vacuity: the hypotheses are satisfiable on non-trivial instances -/

/-- `N = 10, K = 4, n = 5`: the three branches of `sf`, here as exact fractions -/
example : sfModel 10 4 5 1 = (186, 252) ∧ sfModel 10 4 5 4 = (0, 1) ∧ sfModel 10 8 5 2 = (1, 1) := by
  decide

example : (4 ≤ 10 ∧ 5 ≤ 10 ∧ 0 < 2 ∧ 2 ≤ 3) ∧ sfQ 10 4 5 (2 - 1) = 186 / 252 := by
  refine ⟨by decide, ?_⟩
  have : sfModel 10 4 5 1 = (186, 252) := by decide
  simp [sfQ, this]

private def t1 : Term := { id := 1, name := [], genes := [7, 9] }
private def t2 : Term := { id := 2, name := [], genes := [7] }
private def t3 : Term := { id := 3, name := [], genes := [9] }
private def t4 : Term := { id := 4, name := [] }

/-- a background of four terms and a sample of two of them satisfy the hypotheses of `C06_records`;
the model returns the two linked genes with `(k, K) = (2, 2)` and `(1, 2)` -/
example : ([t1, t2] ⊆ [t1, t2, t3, t4]) ∧ [t1, t2].Nodup ∧
    (∀ t ∈ [t1, t2, t3, t4], (t.ann .gene).Nodup) ∧
    enrichment .gene [t1, t2, t3, t4] [t1, t2]
      = .ok [{ id := 7, count := 2, K := 2 }, { id := 9, count := 1, K := 2 }] := by
  refine ⟨by decide, by decide, by decide, by decide⟩

end Hpo.C06
