import HpoProofs.BinaryLoad
/-!
# C07 — binary serialisation round-trips

Model: `HpoModel/Binary.lean`.  `encodeOnto o = encodeRaw 3 (factsOf o)` mirrors `Ontology::as_bytes`:
`factsOf o` are the records it writes (terms with name cut to ≤ 255 bytes at a character boundary,
obsolete flag, replacement; one parents record per term; genes with cut name; OMIM / ORPHA diseases),
`decodeBytes` mirrors `Ontology::from_bytes` (see `C08.lean`), `Onto.loadFacts 3` are its logical
steps on decoded records (`HpoModel/Load.lean`).

`EncOK o` (`HpoProofs/Binary.lean`): ids fit their fields (term ids < 10^7, record / parent / linked
ids < 2^32), counts and section payloads < 2^32 bytes, release version (u16, u8, u8), a replacement
id is not 0.  There is NO hypothesis on name lengths.

What is proved in full: the byte level — whatever `as_bytes` writes is decoded to exactly the records
it wrote, never rejected, in any record order; name truncation is the longest valid prefix.
What is `_partial`: the step from "same records" to "observationally identical ontology", see
`C07_roundtrip_partial`.
-/
namespace Hpo.C07
open Hpo Hpo.Binary Hpo.Proto

/-! ### name truncation (the repaired code) -/

/-- The written name is a prefix of the name (so it is valid UTF-8 and ends at a character
boundary), fits the u8 length field, is the LONGEST such prefix, and is the whole name whenever the
name has at most 255 bytes. -/
theorem C07_truncation_spec (cs : List Char) :
    truncName cs <+: cs ∧ (utf8 (truncName cs)).length ≤ 255 ∧
    (∀ p, p <+: cs → (utf8 p).length ≤ 255 → p <+: truncName cs) ∧
    ((utf8 cs).length ≤ 255 → truncName cs = cs) :=
  ⟨takeFit_prefix 255 cs, truncName_le cs, fun p hp hf => takeFit_maximal 255 cs p hp hf,
   takeFit_eq_self 255 cs⟩

/-- the written name bytes always decode again, to the truncated name -/
theorem C07_name_decodes (cs : List Char) : utf8Decode (utf8 (truncName cs)) = some (truncName cs) :=
  utf8_roundtrip _

/-! ### round trip -/

/-- Byte level of the round trip, for EVERY encodable ontology: `as_bytes` produces a file that
`from_bytes` recognises as v3 and decodes to exactly the records written (terms: id, truncated
name, obsolete, replacement; parents; genes; diseases; release version), so the reloaded ontology
is the one `from_bytes`'s builder steps make of these records.

Full statement (NOT proved): `∃ o', decodeBytes (encodeOnto o) = .ok o' ∧ o' ≃ trunc o` for every `o`
produced by a public constructor with default categories, `≃` = equality of the whole read API.
Missing: the refinement `Onto.loadFacts 3 (factsOf o) ≃ trunc o` for reachable `o` — it needs the
invariants of the builder (parents/children symmetric, `allParents` = transitive closure, annotations
upward closed, ic from counts, default categories: properties C01, C02, C03, C19).  The
correspondence check compares `from_bytes(as_bytes(o))` with `o` through the whole read API on both
sides for every generated ontology (`rtcheck`, `same`, `dump`). -/
theorem C07_roundtrip_partial (o : Onto) (h : EncOK o) :
    version (encodeOnto o) = .ok (3, encBody 3 (factsOf o)) ∧
    decodeRaw 3 (encBody 3 (factsOf o)) = .ok (factsOf o) ∧
    decodeBytes (encodeOnto o) = Onto.loadFacts 3 (factsOf o) := by
  have hf := FileOK_factsOf o h
  have hv := version_encodeRaw 3 (factsOf o) hf []
  have hr := decodeRaw_enc 3 (factsOf o) hf.facts []
  have hb := decodeBytes_enc_tail 3 (factsOf o) hf []
  simp only [List.append_nil, finish, List.isEmpty_nil, ↓reduceIte, Res.bind, projFacts_factsOf] at hv hr hb
  exact ⟨hv, hr, hb⟩

/-- The part of "observationally identical" that is proved for the WHOLE pipeline
(`as_bytes` → bytes → `from_bytes` with all its builder steps): whenever the reload succeeds, the
reloaded ontology has the same release version and, in the same order, the same terms with id, name
(cut to the documented 255-byte limit), obsolete flag and replacement. Hypothesis besides `EncOK`:
term ids are unique (they are keys of the arena). -/
theorem C07_roundtrip_terms (o o' : Onto) (h : EncOK o) (hnd : (o.terms.map (·.id)).Nodup)
    (hload : decodeBytes (encodeOnto o) = .ok o') :
    o'.version = o.version ∧
    o'.terms.map (fun t => (t.id, t.name, t.obsolete, t.replacement)) =
      o.terms.map (fun t => (t.id, truncName t.name, t.obsolete, t.replacement)) := by
  rw [(C07_roundtrip_partial o h).2.2] at hload
  have hid : ∀ t ∈ (factsOf o).terms, t.id < maxId := fun t ht => ((FileOK_factsOf o h).facts.terms t ht).1
  have := loadFacts_terms 3 (by decide) (factsOf o) o' hid
    (by simpa [factsOf, map_id_termFacts] using hnd) hload
  refine ⟨this.2, ?_⟩
  have e := this.1
  simp only [factsOf, map_core_termFacts] at e
  exact e

/-- Serialisation never emits bytes that the DECODER rejects or panics on: version detection,
framing and every record decoder succeed (no `err`, no `panic`, no `diverge`).

Full statement (NOT proved): `(decodeBytes (encodeOnto o)).isOk`.  Missing: `Onto.loadFacts 3 (factsOf o)`
is `ok` — for an ontology that came out of a public constructor the same builder steps succeeded
before (both roots present, acyclic, linked terms exist, ≤ 65535 records per kind); as a theorem this
is part of the refinement named in `C07_roundtrip_partial`. -/
theorem C07_never_rejected_partial (o : Onto) (h : EncOK o) :
    ((version (encodeOnto o)).bind fun v => decodeRaw v.1 v.2).isOk = true := by
  obtain ⟨hv, hr, _⟩ := C07_roundtrip_partial o h
  simp [hv, hr, Res.bind, Res.isOk]

/-- Hash-map iteration order: with the records of every section written in any other order the file
is still valid and decodes to exactly those records (in that order).

Full statement (NOT proved): the two reloaded ontologies are observationally equal.  Missing:
invariance of `Onto.loadFacts` under permutation of its record lists (C16); checked by
correspondence (`asbytes` canonical form, `same`). -/
theorem C07_record_order_partial (o : Onto) (h : EncOK o) (g : RawFacts) (hp : FactsPerm (factsOf o) g) :
    decodeRaw 3 (encBody 3 g) = .ok (projFacts 3 g) ∧ FactsPerm (factsOf o) (projFacts 3 g) ∧
    decodeBytes (encodeRaw 3 g) = Onto.loadFacts 3 (projFacts 3 g) := by
  have hg := (FileOK_factsOf o h).perm hp
  have hr := decodeRaw_enc 3 g hg.facts []
  have hb := decodeBytes_enc_tail 3 g hg []
  simp only [List.append_nil, finish, List.isEmpty_nil, ↓reduceIte, Res.bind] at hr hb
  refine ⟨hr, ?_, hb⟩
  have := projFacts_perm 3 hp
  rwa [projFacts_factsOf] at this

/-! ### counterexamples: why the fix and the hypotheses are needed -/

/-- the regression input of the repaired defect: 254 × `a` followed by `é` (256 bytes) -/
def badName : List Char := List.replicate 254 'a' ++ ['é']

set_option maxRecDepth 100000 in
/-- BEFORE the fix the writer emitted the first 255 BYTES of the name: for `badName` these end
inside `é` and are not valid UTF-8 — `String::from_utf8` fails (term: `expect` panics; gene:
`ParseBinaryError`).  The repaired truncation writes the 254 `a`. -/
theorem C07_prefix_truncation_counterexample :
    utf8Decode (truncateRaw badName) = none ∧ truncName badName = List.replicate 254 'a' := by
  decide

/-- K3: a replacement id `HP:0000000` is written as the field value 0, which the decoder reads as
"no replacement" — for EVERY such term the round trip loses it.  Hence `replacement ≠ some 0` in
`TermOK` / `EncOK`. -/
theorem C07_replacement_zero_counterexample (t : Term) (hid : t.id < maxId)
    (hname : (utf8 t.name).length ≤ 255) (h0 : t.replacement = some 0) (rest : Bytes) :
    decTermV2 (encTerm 3 t ++ rest) =
      .ok { id := t.id, name := t.name, obsolete := t.obsolete, replacement := none } := by
  have e : encTerm 3 t = encTerm 3 { t with replacement := none } := by simp [encTerm, h0]
  rw [e]
  exact decTermV2_enc 3 (by decide) { t with replacement := none } ⟨hid, hname, by simp⟩ rest

/-- an ontology as `build_minimal` returns it: the two roots and one modifier branch, categories and
modifier empty (output of the model's builder for `new_term` ×3, `add_parent` ×2, `connect_all_terms`,
`calculate_information_content`, `build_minimal`) -/
def k2Onto : Onto :=
  { terms := [{ id := 1, name := "All".toList, children := [5, 118] },
              { id := 118, name := "Phenotypic abnormality".toList, parents := [1], allParents := [1] },
              { id := 5, name := "Mode of inheritance".toList, parents := [1], allParents := [1] }]
    categories := [], modifier := [] }

set_option maxRecDepth 8000 in
theorem C07_k2Onto_encodable : EncOK k2Onto := by
  refine ⟨by decide, ?_, ?_, ?_, ?_, by decide, by decide, by decide, by decide, by decide⟩
  · simp only [k2Onto]; decide
  · simp [k2Onto]
  · simp [k2Onto]
  · simp [k2Onto]

set_option maxRecDepth 8000 in
/-- K2: categories and modifier are not part of the format: a minimal-built ontology (both `[]`)
re-loads with the DEFAULT groups.  Hence "built with defaults" in the property. -/
theorem C07_minimal_categories_counterexample :
    k2Onto.categories = [] ∧ k2Onto.modifier = [] ∧
    (decodeBytes (encodeOnto k2Onto)).toOption.map (fun o' => (o'.categories, o'.modifier)) = some ([5], [5]) := by
  refine ⟨rfl, rfl, ?_⟩
  rw [(C07_roundtrip_partial k2Onto C07_k2Onto_encodable).2.2]
  decide

/-! ### non-vacuity -/

/-- `EncOK` holds for a concrete ontology with an over-long multi-byte name (300 × `é` = 600 bytes) -/
def longOnto : Onto :=
  { k2Onto with genes := [{ id := 4294967295, name := List.replicate 300 'é', hpos := [5, 118] }] }

set_option maxRecDepth 100000 in
example : EncOK longOnto := by
  refine ⟨by decide, ?_, ?_, ?_, ?_, by decide, by decide, by decide, by decide, by decide⟩
  · simp only [longOnto, k2Onto]; decide
  · simp only [longOnto]; decide
  · simp [longOnto, k2Onto]
  · simp [longOnto, k2Onto]

set_option maxRecDepth 100000 in
/-- … and its gene name is written as 127 × `é` = 254 bytes -/
example : (factsOf longOnto).genes.map (fun r => (utf8 r.name).length) = [254] := by decide

end Hpo.C07
