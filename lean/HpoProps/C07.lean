import HpoProofs.BinaryLoad
import HpoProofs.LoadRefine
import HpoProofs.LoadRun
import HpoProofs.ReachableSub
/-!
# C07 — binary serialisation round-trips

Model: `HpoModel/Binary.lean`.  `encodeOnto o = encodeRaw 3 (factsOf o)` mirrors `Ontology::as_bytes`:
`factsOf o` are the records it writes (terms with name cut to ≤ 255 bytes at a character boundary,
obsolete flag, replacement; one parents record per term; genes with cut name; OMIM / ORPHA diseases),
`decodeBytes` mirrors `Ontology::from_bytes` (see `C08.lean`), `Onto.loadFacts 3` are its logical
steps on decoded records (`HpoModel/Load.lean`).

`EncOK o` (`HpoProofs/Binary.lean`): ids fit their fields (term ids < 10^7, record / parent / linked
ids < 2^32), counts and section payloads < 2^32 bytes, release version (u16, u8, u8), a replacement
id is not 0.  There is NO hypothesis on name lengths.

`Reachable o` (`HpoProofs/LoadRefine.lean`): the class of ontologies the property quantifies over,
as an explicit predicate — what the public constructors establish (C01, C02, C03, C15, C19): unique
term ids < 10^7; parents resolve; children = inverse of parents; ancestor groups = transitive closure
of parents, irreflexive; per kind unique record ids, a record id on a term iff the record is directly
annotated to the term or a descendant, direct terms resolve; all groups strictly ascending; stored
ic pairs = `icPair #records #linked` with counts that passed `InformationContent::calculate`; both
roots; categories / modifier = the default groups.  `C07_reachable_builder`: every ontology of the
Builder route is `Reachable`; `C07_reachable_roundtrip`: so is every reloaded one.

What is proved in full:
* byte level, for EVERY encodable ontology: whatever `as_bytes` writes is decoded to exactly the
  records it wrote, never rejected by the decoder, in any record order; name truncation is the longest
  valid prefix (`C07_bytes_*`, `C07_truncation_spec`);
* refinement, for every `Reachable` ontology: the builder steps of `from_bytes` on those records
  succeed and rebuild the ontology itself up to the documented name cut — literally
  `decodeBytes (encodeOnto o) = .ok (truncOnto o)` (`C07_roundtrip`), hence never rejected
  (`C07_never_rejected`), and with the records of every section in any order all lookups are the
  same (`C07_record_order`).
* the class: every public constructor lands in `Reachable` under its well-formedness hypotheses
  (`C07_reachable_constructors`): the Builder (`C07_reachable_builder`), `from_bytes` of any
  well-formed v1 / v2 / v3 file (`C07_reachable_from_bytes`), the two text loaders
  (`C07_reachable_text`), `sub_ontology` followed by the default groups
  (`C07_reachable_sub_ontology`), and the round trip itself (`C07_reachable_roundtrip`).
-/
namespace Hpo.C07
open Hpo Hpo.Binary Hpo.Proto

/-! ### name truncation (the repaired code) -/

/-- The written name is a prefix of the name (so it is valid UTF-8 and ends at a character
boundary), fits the u8 length field, is the LONGEST such prefix, and is the whole name whenever the
name has at most 255 bytes. -/
theorem C07_truncation_spec (cs : List Char) :
    truncName cs <+: cs ∧ (utf8 (truncName cs)).length ≤ 255 ∧
    (∀ p, p <+: cs → (utf8 p).length ≤ 255 → p <+: truncName cs) ∧
    ((utf8 cs).length ≤ 255 → truncName cs = cs) :=
  ⟨takeFit_prefix 255 cs, truncName_le cs, fun p hp hf => takeFit_maximal 255 cs p hp hf,
   takeFit_eq_self 255 cs⟩

/-- the written name bytes always decode again, to the truncated name -/
theorem C07_name_decodes (cs : List Char) : utf8Decode (utf8 (truncName cs)) = some (truncName cs) :=
  utf8_roundtrip _

/-! ### round trip -/

/-- Byte level of the round trip, for EVERY encodable ontology (no well-formedness hypothesis):
`as_bytes` produces a file that `from_bytes` recognises as v3 and decodes to exactly the records
written (terms: id, truncated name, obsolete, replacement; parents; genes; diseases; release
version), so the reloaded ontology is the one `from_bytes`'s builder steps make of these records.
The step from the records to the ontology is `C07_roundtrip` below. -/
theorem C07_bytes_roundtrip (o : Onto) (h : EncOK o) :
    version (encodeOnto o) = .ok (3, encBody 3 (factsOf o)) ∧
    decodeRaw 3 (encBody 3 (factsOf o)) = .ok (factsOf o) ∧
    decodeBytes (encodeOnto o) = Onto.loadFacts 3 (factsOf o) := by
  have hf := FileOK_factsOf o h
  have hv := version_encodeRaw 3 (factsOf o) hf []
  have hr := decodeRaw_enc 3 (factsOf o) hf.facts []
  have hb := decodeBytes_enc_tail 3 (factsOf o) hf []
  simp only [List.append_nil, finish, List.isEmpty_nil, ↓reduceIte, Res.bind, projFacts_factsOf] at hv hr hb
  exact ⟨hv, hr, hb⟩

/-- The part of "observationally identical" that is proved for the WHOLE pipeline
(`as_bytes` → bytes → `from_bytes` with all its builder steps): whenever the reload succeeds, the
reloaded ontology has the same release version and, in the same order, the same terms with id, name
(cut to the documented 255-byte limit), obsolete flag and replacement. Hypothesis besides `EncOK`:
term ids are unique (they are keys of the arena). -/
theorem C07_roundtrip_terms (o o' : Onto) (h : EncOK o) (hnd : (o.terms.map (·.id)).Nodup)
    (hload : decodeBytes (encodeOnto o) = .ok o') :
    o'.version = o.version ∧
    o'.terms.map (fun t => (t.id, t.name, t.obsolete, t.replacement)) =
      o.terms.map (fun t => (t.id, truncName t.name, t.obsolete, t.replacement)) := by
  rw [(C07_bytes_roundtrip o h).2.2] at hload
  have hid : ∀ t ∈ (factsOf o).terms, t.id < maxId := fun t ht => ((FileOK_factsOf o h).facts.terms t ht).1
  have := loadFacts_terms 3 (by decide) (factsOf o) o' hid
    (by simpa [factsOf, map_id_termFacts] using hnd) hload
  refine ⟨this.2, ?_⟩
  have e := this.1
  simp only [factsOf, map_core_termFacts] at e
  exact e

/-- Serialisation never emits bytes that the DECODER rejects or panics on, for EVERY encodable
ontology: version detection, framing and every record decoder succeed (no `err`, no `panic`, no
`diverge`).  That the builder steps succeed as well is `C07_never_rejected` below. -/
theorem C07_bytes_accepted (o : Onto) (h : EncOK o) :
    ((version (encodeOnto o)).bind fun v => decodeRaw v.1 v.2).isOk = true := by
  obtain ⟨hv, hr, _⟩ := C07_bytes_roundtrip o h
  simp [hv, hr, Res.bind, Res.isOk]

/-- Hash-map iteration order, byte level, for EVERY encodable ontology: with the records of every
section written in any other order the file is still valid and decodes to exactly those records (in
that order).  That the reloaded ontologies are observationally equal is `C07_record_order` below. -/
theorem C07_bytes_record_order (o : Onto) (h : EncOK o) (g : RawFacts) (hp : FactsPerm (factsOf o) g) :
    decodeRaw 3 (encBody 3 g) = .ok (projFacts 3 g) ∧ FactsPerm (factsOf o) (projFacts 3 g) ∧
    decodeBytes (encodeRaw 3 g) = Onto.loadFacts 3 (projFacts 3 g) := by
  have hg := (FileOK_factsOf o h).perm hp
  have hr := decodeRaw_enc 3 g hg.facts []
  have hb := decodeBytes_enc_tail 3 g hg []
  simp only [List.append_nil, finish, List.isEmpty_nil, ↓reduceIte, Res.bind] at hr hb
  refine ⟨hr, ?_, hb⟩
  have := projFacts_perm 3 hp
  rwa [projFacts_factsOf] at this

/-! ### the refinement step: same records ⇒ same ontology -/

/-- **The class is inhabited by everything the Builder produces**: any history of `new_term` /
`add_parent` calls (failing calls included) with an acyclic result, `connect_all_terms`, any history of
`add_gene` / `add_*_disease` / `annotate_*` calls, `calculate_information_content`,
`build_with_defaults`. -/
theorem C07_reachable_builder (tops : List BOp) (o oc : Onto) (hrun : runB tops {} = some o)
    (hac : C01.Acyclic o) (hc : o.connectAll = .ok oc) (aops : List AOp) (r d : Onto)
    (hic : (runA aops oc).calcIc = .ok r) (hd : r.buildWithDefaults = .ok d) : Reachable d :=
  reachable_of_builder tops o oc hrun hac hc aops r d hic hd

/-- … and is closed under the round trip: the reloaded ontology is in the class again -/
theorem C07_reachable_roundtrip (o : Onto) (h : Reachable o) : Reachable (truncOnto o) :=
  reachable_truncOnto o h

/-- **`from_bytes` of ANY well-formed file** (format version 1, 2 or 3; `FileOK`: encodable;
`WFRecords (projFacts fv f)`, `HpoProofs/LoadRun.lean`: as far as the file carries them, term records
with the same id agree, the term and the listed parents of every parent record are terms of the file,
no is_a cycle, record ids distinct inside each of the gene / OMIM / ORPHA sections, every term listed
by a record is a term of the file, at most 65 535 records per section, `HP:0000001` and `HP:0000118`
are terms — no ontology is assumed to have written the file) succeeds, and the loaded ontology is
`Reachable`: the load is literally a checked Builder-API run over the records
(`C08_file_is_builder_run`).  Without these hypotheses `Reachable` is false for files that do load
(a repeated record id: `C08_duplicate_record_id_counterexample`; a parent id that is no term). -/
theorem C07_reachable_from_bytes (fv : Nat) (f : RawFacts) (h : FileOK fv f)
    (W : WFRecords (projFacts fv f)) :
    ∃ o, decodeBytes (encodeRaw fv f) = .ok o ∧ Reachable o := by
  have hsmall : ∀ t ∈ (projFacts fv f).terms, t.id < maxId := by
    intro t ht
    obtain ⟨t0, ht0, rfl⟩ := List.mem_map.1 ht
    rw [projTerm_id]; exact (h.facts.terms t0 ht0).1
  obtain ⟨a, oc, r, d, B, hl⟩ := loadFacts_ok (projFacts fv f) (bareRecs_projFacts fv f) hsmall W
  have hb := decodeBytes_enc_tail fv f h []
  simp only [List.append_nil, finish, List.isEmpty_nil, ↓reduceIte, Res.bind] at hb
  exact ⟨_, (hb.trans (loadFacts_projFacts fv f)).trans hl, Text.reachable_setV B.reachable _⟩

/-- … in the form "whatever `from_bytes` returns for a well-formed file is `Reachable`" -/
theorem C07_reachable_from_bytes_ok (fv : Nat) (f : RawFacts) (h : FileOK fv f)
    (W : WFRecords (projFacts fv f)) (o : Onto) (hl : decodeBytes (encodeRaw fv f) = .ok o) :
    Reachable o := by
  obtain ⟨o', hl', hr⟩ := C07_reachable_from_bytes fv f h W
  rw [hl] at hl'; cases hl'; exact hr

/-- **The two text loaders** (`from_standard`, `from_standard_transitive`): for every rendering of
the three JAX files (`Rendering.Ok`: the lexical side conditions of C09) of well-formed facts
(`WFfacts`, `HpoProofs/TextRefine.lean`: term ids below 10^7, every `is_a` target and every annotated
term a `[Term]` stanza, no is_a cycle, at most 65 535 distinct genes / OMIM / ORPHA diseases, stanzas
for `HP:0000001` and `HP:0000118`) the load succeeds and the loaded ontology is `Reachable` (the load
is a Builder run, `C09_file_is_builder_run`; `C09_file_builder` adds the round trip). -/
theorem C07_reachable_text (tr : Bool) (R : Text.Rendering) (h : R.Ok)
    (W : Text.WFfacts R.terms R.grows R.drows) :
    ∃ o, Text.loadJax tr R.obo (R.gene tr) R.hpoa = .ok o ∧ Reachable o := by
  obtain ⟨a, oc, r, d, B, hl⟩ :=
    Text.buildFromFacts_ok R.terms R.version R.grows R.drows (Text.itemsTerms_bare _) W
  exact ⟨_, (Text.loadJax_rendering tr R h).trans hl, Text.reachable_setV B.reachable _⟩

/-- a `Reachable` ontology satisfies the hypothesis `PathWF` that the `sub_ontology` theorems (C14) put
on the SOURCE ontology (rank = number of ancestors) -/
theorem C07_reachable_pathWF (o : Onto) (h : Reachable o) :
    PathWF o (fun j => (allOf o.terms j).length) := h.pathWF

/-- **`sub_ontology`.** `Ontology::sub_ontology` ends in `build_minimal`: its result has EMPTY
categories and modifier, so — like every minimal-built ontology, `C07_minimal_categories_counterexample`
(K2) — it is not in the class by itself; the property is about ontologies built with defaults.  With
the default groups set on it (`set_default_categories` + `set_default_modifier`, i.e. the model's
`buildWithDefaults`, which needs `HP:0000001` and `HP:0000118` among the retained terms) the result of
a successful `sub_ontology` call on a well-formed source (`PathWF`; every `Reachable` source is:
`C07_reachable_pathWF`) with leaves that are terms of the source IS `Reachable` — the call is a Builder
run (`C14_is_builder_run`). -/
theorem C07_reachable_sub_ontology (o : Onto) (rank : Nat → Nat) (wf : PathWF o rank) (root : Term)
    (leaves : List Term) (hl : ∀ l ∈ leaves, o.get l.id = some l) (o' d : Onto)
    (h : o.subOntology root leaves = .ok o') (hd : o'.buildWithDefaults = .ok d) : Reachable d :=
  reachable_subOntology wf hl h hd

/-- … hence the class is closed under `sub_ontology` + default groups -/
theorem C07_reachable_sub_ontology_closed (o : Onto) (hr : Reachable o) (root : Term)
    (leaves : List Term) (hl : ∀ l ∈ leaves, o.get l.id = some l) (o' d : Onto)
    (h : o.subOntology root leaves = .ok o') (hd : o'.buildWithDefaults = .ok d) : Reachable d :=
  reachable_subOntology hr.pathWF hl h hd

/-- **Every public constructor lands in `Reachable`** under its well-formedness hypotheses (formerly
`C07_reachable_constructors_partial`, which covered (1) and (5) only):
(1) the Builder: any `new_term` / `add_parent` history with an acyclic result, `connect_all_terms`,
any `add_*` / `annotate_*` history, `calculate_information_content`, `build_with_defaults`
(`set_hpo_version` changes nothing: `reachable_setV`);
(2) `from_bytes` (`from_binary`) of any encodable, well-formed v1 / v2 / v3 file;
(3) `from_standard` / `from_standard_transitive` on renderings of well-formed facts;
(4) `sub_ontology` of a well-formed source, followed by the default groups;
(5) the round trip `from_bytes(as_bytes(o))`.
The hypotheses cannot be dropped: `from_bytes` accepts files with a repeated record id or a parent
id that is no term and then returns a non-`Reachable` ontology; `sub_ontology` itself (and
`build_minimal`, `Ontology::default()`) leaves categories / modifier empty, which the binary format
does not store (K2) — both are outside the property ("built with defaults"). -/
theorem C07_reachable_constructors :
    (∀ (tops : List BOp) (o oc : Onto) (aops : List AOp) (r d : Onto), runB tops {} = some o →
      C01.Acyclic o → o.connectAll = .ok oc → (runA aops oc).calcIc = .ok r →
      r.buildWithDefaults = .ok d → Reachable d) ∧
    (∀ (fv : Nat) (f : RawFacts), FileOK fv f → WFRecords (projFacts fv f) →
      ∃ o, decodeBytes (encodeRaw fv f) = .ok o ∧ Reachable o) ∧
    (∀ (tr : Bool) (R : Text.Rendering), R.Ok → Text.WFfacts R.terms R.grows R.drows →
      ∃ o, Text.loadJax tr R.obo (R.gene tr) R.hpoa = .ok o ∧ Reachable o) ∧
    (∀ (o : Onto) (rank : Nat → Nat) (root : Term) (leaves : List Term) (o' d : Onto), PathWF o rank →
      (∀ l ∈ leaves, o.get l.id = some l) → o.subOntology root leaves = .ok o' →
      o'.buildWithDefaults = .ok d → Reachable d) ∧
    (∀ o, Reachable o → Reachable (truncOnto o)) :=
  ⟨fun tops o oc aops r d h1 h2 h3 h4 h5 => reachable_of_builder tops o oc h1 h2 h3 aops r d h4 h5,
   C07_reachable_from_bytes, C07_reachable_text,
   fun _ _ _ _ _ _ wf hl h hd => reachable_subOntology wf hl h hd,
   reachable_truncOnto⟩

/-- The builder steps of `from_bytes` succeed on the records `as_bytes` writes: no error (both roots
are there, every linked term exists, the ic counts fit), no panic (every id is below 10^7 and
resolves), no divergence (acyclic). -/
theorem C07_load_total (o : Onto) (h : Reachable o) :
    ∃ o', Onto.loadFacts 3 (factsOf o) = .ok o' :=
  ⟨_, loadFacts_factsOf o h⟩

/-- … and rebuild the ontology itself with names cut: the result is `truncOnto o` LITERALLY (same
slots in the same order, same record lists, every field of every term and record), in particular
every term lookup, every record lookup, release version, categories and modifier agree. -/
theorem C07_load_refines (o o' : Onto) (h : Reachable o)
    (hl : Onto.loadFacts 3 (factsOf o) = .ok o') :
    o' = truncOnto o ∧ o'.version = o.version ∧
    (∀ j, getT o'.terms j = (getT o.terms j).map truncTerm) ∧
    (∀ k r, getR (o'.recs k) r = (getR (o.recs k) r).map (truncRec k)) ∧
    o'.categories = o.categories ∧ o'.modifier = o.modifier := by
  rw [loadFacts_factsOf o h] at hl
  cases hl
  exact ⟨rfl, rfl, getT_truncOnto o, getR_truncOnto o, rfl, rfl⟩

/-- **Round trip.** For every `Reachable`, encodable ontology `from_bytes(as_bytes(o))` succeeds and
returns `o` with term and gene names cut to the longest prefix of ≤ 255 bytes that ends at a
character boundary — every observation equal (`ObsTrunc`: release version; per term id, name cut,
obsolete flag, replacement, parents, children, ancestors, linked genes / OMIM / ORPHA records, the
three ic pairs; per record id, name (genes: cut), direct terms; categories; modifier). -/
theorem C07_roundtrip (o : Onto) (hr : Reachable o) (he : EncOK o) :
    decodeBytes (encodeOnto o) = .ok (truncOnto o) ∧ ObsTrunc o (truncOnto o) := by
  rw [(C07_bytes_roundtrip o he).2.2]
  exact ⟨loadFacts_factsOf o hr, obsTrunc_truncOnto o⟩

/-- … and when no term or gene name exceeds 255 bytes the round trip is the identity -/
theorem C07_roundtrip_identity (o : Onto) (hr : Reachable o) (he : EncOK o)
    (hs : o.slot0 = placeholder) (ht : ∀ t ∈ o.terms, (utf8 t.name).length ≤ 255)
    (hg : ∀ r ∈ o.genes, (utf8 r.name).length ≤ 255) : decodeBytes (encodeOnto o) = .ok o := by
  rw [(C07_roundtrip o hr he).1, truncOnto_eq_self o hs ht hg]

/-- **Never rejected.** Serialisation of a `Reachable` ontology never yields bytes that
`from_bytes` rejects: the whole of `from_bytes` returns `Ok`. -/
theorem C07_never_rejected (o : Onto) (hr : Reachable o) (he : EncOK o) :
    (decodeBytes (encodeOnto o)).isOk = true := by
  rw [(C07_roundtrip o hr he).1]; rfl

/-- **Record order** (hash-map iteration order of the writer): with the records of every section in
any order the file loads, and every observation is that of `o` with names cut — hence any two such
files load to ontologies with equal lookups. -/
theorem C07_record_order (o : Onto) (hr : Reachable o) (he : EncOK o) (g : RawFacts)
    (hp : FactsPerm (factsOf o) g) :
    ∃ o', decodeBytes (encodeRaw 3 g) = .ok o' ∧ ObsTrunc o o' := by
  obtain ⟨_, hperm, hb⟩ := C07_bytes_record_order o he g hp
  obtain ⟨o', hl, L⟩ := loadFacts_refine o hr (projFacts 3 g) hperm
  exact ⟨o', hb.trans hl, L.obs hr hperm⟩

theorem C07_record_order_same (o : Onto) (hr : Reachable o) (he : EncOK o) (g1 g2 : RawFacts)
    (hp1 : FactsPerm (factsOf o) g1) (hp2 : FactsPerm (factsOf o) g2) :
    ∃ o1 o2, decodeBytes (encodeRaw 3 g1) = .ok o1 ∧ decodeBytes (encodeRaw 3 g2) = .ok o2 ∧
      o1.version = o2.version ∧ (∀ j, getT o1.terms j = getT o2.terms j) ∧
      (∀ k r, getR (o1.recs k) r = getR (o2.recs k) r) ∧
      o1.categories = o2.categories ∧ o1.modifier = o2.modifier := by
  obtain ⟨o1, h1, a⟩ := C07_record_order o hr he g1 hp1
  obtain ⟨o2, h2, b⟩ := C07_record_order o hr he g2 hp2
  exact ⟨o1, o2, h1, h2, a.version.trans b.version.symm, fun j => (a.terms j).trans (b.terms j).symm,
    fun k r => (a.recs k r).trans (b.recs k r).symm, a.categories.trans b.categories.symm,
    a.modifier.trans b.modifier.symm⟩

/-! ### counterexamples: why the fix and the hypotheses are needed -/

/-- the regression input of the repaired defect: 254 × `a` followed by `é` (256 bytes) -/
def badName : List Char := List.replicate 254 'a' ++ ['é']

set_option maxRecDepth 100000 in
/-- BEFORE the fix the writer emitted the first 255 BYTES of the name: for `badName` these end
inside `é` and are not valid UTF-8 — `String::from_utf8` fails (term: `expect` panics; gene:
`ParseBinaryError`).  The repaired truncation writes the 254 `a`. -/
theorem C07_prefix_truncation_counterexample :
    utf8Decode (truncateRaw badName) = none ∧ truncName badName = List.replicate 254 'a' := by
  decide

/-- K3: a replacement id `HP:0000000` is written as the field value 0, which the decoder reads as
"no replacement" — for EVERY such term the round trip loses it.  Hence `replacement ≠ some 0` in
`TermOK` / `EncOK`. -/
theorem C07_replacement_zero_counterexample (t : Term) (hid : t.id < maxId)
    (hname : (utf8 t.name).length ≤ 255) (h0 : t.replacement = some 0) (rest : Bytes) :
    decTermV2 (encTerm 3 t ++ rest) =
      .ok { id := t.id, name := t.name, obsolete := t.obsolete, replacement := none } := by
  have e : encTerm 3 t = encTerm 3 { t with replacement := none } := by simp [encTerm, h0]
  rw [e]
  exact decTermV2_enc 3 (by decide) { t with replacement := none } ⟨hid, hname, by simp⟩ rest

/-- an ontology as `build_minimal` returns it: the two roots and one modifier branch, categories and
modifier empty (output of the model's builder for `new_term` ×3, `add_parent` ×2, `connect_all_terms`,
`calculate_information_content`, `build_minimal`) -/
def k2Onto : Onto :=
  { terms := [{ id := 1, name := "All".toList, children := [5, 118] },
              { id := 118, name := "Phenotypic abnormality".toList, parents := [1], allParents := [1] },
              { id := 5, name := "Mode of inheritance".toList, parents := [1], allParents := [1] }]
    categories := [], modifier := [] }

set_option maxRecDepth 8000 in
theorem C07_k2Onto_encodable : EncOK k2Onto := by
  refine ⟨by decide, ?_, ?_, ?_, ?_, by decide, by decide, by decide, by decide, by decide⟩
  · simp only [k2Onto]; decide
  · simp [k2Onto]
  · simp [k2Onto]
  · simp [k2Onto]

set_option maxRecDepth 8000 in
/-- K2: categories and modifier are not part of the format: a minimal-built ontology (both `[]`)
re-loads with the DEFAULT groups.  Hence "built with defaults" in the property. -/
theorem C07_minimal_categories_counterexample :
    k2Onto.categories = [] ∧ k2Onto.modifier = [] ∧
    (decodeBytes (encodeOnto k2Onto)).toOption.map (fun o' => (o'.categories, o'.modifier)) = some ([5], [5]) := by
  refine ⟨rfl, rfl, ?_⟩
  rw [(C07_bytes_roundtrip k2Onto C07_k2Onto_encodable).2.2]
  decide

/-! ### non-vacuity -/

/-- `EncOK` holds for a concrete ontology with an over-long multi-byte name (300 × `é` = 600 bytes) -/
def longOnto : Onto :=
  { k2Onto with genes := [{ id := 4294967295, name := List.replicate 300 'é', hpos := [5, 118] }] }

set_option maxRecDepth 100000 in
example : EncOK longOnto := by
  refine ⟨by decide, ?_, ?_, ?_, ?_, by decide, by decide, by decide, by decide, by decide⟩
  · simp only [longOnto, k2Onto]; decide
  · simp only [longOnto]; decide
  · simp [longOnto, k2Onto]
  · simp [longOnto, k2Onto]

set_option maxRecDepth 100000 in
/-- … and its gene name is written as 127 × `é` = 254 bytes -/
example : (factsOf longOnto).genes.map (fun r => (utf8 r.name).length) = [254] := by decide

/-! ### non-vacuity of the refinement theorems: a Builder-made ontology with a diamond, an obsolete
replaced term, a duplicate `new_term`, failing `add_parent` / `annotate` calls, the three record
kinds, a record without terms and a 600-byte gene name -/

def rtTops : List BOp :=
  [.term "All".toList 1, .term "Phenotypic abnormality".toList 118, .term "Mode".toList 5,
   .term "old".toList 7 true (some 9), .term "B".toList 9, .term "é".toList 11, .term "dup".toList 9,
   .parent 1 118, .parent 1 5, .parent 118 7, .parent 118 9, .parent 42 9, .parent 7 11, .parent 9 11,
   .parent 1 118]

def rtAnn : List AOp :=
  [.annotate .gene 2175 "FANCA".toList 11, .annotate .gene 3 (List.replicate 300 'é') 7,
   .addRec .orpha "none".toList 84, .annotate .omim 100 "D".toList 9,
   .annotate .gene 2175 "FANCA".toList 9, .annotate .omim 7 "x".toList 4242,
   .annotate .orpha 5 "O".toList 5]

def rtPre : Onto := (runB rtTops {}).getD {}
def rtConn : Onto := rtPre.connectAll.toOption.getD {}
def rtIc : Onto := (runA rtAnn rtConn).calcIc.toOption.getD {}

/-- what the Builder returns for `rtTops`, `connect_all_terms`, `rtAnn`,
`calculate_information_content`, `build_with_defaults` (`C07_rtOnto_built`) -/
def rtOnto : Onto :=
  { terms := [{ id := 1, name := "All".toList, children := [5, 118], genes := [3, 2175], omim := [100],
                orpha := [5], icGene := (2, 2), icOmim := (1, 1), icOrpha := (1, 2) },
              { id := 118, name := "Phenotypic abnormality".toList, parents := [1], allParents := [1],
                children := [7, 9], genes := [3, 2175], omim := [100], icGene := (2, 2), icOmim := (1, 1) },
              { id := 5, name := "Mode".toList, parents := [1], allParents := [1], orpha := [5],
                icOrpha := (1, 2) },
              { id := 7, name := "old".toList, parents := [118], allParents := [1, 118], children := [11],
                genes := [3, 2175], icGene := (2, 2), obsolete := true, replacement := some 9 },
              { id := 9, name := "B".toList, parents := [118], allParents := [1, 118], children := [11],
                genes := [2175], omim := [100], icGene := (1, 2), icOmim := (1, 1) },
              { id := 11, name := "é".toList, parents := [7, 9], allParents := [1, 7, 9, 118],
                genes := [2175], icGene := (1, 2) }]
    genes := [{ id := 2175, name := "FANCA".toList, hpos := [9, 11] },
              { id := 3, name := List.replicate 300 'é', hpos := [7] }]
    omim := [{ id := 100, name := "D".toList, hpos := [9] }]
    orpha := [{ id := 84, name := "none".toList }, { id := 5, name := "O".toList, hpos := [5] }]
    categories := [5, 7, 9]
    modifier := [5] }

set_option maxRecDepth 100000 in
theorem C07_rtOnto_built : runB rtTops {} = some rtPre ∧ rtPre.connectAll = .ok rtConn ∧
    (runA rtAnn rtConn).calcIc = .ok rtIc ∧ rtIc.buildWithDefaults = .ok rtOnto := by
  refine ⟨by decide, by decide, by decide, by decide⟩

theorem C07_rtOnto_reachable : Reachable rtOnto := by
  obtain ⟨h1, h2, h3, h4⟩ := C07_rtOnto_built
  refine C07_reachable_builder rtTops rtPre rtConn h1 ?_ h2 rtAnn rtIc rtOnto h3 h4
  refine C01.acyclic_of_terms rtPre
    (fun j => if j = 1 then 0 else if j = 118 ∨ j = 5 then 1 else if j = 7 ∨ j = 9 then 2 else 3)
    (by decide) ?_
  intro j
  show (if j = 1 then 0 else if j = 118 ∨ j = 5 then 1 else if j = 7 ∨ j = 9 then 2 else 3) < 8
  split
  · omega
  · split
    · omega
    · split <;> omega

set_option maxRecDepth 100000 in
theorem C07_rtOnto_encodable : EncOK rtOnto := by
  refine ⟨by decide, ?_, ?_, ?_, ?_, by decide, by decide, by decide, by decide, by decide⟩
  · simp only [rtOnto]; decide
  · simp only [rtOnto]; decide
  · simp only [rtOnto, DiseaseOK]; decide
  · simp only [rtOnto, DiseaseOK]; decide

/-- the hypotheses of `C07_roundtrip` / `C07_never_rejected` / `C07_record_order` hold together … -/
example : Reachable rtOnto ∧ EncOK rtOnto := ⟨C07_rtOnto_reachable, C07_rtOnto_encodable⟩

set_option maxRecDepth 100000 in
/-- … on an ontology whose round trip really cuts a name (600 → 254 bytes) and is not the identity -/
example : (truncOnto rtOnto).genes.map (fun r => (utf8 r.name).length) = [5, 254] ∧
    rtOnto.genes.map (fun r => (utf8 r.name).length) = [5, 600] := by decide

/-- … and `FactsPerm` has non-trivial instances: every section reversed -/
example : FactsPerm (factsOf rtOnto)
    { version := (factsOf rtOnto).version, terms := (factsOf rtOnto).terms.reverse,
      parents := (factsOf rtOnto).parents.reverse, genes := (factsOf rtOnto).genes.reverse,
      omim := (factsOf rtOnto).omim.reverse, orpha := (factsOf rtOnto).orpha.reverse } :=
  ⟨rfl, (List.reverse_perm _).symm, (List.reverse_perm _).symm, (List.reverse_perm _).symm,
   (List.reverse_perm _).symm, (List.reverse_perm _).symm⟩

/-! ### non-vacuity of `C07_reachable_from_bytes` / `C07_reachable_sub_ontology` -/

/-- a FOREIGN record set (nothing `as_bytes` would write: term lists unsorted and with a repeated
entry, records and parents not in id order, a disease without terms, an obsolete replaced term) -/
def foreign : RawFacts :=
  { version := (2025, 1, 31)
    terms := [{ id := 118, name := "Phenotypic abnormality".toList }, { id := 7, name := "é old".toList, obsolete := true, replacement := some 118 },
              { id := 1, name := "All".toList }, { id := 9, name := "leaf".toList }]
    parents := [(9, [118, 7]), (7, [118]), (118, [1])]
    genes := [{ id := 2175, name := "FANCA".toList, hpos := [9, 118, 9] }, { id := 3, name := "G3".toList, hpos := [7] }]
    omim := [{ id := 4294967295, name := "Fanconi anemia".toList, hpos := [9] }]
    orpha := [{ id := 84, name := [], hpos := [] }] }

set_option maxRecDepth 8000 in
theorem C07_foreign_fileOK (fv : Nat) (hfv : fv = 1 ∨ fv = 2 ∨ fv = 3) : FileOK fv foreign := by
  refine ⟨hfv, ⟨by decide, ?_, ?_, ?_, ?_, ?_, ?_, by decide, by decide, by decide, by decide⟩, ?_⟩
  · simp only [foreign, TermOK]; decide
  · simp only [foreign, ParentsOK]; decide
  · simp only [foreign, GeneOK]; decide
  · simp only [foreign, DiseaseOK]; decide
  · simp only [foreign, DiseaseOK]; decide
  · rcases hfv with rfl | rfl | rfl <;> decide
  · intro _; decide

theorem C07_foreign_wf : WFRecords foreign :=
  { termsFun := by decide
    parentsClosed := by unfold IsTerm; decide
    acyclic := ⟨fun j => if j = 1 then 0 else if j = 118 then 1 else if j = 7 then 2 else 3, by decide⟩
    recIds := by intro k; cases k <;> decide
    recTerms := by intro k; cases k <;> (unfold IsTerm; decide)
    fit := by intro k; cases k <;> decide
    root := by unfold IsTerm; decide
    phenotype := by unfold IsTerm; decide }

/-- the hypotheses of `C07_reachable_from_bytes` hold together, for each of the three format versions -/
example (fv : Nat) (hfv : fv = 1 ∨ fv = 2 ∨ fv = 3) :
    ∃ o, decodeBytes (encodeRaw fv foreign) = .ok o ∧ Reachable o :=
  C07_reachable_from_bytes fv foreign (C07_foreign_fileOK fv hfv) (C07_foreign_wf.proj fv)

set_option maxRecDepth 100000 in
/-- … and those of `C07_reachable_sub_ontology` on the `sub_ontology` example of C14 (all four terms
of `modOnto` retained, both roots among them) -/
example : ∃ d, modSub.buildWithDefaults = .ok d ∧ Reachable d := by
  have h : modOnto.subOntology modRoot [modLeaf5, modLeaf200] = .ok modSub := by decide
  have hd : modSub.buildWithDefaults = .ok (modSub.buildWithDefaults.toOption.getD {}) := by decide
  exact ⟨_, hd, C07_reachable_sub_ontology modOnto modRank modOnto_wf modRoot _ (by decide) modSub _ h hd⟩

end Hpo.C07
