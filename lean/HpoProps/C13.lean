import HpoProofs.SetOps
import HpoModel.Num
import HpoProps.C03
/-!
# C13 — HpoSet filters, replacements and aggregates are exact

Property theorems only (helper lemmas: `HpoProofs/SetOps.lean`, model: `HpoModel/SetOps.lean`).
A set is an `Onto` plus an id list `S` (the `HpoGroup`); results are `Res` values because the code
panics (`expect("HpoTermId must be in Ontology")`) on a member that is not a term.

Hypotheses are explicit and decidable:
  `Resolves o S`          every member of `S` is a term of `o` (the documented precondition of `HpoSet`)
  `o.categories.Nodup`    the category list has no duplicates (it is an `HpoGroup`)
Nothing bounds the size of the ontology or of the set; `S` may be empty, contain ancestors together
with descendants, and replacements may collide with members or not be terms at all.
"Ancestors of y" are `t.allParents` for the term `t` that `y` resolves to (C01 relates that field to
the transitive closure of the direct parents).
-/
namespace Hpo.C13
open Hpo Hpo.Group Hpo.SetOps

/-- `child_nodes` keeps exactly the members that no member has among its ancestors
(i.e. the members without a descendant in the set); the result is a strictly ascending group -/
theorem C13_child_nodes (o : Onto) (S : List Nat) (h : Resolves o S) :
    ∃ R, childNodes o S = .ok R ∧ Sorted R ∧
      ∀ x, x ∈ R ↔ x ∈ S ∧ ∀ y ∈ S, ∀ t, o.get y = some t → x ∉ t.allParents := by
  obtain ⟨R, hR, hmem⟩ := childFilter_ok o S h S
  refine ⟨ofList R, by simp [childNodes, hR, rmap], sorted_ofList R, ?_⟩
  intro x
  rw [mem_ofList, hmem]
  rfl

/-- consequences: the result is a subset of the set, no member of it is an ancestor of another one,
and applying `child_nodes` again changes nothing -/
theorem C13_child_nodes_antichain (o : Onto) (S R : List Nat) (h : Resolves o S)
    (hR : childNodes o S = .ok R) :
    (∀ x ∈ R, x ∈ S) ∧ (∀ x ∈ R, ∀ y ∈ R, ∀ t, o.get y = some t → x ∉ t.allParents) ∧
    childNodes o R = .ok R := by
  obtain ⟨R', hR', hs, hmem⟩ := C13_child_nodes o S h
  rw [hR] at hR'; cases hR'
  have hsub : ∀ x ∈ R, x ∈ S := fun x hx => ((hmem x).1 hx).1
  have hres : Resolves o R := fun x hx => h x (hsub x hx)
  refine ⟨hsub, fun x hx y hy t ht => ((hmem x).1 hx).2 y (hsub y hy) t ht, ?_⟩
  obtain ⟨R2, hR2, hs2, hmem2⟩ := C13_child_nodes o R hres
  rw [hR2]
  congr
  apply eq_of_sorted_of_mem_iff _ _ hs2 hs
  intro x
  rw [hmem2]
  exact ⟨fun hx => hx.1, fun hx => ⟨hx, fun y hy t ht => ((hmem x).1 hx).2 y (hsub y hy) t ht⟩⟩

/-- `is_modifier`: the term or one of its ancestors is a modifier root -/
theorem C13_is_modifier (o : Onto) (t : Term) :
    o.isModifier t = true ↔ ∃ m ∈ o.modifier, m = t.id ∨ m ∈ t.allParents := by
  simp only [Onto.isModifier, List.any_eq_true, contains_iff, mem_addId]

/-- `without_modifier` drops exactly the members that are, or descend from, a modifier root -/
theorem C13_modifier (o : Onto) (S : List Nat) (h : Resolves o S) :
    ∃ R, withoutModifier o S = .ok R ∧ Sorted R ∧
      ∀ x, x ∈ R ↔ x ∈ S ∧ ∀ t, o.get x = some t → ¬ ∃ m ∈ o.modifier, m = x ∨ m ∈ t.allParents := by
  obtain ⟨R, hR, hmem⟩ := modifierFilter_ok o S h
  refine ⟨ofList R, by simp [withoutModifier, hR, rmap], sorted_ofList R, ?_⟩
  intro x
  rw [mem_ofList, hmem]
  constructor
  · rintro ⟨h1, h2⟩
    refine ⟨h1, fun t ht hex => ?_⟩
    have hid := Onto.get_id_s ht
    have := (C13_is_modifier o t).2 (by rw [hid]; exact hex)
    rw [h2 t ht] at this; cases this
  · rintro ⟨h1, h2⟩
    refine ⟨h1, fun t ht => ?_⟩
    have hid := Onto.get_id_s ht
    cases hm : o.isModifier t with
    | false => rfl
    | true =>
      have := (C13_is_modifier o t).1 hm
      rw [hid] at this
      exact absurd this (h2 t ht)

/-- `without_obsolete` drops exactly the members flagged obsolete -/
theorem C13_obsolete (o : Onto) (S : List Nat) (h : Resolves o S) :
    ∃ R, withoutObsolete o S = .ok R ∧ Sorted R ∧
      ∀ x, x ∈ R ↔ x ∈ S ∧ ∀ t, o.get x = some t → t.obsolete = false := by
  obtain ⟨R, hR, hmem⟩ := obsoleteFilter_ok o S h
  exact ⟨ofList R, by simp [withoutObsolete, hR, rmap], sorted_ofList R,
    fun x => by rw [mem_ofList, hmem]⟩

/-- `with_replaced_obsolete`: the result is the image of the set under
`x ↦ replacement(x)` if `x` names a replacement, else `x` — as a set (collisions merge; the
replacement id itself is not required to be a term) -/
theorem C13_replace (o : Onto) (S : List Nat) (h : Resolves o S) :
    ∃ R, withReplacedObsolete o S = .ok R ∧ Sorted R ∧
      ∀ x, x ∈ R ↔ ∃ y ∈ S, ∃ t, o.get y = some t ∧ x = t.replacement.getD y := by
  obtain ⟨R, hR, hmem⟩ := replaceMap_ok o S h
  exact ⟨ofList R, by simp [withReplacedObsolete, hR, rmap], sorted_ofList R,
    fun x => by rw [mem_ofList, hmem]⟩

/-- in particular: a member that names no replacement stays, one that names a replacement is
substituted by it -/
theorem C13_replace_member (o : Onto) (S R : List Nat) (h : Resolves o S)
    (hR : withReplacedObsolete o S = .ok R) (y : Nat) (hy : y ∈ S) (t : Term) (ht : o.get y = some t) :
    (t.replacement = none → y ∈ R) ∧ (∀ r, t.replacement = some r → r ∈ R) := by
  obtain ⟨R', hR', _, hmem⟩ := C13_replace o S h
  rw [hR] at hR'; cases hR'
  constructor
  · intro hn; exact (hmem y).2 ⟨y, hy, t, ht, by simp [hn]⟩
  · intro r hr; exact (hmem r).2 ⟨y, hy, t, ht, by simp [hr]⟩

/-- `gene_ids`, `omim_disease_ids`, `orpha_disease_ids` are the unions over the members
(duplicate free: their length is the number of distinct records) -/
theorem C13_unions (o : Onto) (S : List Nat) (h : Resolves o S) :
    (∃ G, geneIds o S = .ok G ∧ G.Nodup ∧ ∀ g, g ∈ G ↔ ∃ y ∈ S, ∃ t, o.get y = some t ∧ g ∈ t.genes) ∧
    (∃ D, omimDiseaseIds o S = .ok D ∧ D.Nodup ∧ ∀ g, g ∈ D ↔ ∃ y ∈ S, ∃ t, o.get y = some t ∧ g ∈ t.omim) ∧
    (∃ D, orphaDiseaseIds o S = .ok D ∧ D.Nodup ∧ ∀ g, g ∈ D ↔ ∃ y ∈ S, ∃ t, o.get y = some t ∧ g ∈ t.orpha) := by
  refine ⟨?_, ?_, ?_⟩
  · obtain ⟨R, hR, hs, hmem⟩ := annUnion_ok o .gene S h [] sorted_nil
    exact ⟨R, hR, hs.nodup, fun g => by rw [hmem]; simp [Term.ann]⟩
  · obtain ⟨R, hR, hs, hmem⟩ := annUnion_ok o .omim S h [] sorted_nil
    exact ⟨R, hR, hs.nodup, fun g => by rw [hmem]; simp [Term.ann]⟩
  · obtain ⟨R, hR, hs, hmem⟩ := annUnion_ok o .orpha S h [] sorted_nil
    exact ⟨R, hR, hs.nodup, fun g => by rw [hmem]; simp [Term.ann]⟩

/-- `HpoTerm::categories`: the category roots at or above the term -/
theorem C13_categories_of (o : Onto) (t : Term) (c : Nat) :
    c ∈ o.categoriesOf t ↔ c ∈ o.categories ∧ (c = t.id ∨ c ∈ t.allParents) := by
  simp only [Onto.categoriesOf, List.mem_filter, contains_iff, mem_addId]

/-- does member `x` lie in category `c` -/
def inCategory (o : Onto) (c x : Nat) : Bool :=
  match o.get x with
  | some t => decide (c ∈ o.categoriesOf t)
  | none => false

/-- `categories`: the count stored for `c` is the number of members whose categories contain `c`,
and the keys of the map are exactly the categories with a positive count -/
theorem C13_categories (o : Onto) (S : List Nat) (h : Resolves o S) (hc : o.categories.Nodup) :
    ∃ m, categories o S = .ok m ∧
      (∀ c, count m c = S.countP (inCategory o c)) ∧
      (∀ c, c ∈ m.map (·.1) ↔ 0 < S.countP (inCategory o c)) := by
  obtain ⟨m, hm, hcount, hkeys⟩ := categoriesAcc_ok o hc S h []
  have hmi : ∀ c xs, membersIn o c xs = xs.countP (inCategory o c) := by
    intro c xs
    induction xs with
    | nil => rfl
    | cons a xs ih =>
      rw [membersIn, List.countP_cons, ih]
      cases hg : o.get a with
      | none => simp [inCategory, hg]
      | some t => by_cases hin : c ∈ o.categoriesOf t <;> simp [inCategory, hg, hin] <;> omega
  refine ⟨m, hm, fun c => by rw [hcount, hmi]; simp [count], fun c => ?_⟩
  rw [hkeys, List.countP_pos_iff]
  simp only [List.map_nil, List.not_mem_nil, false_or, inCategory]
  constructor
  · rintro ⟨y, hy, t, ht, hin⟩
    exact ⟨y, hy, by simp [ht, hin]⟩
  · rintro ⟨y, hy, hin⟩
    obtain ⟨t, ht⟩ := h.get hy
    refine ⟨y, hy, t, ht, ?_⟩
    simpa [ht] using hin

/-- `information_content`: gene and omim are computed by C03's function `icCalc total count` from
the number of records of the ontology and the size of the union over the members; orpha is left at
its default -/
theorem C13_ic (o : Onto) (S : List Nat) (h : Resolves o S) :
    ∃ G D, geneIds o S = .ok G ∧ omimDiseaseIds o S = .ok D ∧
      informationContent o S =
        (Onto.icCalc o.genes.length G.length).bind fun ig =>
          (Onto.icCalc o.omim.length D.length).bind fun io => .ok (ig, io, (0, 0)) := by
  obtain ⟨⟨G, hG, _, _⟩, ⟨D, hD, _, _⟩, _⟩ := C13_unions o S h
  exact ⟨G, D, hG, hD, by simp [informationContent, hG, hD, Res.bind]⟩

/-- the stored pair when all counts are positive and fit `u16`: `(|union|, N)` for gene and omim -/
theorem C13_ic_pairs (o : Onto) (S G D : List Nat) (h : Resolves o S)
    (hG : geneIds o S = .ok G) (hD : omimDiseaseIds o S = .ok D)
    (h1 : 0 < G.length) (h2 : 0 < D.length)
    (h3 : o.genes.length ≤ 65535) (h4 : o.omim.length ≤ 65535)
    (h5 : G.length ≤ 65535) (h6 : D.length ≤ 65535)
    (h7 : 0 < o.genes.length) (h8 : 0 < o.omim.length) :
    informationContent o S = .ok ((G.length, o.genes.length), (D.length, o.omim.length), (0, 0)) := by
  obtain ⟨G', D', hG', hD', hic⟩ := C13_ic o S h
  rw [hG] at hG'; cases hG'
  rw [hD] at hD'; cases hD'
  rw [hic]
  have e1 : Onto.icCalc o.genes.length G.length = .ok (G.length, o.genes.length) := by
    unfold Onto.icCalc Onto.fitsU16
    rw [if_neg (by omega)]
    simp [h3, h5]
  have e2 : Onto.icCalc o.omim.length D.length = .ok (D.length, o.omim.length) := by
    unfold Onto.icCalc Onto.fitsU16
    rw [if_neg (by omega)]
    simp [h4, h6]
  simp [e1, e2, Res.bind]

/-- and the number a pair stands for is `-ln(count/total)` (checked division), `0` when either is `0`
— for every numeric instance (`Float32` in the driver, `ℝ` in C03's proofs) -/
theorem C13_ic_value {F : Type} [Num F] (c t : Nat) :
    (icValue (c, t) : Option F) =
      if t = 0 ∨ c = 0 then some (Num.ofNat 0)
      else (Num.div? (Num.ofNat c : F) (Num.ofNat t)).map (fun q => Num.neg (Num.log q)) := rfl

/-- **The value.** Under the hypotheses of `C13_ic_pairs` the aggregated information content of the
set is, over the reals, `-ln(|∪ genes of the members| / N_genes)` resp. `-ln(|∪ diseases| / N_omim)`,
never negative; and for EVERY monotone rounding (`Rounding`, C03) it is defined and `≥ 0`. -/
theorem C13_ic_real (o : Onto) (S G D : List Nat) (h : Resolves o S)
    (hG : geneIds o S = .ok G) (hD : omimDiseaseIds o S = .ok D)
    (h1 : 0 < G.length) (h2 : 0 < D.length)
    (h3 : o.genes.length ≤ 65535) (h4 : o.omim.length ≤ 65535)
    (h5 : G.length ≤ o.genes.length) (h6 : D.length ≤ o.omim.length) :
    ∃ p, informationContent o S = .ok p ∧
      (icValue p.1 : Option ℝ) = some (-Real.log ((G.length : ℝ) / (o.genes.length : ℝ))) ∧
      (icValue p.2.1 : Option ℝ) = some (-Real.log ((D.length : ℝ) / (o.omim.length : ℝ))) ∧
      0 ≤ -Real.log ((G.length : ℝ) / (o.genes.length : ℝ)) ∧
      0 ≤ -Real.log ((D.length : ℝ) / (o.omim.length : ℝ)) ∧
      ∀ R : Rounding, (∃ v, (icValue p.1 : Option (RVal R)) = some v ∧ 0 ≤ v.v) ∧
        (∃ v, (icValue p.2.1 : Option (RVal R)) = some v ∧ 0 ≤ v.v) := by
  have hp := C13_ic_pairs o S G D h hG hD h1 h2 h3 h4 (by omega) (by omega) (by omega) (by omega)
  have eG : icPair o.genes.length G.length = (G.length, o.genes.length) := by
    unfold icPair; rw [if_neg (by omega)]
  have eD : icPair o.omim.length D.length = (D.length, o.omim.length) := by
    unfold icPair; rw [if_neg (by omega)]
  have vG := Hpo.C03.C03_value o.genes.length G.length
  have vD := Hpo.C03.C03_value o.omim.length D.length
  rw [eG, if_neg (by omega)] at vG
  rw [eD, if_neg (by omega)] at vD
  obtain ⟨wG, hwG, nG⟩ := Hpo.C03.C03_nonneg o.genes.length G.length h5
  obtain ⟨wD, hwD, nD⟩ := Hpo.C03.C03_nonneg o.omim.length D.length h6
  rw [eG, vG] at hwG
  rw [eD, vD] at hwD
  cases hwG; cases hwD
  refine ⟨_, hp, vG, vD, nG, nD, fun R => ⟨?_, ?_⟩⟩
  · have := Hpo.C03.C03_nonneg_rounded R o.genes.length G.length h5 h3
    rwa [eG] at this
  · have := Hpo.C03.C03_nonneg_rounded R o.omim.length D.length h6 h4
    rwa [eD] at this

/-- each in-place operation yields the same set as its copying counterpart (for every input,
also when it panics) -/
theorem C13_inplace_eq_copy (o : Onto) (S : List Nat) :
    removeModifier o S = withoutModifier o S ∧
    removeObsolete o S = withoutObsolete o S ∧
    replaceObsolete o S = withReplacedObsolete o S := by
  refine ⟨?_, ?_, ?_⟩
  · simp [removeModifier, withoutModifier, modifierFilterMut_eq]
  · simp [removeObsolete, withoutObsolete, obsoleteFilterMut_eq]
  · simp [replaceObsolete, withReplacedObsolete, replaceMapMut_eq]

/-- the precondition is necessary: with a member that is not a term, every operation that walks
the whole set panics (`child_nodes` may stop early inside its inner `all`, see the model) -/
theorem C13_panic_without_member (o : Onto) (S : List Nat) (h : ¬ Resolves o S) :
    withoutModifier o S = .panic ∧ withoutObsolete o S = .panic ∧ withReplacedObsolete o S = .panic ∧
    geneIds o S = .panic ∧ omimDiseaseIds o S = .panic ∧ orphaDiseaseIds o S = .panic ∧
    categories o S = .panic ∧ informationContent o S = .panic := by
  have hg := annUnion_panic o .gene S h []
  refine ⟨by simp [withoutModifier, modifierFilter_panic o S h, rmap],
    by simp [withoutObsolete, obsoleteFilter_panic o S h, rmap],
    by simp [withReplacedObsolete, replaceMap_panic o S h, rmap],
    hg, annUnion_panic o .omim S h [], annUnion_panic o .orpha S h [],
    categoriesAcc_panic o S h [], ?_⟩
  simp [informationContent, geneIds, hg, Res.bind]

/-- the id-level views: `len`, `is_empty`, `contains` of a group -/
theorem C13_views (S : List Nat) (x : Nat) :
    len S = S.length ∧ (isEmpty S = true ↔ S = []) ∧ (SetOps.contains S x = true ↔ x ∈ S) :=
  ⟨rfl, by simp [isEmpty], contains_iff S x⟩

/-! ### non-vacuity: a small ontology with a modifier branch, an obsolete term with a replacement
that is a member, and one whose replacement is not a term -/

/-- HP:1 ← {118, 5}; 118 ← 7 ← 9; 5 ← 6; 20 obsolete → 7; 21 obsolete → 999 (not a term) -/
def exO : Onto :=
  { terms := [
      { id := 1, name := [], children := [5, 118], genes := [1, 2], omim := [3] },
      { id := 118, name := [], parents := [1], allParents := [1], children := [7], genes := [1, 2], omim := [3] },
      { id := 5, name := [], parents := [1], allParents := [1], children := [6] },
      { id := 6, name := [], parents := [5], allParents := [1, 5] },
      { id := 7, name := [], parents := [118], allParents := [1, 118], children := [9], genes := [1, 2], omim := [3] },
      { id := 9, name := [], parents := [7], allParents := [1, 7, 118], genes := [2] },
      { id := 20, name := [], obsolete := true, replacement := some 7 },
      { id := 21, name := [], obsolete := true, replacement := some 999 }],
    genes := [{ id := 1, name := [], hpos := [7] }, { id := 2, name := [], hpos := [9] }],
    omim := [{ id := 3, name := [], hpos := [7] }],
    categories := [5, 7], modifier := [5] }

example : Resolves exO [1, 6, 7, 9, 20, 21] ∧ exO.categories.Nodup ∧ Sorted [1, 6, 7, 9, 20, 21] := by decide
example : childNodes exO [1, 6, 7, 9, 20, 21] = .ok [6, 9, 20, 21] := by decide
example : withoutModifier exO [1, 6, 7, 9, 20, 21] = .ok [1, 7, 9, 20, 21] := by decide
example : withoutObsolete exO [1, 6, 7, 9, 20, 21] = .ok [1, 6, 7, 9] := by decide
/-- 20 collides with the member 7, 21 is replaced by an id that is not a term -/
example : withReplacedObsolete exO [1, 6, 7, 9, 20, 21] = .ok [1, 6, 7, 9, 999] := by decide
example : geneIds exO [9, 6] = .ok [2] ∧ geneIds exO [7, 9] = .ok [1, 2] := by decide
example : categories exO [1, 6, 7, 9, 20] = .ok [(5, 1), (7, 2)] := by decide
example : informationContent exO [9, 6] = .ok ((1, 2), (0, 0), (0, 0)) := by decide
/-- without the hypothesis the code panics: 999 is not a term -/
example : ¬ Resolves exO [7, 999] ∧ withoutObsolete exO [7, 999] = .panic := by decide

end Hpo.C13
