import HpoProofs.Combine
import HpoProofs.RoundedSet
import HpoProofs.CombineFast
/-!
# C05 — set similarity = funSimAvg / funSimMax / BMA of the pairwise matrix

Theorems about `HpoModel/Matrix.lean` and `HpoModel/Combine.lean` (the model of `src/matrix.rs`,
`SimilarityCombiner`, `StandardCombiner`, `GroupSimilarity`, `CachedSimilarity`), instantiated at
`ℝ` (a linear ordered field; checked division).  A term similarity is an ARBITRARY function
`sim : ℕ → ℕ → ℝ` of the two term ids (asymmetric, user-supplied); sets are id vectors `A`, `B`
of ANY sizes (the only bound is the code's own `usize_to_f32` guard `≤ 65535`, beyond which the
code panics and the model says so).

PARTIAL (see `lib/propmeta.py`): the closed forms are over ℝ; the f32 VALUE of the sums and
quotients is covered by the correspondence check only (dyadic inputs, identical operation order).
Definedness, sign, range and argument-order symmetry are proved a second time for EVERY
correctly-rounding arithmetic (`C05_*_rounded`).  Non-finite scores: `C05_fmax_nan`,
`C05_symm_any_arith`, `C05_cached_transparent_any_arith` (every numeric instance, NaN included).
-/
namespace Hpo.C05
open Hpo Hpo.Matrix Hpo.Combine Hpo.NumReal

/-! ## the matrix iterators -/

/-- index law for every shape `r × c` (also non-square, also `r = 0` or `c = 0`) and any element
type: `rows()` yields `r` rows of `c` elements, `cols()` yields `c` columns of `r` elements, and
`rows[i][j] = cols[j][i] = data[i*c + j]` -/
theorem C05_rows_cols {F : Type} (r c : ℕ) (data : List F) (h : data.length = r * c) :
    ∃ rows, rowList ⟨r, c, data⟩ = some rows ∧
      (0 < c → rows.length = r) ∧ (∀ row ∈ rows, row.length = c) ∧
      (colList ⟨r, c, data⟩).length = c ∧ (∀ col ∈ colList ⟨r, c, data⟩, col.length = r) ∧
      ∀ i j, i < r → j < c →
        (data[i * c + j]?).isSome = true ∧
        (rows[i]?).bind (·[j]?) = data[i * c + j]? ∧
        ((colList ⟨r, c, data⟩)[j]?).bind (·[i]?) = data[i * c + j]? := by
  rcases Nat.eq_zero_or_pos c with rfl | hc
  · refine ⟨[], rowList_zero_cols r data, by simp, by simp, by simp [colList, colsGo],
      by simp [colList, colsGo], ?_⟩
    intro i j _ hj; omega
  · have hidx : ∀ i j, i < r → j < c → i * c + j < data.length := by
      intro i j hi hj
      rw [h]
      have : (i + 1) * c ≤ r * c := Nat.mul_le_mul_right c hi
      rw [Nat.add_mul, Nat.one_mul] at this
      omega
    refine ⟨_, rowList_eq r c data h hc, by simp, ?_, by simp [colList_eq], ?_, ?_⟩
    · intro row hrow
      rcases List.mem_map.1 hrow with ⟨i, hi, rfl⟩
      have hi' : i < r := by simpa using hi
      have := hidx i 0 hi' hc
      simp only [List.length_take, List.length_drop]
      have : (i + 1) * c ≤ r * c := Nat.mul_le_mul_right c hi'
      rw [Nat.add_mul, Nat.one_mul] at this
      omega
    · intro col hcol
      rw [colList_eq] at hcol
      rcases List.mem_map.1 hcol with ⟨j, hj, rfl⟩
      have hj' : j < c := by simpa using hj
      apply length_of_getElem?_isSome
      intro i
      simp only [stepGo_getElem? c hc]
      rw [isSome_getElem?_iff, h]
      constructor
      · intro hlt
        by_contra hge
        have : r * c ≤ i * c := Nat.mul_le_mul_right c (by omega)
        omega
      · intro hi
        have := hidx i j hi hj'
        rw [h] at this; omega
    · intro i j hi hj
      refine ⟨by rw [isSome_getElem?_iff]; exact hidx i j hi hj, ?_, ?_⟩
      · rw [List.getElem?_map, List.getElem?_range hi]
        simp only [Option.map_some, Option.bind_some]
        exact slice_getElem? data (i * c) c j hj
      · rw [colList_eq, List.getElem?_map, List.getElem?_range hj]
        simp only [Option.map_some, Option.bind_some, stepGo_getElem? c hc]
        rw [Nat.add_comm]

/-- the maximum the code computes for a row/column (`reduce(|a, b| if a > b { a } else { b })`)
is the greatest element -/
theorem C05_maxima (l : List ℝ) (h : l ≠ []) :
    reduceMax l = some (lmax l) ∧ lmax l ∈ l ∧ ∀ x ∈ l, x ≤ lmax l :=
  ⟨reduceMax_eq l h, (lmax_isGreatest l h).1, (lmax_isGreatest l h).2⟩

/-! ## the three combiners on the pairwise matrix -/

/-- row maxima: for each `a ∈ A` the best match in `B`; column maxima: for each `b ∈ B` the best
match in `A` (asymmetric `sim`: first argument from `A`, second from `B`) -/
noncomputable def rowMax (sim : ℕ → ℕ → ℝ) (B : List ℕ) (a : ℕ) : ℝ := lmax (B.map (sim a))
noncomputable def colMax (sim : ℕ → ℕ → ℝ) (A : List ℕ) (b : ℕ) : ℝ := lmax (A.map fun a => sim a b)

/-- funSimAvg = mean of (mean of the row maxima, mean of the column maxima) -/
theorem C05_funSimAvg (sim : ℕ → ℕ → ℝ) (A B : List ℕ) (hA : A ≠ []) (hB : B ≠ [])
    (hA16 : A.length ≤ 65535) (hB16 : B.length ≤ 65535) :
    groupSimilarity .funSimAvg sim A B = .ok (some
      (((A.map (rowMax sim B)).sum / A.length + (B.map (colMax sim A)).sum / B.length) / 2)) := by
  rw [groupSimilarity_eq .funSimAvg sim A B hA hB hA16 hB16]
  simp only [combineWith]
  rw [funSimAvg_eq _ _ _ _ (by simpa using hA) (by simpa using hB)]
  rfl

/-- funSimMax = the larger of the two means -/
theorem C05_funSimMax (sim : ℕ → ℕ → ℝ) (A B : List ℕ) (hA : A ≠ []) (hB : B ≠ [])
    (hA16 : A.length ≤ 65535) (hB16 : B.length ≤ 65535) :
    groupSimilarity .funSimMax sim A B = .ok (some
      (max ((A.map (rowMax sim B)).sum / A.length) ((B.map (colMax sim A)).sum / B.length))) := by
  rw [groupSimilarity_eq .funSimMax sim A B hA hB hA16 hB16]
  simp only [combineWith]
  rw [funSimMax_eq _ _ _ _ (by simpa using hA) (by simpa using hB)]
  rfl

/-- BMA = (sum of the row maxima + sum of the column maxima) / (|A| + |B|) -/
theorem C05_bma (sim : ℕ → ℕ → ℝ) (A B : List ℕ) (hA : A ≠ []) (hB : B ≠ [])
    (hA16 : A.length ≤ 65535) (hB16 : B.length ≤ 65535) :
    groupSimilarity .bma sim A B = .ok (some
      (((A.map (rowMax sim B)).sum + (B.map (colMax sim A)).sum) / ((A.length : ℝ) + B.length))) := by
  rw [groupSimilarity_eq .bma sim A B hA hB hA16 hB16]
  simp only [combineWith]
  rw [bma_eq _ _ _ _ (by simpa using hA)]
  rfl

/-- no panic and no zero denominator for non-empty sets (within the `u16` guard) -/
theorem C05_defined (cb : Combiner) (sim : ℕ → ℕ → ℝ) (A B : List ℕ) (hA : A ≠ []) (hB : B ≠ [])
    (hA16 : A.length ≤ 65535) (hB16 : B.length ≤ 65535) :
    ∃ v, groupSimilarity cb sim A B = .ok (some v) := by
  cases cb
  · exact ⟨_, C05_funSimAvg sim A B hA hB hA16 hB16⟩
  · exact ⟨_, C05_funSimMax sim A B hA hB hA16 hB16⟩
  · exact ⟨_, C05_bma sim A B hA hB hA16 hB16⟩

/-- 0 if either set is empty -/
theorem C05_empty (cb : Combiner) (sim : ℕ → ℕ → ℝ) (A B : List ℕ) (h : A = [] ∨ B = []) :
    groupSimilarity cb sim A B = .ok (some 0) :=
  groupSimilarity_empty cb sim A B h

/-- `SimilarityCombiner::calculate` on a hand-built `r × c` matrix: the same combination of the
maxima of the rows `data[i*c .. i*c+c)` and of the columns `data[j], data[j+c], …` (whose
elements are given by `C05_rows_cols`); 0 for a matrix without data -/
theorem C05_calculate_matrix (cb : Combiner) (r c : ℕ) (data : List ℝ) (h : data.length = r * c)
    (hr16 : r ≤ 65535) (hc16 : c ≤ 65535) :
    calculate cb ⟨r, c, data⟩ =
      if data = [] then .ok (some 0)
      else .ok (combineWith cb r c
        ((List.range r).map fun i => lmax ((data.drop (i * c)).take c))
        ((List.range c).map fun j => lmax (stepGo c j data))) := by
  by_cases hd : data = []
  · simp [calculate, Matrix.isEmpty, hd]
  · have hlen : 0 < data.length := List.length_pos_iff.2 hd
    have hc : 0 < c := by
      rcases Nat.eq_zero_or_pos c with rfl | hc
      · rw [Nat.mul_zero] at h; omega
      · exact hc
    have hr : 0 < r := by
      rcases Nat.eq_zero_or_pos r with rfl | hr
      · rw [Nat.zero_mul] at h; omega
      · exact hr
    obtain ⟨rows, hrows, _, hrl, _, hcl, _⟩ := C05_rows_cols r c data h
    have hrows' := rowList_eq r c data h hc
    have hrm : rowMaxes ⟨r, c, data⟩ = some ((List.range r).map fun i => lmax ((data.drop (i * c)).take c)) := by
      simp only [rowMaxes, hrows', Option.bind_some]
      apply maxes_map
      intro i hi hnil
      have hmem : (data.drop (i * c)).take c ∈ rows := by
        rw [hrows'] at hrows
        injection hrows with hrows
        rw [← hrows]
        exact List.mem_map.2 ⟨i, hi, rfl⟩
      have := hrl _ hmem
      rw [hnil] at this
      simp at this
      omega
    have hcm : colMaxes ⟨r, c, data⟩ = some ((List.range c).map fun j => lmax (stepGo c j data)) := by
      simp only [colMaxes, colList_eq]
      apply maxes_map
      intro j hj hnil
      have hmem : stepGo c j data ∈ colList ⟨r, c, data⟩ := by
        rw [colList_eq]
        exact List.mem_map.2 ⟨j, hj, rfl⟩
      have := hcl _ hmem
      rw [hnil] at this
      simp at this
      omega
    simp [calculate, Matrix.isEmpty, hd, combine, fitsU16, hr16, hc16, hrm, hcm]

/-! ## argument order -/

/-- with a symmetric term similarity the set similarity does not depend on the argument order
(the matrix is transposed: rows and columns exchange their roles) -/
theorem C05_symm (cb : Combiner) (sim : ℕ → ℕ → ℝ) (hs : ∀ x y, sim x y = sim y x) (A B : List ℕ) :
    groupSimilarity cb sim A B = groupSimilarity cb sim B A := by
  by_cases hA : A = []
  · rw [C05_empty cb sim A B (Or.inl hA), C05_empty cb sim B A (Or.inr hA)]
  by_cases hB : B = []
  · rw [C05_empty cb sim A B (Or.inr hB), C05_empty cb sim B A (Or.inl hB)]
  by_cases h16 : A.length ≤ 65535 ∧ B.length ≤ 65535
  · rw [groupSimilarity_eq cb sim A B hA hB h16.1 h16.2, groupSimilarity_eq cb sim B A hB hA h16.2 h16.1,
      combineWith_swap cb A.length B.length]
    have h1 : (A.map fun a => lmax (B.map (sim a))) = A.map fun a => lmax (B.map fun b => sim b a) := by
      apply List.map_congr_left; intro a _; congr 1; apply List.map_congr_left; intro b _; exact hs a b
    have h2 : (B.map fun b => lmax (A.map fun a => sim a b)) = B.map fun b => lmax (A.map (sim b)) := by
      apply List.map_congr_left; intro b _; congr 1; apply List.map_congr_left; intro a _; exact hs a b
    rw [h1, h2]
  · -- beyond the `u16` guard both orders panic
    have hne1 : (simData sim A B) ≠ [] := by
      intro h
      have := congrArg List.length h
      rw [length_simData] at this
      have : 0 < A.length * B.length :=
        Nat.mul_pos (List.length_pos_iff.2 hA) (List.length_pos_iff.2 hB)
      simp_all
    have hne2 : (simData sim B A) ≠ [] := by
      intro h
      have := congrArg List.length h
      rw [length_simData] at this
      have : 0 < B.length * A.length :=
        Nat.mul_pos (List.length_pos_iff.2 hB) (List.length_pos_iff.2 hA)
      simp_all
    have hf : (!fitsU16 A.length || !fitsU16 B.length) = true := by
      simp only [fitsU16, Bool.or_eq_true, Bool.not_eq_true', decide_eq_false_iff_not]
      by_cases h1 : A.length ≤ 65535
      · right; exact fun h2 => h16 ⟨h1, h2⟩
      · left; exact h1
    have hf' : (!fitsU16 B.length || !fitsU16 A.length) = true := by rw [Bool.or_comm]; exact hf
    simp [groupSimilarity, calculate, Matrix.isEmpty, hne1, hne2, combine, hf, hf']

/-! ## the caching adaptor -/

/-- wrapping the term similarity in `CachedSimilarity` never changes a result: for EVERY sequence
of set-similarity queries through one cache (started empty, or in any state that only holds values
of `sim`), each answer equals the answer of the bare similarity -/
theorem C05_cached_transparent (cb : Combiner) (sim : ℕ → ℕ → ℝ)
    (qs : List (List ℕ × List ℕ)) (memo : Memo ℝ) (h : MemoOK sim memo) :
    runCached cb sim qs memo = runPlain cb sim qs := by
  induction qs generalizing memo with
  | nil => rfl
  | cons q qs ih =>
    obtain ⟨h1, h2⟩ := simDataM_spec sim q.2 q.1 memo h
    simp only [runCached, runPlain, groupSimilarityM, groupSimilarity]
    rw [h1, ih _ h2]

theorem C05_cached_transparent_fresh (cb : Combiner) (sim : ℕ → ℕ → ℝ)
    (qs : List (List ℕ × List ℕ)) : runCached cb sim qs [] = runPlain cb sim qs :=
  C05_cached_transparent cb sim qs [] (memoOK_nil sim)

/-! ## the definedness / sign / range / symmetry clauses for EVERY correctly-rounding arithmetic

`R : Rounding` (`HpoProofs/Rounded.lean`): explicit hypotheses on a rounding function (monotone,
integers up to 2^24 exact, …).  The SAME model functions are evaluated at `RVal R`, where every
partial sum, every quotient and the final combination is rounded; the row / column maxima only
compare and are therefore exact.  `sim : ℕ → ℕ → RVal R` is an arbitrary (rounded) table. -/

/-- the maximum the code computes for a row / column is the greatest element under every
rounding (comparisons are exact) -/
theorem C05_maxima_rounded (R : Rounding) (l : List (RVal R)) (h : l ≠ []) :
    reduceMax l = some (gmax l) ∧ gmax l ∈ l ∧ ∀ x ∈ l, x.v ≤ (gmax l).v :=
  ⟨reduceMax_gmax l h, (gmaxR_isGreatest l h).1, (gmaxR_isGreatest l h).2⟩

/-- **no panic, no zero denominator, sign and range under rounding**: for non-empty sets within
the `u16` guard all three combiners return a value; it is ≥ 0 when the table is, and ≤ 1 when the
table is (the rounded partial sums of `n` numbers ≤ 1 stay ≤ `n`, the rounded denominators
`rnd n`, `rnd 2`, `rnd (rnd r + rnd c)` are exact and ≥ 1) -/
theorem C05_defined_range_rounded (R : Rounding) (cb : Combiner) (sim : ℕ → ℕ → RVal R)
    (A B : List ℕ) (hA : A ≠ []) (hB : B ≠ []) (hA16 : A.length ≤ 65535) (hB16 : B.length ≤ 65535) :
    ∃ v : RVal R, groupSimilarity cb sim A B = .ok (some v) ∧
      ((∀ x y, 0 ≤ (sim x y).v) → 0 ≤ v.v) ∧ ((∀ x y, (sim x y).v ≤ 1) → v.v ≤ 1) := by
  obtain ⟨v, hv, h0, h1⟩ := combineWithR_defined_range (R := R) cb A.length B.length
    (A.map fun a => gmax (B.map (sim a))) (B.map fun b => gmax (A.map fun a => sim a b))
    (List.length_pos_iff.2 hA) (List.length_pos_iff.2 hB) hA16 hB16 (by simp) (by simp)
  have hrow : ∀ (P : RVal R → Prop), (∀ x y, P (sim x y)) →
      ∀ x ∈ A.map fun a => gmax (B.map (sim a)), P x := by
    intro P hP x hx
    rcases List.mem_map.1 hx with ⟨a, _, rfl⟩
    have := gmaxR_mem (B.map (sim a)) (by simpa using hB)
    rcases List.mem_map.1 this with ⟨b, _, hb⟩
    rw [← hb]; exact hP a b
  have hcol : ∀ (P : RVal R → Prop), (∀ x y, P (sim x y)) →
      ∀ x ∈ B.map fun b => gmax (A.map fun a => sim a b), P x := by
    intro P hP x hx
    rcases List.mem_map.1 hx with ⟨b, _, rfl⟩
    have := gmaxR_mem (A.map fun a => sim a b) (by simpa using hA)
    rcases List.mem_map.1 this with ⟨a, _, ha⟩
    rw [← ha]; exact hP a b
  refine ⟨v, by rw [groupSimilarity_eq_g cb sim A B hA hB hA16 hB16, hv], ?_, ?_⟩
  · intro hs
    exact h0 (hrow (fun x => 0 ≤ x.v) hs) (hcol (fun x => 0 ≤ x.v) hs)
  · intro hs
    exact h1 (hrow (fun x => x.v ≤ 1) hs) (hcol (fun x => x.v ≤ 1) hs)

/-- 0 if either set is empty -/
theorem C05_empty_rounded (R : Rounding) (cb : Combiner) (sim : ℕ → ℕ → RVal R) (A B : List ℕ)
    (h : A = [] ∨ B = []) : groupSimilarity cb sim A B = .ok (some ⟨0⟩) := by
  rw [groupSimilarity_empty_g cb sim A B h]
  congr 2
  apply RVal.ext'
  simp

/-- **argument order under rounding**: with a symmetric table the set similarity is the same for
(A, B) and (B, A), bit for bit (rows and columns exchange their roles; rounded `+` is commutative) -/
theorem C05_symm_rounded (R : Rounding) (cb : Combiner) (sim : ℕ → ℕ → RVal R)
    (hs : ∀ x y, sim x y = sim y x) (A B : List ℕ) :
    groupSimilarity cb sim A B = groupSimilarity cb sim B A := by
  by_cases hA : A = []
  · rw [groupSimilarity_empty_g cb sim A B (Or.inl hA), groupSimilarity_empty_g cb sim B A (Or.inr hA)]
  by_cases hB : B = []
  · rw [groupSimilarity_empty_g cb sim A B (Or.inr hB), groupSimilarity_empty_g cb sim B A (Or.inl hB)]
  by_cases h16 : A.length ≤ 65535 ∧ B.length ≤ 65535
  · rw [groupSimilarity_eq_g cb sim A B hA hB h16.1 h16.2,
      groupSimilarity_eq_g cb sim B A hB hA h16.2 h16.1, combineWithR_swap cb A.length B.length]
    have h1 : (A.map fun a => gmax (B.map (sim a))) = A.map fun a => gmax (B.map fun b => sim b a) := by
      apply List.map_congr_left; intro a _; congr 1; apply List.map_congr_left; intro b _; exact hs a b
    have h2 : (B.map fun b => gmax (A.map fun a => sim a b)) = B.map fun b => gmax (A.map (sim b)) := by
      apply List.map_congr_left; intro b _; congr 1; apply List.map_congr_left; intro a _; exact hs a b
    rw [h1, h2]
  · rw [groupSimilarity_panic_g cb sim A B hA hB h16,
      groupSimilarity_panic_g cb sim B A hB hA (fun h => h16 ⟨h.2, h.1⟩)]

/-- the caching adaptor is transparent under rounding as well (it stores and returns values; no
arithmetic) -/
theorem C05_cached_transparent_rounded (R : Rounding) (cb : Combiner) (sim : ℕ → ℕ → RVal R)
    (qs : List (List ℕ × List ℕ)) : runCached cb sim qs [] = runPlain cb sim qs :=
  runCached_eq_g cb sim qs [] (memoOK_nil sim)

/-- non-vacuity: the exact arithmetic is a `Rounding`; a symmetric table with values in [0, 1] -/
example : ∃ sim : ℕ → ℕ → RVal Rounding.exact, (∀ x y, sim x y = sim y x) ∧
    (∀ x y, 0 ≤ (sim x y).v) ∧ (∀ x y, (sim x y).v ≤ 1) ∧ sim 1 2 ≠ sim 1 1 := by
  refine ⟨fun x y => ⟨if x = y then 1 else 1 / 2⟩, ?_, ?_, ?_, ?_⟩
  · intro x y; simp only [eq_comm]
  · intro x y; dsimp only; split <;> norm_num
  · intro x y; dsimp only; split <;> norm_num
  · intro h
    have := congrArg RVal.v h
    norm_num at this

/-! ## non-finite scores: arithmetics WITH NaN values

`f32::max` ignores a NaN operand, the row / column maxima (`if a > b { a } else { b }`) do not: there
a NaN element wins or loses depending on its POSITION.  The model mirrors both (`fmax` tests
`Num.isNaN`, `maxGo` only compares).  The two clauses of the property that do not depend on the
values hold for every numeric instance, NaN or not: -/

/-- `fmax` is `f32::max`: a NaN operand is ignored; without NaN operands it is the comparison -/
theorem C05_fmax_nan {F : Type} [Num F] (a b : F) :
    (Num.isNaN a = true → fmax a b = b) ∧
    (Num.isNaN a = false → Num.isNaN b = true → fmax a b = a) ∧
    (Num.isNaN a = false → Num.isNaN b = false → fmax a b = if Num.lt a b then b else a) := by
  refine ⟨?_, ?_, ?_⟩ <;> intros <;> simp_all [fmax]

/-- **argument order with NaN entries**: for EVERY numeric instance whose `+` and `f32::max` are
commutative (IEEE-754 `+` and `f32::max` are, up to the sign / payload of a NaN result and the sign
of a zero `max(+0, -0)`), a symmetric table gives the same result for `(A, B)` and `(B, A)`.  No
order law is assumed: the matrix of `(B, A)` is the transpose, so every row of the one is a column of
the other WITH THE SAME ELEMENT ORDER, and the position-dependent maxima are taken over identical
lists. -/
theorem C05_symm_any_arith {F : Type} [Num F] (hadd : ∀ a b : F, Num.add a b = Num.add b a)
    (hmax : ∀ a b : F, fmax a b = fmax b a) (cb : Combiner) (sim : ℕ → ℕ → F)
    (hs : ∀ x y, sim x y = sim y x) (A B : List ℕ) :
    groupSimilarity cb sim A B = groupSimilarity cb sim B A :=
  groupSimilarity_symm_g hadd hmax cb sim hs A B

/-- **the caching adaptor with NaN entries**: transparent for every numeric instance (it stores and
returns values, `Float32` with its NaNs included: a cached NaN is returned, not recomputed) -/
theorem C05_cached_transparent_any_arith {F : Type} [Num F] (cb : Combiner) (sim : ℕ → ℕ → F)
    (qs : List (List ℕ × List ℕ)) : runCached cb sim qs [] = runPlain cb sim qs :=
  runCached_eq_g cb sim qs [] (memoOK_nil sim)

/-- non-vacuity of `C05_symm_any_arith` on an instance with a NaN, and the position dependence of
the maxima: with `sim 2 7 = NaN`, `sim 2 8 = 1/4` the row `[NaN, 1/4]` has maximum `1/4` (the
reversed row would have NaN), the column sums are NaN, and `funSimMax` is `1/4` in both orders
(the same ids and values as `setsim 0 j0 funsimmax 2 7,8` of the correspondence check) -/
example :
    (∀ a b : Option ℚ, @Num.add _ nanNum a b = @Num.add _ nanNum b a) ∧
    (∀ a b : Option ℚ, @fmax _ nanNum a b = @fmax _ nanNum b a) ∧
    @maxGo _ nanNum none [some (1 / 4)] = some (1 / 4) ∧
    @maxGo _ nanNum (some (1 / 4)) [none] = none ∧
    @groupSimilarity _ nanNum .funSimMax
      (fun a b => if a + b = 9 then none else some (1 / 4)) [2] [7, 8] = .ok (some (some (1 / 4))) ∧
    @groupSimilarity _ nanNum .funSimMax
      (fun a b => if a + b = 9 then none else some (1 / 4)) [7, 8] [2] = .ok (some (some (1 / 4))) := by
  have hadd : ∀ a b : Option ℚ, @Num.add _ nanNum a b = @Num.add _ nanNum b a := by
    intro a b
    cases a <;> cases b <;> simp [nanNum_add, add_comm]
  have hmax : ∀ a b : Option ℚ, @fmax _ nanNum a b = @fmax _ nanNum b a := by
    intro a b
    cases a with
    | none => cases b <;> simp [fmax, nanNum_isNaN]
    | some x =>
      cases b with
      | none => simp [fmax, nanNum_isNaN]
      | some y =>
        simp only [fmax, nanNum_isNaN, nanNum_lt_some, Option.isNone_some, Bool.false_eq_true,
          if_false, decide_eq_true_eq]
        rcases lt_trichotomy x y with h | h | h
        · simp [h, not_lt.2 h.le]
        · simp [h]
        · simp [h, not_lt.2 h.le]
  refine ⟨hadd, hmax, ?_, ?_, ?_, ?_⟩
  · simp [maxGo, nanNum_lt_none_right]
  · simp [maxGo, nanNum_lt_none_left]
  · rw [@groupSimilarity_eq_g _ nanNum _ _ _ _ (by simp) (by simp) (by simp) (by simp)]
    simp [combineWith, funSimMax, gmax, maxGo, Combine.sum, sumGo, fmax, nanNum_add, nanNum_lt_none_right,
      nanNum_isNaN, nanNum_ofNat, nanNum_div?]
  · rw [@groupSimilarity_eq_g _ nanNum _ _ _ _ (by simp) (by simp) (by simp) (by simp)]
    simp [combineWith, funSimMax, gmax, maxGo, Combine.sum, sumGo, fmax, nanNum_add, nanNum_lt_none_right,
      nanNum_isNaN, nanNum_ofNat, nanNum_div?]

/-! ## tie machinery: one-row matrices at the u16 limit -/

/-- The closed form the driver evaluates for one-row matrices with tens of thousands of columns
(the row / column loops of the model are quadratic there) IS `SimilarityCombiner::calculate` of the
model on the `1 × n` matrix, for every numeric instance, the documented panic beyond 65 535 columns
included. -/
theorem C05_one_row_closed_form {F : Type} [Num F] (cb : Combine.Combiner) (data : List F) :
    Combine.calculateOneRow cb data = Combine.calculate cb { rows := 1, cols := data.length, data := data } :=
  Combine.calculateOneRow_eq cb data

/-! ## non-vacuity: a 2 × 3 asymmetric instance with non-trivial values -/

/-- `sim a b = 10 a + b` on `A = [1,2]`, `B = [1,2,3]`: row maxima 13, 23; column maxima 21, 22, 23 -/
example : groupSimilarity .funSimAvg (fun a b => (10 * a + b : ℝ)) [1, 2] [1, 2, 3] = .ok (some 20) ∧
    groupSimilarity .funSimMax (fun a b => (10 * a + b : ℝ)) [1, 2] [1, 2, 3] = .ok (some 22) ∧
    groupSimilarity .bma (fun a b => (10 * a + b : ℝ)) [1, 2] [1, 2, 3] = .ok (some (102 / 5)) := by
  refine ⟨?_, ?_, ?_⟩
  · rw [C05_funSimAvg _ _ _ (by simp) (by simp) (by simp) (by simp)]
    norm_num [rowMax, colMax, lmax]
  · rw [C05_funSimMax _ _ _ (by simp) (by simp) (by simp) (by simp)]
    norm_num [rowMax, colMax, lmax]
  · rw [C05_bma _ _ _ (by simp) (by simp) (by simp) (by simp)]
    norm_num [rowMax, colMax, lmax]

end Hpo.C05
