import HpoProofs.Lookup
/-!
# C10 — lookups are exact for every possible id and every name

Ids are unbounded naturals here: "every 32-bit value" and beyond. `Arena2` is the two-vector
layout of the code (placeholder in slot 0, id table of `M` entries); `C10_arena2_*` show that it
behaves exactly like the association-list arena used in the rest of the model.
-/
namespace Hpo.C10
open Hpo

/-! ### the association-list arena -/

/-- **Lookup by id.** After any successful sequence of insertions, for EVERY id (any natural
number): a term is found iff the id is below 10^7 and a term with that id was inserted; the term
found carries that id and is the first one inserted with it (its data as added). -/
theorem C10_get_iff (xs : List Term) (ts : List Term) (h : insertAll xs [] = some ts) (id : Nat) :
    ((arenaGet ts id).isSome ↔ ∃ x ∈ xs, x.id = id) ∧
    (∀ t, arenaGet ts id = some t → t.id = id ∧ xs.find? (fun x => x.id = id) = some t) ∧
    (∀ x ∈ xs, x.id < maxId) := by
  -- generalise over the initial arena
  have key : ∀ (xs ts0 ts : List Term), insertAll xs ts0 = some ts →
      (∀ id, getT ts id = match getT ts0 id with
        | some t => some t
        | none => xs.find? (fun x => x.id = id)) ∧ (∀ x ∈ xs, x.id < maxId) := by
    intro xs
    induction xs with
    | nil => intro ts0 ts h; simp [insertAll] at h; subst h; exact ⟨fun id => by cases getT ts0 id <;> simp, by simp⟩
    | cons x xs ih =>
      intro ts0 ts h
      simp only [insertAll, Option.bind_eq_some_iff] at h
      obtain ⟨ts1, h1, h2⟩ := h
      obtain ⟨ih1, ih2⟩ := ih ts1 ts h2
      refine ⟨?_, ?_⟩
      · intro id
        rw [ih1 id, (arenaInsert_get ts0 ts1 x h1 id).2]
        cases getT ts0 id with
        | some t => rfl
        | none =>
          simp only [List.find?_cons]
          by_cases hx : x.id = id <;> simp [hx]
      · intro y hy
        rcases List.mem_cons.1 hy with rfl | hy
        · exact (arenaInsert_get ts0 ts1 y h1 0).1
        · exact ih2 y hy
  obtain ⟨hg, hsm⟩ := key xs [] ts h
  have hg' : ∀ id, getT ts id = xs.find? (fun x => x.id = id) := by intro id; simpa [getT] using hg id
  have hfind : ∀ id, (xs.find? (fun x => x.id = id)).isSome ↔ ∃ x ∈ xs, x.id = id := by
    intro id; simp [List.find?_isSome]
  refine ⟨?_, ?_, hsm⟩
  · unfold arenaGet
    split
    · rename_i hge
      simp only [Option.isSome_none, Bool.false_eq_true, false_iff]
      rintro ⟨x, hx, rfl⟩
      have := hsm x hx; omega
    · rw [hg', hfind]
  · intro t ht
    unfold arenaGet at ht
    split at ht
    · simp at ht
    · rw [hg'] at ht
      exact ⟨by have := List.find?_some ht; simpa using this, ht⟩

/-- a panic happens exactly when some id is beyond the id table -/
theorem C10_insert_panic_iff (xs : List Term) (ts0 : List Term) :
    insertAll xs ts0 = none ↔ ∃ x ∈ xs, maxId ≤ x.id := by
  induction xs generalizing ts0 with
  | nil => simp [insertAll]
  | cons x xs ih =>
    simp only [insertAll, List.mem_cons, exists_eq_or_imp]
    unfold arenaInsert
    by_cases hx : x.id ≥ maxId
    · simp [hx]
    · simp only [hx, ↓reduceIte]
      have hx' : ¬ maxId ≤ x.id := hx
      cases getT ts0 x.id with
      | some _ => simp [ih, hx']
      | none => simp [ih, hx']

/-- **Iteration.** Iterating yields every inserted id exactly once and agrees with `len()` -/
theorem C10_iter (ops : List BOp) (o : Onto) (h : runB ops {} = some o) :
    (o.ids).Nodup ∧ o.ids.length = o.terms.length ∧
    ∀ id, id ∈ o.ids ↔ (o.get id).isSome := by
  obtain ⟨hpre, _⟩ := preInv_run ops {} o preInv_nil h
  refine ⟨hpre.nodup, by simp [Onto.ids], ?_⟩
  intro id
  unfold Onto.ids Onto.get arenaGet
  rw [← getT_isSome_iff]
  split
  · rename_i hge
    simp only [Option.isSome_none, Bool.false_eq_true, iff_false]
    intro hs; have := hpre.small id hs; omega
  · rfl

/-! ### the two-vector arena of the code refines the association list -/

theorem C10_arena2_new (M : Nat) : Rel M (Arena2.new M) [] :=
  ⟨rfl, by simp [Arena2.new], fun id h => by simp [Arena2.new, slotOf, h]⟩

/-- `Arena::get` of the code = lookup in the abstract arena, for every id (`None` beyond the table) -/
theorem C10_arena2_get (M : Nat) (a : Arena2) (ts : List Term) (h : Rel M a ts) (id : Nat) :
    a.get id = if id < M then getT ts id else none := by
  unfold Arena2.get
  by_cases hid : id < M
  · rw [h.table id hid, if_pos hid]
    cases hs : slotOf ts id with
    | zero => simp only; exact ((slotOf_zero_iff ts id).1 hs).symm
    | succ n =>
      simp only
      have := get_slot ts id placeholder (by rw [hs]; simp)
      rw [hs] at this
      rw [h.terms]; exact this
  · have : a.ids[id]? = none := by
      rw [List.getElem?_eq_none_iff]; rw [h.size]; omega
    simp [this, hid]

/-- `Arena::insert` of the code = `arenaInsert` of the abstract arena (same panic condition,
same no-op on duplicates, same append otherwise), and the representation is preserved -/
theorem C10_arena2_insert (M : Nat) (a : Arena2) (ts : List Term) (h : Rel M a ts) (t : Term) :
    (t.id ≥ M → a.insert t = none) ∧
    (t.id < M → ∃ a', a.insert t = some a' ∧
      Rel M a' (match getT ts t.id with | some _ => ts | none => ts ++ [t])) := by
  unfold Arena2.insert
  constructor
  · intro hge
    have : a.ids[t.id]? = none := by rw [List.getElem?_eq_none_iff]; rw [h.size]; omega
    simp [this]
  · intro hlt
    rw [h.table t.id hlt]
    cases hs : slotOf ts t.id with
    | zero =>
      have hnone := (slotOf_zero_iff ts t.id).1 hs
      simp only [hnone]
      refine ⟨_, rfl, ⟨by simp [h.terms], by simp [h.size], ?_⟩⟩
      intro id hid
      rw [slotOf_append]
      by_cases he : id = t.id
      · subst he
        simp [hs, h.terms, List.getElem?_set, h.size, hid]
      · have he' : ¬ t.id = id := fun e => he e.symm
        rw [List.getElem?_set_ne (by omega), h.table id hid]
        cases hs' : slotOf ts id <;> simp [he']
    | succ n =>
      have : getT ts t.id ≠ none := by
        intro hn; have := (slotOf_zero_iff ts t.id).2 hn; omega
      cases hg : getT ts t.id with
      | none => exact absurd hg this
      | some _ => exact ⟨a, rfl, h⟩

/-- `len()` of the code's layout -/
theorem C10_arena2_len (M : Nat) (a : Arena2) (ts : List Term) (h : Rel M a ts) :
    a.len = ts.length ∧ a.values = ts := by
  simp [Arena2.len, Arena2.values, h.terms]

/-! ### records and names -/

/-- **Gene / disease by id.** The record found carries the id asked for -/
theorem C10_rec_by_id (rs : List Rec) (i : Nat) :
    (∀ r, getR rs i = some r → r.id = i ∧ r ∈ rs) ∧
    ((getR rs i).isSome ↔ ∃ r ∈ rs, r.id = i) := by
  refine ⟨fun r h => ⟨getR_id h, getR_mem h⟩, ?_⟩
  rw [getR_isSome_iff]; simp

/-- **Gene by symbol.** Returns a gene of the ontology with exactly that symbol, and nothing iff
no gene has that symbol -/
theorem C10_gene_by_name (o : Onto) (q : List Char) :
    (∀ g, o.geneByName q = some g → g.name = q ∧ g ∈ o.genes) ∧
    (o.geneByName q = none ↔ ∀ g ∈ o.genes, g.name ≠ q) := by
  unfold Onto.geneByName
  constructor
  · intro g h
    exact ⟨by have := List.find?_some h; simpa using this, List.mem_of_find?_eq_some h⟩
  · simp [List.find?_eq_none]

/-- **Disease name search** returns exactly the diseases whose name contains the query
(for every query string, the empty one included) -/
theorem C10_disease_search (o : Onto) (q : List Char) (d : Rec) :
    d ∈ o.omimByName q ↔ d ∈ o.omim ∧ ∃ s t, d.name = s ++ q ++ t := by
  simp [Onto.omimByName, List.mem_filter, isInfix_iff]

/-! ### non-vacuity -/

example : insertAll [{ id := 0, name := ['a'] }, { id := 9999999, name := [] }, { id := 0, name := ['b'] }] []
    = some [{ id := 0, name := ['a'] }, { id := 9999999, name := [] }] := by decide

example : insertAll [{ id := 10000000, name := [] }] [] = none := by decide

example : isInfix "ar".toList "Marfan".toList = true ∧ isInfix [] [] = true ∧
    isInfix "x".toList "Marfan".toList = false := by decide

end Hpo.C10
