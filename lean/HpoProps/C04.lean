import HpoProofs.Similarity
import HpoProofs.RoundedSim
import HpoProofs.Distance
/-!
# C04 — built-in term similarities follow their definitions, symmetric, finite, ≥ 0

Theorems about `HpoModel/Similarity.lean` instantiated at `ℝ` (`HpoProofs/NumReal.lean`), with
CHECKED division: an algorithm returns `none` exactly when the code would divide by zero
(NaN / ±inf in `f32`), so `C04_defined_*` is the "never NaN, always finite" content.

The information content is an arbitrary function `ic : ℕ → ℝ` of the term id, constrained only by
C03's conclusions, taken as explicit hypotheses:
  * `hn : ∀ i, 0 ≤ ic i`;
  * `Mono ic t` : if `0 < ic t` (the term carries an annotation of the kind and not all of them)
    then `ic c ≤ ic t` for every ancestor `c` of `t`.
Ancestor groups / annotation sets are sorted id vectors (`Sorted`, C12/C01's invariant), which is
only needed for the argument-order symmetry (both orders then walk the same vector).
No bound on the size of the ontology, the ancestor sets or the ids.

PARTIAL (see `lib/propmeta.py`): the formula theorems are over ℝ; how close the f32 VALUES are
(rounding, accuracy of `logf`/`expf`) is covered only by the tolerance of the correspondence check.
The symmetry / definedness / sign / range / self-similarity clauses are proved a second time for
EVERY correctly-rounding arithmetic (`C04_*_rounded`, section "the order / sign / symmetry clauses").
-/
namespace Hpo.C04
open Hpo Hpo.Sim Hpo.Group Hpo.NumReal

/-! ## the groups the formulas range over -/

/-- inclusive common ancestors / union of the strict ancestor sets: membership, no duplicates -/
theorem C04_groups (a b : Term) (ha : Sorted a.allParents) (hb : Sorted b.allParents) :
    (∀ c, c ∈ a.allCommonAncestorIds b ↔
      (c = a.id ∨ c ∈ a.allParents) ∧ (c = b.id ∨ c ∈ b.allParents)) ∧
    (∀ c, c ∈ a.unionAncestorIds b ↔ c ∈ a.allParents ∨ c ∈ b.allParents) ∧
    (a.allCommonAncestorIds b).Nodup ∧ (a.unionAncestorIds b).Nodup :=
  ⟨mem_common a b, mem_union a b, (sorted_common a b ha hb).nodup, (sorted_bitor _ _ ha hb).nodup⟩

/-! ## GraphIC -/

theorem C04_formula_graphic (ic : ℕ → ℝ) (a b : Term) :
    graphIc ic a b = some
      (if a.id = b.id then 1
       else if ((a.unionAncestorIds b).map ic).sum = 0 then 0
       else ((a.allCommonAncestorIds b).map ic).sum / ((a.unionAncestorIds b).map ic).sum) := by
  unfold graphIc
  by_cases h : a.id = b.id
  · simp [h]
  · by_cases hz : ((a.unionAncestorIds b).map ic).sum = 0
    · simp [h, sumIc_eq, hz]
    · simp [h, sumIc_eq, hz, div?_eq]

theorem C04_defined_graphic (ic : ℕ → ℝ) (a b : Term) : ∃ v, graphIc ic a b = some v :=
  ⟨_, C04_formula_graphic ic a b⟩

theorem C04_nonneg_graphic (ic : ℕ → ℝ) (a b : Term) (hn : ∀ i, 0 ≤ ic i) (v : ℝ)
    (h : graphIc ic a b = some v) : 0 ≤ v := by
  rw [C04_formula_graphic] at h
  injection h with h
  subst h
  have h1 := sumIc_nonneg ic hn (a.allCommonAncestorIds b)
  have h2 := sumIc_nonneg ic hn (a.unionAncestorIds b)
  rw [sumIc_eq] at h1 h2
  split
  · exact zero_le_one
  · split
    · exact le_refl _
    · exact div_nonneg h1 h2

theorem C04_symm_graphic (ic : ℕ → ℝ) (a b : Term) (ha : Sorted a.allParents)
    (hb : Sorted b.allParents) : graphIc ic a b = graphIc ic b a := by
  unfold graphIc
  rw [common_comm a b ha hb, union_comm a b ha hb]
  by_cases h : a.id = b.id
  · simp [h]
  · have h' : ¬ b.id = a.id := fun e => h e.symm
    simp [h, h']

theorem C04_self_graphic (ic : ℕ → ℝ) (a : Term) : graphIc ic a a = some 1 := by
  simp [graphIc]

/-! ## Resnik -/

/-- Resnik = the largest ic among the inclusive common ancestors, 0 if there is none (or all are 0):
it bounds every candidate, and it is attained (or 0) -/
theorem C04_formula_resnik (ic : ℕ → ℝ) (a b : Term) :
    resnik ic a b = ((a.allCommonAncestorIds b).map ic).foldl max 0 ∧
    (∀ c ∈ a.allCommonAncestorIds b, ic c ≤ resnik ic a b) ∧ 0 ≤ resnik ic a b ∧
    (resnik ic a b = 0 ∨ ∃ c ∈ a.allCommonAncestorIds b, resnik ic a b = ic c) := by
  refine ⟨?_, ?_, resnik_nonneg ic a b, ?_⟩
  · simp [resnik, maxGo_eq]
  · intro c hc; exact le_maxGo_mem ic _ _ c hc
  · have := maxGo_attained ic (Num.ofNat 0) (a.allCommonAncestorIds b)
    simpa [resnik] using this

theorem C04_nonneg_resnik (ic : ℕ → ℝ) (a b : Term) : 0 ≤ resnik ic a b := resnik_nonneg ic a b

theorem C04_symm_resnik (ic : ℕ → ℝ) (a b : Term) (ha : Sorted a.allParents)
    (hb : Sorted b.allParents) : resnik ic a b = resnik ic b a := resnik_comm ic a b ha hb

/-- Resnik never exceeds the ic of either argument with positive ic (used by Jiang-Conrath) -/
theorem C04_resnik_le_min (ic : ℕ → ℝ) (a b : Term) (hma : Mono ic a) (hmb : Mono ic b)
    (h1 : 0 < ic a.id) (h2 : 0 < ic b.id) : resnik ic a b ≤ min (ic a.id) (ic b.id) :=
  le_min (resnik_le_left ic a b hma h1) (resnik_le_right ic a b hmb h2)

/-! ## Lin -/

theorem C04_formula_lin (ic : ℕ → ℝ) (a b : Term) :
    lin ic a b = some
      (if ic a.id + ic b.id = 0 then 0 else 2 * resnik ic a b / (ic a.id + ic b.id)) := by
  unfold lin
  by_cases hz : ic a.id + ic b.id = 0
  · simp [hz]
  · simp [hz, div?_eq]

theorem C04_defined_lin (ic : ℕ → ℝ) (a b : Term) : ∃ v, lin ic a b = some v :=
  ⟨_, C04_formula_lin ic a b⟩

theorem C04_nonneg_lin (ic : ℕ → ℝ) (a b : Term) (hn : ∀ i, 0 ≤ ic i) (v : ℝ)
    (h : lin ic a b = some v) : 0 ≤ v := by
  rw [C04_formula_lin] at h
  injection h with h
  subst h
  split
  · exact le_refl _
  · exact div_nonneg (mul_nonneg (by norm_num) (resnik_nonneg ic a b)) (add_nonneg (hn _) (hn _))

theorem C04_symm_lin (ic : ℕ → ℝ) (a b : Term) (ha : Sorted a.allParents)
    (hb : Sorted b.allParents) : lin ic a b = lin ic b a := by
  rw [C04_formula_lin, C04_formula_lin, resnik_comm ic a b ha hb, add_comm (ic a.id)]

/-! ## Jiang-Conrath -/

theorem C04_formula_jc (ic : ℕ → ℝ) (a b : Term) (hn : ∀ i, 0 ≤ ic i) (hma : Mono ic a)
    (hmb : Mono ic b) :
    jc ic a b = some
      (if a.id = b.id then 1
       else if ic a.id = 0 ∨ ic b.id = 0 then 0
       else 1 / (ic a.id + ic b.id - 2 * resnik ic a b + 1)) ∧
    (a.id ≠ b.id → ic a.id ≠ 0 → ic b.id ≠ 0 → 1 ≤ ic a.id + ic b.id - 2 * resnik ic a b + 1) := by
  constructor
  · unfold jc
    by_cases h : a.id = b.id
    · simp [h]
    · by_cases h1 : ic a.id = 0
      · simp [h, h1]
      · by_cases h2 : ic b.id = 0
        · simp [h, h2]
        · have hd := jcDenom_ge_one ic a b hn hma hmb h1 h2
          have hne : jcDenom ic a b ≠ 0 := by linarith
          have he : jcDenom ic a b = ic a.id + ic b.id - 2 * resnik ic a b + 1 := by
            simp [jcDenom]
          rw [he] at hne
          simp [h, h1, h2, div?_eq, he, hne]
  · intro _ h1 h2
    have hd := jcDenom_ge_one ic a b hn hma hmb h1 h2
    simpa [jcDenom] using hd

/-- no zero denominator: past the two guards the denominator is ≥ 1 -/
theorem C04_defined_jc (ic : ℕ → ℝ) (a b : Term) (hn : ∀ i, 0 ≤ ic i) (hma : Mono ic a)
    (hmb : Mono ic b) : ∃ v, jc ic a b = some v :=
  ⟨_, (C04_formula_jc ic a b hn hma hmb).1⟩

theorem C04_nonneg_jc (ic : ℕ → ℝ) (a b : Term) (hn : ∀ i, 0 ≤ ic i) (hma : Mono ic a)
    (hmb : Mono ic b) (v : ℝ) (h : jc ic a b = some v) : 0 ≤ v ∧ v ≤ 1 := by
  have hf := C04_formula_jc ic a b hn hma hmb
  rw [hf.1] at h
  injection h with h
  subst h
  split
  · exact ⟨zero_le_one, le_refl _⟩
  · rename_i hab
    split
    · exact ⟨le_refl _, zero_le_one⟩
    · rename_i h0
      have h1 : ic a.id ≠ 0 := fun e => h0 (Or.inl e)
      have h2 : ic b.id ≠ 0 := fun e => h0 (Or.inr e)
      have hd := hf.2 hab h1 h2
      have hpos : 0 < ic a.id + ic b.id - 2 * resnik ic a b + 1 := by linarith
      exact ⟨by positivity, by rw [div_le_one hpos]; exact hd⟩

theorem C04_symm_jc (ic : ℕ → ℝ) (a b : Term) (ha : Sorted a.allParents)
    (hb : Sorted b.allParents) : jc ic a b = jc ic b a := by
  unfold jc jcDenom
  rw [resnik_comm ic a b ha hb]
  by_cases h : a.id = b.id
  · simp [h]
  · have h' : ¬ b.id = a.id := fun e => h e.symm
    simp only [h, h', if_false, add_eq, Bool.or_comm (Num.isZero (ic a.id)), add_comm (ic a.id)]

theorem C04_self_jc (ic : ℕ → ℝ) (a : Term) : jc ic a a = some 1 := by
  simp [jc]

/-! ## Relevance -/

theorem C04_formula_relevance (ic : ℕ → ℝ) (a b : Term) :
    relevance ic a b = some
      ((if ic a.id + ic b.id = 0 then 0 else 2 * resnik ic a b / (ic a.id + ic b.id))
        * (1 - Real.exp (-(resnik ic a b)))) := by
  simp [relevance, C04_formula_lin]

theorem C04_defined_relevance (ic : ℕ → ℝ) (a b : Term) : ∃ v, relevance ic a b = some v :=
  ⟨_, C04_formula_relevance ic a b⟩

theorem C04_nonneg_relevance (ic : ℕ → ℝ) (a b : Term) (hn : ∀ i, 0 ≤ ic i) (v : ℝ)
    (h : relevance ic a b = some v) : 0 ≤ v := by
  obtain ⟨l, hl⟩ := C04_defined_lin ic a b
  have hl0 := C04_nonneg_lin ic a b hn l hl
  simp only [relevance, hl, Option.map_some, Option.some.injEq] at h
  subst h
  have he : Real.exp (-(resnik ic a b)) ≤ 1 := by
    rw [Real.exp_le_one_iff]; linarith [resnik_nonneg ic a b]
  apply mul_nonneg hl0
  simp only [sub_eq, ofNat_eq, exp_eq, neg_eq]
  push_cast
  linarith

theorem C04_symm_relevance (ic : ℕ → ℝ) (a b : Term) (ha : Sorted a.allParents)
    (hb : Sorted b.allParents) : relevance ic a b = relevance ic b a := by
  unfold relevance
  rw [C04_symm_lin ic a b ha hb, resnik_comm ic a b ha hb]

/-! ## Information coefficient -/

theorem C04_formula_infocoef (ic : ℕ → ℝ) (a b : Term) :
    infoCoef ic a b = some
      ((if ic a.id + ic b.id = 0 then 0 else 2 * resnik ic a b / (ic a.id + ic b.id))
        * (1 - 1 / (1 + resnik ic a b))) ∧ 1 + resnik ic a b ≠ 0 := by
  have hr := resnik_nonneg ic a b
  have hne : (1 : ℝ) + resnik ic a b ≠ 0 := by linarith
  refine ⟨?_, hne⟩
  simp [infoCoef, C04_formula_lin, div?_eq, hne]

/-- no zero denominator: `1 + resnik ≥ 1` -/
theorem C04_defined_infocoef (ic : ℕ → ℝ) (a b : Term) : ∃ v, infoCoef ic a b = some v :=
  ⟨_, (C04_formula_infocoef ic a b).1⟩

theorem C04_nonneg_infocoef (ic : ℕ → ℝ) (a b : Term) (hn : ∀ i, 0 ≤ ic i) (v : ℝ)
    (h : infoCoef ic a b = some v) : 0 ≤ v := by
  rw [(C04_formula_infocoef ic a b).1] at h
  injection h with h
  subst h
  have hr := resnik_nonneg ic a b
  have hl : 0 ≤ (if ic a.id + ic b.id = 0 then (0 : ℝ) else 2 * resnik ic a b / (ic a.id + ic b.id)) := by
    split
    · exact le_refl _
    · exact div_nonneg (mul_nonneg (by norm_num) hr) (add_nonneg (hn _) (hn _))
  apply mul_nonneg hl
  have hpos : (0 : ℝ) < 1 + resnik ic a b := by linarith
  have : 1 / (1 + resnik ic a b) ≤ 1 := by rw [div_le_one hpos]; linarith
  linarith

theorem C04_symm_infocoef (ic : ℕ → ℝ) (a b : Term) (ha : Sorted a.allParents)
    (hb : Sorted b.allParents) : infoCoef ic a b = infoCoef ic b a := by
  unfold infoCoef
  rw [C04_symm_lin ic a b ha hb, resnik_comm ic a b ha hb]

/-! ## Distance -/

theorem C04_formula_distance (d : Option ℕ) :
    (distanceSim d : Option ℝ) = some (match d with | none => 0 | some n => 1 / ((n : ℝ) + 1)) := by
  cases d with
  | none => simp [distanceSim]
  | some n =>
    have : (n : ℝ) + 1 ≠ 0 := by positivity
    simp [distanceSim, div?_eq, this]

/-- no zero denominator: `n + 1 > 0` -/
theorem C04_defined_distance (d : Option ℕ) : ∃ v : ℝ, distanceSim d = some v :=
  ⟨_, C04_formula_distance d⟩

theorem C04_nonneg_distance (d : Option ℕ) (v : ℝ) (h : distanceSim d = some v) : 0 ≤ v ∧ v ≤ 1 := by
  rw [C04_formula_distance] at h
  injection h with h
  subst h
  cases d with
  | none => exact ⟨le_refl _, zero_le_one⟩
  | some n =>
    have hpos : (0 : ℝ) < (n : ℝ) + 1 := by positivity
    refine ⟨by positivity, ?_⟩
    show 1 / ((n : ℝ) + 1) ≤ 1
    rw [div_le_one hpos]
    have : (0 : ℝ) ≤ n := Nat.cast_nonneg n
    linarith

/-- a term is at distance 0 from itself, which scores 1 -/
theorem C04_self_distance : (distanceSim (some 0) : Option ℝ) = some 1 := by
  simp [distanceSim, div?_eq]

/-! ## Mutation -/

theorem mutationGene_eq (x y : List ℕ) :
    (mutationGene x y : Option ℝ) = some
      (if bitor x y = [] then 0 else ((bitand x y).length : ℝ) / ((bitor x y).length : ℝ)) := by
  unfold mutationGene
  by_cases h : bitor x y = []
  · simp [h]
  · have hl : ((bitor x y).length : ℝ) ≠ 0 := by
      have : (bitor x y).length ≠ 0 := fun e => h (List.length_eq_zero_iff.1 e)
      exact_mod_cast this
    simp [h, div?_eq, hl]

theorem mutationDisease_eq (x y : List ℕ) :
    (mutationDisease x y : Option ℝ) = some
      (if bitor x y = [] then 0 else ((bitand x y).length : ℝ) / ((bitor x y).length : ℝ)) := by
  unfold mutationDisease
  by_cases h : bitor x y = []
  · simp [h]
  · have hl : ((bitor x y).length : ℝ) ≠ 0 := by
      have : (bitor x y).length ≠ 0 := fun e => h (List.length_eq_zero_iff.1 e)
      exact_mod_cast this
    simp [h, div?_eq, hl]

/-- Mutation = |A ∩ B| / |A ∪ B| of the two annotation sets of the kind (`bitand`/`bitor` are
intersection and union of sorted id sets by C12), 0 for ∅/∅, 1 for a term with itself -/
theorem C04_formula_mutation (k : Kind) (a b : Term) :
    (mutation k a b : Option ℝ) = some
      (if a.id = b.id then 1
       else if bitor (a.ann k) (b.ann k) = [] then 0
       else ((bitand (a.ann k) (b.ann k)).length : ℝ) / ((bitor (a.ann k) (b.ann k)).length : ℝ)) := by
  unfold mutation
  by_cases h : a.id = b.id
  · simp [h]
  · cases k <;> simp only [h, if_false, mutationGene_eq, mutationDisease_eq, Term.ann] <;> congr

/-- no zero denominator (after the fix): the union is non-empty when it is divided by -/
theorem C04_defined_mutation (k : Kind) (a b : Term) : ∃ v : ℝ, mutation k a b = some v :=
  ⟨_, C04_formula_mutation k a b⟩

/-- … where the two counts are the cardinalities of the intersection and of the union of the two
annotation sets -/
theorem C04_mutation_counts (x y : List ℕ) (hx : Sorted x) (hy : Sorted y) :
    (bitand x y).length = (x.toFinset ∩ y.toFinset).card ∧
    (bitor x y).length = (x.toFinset ∪ y.toFinset).card := by
  constructor
  · rw [← List.toFinset_card_of_nodup (sorted_bitand x y hx hy).nodup]
    congr 1
    ext c
    simp [mem_bitand]
  · rw [← List.toFinset_card_of_nodup (sorted_bitor x y hx hy).nodup]
    congr 1
    ext c
    simp [mem_bitor]

theorem C04_nonneg_mutation (k : Kind) (a b : Term) (v : ℝ) (h : mutation k a b = some v) :
    0 ≤ v := by
  rw [C04_formula_mutation] at h
  injection h with h
  subst h
  split
  · exact zero_le_one
  · split
    · exact le_refl _
    · positivity

theorem C04_symm_mutation (k : Kind) (a b : Term) (ha : Sorted (a.ann k)) (hb : Sorted (b.ann k)) :
    (mutation k a b : Option ℝ) = mutation k b a := by
  rw [C04_formula_mutation, C04_formula_mutation, bitor_comm' _ _ ha hb, bitand_comm' _ _ ha hb]
  by_cases h : a.id = b.id
  · simp [h]
  · have h' : ¬ b.id = a.id := fun e => h e.symm
    simp [h, h']

theorem C04_self_mutation (k : Kind) (a : Term) : (mutation k a a : Option ℝ) = some 1 := by
  simp [mutation]

/-- two distinct terms without any annotation of the kind score 0 -/
theorem C04_mutation_unannotated (k : Kind) (a b : Term) (hab : a.id ≠ b.id)
    (ha : a.ann k = []) (hb : b.ann k = []) : (mutation k a b : Option ℝ) = some 0 := by
  rw [C04_formula_mutation]
  simp [hab, ha, hb, bitor]

/-- BEFORE the fix (`Mutation::gene_similarity` without the empty-union guard) the property is
false: two distinct terms without genes make the code divide 0 by 0 (observed: NaN) -/
theorem C04_mutation_gene_prefix_counterexample :
    ∃ a b : Term, a.id ≠ b.id ∧ (mutationPrefix .gene a b : Option ℝ) = none := by
  refine ⟨{ id := 1, name := [] }, { id := 2, name := [] }, by decide, ?_⟩
  simp [mutationPrefix, mutationGenePrefix, bitor, bitand, div?_eq]

/-! ## all eight through the `Builtins` dispatch -/

/-- the value an algorithm computes from the observations of the two terms; `d` = the result of
`distance_to_term` -/
noncomputable def core (alg : Alg) (k : Kind) (ic : ℕ → ℝ) (d : Option ℕ) (a b : Term) : Option ℝ :=
  match alg with
  | .graphIc => graphIc ic a b
  | .resnik => some (resnik ic a b)
  | .lin => lin ic a b
  | .jc => jc ic a b
  | .relevance => relevance ic a b
  | .infoCoef => infoCoef ic a b
  | .distance => distanceSim d
  | .mutation => mutation k a b

/-- whenever `<Builtins as Similarity>::calculate` returns (no panic), it returns the value of
the algorithm's formula -/
theorem C04_builtin_value (o : Onto) (alg : Alg) (k : Kind) (ic : ℕ → ℝ) (a b : Term)
    (r : Option ℝ) (h : builtin o alg k ic a b = .ok r) :
    ∃ d, (alg = .distance → o.distToTerm a b = .ok d) ∧ r = core alg k ic d a b := by
  cases alg
  case distance =>
    simp only [builtin] at h
    split at h
    · rename_i d hd
      refine ⟨d, fun _ => hd, ?_⟩
      split at h
      · split at h
        · injection h with h; exact h.symm
        · cases h
      · injection h with h; exact h.symm
    all_goals cases h
  all_goals
    refine ⟨none, by simp, ?_⟩
    simp only [builtin] at h
    repeat' split at h
    all_goals first
      | cases h; done
      | (injection h with h; exact h.symm)

/-- never NaN / inf, never negative: every algorithm divides only by non-zero denominators and
returns a value ≥ 0, for every pair of terms and every kind -/
theorem C04_defined_nonneg (alg : Alg) (k : Kind) (ic : ℕ → ℝ) (d : Option ℕ) (a b : Term)
    (hn : ∀ i, 0 ≤ ic i) (hma : Mono ic a) (hmb : Mono ic b) :
    ∃ v, core alg k ic d a b = some v ∧ 0 ≤ v := by
  cases alg
  case graphIc =>
    obtain ⟨v, hv⟩ := C04_defined_graphic ic a b
    exact ⟨v, hv, C04_nonneg_graphic ic a b hn v hv⟩
  case resnik => exact ⟨_, rfl, resnik_nonneg ic a b⟩
  case lin =>
    obtain ⟨v, hv⟩ := C04_defined_lin ic a b
    exact ⟨v, hv, C04_nonneg_lin ic a b hn v hv⟩
  case jc =>
    obtain ⟨v, hv⟩ := C04_defined_jc ic a b hn hma hmb
    exact ⟨v, hv, (C04_nonneg_jc ic a b hn hma hmb v hv).1⟩
  case relevance =>
    obtain ⟨v, hv⟩ := C04_defined_relevance ic a b
    exact ⟨v, hv, C04_nonneg_relevance ic a b hn v hv⟩
  case infoCoef =>
    obtain ⟨v, hv⟩ := C04_defined_infocoef ic a b
    exact ⟨v, hv, C04_nonneg_infocoef ic a b hn v hv⟩
  case distance =>
    obtain ⟨v, hv⟩ := C04_defined_distance d
    exact ⟨v, hv, (C04_nonneg_distance d v hv).1⟩
  case mutation =>
    obtain ⟨v, hv⟩ := C04_defined_mutation k a b
    exact ⟨v, hv, C04_nonneg_mutation k a b v hv⟩

/-- argument order is irrelevant for every algorithm (given a symmetric distance, see
`C04_symm_distance`) -/
theorem C04_symm (alg : Alg) (k : Kind) (ic : ℕ → ℝ) (d : Option ℕ) (a b : Term)
    (ha : Sorted a.allParents) (hb : Sorted b.allParents)
    (hka : Sorted (a.ann k)) (hkb : Sorted (b.ann k)) :
    core alg k ic d a b = core alg k ic d b a := by
  cases alg
  case graphIc => exact C04_symm_graphic ic a b ha hb
  case resnik => simp only [core, resnik_comm ic a b ha hb]
  case lin => exact C04_symm_lin ic a b ha hb
  case jc => exact C04_symm_jc ic a b ha hb
  case relevance => exact C04_symm_relevance ic a b ha hb
  case infoCoef => exact C04_symm_infocoef ic a b ha hb
  case distance => rfl
  case mutation => exact C04_symm_mutation k a b hka hkb

/-- a term compared with itself scores 1 for GraphIC, Jiang-Conrath, Distance and Mutation -/
theorem C04_self (k : Kind) (ic : ℕ → ℝ) (a : Term) :
    core .graphIc k ic none a a = some 1 ∧ core .jc k ic none a a = some 1 ∧
    core .distance k ic (some 0) a a = some 1 ∧ core .mutation k ic none a a = some 1 :=
  ⟨C04_self_graphic ic a, C04_self_jc ic a, C04_self_distance, C04_self_mutation k a⟩

/-- `distance_to_term` does not depend on the argument order (on every well-formed ontology:
parents resolve, ancestor groups are the closure, acyclic — `PathWF`, see C11) -/
theorem C04_symm_distance (o : Onto) {rank : ℕ → ℕ} (wf : PathWF o rank) {i j : ℕ} (a b : Term)
    (hai : o.get i = some a) (hbj : o.get j = some b) : o.distToTerm a b = o.distToTerm b a :=
  Onto.distToTerm_symm wf hai hbj

/-- a term is at distance 0 from itself, so Distance through the dispatch scores exactly 1 -/
theorem C04_self_distance_onto (o : Onto) (k : Kind) (ic : ℕ → ℝ) (a : Term) (r : Option ℝ)
    (h : builtin o .distance k ic a a = .ok r) : r = some 1 := by
  obtain ⟨d, hd, hr⟩ := C04_builtin_value o .distance k ic a a r h
  have := Onto.distToTerm_self o a d (hd rfl)
  subst this
  rw [hr]
  exact C04_self_distance

/-- argument order is irrelevant through the whole dispatch, including the panic checks: if
`S(a, b)` returns a value then `S(b, a)` returns the same value -/
theorem C04_symm_builtin (o : Onto) {rank : ℕ → ℕ} (wf : PathWF o rank) {i j : ℕ}
    (alg : Alg) (k : Kind) (ic : ℕ → ℝ) (a b : Term)
    (hai : o.get i = some a) (hbj : o.get j = some b)
    (ha : Sorted a.allParents) (hb : Sorted b.allParents)
    (hka : Sorted (a.ann k)) (hkb : Sorted (b.ann k)) (r : Option ℝ)
    (h : builtin o alg k ic a b = .ok r) : builtin o alg k ic b a = .ok r := by
  have hc : b.allCommonAncestorIds a = a.allCommonAncestorIds b := common_comm b a hb ha
  have hu : b.unionAncestorIds a = a.unionAncestorIds b := union_comm b a hb ha
  have hadd : ic b.id + ic a.id = ic a.id + ic b.id := add_comm _ _
  have hor : bitor (b.ann k) (a.ann k) = bitor (a.ann k) (b.ann k) := bitor_comm' _ _ hkb hka
  by_cases hid : a.id = b.id
  · have hid' : b.id = a.id := hid.symm
    cases alg
    case distance =>
      obtain ⟨d, hd, _⟩ := C04_builtin_value o .distance k ic a b r h
      have hd' : o.distToTerm b a = .ok d := by rw [← Onto.distToTerm_symm wf hai hbj]; exact hd rfl
      have hd0 := hd rfl
      simp only [builtin, hd0] at h
      simp only [builtin, hd']
      exact h
    case graphIc =>
      simp only [builtin, hid', if_true] at h ⊢
      rw [C04_symm_graphic ic b a hb ha]; simpa [hid] using h
    case resnik =>
      simp only [builtin, hc] at h ⊢
      rw [resnik_comm ic b a hb ha]; exact h
    case lin =>
      simp only [builtin, hc, add_eq, hadd] at h ⊢
      rw [C04_symm_lin ic b a hb ha]; exact h
    case jc =>
      simp only [builtin, hid', if_true] at h ⊢
      rw [C04_symm_jc ic b a hb ha]; simpa [hid] using h
    case relevance =>
      simp only [builtin, hc] at h ⊢
      rw [C04_symm_relevance ic b a hb ha]; exact h
    case infoCoef =>
      simp only [builtin, hc] at h ⊢
      rw [C04_symm_infocoef ic b a hb ha]; exact h
    case mutation =>
      simp only [builtin, hid', if_true] at h ⊢
      rw [C04_symm_mutation k b a hkb hka]; simpa [hid] using h
  · have hid' : ¬ b.id = a.id := fun e => hid e.symm
    cases alg
    case distance =>
      obtain ⟨d, hd, _⟩ := C04_builtin_value o .distance k ic a b r h
      have hd' : o.distToTerm b a = .ok d := by rw [← Onto.distToTerm_symm wf hai hbj]; exact hd rfl
      have hd0 := hd rfl
      simp only [builtin, hd0] at h
      simp only [builtin, hd']
      exact h
    case graphIc =>
      simp only [builtin, hid, hid', hc, hu, if_false] at h ⊢
      rw [C04_symm_graphic ic b a hb ha]; exact h
    case resnik =>
      simp only [builtin, hc] at h ⊢
      rw [resnik_comm ic b a hb ha]; exact h
    case lin =>
      simp only [builtin, hc, add_eq, hadd] at h ⊢
      rw [C04_symm_lin ic b a hb ha]; exact h
    case jc =>
      simp only [builtin, hid, hid', hc, if_false] at h ⊢
      rw [C04_symm_jc ic b a hb ha, Bool.or_comm]; exact h
    case relevance =>
      simp only [builtin, hc] at h ⊢
      rw [C04_symm_relevance ic b a hb ha]; exact h
    case infoCoef =>
      simp only [builtin, hc] at h ⊢
      rw [C04_symm_infocoef ic b a hb ha]; exact h
    case mutation =>
      simp only [builtin, hid, hid', hor, if_false] at h ⊢
      rw [C04_symm_mutation k b a hkb hka]; exact h

/-! ## the order / sign / symmetry clauses for EVERY correctly-rounding arithmetic

`R : Rounding` (`HpoProofs/Rounded.lean`): explicit hypotheses on a rounding function `rnd`
(monotone, integers up to 2^24 exact, no flush to zero in the normal range) and on the library
`ln` / `exp` (monotone `lg` with `lg 1 = 0`, `ex x ≤ 1` for `x ≤ 0`; NOT exact).  The SAME model
functions are evaluated at `RVal R`, where every `+ - * /` and integer conversion is followed by
`rnd`.  The information content is an arbitrary `ic : ℕ → RVal R` with C03's (rounded)
conclusions as hypotheses: `0 ≤ ic i`, `MonoR ic t`.  What remains trusted: `f32` arithmetic with
the platform libm is such an `R` and does not overflow on these values. -/

/-- Resnik only compares, so it is EXACT under every rounding: the largest ic among the inclusive
common ancestors (0 if none), attained, ≥ 0, symmetric, ≤ the ic of either argument -/
theorem C04_resnik_rounded (R : Rounding) (ic : ℕ → RVal R) (a b : Term) :
    (∀ c ∈ a.allCommonAncestorIds b, (ic c).v ≤ (resnik ic a b).v) ∧ 0 ≤ (resnik ic a b).v ∧
    ((resnik ic a b).v = 0 ∨ ∃ c ∈ a.allCommonAncestorIds b, resnik ic a b = ic c) ∧
    (Sorted a.allParents → Sorted b.allParents → resnik ic a b = resnik ic b a) ∧
    (MonoR ic a → 0 < (ic a.id).v → (resnik ic a b).v ≤ (ic a.id).v) ∧
    (MonoR ic b → 0 < (ic b.id).v → (resnik ic a b).v ≤ (ic b.id).v) := by
  refine ⟨fun c hc => le_maxGoR_mem ic _ _ c hc, resnikR_nonneg ic a b, ?_,
    resnikR_comm ic a b, resnikR_le_left ic a b, resnikR_le_right ic a b⟩
  rcases maxGoR_attained ic (Num.ofNat 0) (a.allCommonAncestorIds b) with h | h
  · left; unfold resnik; rw [h]; simp
  · right; exact h

/-- the rounded Jiang-Conrath denominator `rnd(rnd(rnd(ic a + ic b) − rnd(2·resnik)) + 1)` is
still ≥ 1 past the two guards (monotonicity of each rounding), so `1 / denominator` is defined and
lies in [0, 1] -/
theorem C04_jc_rounded (R : Rounding) (ic : ℕ → RVal R) (a b : Term) (hn : ∀ i, 0 ≤ (ic i).v)
    (hma : MonoR ic a) (hmb : MonoR ic b) :
    ((ic a.id).v ≠ 0 → (ic b.id).v ≠ 0 → 1 ≤ (jcDenom ic a b).v) ∧
    ∃ v, jc ic a b = some v ∧ 0 ≤ v.v ∧ v.v ≤ 1 :=
  ⟨jcDenomR_ge_one ic a b hn hma hmb, jcR_defined_range ic a b hn hma hmb⟩

/-- Distance under rounding: `rnd (1 / rnd (rnd n + 1))` is defined for EVERY path length and
lies in [0, 1] -/
theorem C04_distance_rounded (R : Rounding) (d : Option ℕ) :
    ∃ v : RVal R, distanceSim d = some v ∧ 0 ≤ v.v ∧ v.v ≤ 1 :=
  distanceSimR_defined_range d

/-- the value an algorithm computes, at the rounded instance -/
noncomputable def coreR (R : Rounding) (alg : Alg) (k : Kind) (ic : ℕ → RVal R) (d : Option ℕ)
    (a b : Term) : Option (RVal R) :=
  match alg with
  | .graphIc => graphIc ic a b
  | .resnik => some (resnik ic a b)
  | .lin => lin ic a b
  | .jc => jc ic a b
  | .relevance => relevance ic a b
  | .infoCoef => infoCoef ic a b
  | .distance => distanceSim d
  | .mutation => mutation k a b

/-- whenever `<Builtins as Similarity>::calculate` returns, it returns `coreR` (the dispatch
adds panic checks only) -/
theorem C04_builtin_value_rounded (R : Rounding) (o : Onto) (alg : Alg) (k : Kind)
    (ic : ℕ → RVal R) (a b : Term) (r : Option (RVal R)) (h : builtin o alg k ic a b = .ok r) :
    ∃ d, (alg = .distance → o.distToTerm a b = .ok d) ∧ r = coreR R alg k ic d a b := by
  cases alg
  case distance =>
    simp only [builtin] at h
    split at h
    · rename_i d hd
      refine ⟨d, fun _ => hd, ?_⟩
      split at h
      · split at h
        · injection h with h; exact h.symm
        · cases h
      · injection h with h; exact h.symm
    all_goals cases h
  all_goals
    refine ⟨none, by simp, ?_⟩
    simp only [builtin] at h
    repeat' split at h
    all_goals first
      | cases h; done
      | (injection h with h; exact h.symm)

/-- **never NaN / inf, never negative under rounding**: every algorithm divides only by non-zero
ROUNDED denominators and returns a value ≥ 0, for every pair of terms, kind and path length -/
theorem C04_defined_nonneg_rounded (R : Rounding) (alg : Alg) (k : Kind) (ic : ℕ → RVal R)
    (d : Option ℕ) (a b : Term) (hn : ∀ i, 0 ≤ (ic i).v) (hma : MonoR ic a) (hmb : MonoR ic b) :
    ∃ v, coreR R alg k ic d a b = some v ∧ 0 ≤ v.v := by
  cases alg
  case graphIc => exact graphIcR_defined_nonneg ic a b hn
  case resnik => exact ⟨_, rfl, resnikR_nonneg ic a b⟩
  case lin => exact linR_defined_nonneg ic a b hn
  case jc =>
    obtain ⟨v, hv, h0, _⟩ := jcR_defined_range ic a b hn hma hmb
    exact ⟨v, hv, h0⟩
  case relevance => exact relevanceR_defined_nonneg ic a b hn
  case infoCoef => exact infoCoefR_defined_nonneg ic a b hn
  case distance =>
    obtain ⟨v, hv, h0, _⟩ := distanceSimR_defined_range (R := R) d
    exact ⟨v, hv, h0⟩
  case mutation => exact mutationR_defined_nonneg k a b

/-- **argument order is irrelevant under rounding**, bit for bit: rounded `+` and `*` are
commutative, the maximum fold and both ancestor vectors are the same for (a, b) and (b, a) -/
theorem C04_symm_rounded (R : Rounding) (alg : Alg) (k : Kind) (ic : ℕ → RVal R) (d : Option ℕ)
    (a b : Term) (ha : Sorted a.allParents) (hb : Sorted b.allParents)
    (hka : Sorted (a.ann k)) (hkb : Sorted (b.ann k)) :
    coreR R alg k ic d a b = coreR R alg k ic d b a := by
  cases alg
  case graphIc => exact graphIcR_symm ic a b ha hb
  case resnik => simp only [coreR, resnikR_comm ic a b ha hb]
  case lin => exact linR_symm ic a b ha hb
  case jc => exact jcR_symm ic a b ha hb
  case relevance => exact relevanceR_symm ic a b ha hb
  case infoCoef => exact infoCoefR_symm ic a b ha hb
  case distance => rfl
  case mutation => exact mutationR_symm k a b hka hkb

/-- a term compared with itself scores exactly 1 (`rnd 1 = 1`; Distance: `rnd (1 / rnd (0 + 1))`) -/
theorem C04_self_rounded (R : Rounding) (k : Kind) (ic : ℕ → RVal R) (a : Term) :
    coreR R .graphIc k ic none a a = some ⟨1⟩ ∧ coreR R .jc k ic none a a = some ⟨1⟩ ∧
    coreR R .distance k ic (some 0) a a = some ⟨1⟩ ∧ coreR R .mutation k ic none a a = some ⟨1⟩ := by
  have h1 : (Num.ofNat 1 : RVal R) = ⟨1⟩ := by apply RVal.ext'; simp
  refine ⟨?_, ?_, ?_, ?_⟩
  · simp [coreR, graphIc, h1]
  · simp [coreR, jc, h1]
  · simp only [coreR]; rw [distanceSimR_self, h1]
  · simp [coreR, mutation, h1]

/-- argument order is irrelevant through the whole dispatch under rounding, including the panic
checks: if `S(a, b)` returns a value then `S(b, a)` returns the same value -/
theorem C04_symm_builtin_rounded (R : Rounding) (o : Onto) {rank : ℕ → ℕ} (wf : PathWF o rank)
    {i j : ℕ} (alg : Alg) (k : Kind) (ic : ℕ → RVal R) (a b : Term)
    (hai : o.get i = some a) (hbj : o.get j = some b)
    (ha : Sorted a.allParents) (hb : Sorted b.allParents)
    (hka : Sorted (a.ann k)) (hkb : Sorted (b.ann k)) (r : Option (RVal R))
    (h : builtin o alg k ic a b = .ok r) : builtin o alg k ic b a = .ok r := by
  have hc : b.allCommonAncestorIds a = a.allCommonAncestorIds b := common_comm b a hb ha
  have hu : b.unionAncestorIds a = a.unionAncestorIds b := union_comm b a hb ha
  have hadd : Num.add (ic b.id) (ic a.id) = Num.add (ic a.id) (ic b.id) := NumR.add_comm _ _
  have hor : bitor (b.ann k) (a.ann k) = bitor (a.ann k) (b.ann k) := bitor_comm' _ _ hkb hka
  cases alg
  case distance =>
    obtain ⟨d, hd, _⟩ := C04_builtin_value_rounded R o .distance k ic a b r h
    have hd' : o.distToTerm b a = .ok d := by rw [← Onto.distToTerm_symm wf hai hbj]; exact hd rfl
    have hd0 := hd rfl
    simp only [builtin, hd0] at h
    simp only [builtin, hd']
    exact h
  case graphIc =>
    by_cases hid : a.id = b.id
    · simp only [builtin, hid, if_true] at h ⊢
      rw [graphIcR_symm ic b a hb ha]; exact h
    · have hid' : ¬ b.id = a.id := fun e => hid e.symm
      simp only [builtin, hid, hid', hc, hu, if_false] at h ⊢
      rw [graphIcR_symm ic b a hb ha]; exact h
  case resnik =>
    simp only [builtin, hc] at h ⊢
    rw [resnikR_comm ic b a hb ha]; exact h
  case lin =>
    simp only [builtin, hc, hadd] at h ⊢
    rw [linR_symm ic b a hb ha]; exact h
  case jc =>
    by_cases hid : a.id = b.id
    · simp only [builtin, hid, if_true] at h ⊢
      rw [jcR_symm ic b a hb ha]; exact h
    · have hid' : ¬ b.id = a.id := fun e => hid e.symm
      simp only [builtin, hid, hid', hc, if_false] at h ⊢
      rw [jcR_symm ic b a hb ha, Bool.or_comm]; exact h
  case relevance =>
    simp only [builtin, hc] at h ⊢
    rw [relevanceR_symm ic b a hb ha]; exact h
  case infoCoef =>
    simp only [builtin, hc] at h ⊢
    rw [infoCoefR_symm ic b a hb ha]; exact h
  case mutation =>
    by_cases hid : a.id = b.id
    · simp only [builtin, hid, if_true] at h ⊢
      rw [mutationR_symm k b a hkb hka]; exact h
    · have hid' : ¬ b.id = a.id := fun e => hid e.symm
      simp only [builtin, hid, hid', hor, if_false] at h ⊢
      rw [mutationR_symm k b a hkb hka]; exact h

/-- `Builtins::new`: every documented name and alias selects its algorithm, anything else fails -/
theorem C04_dispatch_names :
    algOfLower "graphic" = some .graphIc ∧ algOfLower "resnik" = some .resnik ∧
    algOfLower "distance" = some .distance ∧ algOfLower "dist" = some .distance ∧
    algOfLower "informationcoefficient" = some .infoCoef ∧ algOfLower "ic" = some .infoCoef ∧
    algOfLower "jc" = some .jc ∧ algOfLower "jc2" = some .jc ∧ algOfLower "lin" = some .lin ∧
    algOfLower "relevance" = some .relevance ∧ algOfLower "rel" = some .relevance ∧
    algOfLower "mutation" = some .mutation ∧ algOfLower "mut" = some .mutation ∧
    (∀ s, s ∉ ["graphic", "resnik", "distance", "dist", "informationcoefficient", "ic", "jc", "jc2",
      "lin", "relevance", "rel", "mutation", "mut"] → algOfLower s = none) := by
  refine ⟨by decide, by decide, by decide, by decide, by decide, by decide, by decide, by decide,
    by decide, by decide, by decide, by decide, by decide, ?_⟩
  intro s hs
  simp only [List.mem_cons, List.not_mem_nil, or_false, not_or] at hs
  simp [algOfLower, hs]

/-! ## non-vacuity: the hypotheses hold on a concrete ontology fragment with non-trivial values -/

/-- a diamond `4 → {2,3} → 1`, ic increasing downwards -/
noncomputable def exIc : ℕ → ℝ := fun i => if i = 1 then 0 else if i = 4 then 2 else 1
def exA : Term := { id := 2, name := [], allParents := [1], genes := [7, 9] }
def exB : Term := { id := 4, name := [], allParents := [1, 2, 3], genes := [9] }

example : (∀ i, 0 ≤ exIc i) ∧ Mono exIc exA ∧ Mono exIc exB ∧
    Sorted exA.allParents ∧ Sorted exB.allParents ∧ Sorted (exA.ann .gene) ∧ Sorted (exB.ann .gene) := by
  refine ⟨?_, ?_, ?_, by decide, by decide, by decide, by decide⟩
  · intro i; unfold exIc; split <;> [norm_num; (split <;> norm_num)]
  · intro _ c hc
    simp only [exA, List.mem_singleton] at hc
    subst hc; norm_num [exIc, exA]
  · intro _ c hc
    simp only [exB, List.mem_cons, List.not_mem_nil, or_false] at hc
    rcases hc with rfl | rfl | rfl <;> norm_num [exIc, exB]

/-- … and the scores there are the expected non-trivial numbers: Resnik(2,4) = ic 2 = 1,
Lin = 2·1/(1+2), JC = 1/(1+2−2+1), Mutation = 1/2 -/
example : resnik exIc exA exB = 1 ∧ lin exIc exA exB = some (2 / 3) ∧
    jc exIc exA exB = some (1 / 2) ∧ (mutation .gene exA exB : Option ℝ) = some (1 / 2) := by
  have hc : exA.allCommonAncestorIds exB = [1, 2] := by decide
  have hr : resnik exIc exA exB = 1 := by
    simp [resnik, hc, maxGo, exIc]
  refine ⟨hr, ?_, ?_, ?_⟩
  · rw [C04_formula_lin, hr]; norm_num [exIc, exA, exB]
  · unfold jc jcDenom; rw [hr]; norm_num [exIc, exA, exB, div?_eq]
  · rw [C04_formula_mutation]
    have h1 : bitor (exA.ann .gene) (exB.ann .gene) = [7, 9] := by decide
    have h2 : bitand (exA.ann .gene) (exB.ann .gene) = [9] := by decide
    rw [h1, h2]; norm_num [exA, exB]; decide

/-- the hypotheses of the `_rounded` theorems hold for the same fragment in EVERY rounding regime
(here with the values 0, 1, 2, which are representable everywhere), in particular in the inexact
`Rounding.grid`; there Jiang-Conrath of the two terms is defined and lies in [0, 1] -/
noncomputable def exIcR (R : Rounding) : ℕ → RVal R := fun i => ⟨exIc i⟩

theorem C04_rounded_hypotheses_satisfiable (R : Rounding) :
    (∀ i, 0 ≤ (exIcR R i).v) ∧ MonoR (exIcR R) exA ∧ MonoR (exIcR R) exB := by
  have e : ∀ i, (exIcR R i).v = exIc i := fun _ => rfl
  refine ⟨?_, ?_, ?_⟩
  · intro i; rw [e]; unfold exIc; split <;> [norm_num; (split <;> norm_num)]
  · intro _ c hc
    simp only [exA, List.mem_singleton] at hc
    subst hc; rw [e, e]; norm_num [exIc, exA]
  · intro _ c hc
    simp only [exB, List.mem_cons, List.not_mem_nil, or_false] at hc
    rcases hc with rfl | rfl | rfl <;> rw [e, e] <;> norm_num [exIc, exB]

example : ∃ v : RVal Rounding.grid, coreR Rounding.grid .jc .gene (exIcR _) none exA exB = some v ∧
    0 ≤ v.v :=
  C04_defined_nonneg_rounded Rounding.grid .jc .gene (exIcR _) none exA exB
    (C04_rounded_hypotheses_satisfiable _).1 (C04_rounded_hypotheses_satisfiable _).2.1
    (C04_rounded_hypotheses_satisfiable _).2.2

end Hpo.C04
