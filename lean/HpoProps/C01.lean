import HpoProofs.Closure
import HpoProofs.BuilderInv
import HpoProofs.Acyclic
import HpoModel.Read
import HpoModel.Load
/-!
# C01 — ancestor sets are the exact transitive closure of the is_a relation

Statements are about the operational model of the Builder (`HpoModel/Builder.lean`): any history
of `new_term` / `add_parent` calls (failing calls included, any order, any ids) followed by
`connect_all_terms`. There is no bound on the number of terms, on depth or on ids.

`isA o c p` : `p` is a direct parent of `c` in builder state `o`;
`Acyclic o`  : a rank function strictly decreasing along is_a, bounded by `#terms + 2`
               (what bounds the recursion depth; see DESIGN.md 2.5).
-/
namespace Hpo.C01
open Hpo Relation Group

/-- the is_a relation of a builder state: `p` is a direct parent of `c` -/
def isA (o : Onto) (c p : Nat) : Prop := p ∈ parentsOf o.terms c

/-- acyclicity, as a rank function that strictly decreases from child to parent and is bounded by
the number of terms (+2) -/
def Acyclic (o : Onto) : Prop :=
  ∃ rank : Nat → Nat, (∀ c p, p ∈ parentsOf o.terms c → rank p < rank c) ∧
    ∀ j, rank j < o.terms.length + 2

theorem transGen_rank {o : Onto} {rank : Nat → Nat}
    (hr : ∀ c p, p ∈ parentsOf o.terms c → rank p < rank c) {a b : Nat}
    (h : TransGen (isA o) a b) : rank b < rank a := by
  induction h with
  | single h => exact hr _ _ h
  | tail _ h ih => exact Nat.lt_trans (hr _ _ h) ih

/-- the textbook formulation of acyclicity: no term is its own ancestor -/
def Irreflexive (o : Onto) : Prop := ∀ j, ¬ TransGen (isA o) j j

/-- On builder states the bounded-rank hypothesis `Acyclic` is *equivalent* to the textbook one:
a finite irreflexive is_a relation has a rank function bounded by the number of terms
(longest upward chain; pigeonhole on duplicate-free chains). So every theorem below holds for
all finite acyclic is_a graphs in the usual sense. -/
theorem C01_acyclic_iff_irreflexive (o : Onto) (h : PreInv o.terms) : Acyclic o ↔ Irreflexive o := by
  constructor
  · rintro ⟨rank, hr, _⟩ j hj
    have := transGen_rank hr hj
    omega
  · intro hirr
    have hsrc : ∀ c p, p ∈ parentsOf o.terms c → c ∈ o.ids := by
      intro c p hp
      unfold Onto.ids
      rw [← getT_isSome_iff]
      cases hg : getT o.terms c with
      | none => simp [parentsOf, hg] at hp
      | some _ => rfl
    have htgt : ∀ c p, p ∈ parentsOf o.terms c → p ∈ o.ids := by
      intro c p hp
      unfold Onto.ids
      rw [← getT_isSome_iff]
      exact h.closedP c p hp
    obtain ⟨h1, h2⟩ := rank_of_irreflexive (parentsOf o.terms) o.ids hsrc htgt hirr
    refine ⟨height (parentsOf o.terms) o.ids.length, h1, ?_⟩
    intro j
    have := h2 j
    have hl : o.ids.length = o.terms.length := by simp [Onto.ids]
    omega

/-- Main theorem. On every well-formed acyclic builder state `connect_all_terms` terminates
without panic, changes nothing but the `all_parents` fields, and leaves in every term exactly the
transitive closure of its direct parents, as a strictly ascending group. -/
theorem C01_connect (o : Onto) (h : PreInv o.terms) (hac : Acyclic o) :
    ∃ o', o.connectAll = .ok o' ∧ o' = { o with terms := o'.terms } ∧ Upd o.terms o'.terms ∧
      (∀ j, (getT o'.terms j).isSome → ∀ a, a ∈ allOf o'.terms j ↔ TransGen (isA o) j a) ∧
      (∀ j, Sorted (allOf o'.terms j)) := by
  obtain ⟨rank, hrank, hbound⟩ := hac
  have hSt : Static (parentsOf o.terms) o.terms :=
    ⟨fun _ => rfl, fun j p hp => h.closedP j p hp, h.small⟩
  have hG : Good (parentsOf o.terms) o.terms := by
    intro j; rw [h.fresh j]; exact ⟨Or.inl rfl, sorted_nil⟩
  obtain ⟨o', hrun, hrest, hupd, hG', hC, _⟩ :=
    connectFold_post (parentsOf o.terms) rank hrank h.sortedP (o.terms.length + 2) hbound
      o.ids o hSt hG (fun i hi => (getT_isSome_iff o.terms i).2 hi)
  refine ⟨o', hrun, hrest, hupd, ?_, fun j => (hG' j).2⟩
  intro j hj a
  have : j ∈ o.ids := by
    rw [hupd.isSome] at hj
    exact (getT_isSome_iff o.terms j).1 hj
  exact hC j this a

/-- Ancestors of every term of the connected ontology, for every call history:
no ancestor missing, no unrelated term included. -/
theorem C01_ancestors_exact (ops : List BOp) (o o' : Onto) (hrun : runB ops {} = some o)
    (hac : Acyclic o) (hc : o.connectAll = .ok o') :
    ∀ t ∈ o'.terms, ∀ a, a ∈ t.allParents ↔ TransGen (isA o) t.id a := by
  obtain ⟨hpre, _⟩ := preInv_run ops {} o preInv_nil hrun
  obtain ⟨o'', hc', _, hupd, hex, _⟩ := C01_connect o hpre hac
  rw [hc] at hc'; cases hc'
  intro t ht a
  have hnd : (o'.terms.map (·.id)).Nodup := by rw [hupd.1]; exact hpre.nodup
  have hg := getT_of_mem_nodup hnd ht
  have := hex t.id (by simp [hg]) a
  simpa [allOf, hg] using this

/-- …and `connect_all_terms` always succeeds on such a history (no panic, no divergence) -/
theorem C01_connect_total (ops : List BOp) (o : Onto) (hrun : runB ops {} = some o)
    (hac : Acyclic o) : ∃ o', o.connectAll = .ok o' := by
  obtain ⟨hpre, _⟩ := preInv_run ops {} o preInv_nil hrun
  obtain ⟨o', hc, _⟩ := C01_connect o hpre hac
  exact ⟨o', hc⟩

/-- never the term itself -/
theorem C01_not_self (ops : List BOp) (o o' : Onto) (hrun : runB ops {} = some o)
    (hac : Acyclic o) (hc : o.connectAll = .ok o') :
    ∀ t ∈ o'.terms, t.id ∉ t.allParents := by
  intro t ht hmem
  have := (C01_ancestors_exact ops o o' hrun hac hc t ht t.id).1 hmem
  obtain ⟨rank, hrank, _⟩ := hac
  have := transGen_rank hrank this
  omega

/-- ancestor groups stay strictly ascending (sorted, duplicate free) -/
theorem C01_sorted (ops : List BOp) (o o' : Onto) (hrun : runB ops {} = some o)
    (hac : Acyclic o) (hc : o.connectAll = .ok o') :
    ∀ t ∈ o'.terms, Sorted t.allParents := by
  obtain ⟨hpre, _⟩ := preInv_run ops {} o preInv_nil hrun
  obtain ⟨o'', hc', _, hupd, _, hs⟩ := C01_connect o hpre hac
  rw [hc] at hc'; cases hc'
  intro t ht
  have hnd : (o'.terms.map (·.id)).Nodup := by rw [hupd.1]; exact hpre.nodup
  have hg := getT_of_mem_nodup hnd ht
  have := hs t.id
  simpa [allOf, hg] using this

/-- the child relation is the exact inverse of the parent relation — an invariant of every call
history (failing `add_parent` calls change nothing), preserved by `connect_all_terms` -/
theorem C01_children_inverse (ops : List BOp) (o o' : Onto) (hrun : runB ops {} = some o)
    (hac : Acyclic o) (hc : o.connectAll = .ok o') :
    ∀ p c, c ∈ childrenOf o'.terms p ↔ p ∈ parentsOf o'.terms c := by
  obtain ⟨hpre, _⟩ := preInv_run ops {} o preInv_nil hrun
  obtain ⟨o'', hc', _, hupd, _, _⟩ := C01_connect o hpre hac
  rw [hc] at hc'; cases hc'
  intro p c
  have hch : childrenOf o'.terms p = childrenOf o.terms p := by
    simp only [childrenOf, hupd.2 p]; cases getT o.terms p <;> rfl
  rw [hch, hupd.parents_eq]
  exact hpre.inverse p c

/-- `child_of` / `parent_of` answer exactly membership in the closure -/
theorem C01_child_of_iff (ops : List BOp) (o o' : Onto) (hrun : runB ops {} = some o)
    (hac : Acyclic o) (hc : o.connectAll = .ok o') :
    ∀ a ∈ o'.terms, ∀ b : Term, (a.childOf b = true ↔ TransGen (isA o) a.id b.id) ∧
      (b.parentOf a = true ↔ TransGen (isA o) a.id b.id) := by
  intro a ha b
  have := C01_ancestors_exact ops o o' hrun hac hc a ha b.id
  simp only [Term.parentOf, Term.childOf, contains_iff]
  exact ⟨this, this⟩

/-- every id in `parents`, `children` and `all_parents` of the connected ontology resolves -/
theorem C01_closed (ops : List BOp) (o o' : Onto) (hrun : runB ops {} = some o)
    (hac : Acyclic o) (hc : o.connectAll = .ok o') :
    ∀ t ∈ o'.terms, ∀ x, (x ∈ t.parents ∨ x ∈ t.children ∨ x ∈ t.allParents) →
      (getT o'.terms x).isSome := by
  obtain ⟨hpre, _⟩ := preInv_run ops {} o preInv_nil hrun
  obtain ⟨o'', hc', _, hupd, hex, _⟩ := C01_connect o hpre hac
  rw [hc] at hc'; cases hc'
  intro t ht x hx
  have hnd : (o'.terms.map (·.id)).Nodup := by rw [hupd.1]; exact hpre.nodup
  have hg := getT_of_mem_nodup hnd ht
  rw [hupd.isSome]
  rcases hx with hx | hx | hx
  · have : x ∈ parentsOf o.terms t.id := by
      rw [← hupd.parents_eq]; simp [parentsOf, hg, hx]
    exact hpre.closedP _ _ this
  · have hch : childrenOf o'.terms t.id = childrenOf o.terms t.id := by
      simp only [childrenOf, hupd.2 t.id]; cases getT o.terms t.id <;> rfl
    have : x ∈ childrenOf o.terms t.id := by
      rw [← hch]; simp [childrenOf, hg, hx]
    exact hpre.closedC _ _ this
  · have h1 := (hex t.id (by simp [hg]) x).1 (by simp [allOf, hg, hx])
    -- the last step of the chain is a parent link, whose target resolves
    have : ∃ c, x ∈ parentsOf o.terms c := by
      cases h1 with
      | single h => exact ⟨_, h⟩
      | tail _ h => exact ⟨_, h⟩
    obtain ⟨c, hc⟩ := this
    exact hpre.closedP c x hc

/-! ### other construction paths end in the same `connect_all_terms`

Binary data (v1–v3) goes through `add_term` + `add_parent_unchecked`; on records whose ids all
resolve this is the same state transition as `add_parent`, so the theorems above apply. -/

theorem C01_unchecked_eq_checked (o : Onto) (p c : Nat) (hs : PreInv o.terms)
    (hp : (getT o.terms p).isSome) (hc : (getT o.terms c).isSome) :
    (o.addParentUnchecked p c).map Res.ok = some (o.addParent p c) := by
  have hps : p < maxId := hs.small p hp
  have hcs : c < maxId := hs.small c hc
  obtain ⟨tp, htp⟩ := Option.isSome_iff_exists.1 hp
  obtain ⟨tc, htc⟩ := Option.isSome_iff_exists.1 hc
  have hgc : o.get c = some tc := by simp [Onto.get, arenaGet, Nat.not_le.2 hcs, htc]
  have hgp : o.get p = some tp := by simp [Onto.get, arenaGet, Nat.not_le.2 hps, htp]
  have hc' : (getT (modT o.terms p (·.addChild c)) c).isSome := by
    rw [getT_modT o.terms p c (·.addChild c) (fun _ => rfl), htc]; simp
  obtain ⟨tc', htc'⟩ := Option.isSome_iff_exists.1 hc'
  simp only [Onto.addParentUnchecked, modUnchecked_present _ htp hps, Option.bind_some,
    Onto.addParent, hgc, hgp]
  have := modUnchecked_present (o := { o with terms := modT o.terms p (·.addChild c) })
    (·.addParent p) htc' hcs
  simp only [this, Option.map_some]

/-! ### non-vacuity: a diamond with ids in "wrong" numeric order, built with a failing call -/

def diamondOps : List BOp :=
  [.term [] 9, .term [] 3, .term [] 7, .term [] 5, .parent 9 3, .parent 9 7, .parent 42 3,
   .parent 3 5, .parent 7 5]

def diamond : Onto := (runB diamondOps {}).getD {}

example : runB diamondOps {} = some diamond := by decide

/-- acyclicity can be checked term by term (a decidable statement for a concrete ontology) -/
theorem acyclic_of_terms (o : Onto) (rank : Nat → Nat)
    (h1 : ∀ t ∈ o.terms, ∀ p ∈ t.parents, rank p < rank t.id)
    (h2 : ∀ j, rank j < o.terms.length + 2) : Acyclic o := by
  refine ⟨rank, ?_, h2⟩
  intro c p hp
  unfold parentsOf at hp
  cases hg : getT o.terms c with
  | none => simp [hg] at hp
  | some t =>
    simp only [hg, Option.map_some, Option.getD_some] at hp
    have := h1 t (getT_mem hg) p hp
    rwa [getT_id hg] at this

example : Acyclic diamond :=
  acyclic_of_terms diamond (fun j => if j = 9 then 0 else if j = 5 then 2 else 1) (by decide)
    (by intro j; show (if j = 9 then 0 else if j = 5 then 2 else 1) < 6
        split
        · omega
        · split <;> omega)

end Hpo.C01
