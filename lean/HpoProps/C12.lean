import HpoProofs.Group
import HpoModel.Read
/-!
# C12 — term-id groups behave as sorted sets; ancestor queries are their set algebra

Property theorems only (helper lemmas: `HpoProofs/Group.lean`).  `Sorted g` = strictly
ascending (`Pairwise (<)`), i.e. sorted and duplicate free.  Everything is for lists of any
length: there is no bound on group sizes or on the number of operations.
-/
namespace Hpo.C12
open Hpo Hpo.Group

/-- every constructor (`From<Vec>`, `From<HashSet>`, `FromIterator`: a fold of `insert` over the
input in *any* order, with duplicates) yields a strictly ascending vector with exactly the input ids -/
theorem C12_constructors (xs : List Nat) :
    Sorted (ofList xs) ∧ ∀ x, x ∈ ofList xs ↔ x ∈ xs :=
  ⟨sorted_ofList xs, mem_ofList xs⟩

/-- invariant: any sequence of insertions into any constructed group keeps it strictly ascending,
and its members are exactly the ids supplied so far -/
theorem C12_inv (xs ys : List Nat) :
    Sorted (insertAll (ofList xs) ys) ∧ ∀ x, x ∈ insertAll (ofList xs) ys ↔ x ∈ xs ∨ x ∈ ys := by
  refine ⟨sorted_insertAll ys _ (sorted_ofList xs), ?_⟩
  intro x; rw [mem_insertAll, mem_ofList]

/-- `insert` reports `true` exactly when the id was new; afterwards the id is a member and nothing
else changed; the length grows by one exactly in that case -/
theorem C12_insert (g : List Nat) (x : Nat) (h : Sorted g) :
    Sorted (insert g x).1 ∧ ((insert g x).2 = true ↔ x ∉ g) ∧
    (∀ y, y ∈ (insert g x).1 ↔ y = x ∨ y ∈ g) ∧
    (insert g x).1.length = (if x ∈ g then g.length else g.length + 1) := by
  refine ⟨sorted_insert g x h, insert_snd g x h, mem_insert g x, ?_⟩
  rw [length_insert]
  by_cases hx : x ∈ g
  · have : (insert g x).2 = false := by
      have := (not_congr (insert_snd g x h)).2 (by simpa using hx); simpa using this
    simp [this, hx]
  · have : (insert g x).2 = true := (insert_snd g x h).2 hx
    simp [this, hx]

/-- membership test, and iteration is strictly ascending without duplicates -/
theorem C12_contains_iter (g : List Nat) (x : Nat) (h : Sorted g) :
    (contains g x = true ↔ x ∈ g) ∧ g.Pairwise (· < ·) ∧ g.Nodup :=
  ⟨contains_iff g x, h, h.nodup⟩

/-- union `|` -/
theorem C12_or (a b : List Nat) (ha : Sorted a) (hb : Sorted b) :
    Sorted (bitor a b) ∧ ∀ x, x ∈ bitor a b ↔ x ∈ a ∨ x ∈ b :=
  ⟨sorted_bitor a b ha hb, mem_bitor a b⟩

/-- intersection `&` -/
theorem C12_and (a b : List Nat) (ha : Sorted a) (hb : Sorted b) :
    Sorted (bitand a b) ∧ ∀ x, x ∈ bitand a b ↔ x ∈ a ∧ x ∈ b :=
  ⟨sorted_bitand a b ha hb, mem_bitand a b⟩

/-- adding one id: `+ id`, `| id` -/
theorem C12_add (a : List Nat) (x : Nat) (ha : Sorted a) :
    Sorted (addId a x) ∧ ∀ y, y ∈ addId a x ↔ y = x ∨ y ∈ a :=
  ⟨sorted_addId a x ha, mem_addId a x⟩

/-- canonical form: two groups with the same members are the same vector, so every set-algebra
identity holds as an *equality of results* (`len`, `iter`, `get(i)` all agree) -/
theorem C12_canonical (a b : List Nat) (ha : Sorted a) (hb : Sorted b)
    (h : ∀ x, x ∈ a ↔ x ∈ b) : a = b :=
  eq_of_sorted_of_mem_iff a b ha hb h

theorem C12_or_comm (a b : List Nat) (ha : Sorted a) (hb : Sorted b) : bitor a b = bitor b a := by
  apply eq_of_sorted_of_mem_iff _ _ (sorted_bitor a b ha hb) (sorted_bitor b a hb ha)
  intro x; simp only [mem_bitor]; exact Or.comm

theorem C12_or_assoc (a b c : List Nat) (ha : Sorted a) (hb : Sorted b) (hc : Sorted c) :
    bitor (bitor a b) c = bitor a (bitor b c) := by
  apply eq_of_sorted_of_mem_iff _ _ (sorted_bitor _ c (sorted_bitor a b ha hb) hc)
    (sorted_bitor a _ ha (sorted_bitor b c hb hc))
  intro x; simp only [mem_bitor]; exact or_assoc

theorem C12_or_idem (a : List Nat) (ha : Sorted a) : bitor a a = a := by
  apply eq_of_sorted_of_mem_iff _ _ (sorted_bitor a a ha ha) ha
  intro x; simp [mem_bitor]

theorem C12_and_comm (a b : List Nat) (ha : Sorted a) (hb : Sorted b) : bitand a b = bitand b a := by
  apply eq_of_sorted_of_mem_iff _ _ (sorted_bitand a b ha hb) (sorted_bitand b a hb ha)
  intro x; simp only [mem_bitand]; exact And.comm

theorem C12_and_idem (a : List Nat) (ha : Sorted a) : bitand a a = a := by
  apply eq_of_sorted_of_mem_iff _ _ (sorted_bitand a a ha ha) ha
  intro x; simp [mem_bitand]

/-- `&` distributes over `|` (as equal vectors) -/
theorem C12_and_or_distrib (a b c : List Nat) (ha : Sorted a) (hb : Sorted b) (hc : Sorted c) :
    bitand a (bitor b c) = bitor (bitand a b) (bitand a c) := by
  apply eq_of_sorted_of_mem_iff _ _ (sorted_bitand a _ ha (sorted_bitor b c hb hc))
    (sorted_bitor _ _ (sorted_bitand a b ha hb) (sorted_bitand a c ha hc))
  intro x; simp only [mem_bitand, mem_bitor]
  constructor
  · rintro ⟨h1, h2 | h2⟩
    · exact Or.inl ⟨h1, h2⟩
    · exact Or.inr ⟨h1, h2⟩
  · rintro (⟨h1, h2⟩ | ⟨h1, h2⟩)
    · exact ⟨h1, Or.inl h2⟩
    · exact ⟨h1, Or.inr h2⟩

/-! ### ancestor queries of two terms (the groups are the terms' ancestor sets) -/

/-- `common_ancestor_ids` = intersection of the ancestor sets -/
theorem C12_common (a b : Term) (ha : Sorted a.allParents) (hb : Sorted b.allParents) :
    Sorted (a.commonAncestorIds b) ∧
    ∀ x, x ∈ a.commonAncestorIds b ↔ x ∈ a.allParents ∧ x ∈ b.allParents :=
  ⟨sorted_bitand _ _ ha hb, mem_bitand _ _⟩

/-- `all_common_ancestor_ids`: the terms themselves included on both sides -/
theorem C12_all_common (a b : Term) (ha : Sorted a.allParents) (hb : Sorted b.allParents) :
    Sorted (a.allCommonAncestorIds b) ∧
    ∀ x, x ∈ a.allCommonAncestorIds b ↔
      (x = a.id ∨ x ∈ a.allParents) ∧ (x = b.id ∨ x ∈ b.allParents) := by
  refine ⟨sorted_bitand _ _ (sorted_addId _ _ ha) (sorted_addId _ _ hb), ?_⟩
  intro x
  simp only [Term.allCommonAncestorIds, Term.allInclusive, mem_bitand, mem_addId]

/-- `union_ancestor_ids` = union of the ancestor sets -/
theorem C12_union (a b : Term) (ha : Sorted a.allParents) (hb : Sorted b.allParents) :
    Sorted (a.unionAncestorIds b) ∧
    ∀ x, x ∈ a.unionAncestorIds b ↔ x ∈ a.allParents ∨ x ∈ b.allParents :=
  ⟨sorted_bitor _ _ ha hb, mem_bitor _ _⟩

/-- Known finding K1: as the code (and its executable doc-example) stands, the `all_` union variant
equals the plain one — the terms themselves are *not* added, contrary to the prose note. -/
theorem C12_all_union_K1 (a b : Term) : a.allUnionAncestorIds b = a.unionAncestorIds b := rfl

/-! ### non-vacuity: concrete non-trivial instances satisfy the hypotheses -/

example : Sorted [1, 5, 9] ∧ Sorted [2, 5, 7, 11] := by decide
example : bitor [1, 5, 9] [2, 5, 7, 11] = [1, 2, 5, 7, 9, 11] := by decide
example : bitand [1, 5, 9] [2, 5, 7, 11] = [5] := by decide
example : ofList [9, 1, 5, 1, 9] = [1, 5, 9] := by decide
example : insert [1, 5, 9] 5 = ([1, 5, 9], false) ∧ insert [1, 5, 9] 6 = ([1, 5, 6, 9], true) := by decide
/-- K1 witness: two unrelated terms, the union variant documented to include them does not -/
example : (7 : Nat) ∉ Term.allUnionAncestorIds { id := 7, name := [], allParents := [1] }
    { id := 8, name := [], allParents := [1, 2] } := by decide

end Hpo.C12
