import HpoProps.C01
import HpoProofs.AOps
/-!
# C02 — annotations reach exactly the ancestors; gene/disease records stay direct

Histories of `add_gene`/`add_*_disease` and `annotate_*` calls (any order, failing calls included)
on an ontology produced by any `new_term`/`add_parent` history and `connect_all_terms`.
One generic model function serves the three kinds (`Kind = gene | omim | orpha`); every theorem
quantifies over the kind. No bound on the number of terms, records or calls.
-/
namespace Hpo.C02
open Hpo Hpo.C01 Relation Group

/-- the ancestor function of a connected ontology -/
def ancOf (o : Onto) : Nat → List Nat := allOf o.terms
def present (o : Onto) (j : Nat) : Prop := (getT o.terms j).isSome

/-- A connected ontology (result of `connect_all_terms` on any term-level history) satisfies the
annotation invariant with empty annotations, and its cached ancestor groups form a closure. -/
theorem connected_annInv (tops : List BOp) (o o' : Onto) (hrun : runB tops {} = some o)
    (hac : Acyclic o) (hc : o.connectAll = .ok o') :
    AnnInv (ancOf o') (present o') o' ∧
    (∃ rank : Nat → Nat, AncClosure (ancOf o') (present o') rank ∧
      ∀ j, rank j < o'.terms.length + 2) ∧
    (∀ k r, hposOf k o' r = []) ∧ (∀ k j, annOf k o'.terms j = []) := by
  obtain ⟨hpre, hrest0⟩ := preInv_run tops {} o preInv_nil hrun
  obtain ⟨o'', hc', hrest, hupd, hex, hsorted⟩ := C01_connect o hpre hac
  rw [hc] at hc'; cases hc'
  have hann : ∀ k j, annOf k o'.terms j = [] := by
    intro k j
    have : annOf k o'.terms j = annOf k o.terms j := by
      simp only [annOf, hupd.2 j]; cases getT o.terms j <;> rfl
    rw [this]; exact hpre.freshAnn k j
  have hrecs : ∀ k, o'.recs k = [] := by
    intro k; rw [hrest, hrest0]; cases k <;> rfl
  have hhp : ∀ k r, hposOf k o' r = [] := by intro k r; simp [hposOf, hrecs, getR]
  have hpres : ∀ j, (getT o'.terms j).isSome = (getT o.terms j).isSome := hupd.isSome
  refine ⟨⟨fun _ => rfl, fun _ => Iff.rfl, ?_, ?_, ?_, ?_, ?_⟩, ?_, hhp, hann⟩
  · intro j hj; rw [hpres] at hj; exact hpre.small j hj
  · intro k j; rw [hann]; exact sorted_nil
  · intro k x r; rw [hann, hhp]; simp
  · intro k r d hd; rw [hhp] at hd; simp at hd
  · intro k r; rw [hhp]; exact sorted_nil
  · obtain ⟨rank, hrank, hbound⟩ := hac
    have hlen : o'.terms.length = o.terms.length := by
      have := congrArg List.length hupd.1; simpa using this
    -- membership in a cached group of a present term is reachability
    have hmem : ∀ t a, a ∈ ancOf o' t → TransGen (isA o) t a := by
      intro t a ha
      unfold ancOf at ha
      cases hg : getT o'.terms t with
      | none => simp [allOf, hg] at ha
      | some tm => exact (hex t (by simp [hg]) a).1 ha
    have hpresA : ∀ t a, a ∈ ancOf o' t → present o' a := by
      intro t a ha
      have h1 := hmem t a ha
      have : ∃ c, a ∈ parentsOf o.terms c := by
        cases h1 with
        | single h => exact ⟨_, h⟩
        | tail _ h => exact ⟨_, h⟩
      obtain ⟨c, hc⟩ := this
      unfold present; rw [hpres]; exact hpre.closedP c a hc
    refine ⟨rank, ⟨?_, ?_, ?_⟩, by rw [hlen]; exact hbound⟩
    · intro t a b ha hb
      have h1 := hmem t a ha
      have h2 := hmem a b hb
      have hpt : (getT o'.terms t).isSome := by
        cases hg : getT o'.terms t with
        | none => simp [ancOf, allOf, hg] at ha
        | some _ => rfl
      exact (hex t hpt b).2 (h1.trans h2)
    · intro t a ha; exact transGen_rank hrank (hmem t a ha)
    · intro t a _ ha; exact hpresA t a ha

/-- Invariant over every annotation history. -/
theorem C02_history (anc : Nat → List Nat) (ex : Nat → Prop) (rank : Nat → Nat)
    (hc : AncClosure anc ex rank) (ops : List AOp) :
    ∀ (o : Onto), AnnInv anc ex o → (∀ j, rank j < o.terms.length + 2) →
      AnnInv anc ex (runA ops o) ∧ (runA ops o).terms.length = o.terms.length := by
  induction ops with
  | nil => intro o h _; exact ⟨h, rfl⟩
  | cons op ops ih =>
    intro o h hf
    simp only [runA, List.foldl_cons]
    cases op with
    | addRec k n i =>
      have ht : (o.addRec k n i).terms = o.terms := by simp [Onto.addRec, terms_setRecs]
      have := ih (o.addRec k n i) (annInv_addRec anc ex o k n i h) (by rw [ht]; exact hf)
      simpa [runA, applyA, ht] using this
    | annotate k rid n t =>
      rcases annInv_annotate anc ex rank hc o k rid n t h hf with ⟨he, _⟩ | ⟨_, o', hok, hinv, hlen, _⟩
      · simp only [applyA, he]; exact ih o h hf
      · simp only [applyA, hok]
        have := ih o' hinv (by rw [hlen]; exact hf)
        exact ⟨this.1, this.2.trans hlen⟩

/-- **Inheritance.** After any history, a record of kind `k` is linked to term `x` iff it is
directly annotated to `x` itself or to a descendant of `x`. -/
theorem C02_inherited_iff (tops : List BOp) (o oc : Onto) (hrun : runB tops {} = some o)
    (hac : Acyclic o) (hc : o.connectAll = .ok oc) (ops : List AOp) (k : Kind) (x r : Nat) :
    r ∈ annOf k (runA ops oc).terms x ↔
      ∃ d, d ∈ hposOf k (runA ops oc) r ∧ (d = x ∨ x ∈ ancOf oc d) := by
  obtain ⟨hinv, ⟨rank, hcl, hf⟩, _, _⟩ := connected_annInv tops o oc hrun hac hc
  have := (C02_history _ _ rank hcl ops oc hinv hf).1.linked k x r
  simpa [Up, eq_comm] using this

/-- **Every id resolves.** Records on a term are records of the ontology; direct terms of a
record are terms of the ontology. -/
theorem C02_resolves (tops : List BOp) (o oc : Onto) (hrun : runB tops {} = some o)
    (hac : Acyclic o) (hc : o.connectAll = .ok oc) (ops : List AOp) (k : Kind) :
    (∀ x r, r ∈ annOf k (runA ops oc).terms x → (getR ((runA ops oc).recs k) r).isSome) ∧
    (∀ r d, d ∈ hposOf k (runA ops oc) r → (getT (runA ops oc).terms d).isSome) := by
  obtain ⟨hinv, ⟨rank, hcl, hf⟩, _, _⟩ := connected_annInv tops o oc hrun hac hc
  have H := (C02_history _ _ rank hcl ops oc hinv hf).1
  constructor
  · intro x r hr
    obtain ⟨d, hd, _⟩ := (H.linked k x r).1 hr
    unfold hposOf at hd
    cases hg : getR ((runA ops oc).recs k) r with
    | none => simp [hg] at hd
    | some _ => rfl
  · intro r d hd
    exact (H.pres d).2 (H.recTerms k r d hd)

/-- **Records stay direct.** Effect of one call on the direct terms of every record of every kind:
only a successful `annotate_*(k, rid, _, t)` changes anything, and it adds exactly `t` to record
`rid` of kind `k`. -/
theorem C02_direct_step (anc : Nat → List Nat) (ex : Nat → Prop) (rank : Nat → Nat)
    (hc : AncClosure anc ex rank) (o : Onto) (h : AnnInv anc ex o)
    (hf : ∀ j, rank j < o.terms.length + 2) (k' : Kind) (r : Nat) :
    (∀ k n i, hposOf k' (applyA o (.addRec k n i)) r = hposOf k' o r) ∧
    (∀ k rid n t, ¬ ex t → hposOf k' (applyA o (.annotate k rid n t)) r = hposOf k' o r) ∧
    (∀ k rid n t, ex t → hposOf k' (applyA o (.annotate k rid n t)) r =
      if k' = k ∧ r = rid then (insert (hposOf k o rid) t).1 else hposOf k' o r) := by
  refine ⟨fun k n i => by simp [applyA, hposOf_addRec], ?_, ?_⟩
  · intro k rid n t hne
    rcases annInv_annotate anc ex rank hc o k rid n t h hf with ⟨he, _⟩ | ⟨hext, _⟩
    · simp [applyA, he]
    · exact absurd hext hne
  · intro k rid n t hext
    rcases annInv_annotate anc ex rank hc o k rid n t h hf with ⟨_, hne⟩ | ⟨_, o', hok, _, _, hrecs, _⟩
    · exact absurd hext hne
    · simp only [applyA, hok]
      have : hposOf k' o' r = hposOf k' (o.addTermToRec k n rid t) r := by
        simp only [hposOf, hrecs]
      rw [this, hposOf_addTermToRec]

/-- **Records stay direct / kinds do not leak.** A call of kind `k` changes neither the records
nor the term links of another kind `k'`. -/
theorem C02_no_leak (anc : Nat → List Nat) (ex : Nat → Prop) (rank : Nat → Nat)
    (hc : AncClosure anc ex rank) (o : Onto) (h : AnnInv anc ex o)
    (hf : ∀ j, rank j < o.terms.length + 2) (k k' : Kind) (hk : k' ≠ k) (rid : Nat)
    (n : List Char) (t : Nat) :
    (∀ j, annOf k' (applyA o (.annotate k rid n t)).terms j = annOf k' o.terms j) ∧
    (applyA o (.annotate k rid n t)).recs k' = o.recs k' ∧
    (∀ j, annOf k' (applyA o (.addRec k n rid)).terms j = annOf k' o.terms j) ∧
    (applyA o (.addRec k n rid)).recs k' = o.recs k' := by
  refine ⟨?_, ?_, ?_, ?_⟩
  · rcases annInv_annotate anc ex rank hc o k rid n t h hf with ⟨he, _⟩ | ⟨_, o', hok, _, _, _, hann⟩
    · simp [applyA, he]
    · simp only [applyA, hok]; exact hann k' hk
  · rcases annInv_annotate anc ex rank hc o k rid n t h hf with ⟨he, _⟩ | ⟨_, o', hok, _, _, hrecs, _⟩
    · simp [applyA, he]
    · simp only [applyA, hok, hrecs]
      simp [Onto.addTermToRec, Onto.addRec, recs_setRecs_ne _ _ _ _ hk]
  · intro j; simp [applyA, Onto.addRec, terms_setRecs]
  · simp [applyA, Onto.addRec, recs_setRecs_ne _ _ _ _ hk]

/-- **Records without terms.** `add_gene`/`add_*_disease` alone creates a record (if vacant)
with no direct term, and links it to no term. -/
theorem C02_records_without_terms (o : Onto) (k : Kind) (n : List Char) (i : Nat) :
    (getR ((o.addRec k n i).recs k) i).isSome ∧
    (∀ k' r, hposOf k' (o.addRec k n i) r = hposOf k' o r) ∧
    (o.addRec k n i).terms = o.terms := by
  refine ⟨?_, fun k' r => hposOf_addRec o k k' n i r, by simp [Onto.addRec, terms_setRecs]⟩
  simp only [Onto.addRec, recs_setRecs, getR_addR]
  cases getR (o.recs k) i <;> simp

/-- a failing `annotate_*` (unknown term) returns `DoesNotExist` and leaves the builder unchanged -/
theorem C02_failing_call_no_effect (o : Onto) (k : Kind) (rid : Nat) (n : List Char) (t : Nat)
    (h : (o.get t).isNone) :
    o.annotate k rid n t = .err .doesNotExist ∧ applyA o (.annotate k rid n t) = o := by
  have : o.get t = none := by simpa using h
  simp [Onto.annotate, applyA, this]

/-! ### non-vacuity: the diamond of C01 with annotations on an inner node, a leaf, repeated facts,
a record without term and a failing call; gene 7 is on 3 and its ancestor 9, not on 7 or 5 -/

def annOps : List AOp :=
  [.addRec .gene [] 1, .annotate .gene 7 [] 3, .annotate .omim 7 [] 5, .annotate .gene 7 [] 3,
   .annotate .gene 8 [] 42, .annotate .orpha 2 [] 9]

example : ∃ oc, diamond.connectAll = .ok oc ∧
    annOf .gene (runA annOps oc).terms 9 = [7] ∧ annOf .gene (runA annOps oc).terms 5 = [] ∧
    annOf .omim (runA annOps oc).terms 3 = [7] ∧ hposOf .gene (runA annOps oc) 7 = [3] ∧
    hposOf .gene (runA annOps oc) 1 = [] ∧ (getR (runA annOps oc).genes 8).isNone := by
  refine ⟨(diamond.connectAll).toOption.getD {}, by decide, ?_⟩
  decide

end Hpo.C02
