import HpoProofs.BinaryLoad
import HpoProofs.LoadRefine
/-!
# C08 — the decoder honours layouts v1–v3 and never accepts truncated or extended files

Model: `HpoModel/Binary.lean`.  `decodeBytes : List UInt8 → Res Onto` mirrors `Ontology::from_bytes`
(`version`, `hpo_version_from_bytes`, the section walk with every slice / index as a checked
operation, `BinaryTermBuilder`, `from_bytes_v1/v2`, `Gene::try_from`, `Disease::from_bytes`, the final
`section_start == len`), structured as `version` → `decodeRaw` (bytes → records) → `Onto.loadFacts`
(records → ontology, `HpoModel/Load.lean`).  `encodeRaw fv` is an encoder written from the documented
layouts (the same tables as the harness's independent `enc.rs`; the check compares the two byte
for byte).

`FileOK fv f` (`HpoProofs/Binary.lean`): `fv ∈ {1,2,3}`; every fixed-width field fits (term ids
< 10^7 = the id table of the arena, other ids / counts / section payloads < 2^32, term and gene
names ≤ 255 bytes of UTF-8, release version (u16, u8, u8)); a replacement id is not 0 (0 encodes
"none": finding K3); a v1 file (no magic) does not start with the bytes `HPO`, i.e. its terms section
is shorter than 0x48504f00 bytes.

`projFacts fv f`: what version `fv` carries — v1 drops release version, obsolete flags, replacements
and the ORPHA section, v2 drops the ORPHA section.

All statements are for ALL record sets / byte strings, no size bound.
-/
namespace Hpo.C08
open Hpo Hpo.Binary Hpo.Proto

/-! ### framing -/

/-- big-endian u32: decode ∘ encode = id -/
theorem C08_u32be_inverse (n : Nat) (h : n < 4294967296) (rest : Bytes) :
    ∃ a b c d, u32be n ++ rest = a :: b :: c :: d :: rest ∧ be32 a b c d = n :=
  ⟨_, _, _, _, rfl, be32_u32be n h⟩

/-- a length-prefixed section is split off exactly, whatever follows it -/
theorem C08_section_framing (x rest : Bytes) (h : x.length < 4294967296) :
    takeSection (sec x ++ rest) = .ok (x, rest) := takeSection_sec x rest h

/-- the name bytes are valid UTF-8 and decode to the name (core's `List.utf8Decode?_utf8Encode`) -/
theorem C08_utf8_inverse (cs : List Char) : utf8Decode (utf8 cs) = some cs := utf8_roundtrip cs

/-! ### record-level inverses -/

/-- v1 term record (the decoder sees the rest of the section): id and name -/
theorem C08_record_term_v1 (t : Term) (h : TermOK t) (rest : Bytes) :
    decTermV1 (encTerm 1 t ++ rest) = .ok { id := t.id, name := t.name } := decTermV1_enc t h rest

/-- v2 / v3 term record: id, name, obsolete flag, replacement -/
theorem C08_record_term_v2 (fv : Nat) (hfv : fv = 2 ∨ fv = 3) (t : Term) (h : TermOK t) (rest : Bytes) :
    decTermV2 (encTerm fv t ++ rest) =
      .ok { id := t.id, name := t.name, obsolete := t.obsolete, replacement := t.replacement } :=
  decTermV2_enc fv (by omega) t h rest

/-- parents records: a whole section of them -/
theorem C08_record_parents (ps : List (Nat × List Nat)) (h : ∀ p ∈ ps, ParentsOK p) :
    decodeParents (encParentRecs ps) = .ok ps := decodeParents_enc ps h

theorem C08_record_gene (r : Rec) (h : GeneOK r) : decGene (encGene r) = .ok r := decGene_enc r h

theorem C08_record_disease (r : Rec) (h : DiseaseOK r) : decDisease (encDisease r) = .ok r :=
  decDisease_enc r h

/-! ### whole files -/

/-- A file laid out according to format version 1, 2 or 3 decodes to exactly the records it
describes (as far as the version carries them), and the loaded ontology is the one those records
describe. -/
theorem C08_decode_v (fv : Nat) (f : RawFacts) (h : FileOK fv f) :
    version (encodeRaw fv f) = .ok (fv, encBody fv f) ∧
    decodeRaw fv (encBody fv f) = .ok (projFacts fv f) ∧
    decodeBytes (encodeRaw fv f) = Onto.loadFacts fv (projFacts fv f) := by
  have hv := version_encodeRaw fv f h []
  have hr := decodeRaw_enc fv f h.facts []
  have hb := decodeBytes_enc_tail fv f h []
  simp only [List.append_nil, finish, List.isEmpty_nil, ↓reduceIte, Res.bind] at hv hr hb
  exact ⟨hv, hr, hb⟩

/-- … and of the loaded ontology, proved through ALL builder steps of `from_bytes` for v2 / v3
files: whenever the load succeeds (term ids unique), the ontology has the file's release version and,
in file order, its terms with id, name, obsolete flag and replacement. (The remaining observations —
relations, annotations, information content — are `Onto.loadFacts` of the decoded records by
`C08_decode_v`; their characterisation is C01 / C02 / C03.) -/
theorem C08_decode_terms (fv : Nat) (hfv : fv = 2 ∨ fv = 3) (f : RawFacts) (h : FileOK fv f)
    (hnd : (f.terms.map (·.id)).Nodup) (o' : Onto) (hload : decodeBytes (encodeRaw fv f) = .ok o') :
    o'.version = f.version ∧
    o'.terms.map (fun t => (t.id, t.name, t.obsolete, t.replacement)) =
      f.terms.map (fun t => (t.id, t.name, t.obsolete, t.replacement)) := by
  have h1 : fv ≠ 1 := by omega
  rw [(C08_decode_v fv f h).2.2] at hload
  have hp : (projFacts fv f).terms = f.terms.map cleanTerm := by simp [projFacts, projTerm, h1]
  have := loadFacts_terms fv h1 (projFacts fv f) o'
    (by rw [hp]; intro t ht; obtain ⟨t0, ht0, rfl⟩ := List.mem_map.1 ht; exact (h.facts.terms t0 ht0).1)
    (by rw [hp]; simpa [List.map_map, Function.comp_def, cleanTerm] using hnd) hload
  refine ⟨by simpa [projFacts, h1] using this.2, ?_⟩
  have e := this.1
  rw [hp] at e
  have e2 : f.terms.map (core ∘ cleanTerm) = f.terms.map (fun t => (t.id, t.name, t.obsolete, t.replacement)) := rfl
  rw [List.map_map, e2] at e
  exact e

/-- Record order (hash-map iteration order of the writer): a file with the records of every
section permuted is a valid file, and decodes to exactly the permuted records — none lost,
duplicated or attributed to another section.

Full statement (NOT proved here in this generality): `decodeBytes (encodeRaw fv g)` and
`decodeBytes (encodeRaw fv f)` are observationally equal ontologies.  Proved for v3 files whose
records are those of a well-formed ontology: `C08_record_order_reachable` below.  Missing: v1 / v2
files and arbitrary record sets — invariance of `Onto.loadFacts` under permutation of its record
lists needs hypotheses on the records (with the same record id twice in a section the later record
replaces the earlier one while the links of both stay, so the result does depend on the order); the
correspondence check compares the two loads on every generated file (`same 0 1`). -/
theorem C08_record_order_partial (fv : Nat) (f g : RawFacts) (h : FileOK fv f) (hp : FactsPerm f g) :
    FileOK fv g ∧ decodeRaw fv (encBody fv g) = .ok (projFacts fv g) ∧
    FactsPerm (projFacts fv f) (projFacts fv g) ∧
    decodeBytes (encodeRaw fv g) = Onto.loadFacts fv (projFacts fv g) := by
  have hg := h.perm hp
  exact ⟨hg, (C08_decode_v fv g hg).2.1, projFacts_perm fv hp, (C08_decode_v fv g hg).2.2⟩

/-- **Record order, v3 files of well-formed ontologies.** Let `f` be the records of a `Reachable`
ontology `o` (`HpoProofs/LoadRefine.lean`: what the public constructors establish) in any order —
i.e. any file `as_bytes` can write for `o` — and `g` any permutation of `f` inside the five
sections.  Both files load, and the two ontologies agree in every observation: release version, every
term lookup (all fields), every record lookup of the three kinds, categories and modifier. -/
theorem C08_record_order_reachable (o : Onto) (hr : Reachable o) (f g : RawFacts) (hf : FileOK 3 f)
    (hpf : FactsPerm (factsOf o) f) (hpg : FactsPerm f g) :
    ∃ o1 o2, decodeBytes (encodeRaw 3 f) = .ok o1 ∧ decodeBytes (encodeRaw 3 g) = .ok o2 ∧
      o1.version = o2.version ∧ (∀ j, getT o1.terms j = getT o2.terms j) ∧
      (∀ k r, getR (o1.recs k) r = getR (o2.recs k) r) ∧
      o1.categories = o2.categories ∧ o1.modifier = o2.modifier := by
  have hpg' : FactsPerm (factsOf o) g :=
    ⟨hpf.version.trans hpg.version, hpf.terms.trans hpg.terms, hpf.parents.trans hpg.parents,
     hpf.genes.trans hpg.genes, hpf.omim.trans hpg.omim, hpf.orpha.trans hpg.orpha⟩
  have p1 := projFacts_perm 3 hpf
  have p2 := projFacts_perm 3 hpg'
  rw [projFacts_factsOf] at p1 p2
  obtain ⟨o1, h1, a⟩ := loadFacts_refine o hr _ p1
  obtain ⟨o2, h2, b⟩ := loadFacts_refine o hr _ p2
  refine ⟨o1, o2, (C08_decode_v 3 f hf).2.2.trans h1, (C08_decode_v 3 g (hf.perm hpg)).2.2.trans h2,
    a.version.trans b.version.symm, fun j => (a.terms j).trans (b.terms j).symm,
    fun k r => (a.recs k r).trans (b.recs k r).symm, a.categories.trans b.categories.symm,
    a.modifier.trans b.modifier.symm⟩

/-- EVERY proper prefix of a valid file — every truncation offset `0 .. len-1`, no bound on the
file — is rejected (error or panic), never returned as an ontology.  Framing argument: a cut
length header or a cut payload makes the section slice panic; a complete section leaves a proper
prefix of the remaining sections; after the last section nothing is left to be a proper prefix of. -/
theorem C08_prefix_rejected (fv : Nat) (f : RawFacts) (h : FileOK fv f) (p : Bytes)
    (hp : p <+: encodeRaw fv f) (hne : p ≠ encodeRaw fv f) : (decodeBytes p).isOk = false :=
  decodeBytes_prefix fv f h p hp hne

/-- A valid file followed by any non-empty suffix is rejected: the sections decode as before and
the final `section_start == len` check fails. -/
theorem C08_suffix_rejected (fv : Nat) (f : RawFacts) (h : FileOK fv f) (s : Bytes) (hs : s ≠ []) :
    decodeBytes (encodeRaw fv f ++ s) = .err .parseBinary := by
  rw [decodeBytes_enc_tail fv f h s]
  cases s with
  | nil => exact absurd rfl hs
  | cons a s => simp [finish, Res.bind]

/-- All 256 values of the version byte: with the magic `HPO` present, every value other than 2 and
3 is `NotImplemented` (whatever follows, at least one more byte) -/
theorem C08_version_byte (v : UInt8) (rest : Bytes) (hr : rest ≠ []) (h2 : v ≠ 2) (h3 : v ≠ 3) :
    decodeBytes ([0x48, 0x50, 0x4f] ++ v :: rest) = .err .notImplemented :=
  decodeBytes_version_byte v rest hr h2 h3

/-- … and a file shorter than 5 bytes is an error before the version is looked at -/
theorem C08_too_short (p : Bytes) (h : p.length < 5) : decodeBytes p = .err .parseBinary := by
  simp [decodeBytes, version_short p h, Res.bind]

/-! ### non-vacuity: a concrete non-trivial record set satisfies the hypotheses -/

/-- two roots, an obsolete replaced term with a 2-byte character in its name, one gene, one OMIM and
one ORPHA disease with terms -/
def sample : RawFacts :=
  { version := (2024, 3, 6)
    terms := [{ id := 1, name := "All".toList }, { id := 118, name := "Phenotypic abnormality".toList },
              { id := 7, name := "é old".toList, obsolete := true, replacement := some 118 }]
    parents := [(118, [1]), (7, [118]), (1, [])]
    genes := [{ id := 2175, name := "FANCA".toList, hpos := [118, 7] }]
    omim := [{ id := 4294967295, name := "Fanconi anemia".toList, hpos := [118] }]
    orpha := [{ id := 84, name := [], hpos := [] }] }


set_option maxRecDepth 8000 in
theorem C08_nonvacuous_sample (fv : Nat) (hfv : fv = 1 ∨ fv = 2 ∨ fv = 3) : FileOK fv sample := by
  refine ⟨hfv, ⟨by decide, ?_, ?_, ?_, ?_, ?_, ?_, by decide, by decide, by decide, by decide⟩, ?_⟩
  · simp only [sample, TermOK]; decide
  · simp only [sample, ParentsOK]; decide
  · simp only [sample, GeneOK]; decide
  · simp only [sample, DiseaseOK]; decide
  · simp only [sample, DiseaseOK]; decide
  · rcases hfv with rfl | rfl | rfl <;> decide
  · intro _; decide

/-- the hypotheses of the file-level theorems hold for `sample` in all three versions; its v3 file
has 209 bytes, so `C08_prefix_rejected` speaks about 209 truncation offsets of this file alone -/
example : FileOK 1 sample ∧ FileOK 2 sample ∧ FileOK 3 sample :=
  ⟨C08_nonvacuous_sample 1 (by decide), C08_nonvacuous_sample 2 (by decide), C08_nonvacuous_sample 3 (by decide)⟩
set_option maxRecDepth 8000 in
example : (encodeRaw 3 sample).length = 209 ∧ (encodeRaw 1 sample).length = 166 := by decide
/-- v1 really drops what it cannot carry -/
example : (projFacts 1 sample).terms.map (·.obsolete) = [false, false, false] ∧
    (projFacts 1 sample).orpha = [] ∧ (projFacts 2 sample).orpha = [] ∧
    (projFacts 3 sample).orpha = sample.orpha := by decide

end Hpo.C08
