import HpoProofs.BinaryLoad
import HpoProofs.LoadRefine
import HpoProofs.LoadRun
/-!
# C08 — the decoder honours layouts v1–v3 and never accepts truncated or extended files

Model: `HpoModel/Binary.lean`.  `decodeBytes : List UInt8 → Res Onto` mirrors `Ontology::from_bytes`
(`version`, `hpo_version_from_bytes`, the section walk with every slice / index as a checked
operation, `BinaryTermBuilder`, `from_bytes_v1/v2`, `Gene::try_from`, `Disease::from_bytes`, the final
`section_start == len`), structured as `version` → `decodeRaw` (bytes → records) → `Onto.loadFacts`
(records → ontology, `HpoModel/Load.lean`).  `encodeRaw fv` is an encoder written from the documented
layouts (the same tables as the harness's independent `enc.rs`; the check compares the two byte
for byte).

`FileOK fv f` (`HpoProofs/Binary.lean`): `fv ∈ {1,2,3}`; every fixed-width field fits (term ids
< 10^7 = the id table of the arena, other ids / counts / section payloads < 2^32, term and gene
names ≤ 255 bytes of UTF-8, release version (u16, u8, u8)); a replacement id is not 0 (0 encodes
"none": finding K3); a v1 file (no magic) does not start with the bytes `HPO`, i.e. its terms section
is shorter than 0x48504f00 bytes.

`projFacts fv f`: what version `fv` carries — v1 drops release version, obsolete flags, replacements
and the ORPHA section, v2 drops the ORPHA section.

`WFRecords f` (`HpoProofs/LoadRun.lean`): a well-formed record set — term records with the same id
agree, parent records mention terms of the file only, no is_a cycle, record ids distinct inside each
gene / disease section, records list terms of the file only, at most 65 535 records per section, both
root terms present.  `C08_file_is_builder_run`: on such a file `from_bytes` is a checked Builder-API
run; `C08_record_order`: the loaded ontology does not depend on the record order.

All statements are for ALL record sets / byte strings, no size bound.
-/
namespace Hpo.C08
open Hpo Hpo.Binary Hpo.Proto Hpo.C01 Hpo.Text

/-! ### framing -/

/-- big-endian u32: decode ∘ encode = id -/
theorem C08_u32be_inverse (n : Nat) (h : n < 4294967296) (rest : Bytes) :
    ∃ a b c d, u32be n ++ rest = a :: b :: c :: d :: rest ∧ be32 a b c d = n :=
  ⟨_, _, _, _, rfl, be32_u32be n h⟩

/-- a length-prefixed section is split off exactly, whatever follows it -/
theorem C08_section_framing (x rest : Bytes) (h : x.length < 4294967296) :
    takeSection (sec x ++ rest) = .ok (x, rest) := takeSection_sec x rest h

/-- the name bytes are valid UTF-8 and decode to the name (core's `List.utf8Decode?_utf8Encode`) -/
theorem C08_utf8_inverse (cs : List Char) : utf8Decode (utf8 cs) = some cs := utf8_roundtrip cs

/-! ### record-level inverses -/

/-- v1 term record (the decoder sees the rest of the section): id and name -/
theorem C08_record_term_v1 (t : Term) (h : TermOK t) (rest : Bytes) :
    decTermV1 (encTerm 1 t ++ rest) = .ok { id := t.id, name := t.name } := decTermV1_enc t h rest

/-- v2 / v3 term record: id, name, obsolete flag, replacement -/
theorem C08_record_term_v2 (fv : Nat) (hfv : fv = 2 ∨ fv = 3) (t : Term) (h : TermOK t) (rest : Bytes) :
    decTermV2 (encTerm fv t ++ rest) =
      .ok { id := t.id, name := t.name, obsolete := t.obsolete, replacement := t.replacement } :=
  decTermV2_enc fv (by omega) t h rest

/-- parents records: a whole section of them -/
theorem C08_record_parents (ps : List (Nat × List Nat)) (h : ∀ p ∈ ps, ParentsOK p) :
    decodeParents (encParentRecs ps) = .ok ps := decodeParents_enc ps h

theorem C08_record_gene (r : Rec) (h : GeneOK r) : decGene (encGene r) = .ok r := decGene_enc r h

theorem C08_record_disease (r : Rec) (h : DiseaseOK r) : decDisease (encDisease r) = .ok r :=
  decDisease_enc r h

/-! ### whole files -/

/-- A file laid out according to format version 1, 2 or 3 decodes to exactly the records it
describes (as far as the version carries them), and the loaded ontology is the one those records
describe. -/
theorem C08_decode_v (fv : Nat) (f : RawFacts) (h : FileOK fv f) :
    version (encodeRaw fv f) = .ok (fv, encBody fv f) ∧
    decodeRaw fv (encBody fv f) = .ok (projFacts fv f) ∧
    decodeBytes (encodeRaw fv f) = Onto.loadFacts fv (projFacts fv f) := by
  have hv := version_encodeRaw fv f h []
  have hr := decodeRaw_enc fv f h.facts []
  have hb := decodeBytes_enc_tail fv f h []
  simp only [List.append_nil, finish, List.isEmpty_nil, ↓reduceIte, Res.bind] at hv hr hb
  exact ⟨hv, hr, hb⟩

/-- … and of the loaded ontology, proved through ALL builder steps of `from_bytes` for v2 / v3
files: whenever the load succeeds (term ids unique), the ontology has the file's release version and,
in file order, its terms with id, name, obsolete flag and replacement. (The remaining observations —
relations, annotations, information content — are `Onto.loadFacts` of the decoded records by
`C08_decode_v`; their characterisation is C01 / C02 / C03.) -/
theorem C08_decode_terms (fv : Nat) (hfv : fv = 2 ∨ fv = 3) (f : RawFacts) (h : FileOK fv f)
    (hnd : (f.terms.map (·.id)).Nodup) (o' : Onto) (hload : decodeBytes (encodeRaw fv f) = .ok o') :
    o'.version = f.version ∧
    o'.terms.map (fun t => (t.id, t.name, t.obsolete, t.replacement)) =
      f.terms.map (fun t => (t.id, t.name, t.obsolete, t.replacement)) := by
  have h1 : fv ≠ 1 := by omega
  rw [(C08_decode_v fv f h).2.2] at hload
  have hp : (projFacts fv f).terms = f.terms.map cleanTerm := by simp [projFacts, projTerm, h1]
  have := loadFacts_terms fv h1 (projFacts fv f) o'
    (by rw [hp]; intro t ht; obtain ⟨t0, ht0, rfl⟩ := List.mem_map.1 ht; exact (h.facts.terms t0 ht0).1)
    (by rw [hp]; simpa [List.map_map, Function.comp_def, cleanTerm] using hnd) hload
  refine ⟨by simpa [projFacts, h1] using this.2, ?_⟩
  have e := this.1
  rw [hp] at e
  have e2 : f.terms.map (core ∘ cleanTerm) = f.terms.map (fun t => (t.id, t.name, t.obsolete, t.replacement)) := rfl
  rw [List.map_map, e2] at e
  exact e

/-- Record order (hash-map iteration order of the writer): a file with the records of every
section permuted is a valid file, and decodes to exactly the permuted records — none lost,
duplicated or attributed to another section.

This is the part that holds for ANY record set, without a hypothesis on the records (the name keeps
its historical suffix).  The full statement — `decodeBytes (encodeRaw fv g)` and
`decodeBytes (encodeRaw fv f)` are observationally equal ontologies — is `C08_record_order` below, for
v1 / v2 / v3 files and arbitrary well-formed record sets (`WFRecords`); it cannot hold without
hypotheses on the records: with the same record id twice in a section the later record replaces the
earlier one while the links of both stay, so the result does depend on the order
(`C08_duplicate_record_id_counterexample`). -/
theorem C08_record_order_decoded (fv : Nat) (f g : RawFacts) (h : FileOK fv f) (hp : FactsPerm f g) :
    FileOK fv g ∧ decodeRaw fv (encBody fv g) = .ok (projFacts fv g) ∧
    FactsPerm (projFacts fv f) (projFacts fv g) ∧
    decodeBytes (encodeRaw fv g) = Onto.loadFacts fv (projFacts fv g) := by
  have hg := h.perm hp
  exact ⟨hg, (C08_decode_v fv g hg).2.1, projFacts_perm fv hp, (C08_decode_v fv g hg).2.2⟩

/-- **Record order, v3 files of well-formed ontologies.** Let `f` be the records of a `Reachable`
ontology `o` (`HpoProofs/LoadRefine.lean`: what the public constructors establish) in any order —
i.e. any file `as_bytes` can write for `o` — and `g` any permutation of `f` inside the five
sections.  Both files load, and the two ontologies agree in every observation: release version, every
term lookup (all fields), every record lookup of the three kinds, categories and modifier. -/
theorem C08_record_order_reachable (o : Onto) (hr : Reachable o) (f g : RawFacts) (hf : FileOK 3 f)
    (hpf : FactsPerm (factsOf o) f) (hpg : FactsPerm f g) :
    ∃ o1 o2, decodeBytes (encodeRaw 3 f) = .ok o1 ∧ decodeBytes (encodeRaw 3 g) = .ok o2 ∧
      o1.version = o2.version ∧ (∀ j, getT o1.terms j = getT o2.terms j) ∧
      (∀ k r, getR (o1.recs k) r = getR (o2.recs k) r) ∧
      o1.categories = o2.categories ∧ o1.modifier = o2.modifier := by
  have hpg' : FactsPerm (factsOf o) g :=
    ⟨hpf.version.trans hpg.version, hpf.terms.trans hpg.terms, hpf.parents.trans hpg.parents,
     hpf.genes.trans hpg.genes, hpf.omim.trans hpg.omim, hpf.orpha.trans hpg.orpha⟩
  have p1 := projFacts_perm 3 hpf
  have p2 := projFacts_perm 3 hpg'
  rw [projFacts_factsOf] at p1 p2
  obtain ⟨o1, h1, a⟩ := loadFacts_refine o hr _ p1
  obtain ⟨o2, h2, b⟩ := loadFacts_refine o hr _ p2
  refine ⟨o1, o2, (C08_decode_v 3 f hf).2.2.trans h1, (C08_decode_v 3 g (hf.perm hpg)).2.2.trans h2,
    a.version.trans b.version.symm, fun j => (a.terms j).trans (b.terms j).symm,
    fun k r => (a.recs k r).trans (b.recs k r).symm, a.categories.trans b.categories.symm,
    a.modifier.trans b.modifier.symm⟩

/-- **`from_bytes` of a well-formed file is a Builder run.** Let `f` be ANY record set that is
encodable in format version `fv` (`FileOK`) and well formed as far as the file carries it
(`WFRecords (projFacts fv f)`, `HpoProofs/LoadRun.lean`; `WFRecords f` suffices: `WFRecords.proj`):
two term records with the same id agree; the term of every parent record and every parent it lists
are terms of the file; some rank decreases along is_a (no cycle); record ids are distinct inside the
gene / OMIM / ORPHA section; every term a record lists is a term of the file; at most 65 535 records
per section; `HP:0000001` and `HP:0000118` are terms.  No ontology is assumed to have written `f`.
Then `from_bytes` succeeds, and returns literally the ontology `d` that the checked Builder API
produces from the records in file order — `new_term` per term record, `add_parent` per entry of a
parent record, `connect_all_terms`, per gene / disease record `add_gene` / `add_*_disease` followed by
`annotate_*` for each listed term (deduplicated, ascending), `calculate_information_content`,
`build_with_defaults`, none of them failing — with the release version the file carries. -/
theorem C08_file_is_builder_run (fv : Nat) (f : RawFacts) (h : FileOK fv f) (W : WFRecords (projFacts fv f)) :
    ∃ a oc r d,
      runB ((fileFacts (projFacts fv f)).map TermFact.op ++ (fileEdges (projFacts fv f)).map edgeOp) {} = some a ∧
      Acyclic a ∧ a.connectAll = .ok oc ∧
      (runA (fileAOps (projFacts fv f)) oc).calcIc = .ok r ∧ r.buildWithDefaults = .ok d ∧
      decodeBytes (encodeRaw fv f) = .ok { d with version := (projFacts fv f).version } := by
  have hsmall : ∀ t ∈ (projFacts fv f).terms, t.id < maxId := by
    intro t ht
    obtain ⟨t0, ht0, rfl⟩ := List.mem_map.1 ht
    rw [projTerm_id]; exact (h.facts.terms t0 ht0).1
  obtain ⟨a, oc, r, d, B, hl⟩ := loadFacts_ok (projFacts fv f) (bareRecs_projFacts fv f) hsmall W
  exact ⟨a, oc, r, d, B.run, B.acyclic, B.connect, B.ic, B.build,
    ((C08_decode_v fv f h).2.2.trans (loadFacts_projFacts fv f)).trans hl⟩

/-- **C08_record_order — the loaded ontology does not depend on the record order.** For every format
version `fv ∈ {1,2,3}` and ANY encodable record set `f` that is well formed as far as the file
carries it (`WFRecords (projFacts fv f)`, see `C08_file_is_builder_run`; in particular every file
`as_bytes` writes for a well-formed ontology, but no ontology is assumed), and every `g` that has the
same records in another order inside the five sections (`FactsPerm`): both files load, and the two
ontologies agree in every observation — release version, every term lookup (name, obsolete flag,
replacement, parents, children, ancestors, linked genes / OMIM / ORPHA diseases, the three
information-content pairs), every record lookup of the three kinds (name, direct terms), categories
and modifier.  Only the iteration order of terms and records may differ.  (Route: both loads are
Builder runs over permuted facts, `C16_terms`, `C16_records_and_terms`, `C16_ic_and_defaults`.)
The hypothesis "record ids distinct inside a section" cannot be dropped:
`C08_duplicate_record_id_counterexample`. -/
theorem C08_record_order (fv : Nat) (f g : RawFacts) (h : FileOK fv f) (hp : FactsPerm f g)
    (W : WFRecords (projFacts fv f)) :
    ∃ o1 o2, decodeBytes (encodeRaw fv f) = .ok o1 ∧ decodeBytes (encodeRaw fv g) = .ok o2 ∧
      o1.version = o2.version ∧ (∀ j, getT o1.terms j = getT o2.terms j) ∧
      (∀ k r, getR (o1.recs k) r = getR (o2.recs k) r) ∧
      o1.categories = o2.categories ∧ o1.modifier = o2.modifier := by
  have hsmall : ∀ t ∈ (projFacts fv f).terms, t.id < maxId := by
    intro t ht
    obtain ⟨t0, ht0, rfl⟩ := List.mem_map.1 ht
    rw [projTerm_id]; exact (h.facts.terms t0 ht0).1
  obtain ⟨o1, o2, l1, l2, S, _, _⟩ := loadFacts_perm (projFacts fv f) (projFacts fv g)
    (bareRecs_projFacts fv f) (bareRecs_projFacts fv g) hsmall W (projFacts_perm fv hp)
  exact ⟨o1, o2, ((C08_decode_v fv f h).2.2.trans (loadFacts_projFacts fv f)).trans l1,
    ((C08_decode_v fv g (h.perm hp)).2.2.trans (loadFacts_projFacts fv g)).trans l2,
    S.version, S.terms, S.recs, S.categories, S.modifier⟩

/-- EVERY proper prefix of a valid file — every truncation offset `0 .. len-1`, no bound on the
file — is rejected (error or panic), never returned as an ontology.  Framing argument: a cut
length header or a cut payload makes the section slice panic; a complete section leaves a proper
prefix of the remaining sections; after the last section nothing is left to be a proper prefix of. -/
theorem C08_prefix_rejected (fv : Nat) (f : RawFacts) (h : FileOK fv f) (p : Bytes)
    (hp : p <+: encodeRaw fv f) (hne : p ≠ encodeRaw fv f) : (decodeBytes p).isOk = false :=
  decodeBytes_prefix fv f h p hp hne

/-- A valid file followed by any non-empty suffix is rejected: the sections decode as before and
the final `section_start == len` check fails. -/
theorem C08_suffix_rejected (fv : Nat) (f : RawFacts) (h : FileOK fv f) (s : Bytes) (hs : s ≠ []) :
    decodeBytes (encodeRaw fv f ++ s) = .err .parseBinary := by
  rw [decodeBytes_enc_tail fv f h s]
  cases s with
  | nil => exact absurd rfl hs
  | cons a s => simp [finish, Res.bind]

/-- All 256 values of the version byte: with the magic `HPO` present, every value other than 2 and
3 is `NotImplemented` (whatever follows, at least one more byte) -/
theorem C08_version_byte (v : UInt8) (rest : Bytes) (hr : rest ≠ []) (h2 : v ≠ 2) (h3 : v ≠ 3) :
    decodeBytes ([0x48, 0x50, 0x4f] ++ v :: rest) = .err .notImplemented :=
  decodeBytes_version_byte v rest hr h2 h3

/-- … and a file shorter than 5 bytes is an error before the version is looked at -/
theorem C08_too_short (p : Bytes) (h : p.length < 5) : decodeBytes p = .err .parseBinary := by
  simp [decodeBytes, version_short p h, Res.bind]

/-! ### non-vacuity: a concrete non-trivial record set satisfies the hypotheses -/

/-- two roots, an obsolete replaced term with a 2-byte character in its name, one gene, one OMIM and
one ORPHA disease with terms -/
def sample : RawFacts :=
  { version := (2024, 3, 6)
    terms := [{ id := 1, name := "All".toList }, { id := 118, name := "Phenotypic abnormality".toList },
              { id := 7, name := "é old".toList, obsolete := true, replacement := some 118 }]
    parents := [(118, [1]), (7, [118]), (1, [])]
    genes := [{ id := 2175, name := "FANCA".toList, hpos := [118, 7] }]
    omim := [{ id := 4294967295, name := "Fanconi anemia".toList, hpos := [118] }]
    orpha := [{ id := 84, name := [], hpos := [] }] }


set_option maxRecDepth 8000 in
theorem C08_nonvacuous_sample (fv : Nat) (hfv : fv = 1 ∨ fv = 2 ∨ fv = 3) : FileOK fv sample := by
  refine ⟨hfv, ⟨by decide, ?_, ?_, ?_, ?_, ?_, ?_, by decide, by decide, by decide, by decide⟩, ?_⟩
  · simp only [sample, TermOK]; decide
  · simp only [sample, ParentsOK]; decide
  · simp only [sample, GeneOK]; decide
  · simp only [sample, DiseaseOK]; decide
  · simp only [sample, DiseaseOK]; decide
  · rcases hfv with rfl | rfl | rfl <;> decide
  · intro _; decide

/-- the hypotheses of the file-level theorems hold for `sample` in all three versions; its v3 file
has 209 bytes, so `C08_prefix_rejected` speaks about 209 truncation offsets of this file alone -/
example : FileOK 1 sample ∧ FileOK 2 sample ∧ FileOK 3 sample :=
  ⟨C08_nonvacuous_sample 1 (by decide), C08_nonvacuous_sample 2 (by decide), C08_nonvacuous_sample 3 (by decide)⟩
set_option maxRecDepth 8000 in
example : (encodeRaw 3 sample).length = 209 ∧ (encodeRaw 1 sample).length = 166 := by decide
/-- v1 really drops what it cannot carry -/
example : (projFacts 1 sample).terms.map (·.obsolete) = [false, false, false] ∧
    (projFacts 1 sample).orpha = [] ∧ (projFacts 2 sample).orpha = [] ∧
    (projFacts 3 sample).orpha = sample.orpha := by decide

/-! ### non-vacuity of `C08_record_order` / `C08_file_is_builder_run`, and why record ids must be distinct -/

/-- `sample` (three terms `HP:1 ← HP:118 ← HP:7`, a gene on two terms, an OMIM disease, an ORPHA
disease without terms) is a well-formed record set … -/
theorem C08_sample_wf : WFRecords sample :=
  { termsFun := by decide
    parentsClosed := by unfold IsTerm; decide
    acyclic := ⟨fun j => if j = 1 then 0 else if j = 118 then 1 else 2, by decide⟩
    recIds := by intro k; cases k <;> decide
    recTerms := by intro k; cases k <;> (unfold IsTerm; decide)
    fit := by intro k; cases k <;> decide
    root := by unfold IsTerm; decide
    phenotype := by unfold IsTerm; decide }

/-- … `sampleRev` has the same records with every section in reverse order -/
def sampleRev : RawFacts :=
  { version := sample.version, terms := sample.terms.reverse, parents := sample.parents.reverse,
    genes := sample.genes.reverse, omim := sample.omim.reverse, orpha := sample.orpha.reverse }

theorem C08_sample_perm : FactsPerm sample sampleRev ∧ sample.terms ≠ sampleRev.terms :=
  ⟨⟨rfl, (List.reverse_perm _).symm, (List.reverse_perm _).symm, (List.reverse_perm _).symm,
    (List.reverse_perm _).symm, (List.reverse_perm _).symm⟩, by decide⟩

/-- all hypotheses of `C08_record_order` hold together, in each of the three format versions -/
example (fv : Nat) (hfv : fv = 1 ∨ fv = 2 ∨ fv = 3) :
    ∃ o1 o2, decodeBytes (encodeRaw fv sample) = .ok o1 ∧ decodeBytes (encodeRaw fv sampleRev) = .ok o2 ∧
      (∀ j, getT o1.terms j = getT o2.terms j) := by
  obtain ⟨o1, o2, l1, l2, _, ht, _⟩ := C08_record_order fv sample sampleRev (C08_nonvacuous_sample fv hfv)
    C08_sample_perm.1 (C08_sample_wf.proj fv)
  exact ⟨o1, o2, l1, l2, ht⟩

/-- two gene records with the SAME id 5 (everything else as in `sample`), in the two possible orders -/
def dupGenes : List Rec := [{ id := 5, name := "A".toList, hpos := [7] }, { id := 5, name := "B".toList, hpos := [118] }]
def dupA : RawFacts := { sample with genes := dupGenes }
def dupB : RawFacts := { sample with genes := dupGenes.reverse }

set_option maxRecDepth 100000 in
/-- **Why record ids must be distinct inside a section.** `dupA` and `dupB` differ only in the order of
two gene records with the same id. Both load; `HashMap::insert` keeps the LATER record (name and
term list) while the links of BOTH records stay on the terms — so the loaded ontologies differ
(`gene 5` is `B` on `[118]` in one and `A` on `[7]` in the other), and neither is a Builder state:
`HP:0000007` carries gene 5 although in the first one gene 5 does not list it. -/
theorem C08_duplicate_record_id_counterexample :
    FactsPerm dupA dupB ∧
    (Onto.loadFacts 3 dupA).toOption.map (fun o => (getR o.genes 5, (getT o.terms 7).map (·.genes))) =
      some (some { id := 5, name := "B".toList, hpos := [118] }, some [5]) ∧
    (Onto.loadFacts 3 dupB).toOption.map (fun o => (getR o.genes 5, (getT o.terms 7).map (·.genes))) =
      some (some { id := 5, name := "A".toList, hpos := [7] }, some [5]) := by
  refine ⟨⟨rfl, List.Perm.refl _, List.Perm.refl _, (List.reverse_perm _).symm, List.Perm.refl _,
    List.Perm.refl _⟩, by decide, by decide⟩

end Hpo.C08
