import HpoProofs.TermId
/-!
# C20 — term-id text and byte conversions are total and mutually inverse

`render` = `Display` (`HP:{:07}`), `parse` = `TryFrom<&str>` (as fixed), `toBe`/`fromBe` = big-endian
bytes. A `&str` is a `List Char` (valid UTF-8 by construction); byte offsets are sums of UTF-8 sizes.
All statements are for every `n` / every string: nothing is sampled.
-/
namespace Hpo.C20
open Hpo Hpo.TermId

/-- parsing the rendering returns the id — for every u32 (all 10^7 ids of the id space and beyond) -/
theorem C20_roundtrip (n : Nat) (h : n < 4294967296) : parse (render n) = some n := by
  unfold parse render
  have hlen : ¬ byteLen (['H', 'P', ':'] ++ List.replicate (7 - (decimal n).length) '0' ++ decimal n) < 4 := by
    rw [byteLen_append, byteLen_append]
    have h3 : byteLen ['H', 'P', ':'] = 3 := by decide
    have := byteLen_pos_of_ne_nil _ (decimal_ne_nil n)
    omega
  rw [if_neg hlen]
  have hdrop : ∀ rest, dropBytes 3 ('H' :: 'P' :: ':' :: rest) = some rest := by
    intro rest
    have e1 : Char.utf8Size 'H' = 1 := by decide
    have e2 : Char.utf8Size 'P' = 1 := by decide
    have e3 : Char.utf8Size ':' = 1 := by decide
    simp only [dropBytes, e1, e2, e3]
    cases rest <;> simp [dropBytes]
  simp only [List.cons_append, List.nil_append] at hlen ⊢
  rw [hdrop]
  simp only [Option.bind_some]
  -- the rest starts with a digit, not with '+'
  have hval : digitsVal (List.replicate (7 - (decimal n).length) '0' ++ decimal n) 0 = some n := by
    rw [digitsVal_zeros, digitsVal_decimal]
  have hne : List.replicate (7 - (decimal n).length) '0' ++ decimal n ≠ [] := by
    simp [decimal_ne_nil]
  have hhead : ∀ r, List.replicate (7 - (decimal n).length) '0' ++ decimal n ≠ '+' :: r := by
    intro r hr
    cases hk : 7 - (decimal n).length with
    | zero =>
      rw [hk] at hr
      simp only [List.replicate_zero, List.nil_append] at hr
      have := decimal_digits n '+' (by rw [hr]; simp)
      obtain ⟨k, hk⟩ := this
      exact digitChar_ne_plus k hk.symm
    | succ k =>
      rw [hk] at hr
      simp [List.replicate_succ] at hr
  generalize List.replicate (7 - (decimal n).length) '0' ++ decimal n = rest at hval hne hhead
  have hs : stripPlus rest = rest := by
    unfold stripPlus
    split
    · rename_i r; exact absurd rfl (hhead r)
    · rfl
  simp only [parseU32, hs, parseDigits, List.isEmpty_iff, hne, ↓reduceIte, hval, Option.bind_some, h]

/-- the rendering is `HP:` followed by exactly seven decimal digits for every id of the id space -/
theorem C20_render_form (n : Nat) (h : n < 10000000) :
    ∃ ds : List Char, render n = ['H', 'P', ':'] ++ ds ∧ ds.length = 7 ∧
      (∀ c ∈ ds, ∃ k, c = digitChar k) ∧ digitsVal ds 0 = some n := by
  refine ⟨List.replicate (7 - (decimal n).length) '0' ++ decimal n, by simp [render], ?_, ?_, ?_⟩
  · have := decimal_length_le n 6 (by simpa using h)
    simp; omega
  · intro c hc
    rcases List.mem_append.1 hc with hc | hc
    · have : c = '0' := (List.mem_replicate.1 hc).2
      exact ⟨0, by rw [this]; decide⟩
    · exact decimal_digits n c hc
  · rw [digitsVal_zeros, digitsVal_decimal]

/-- big-endian bytes round-trip for every u32, and every byte is a byte -/
theorem C20_bytes (n : Nat) (h : n < 4294967296) :
    fromBe (n / 16777216 % 256) (n / 65536 % 256) (n / 256 % 256) (n % 256) = n ∧
    toBe n = [n / 16777216 % 256, n / 65536 % 256, n / 256 % 256, n % 256] := by
  refine ⟨?_, rfl⟩
  unfold fromBe; omega

/-- and conversely for every four bytes -/
theorem C20_bytes_inv (a b c d : Nat) (ha : a < 256) (hb : b < 256) (hc : c < 256) (hd : d < 256) :
    toBe (fromBe a b c d) = [a, b, c, d] ∧ fromBe a b c d < 4294967296 := by
  unfold toBe fromBe
  refine ⟨?_, by omega⟩
  congr 1
  · omega
  · congr 1
    · omega
    · congr 1
      · omega
      · congr 1; omega

/-- specification of the number grammar: an optional `+`, then one or more digits whose value is
below 2^32 -/
theorem C20_parseU32_spec (cs : List Char) (n : Nat) :
    parseU32 cs = some n ↔
      stripPlus cs ≠ [] ∧ digitsVal (stripPlus cs) 0 = some n ∧ n < 4294967296 := by
  unfold parseU32 parseDigits
  generalize stripPlus cs = ds
  constructor
  · intro h
    split at h
    · simp at h
    · rename_i hne
      cases hv : digitsVal ds 0 with
      | none => simp [hv] at h
      | some v =>
        simp only [hv, Option.bind_some] at h
        split at h
        · rename_i hlt; simp at h; subst h; exact ⟨by simpa using hne, rfl, hlt⟩
        · simp at h
  · rintro ⟨hne, hv, hlt⟩
    simp [hne, hv, hlt]

/-- `digitsVal` succeeds exactly on strings of ASCII digits -/
theorem C20_digits_only (ds : List Char) (acc : Nat) :
    (digitsVal ds acc).isSome ↔ ∀ c ∈ ds, '0' ≤ c ∧ c ≤ '9' := by
  induction ds generalizing acc with
  | nil => simp [digitsVal]
  | cons c ds ih =>
    simp only [digitsVal, List.mem_cons, forall_eq_or_imp]
    by_cases hc : '0' ≤ c ∧ c ≤ '9'
    · simp [digitVal, hc, ih]
    · simp [digitVal, hc]

/-- `try_from(&str)` is total and is exactly: at least 4 bytes, byte 3 on a character boundary,
the rest in the number grammar. (Totality is by construction: `parse` returns `some id` or `none`
= `Err`, there is no panic outcome.) -/
theorem C20_parse_spec (cs : List Char) (n : Nat) :
    parse cs = some n ↔ 4 ≤ byteLen cs ∧ ∃ rest, dropBytes 3 cs = some rest ∧ parseU32 rest = some n := by
  unfold parse
  constructor
  · intro h
    split at h
    · simp at h
    · rename_i hl
      cases hd : dropBytes 3 cs with
      | none => simp [hd] at h
      | some rest => simp [hd] at h; exact ⟨by omega, rest, rfl, h⟩
  · rintro ⟨hl, rest, hd, hp⟩
    rw [if_neg (by omega), hd]; simpa using hp

/-- the fixed function agrees with the code before the fix wherever that did not panic … -/
theorem C20_fix_conservative (cs : List Char) :
    parsePrefix cs = .panic ∨
    (parsePrefix cs = match parse cs with | some n => .ok n | none => .err .parseInt) := by
  unfold parsePrefix parse
  split
  · right; rfl
  · cases dropBytes 3 cs with
    | none => left; rfl
    | some r => right; simp only [Option.bind_some]; cases parseU32 r <;> rfl

/-- … and the code before the fix did panic: `"HPé1"` (byte 3 is inside `é`) -/
theorem C20_panic_counterexample : parsePrefix ['H', 'P', 'é', '1'] = .panic := by decide

/-! ### non-vacuity -/
example : render 118 = "HP:0000118".toList := by decide
example : parse "HP:0000118".toList = some 118 := by decide
example : parse "HP:+7".toList = some 7 := by decide
example : parse "HPé1".toList = none := by decide
example : parse "HP:".toList = none := by decide
example : parse "HP:-1".toList = none := by decide
example : parse "HP:4294967296".toList = none := by decide
example : parse "HP:4294967295".toList = some 4294967295 := by decide
example : render 4294967295 = "HP:4294967295".toList := by decide

end Hpo.C20
