import HpoProofs.Rounded
import HpoProofs.Combine
/-!
Helper lemmas for the `_rounded` theorems of C05: the set-similarity model
(`HpoModel/Combine.lean`) evaluated at `RVal R` for an arbitrary rounding regime `R`.

The maxima only COMPARE (exact under every rounding); the sums, quotients and the final
combination are rounded operations, each monotone and exact on the small integers that occur as
denominators, which is what the definedness / sign / range / symmetry clauses need.
-/
namespace Hpo
namespace Combine
open Hpo.Matrix NumR

/-! ### the result in terms of row and column maxima, for ANY numeric instance -/
section generic
variable {F : Type} [Num F]

/-- maximum of a non-empty list as the code computes it (`ofNat 0` for the empty list, never used) -/
def gmax : List F → F
  | [] => Num.ofNat 0
  | x :: xs => maxGo x xs

theorem reduceMax_gmax (l : List F) (h : l ≠ []) : reduceMax l = some (gmax l) := by
  cases l with
  | nil => exact absurd rfl h
  | cons x xs => rfl

theorem maxes_map_g {α : Type} (f : α → List F) (l : List α) (h : ∀ a ∈ l, f a ≠ []) :
    maxes (l.map f) = some (l.map fun a => gmax (f a)) := by
  induction l with
  | nil => rfl
  | cons a as ih =>
    have h1 := reduceMax_gmax (f a) (h a (by simp))
    have h2 := ih (fun x hx => h x (by simp [hx]))
    simp [maxes, h1, h2]

omit [Num F] in
theorem simData_ne_nil (sim : Nat → Nat → F) (A B : List Nat) (hA : A ≠ []) (hB : B ≠ []) :
    simData sim A B ≠ [] := by
  intro h
  have := congrArg List.length h
  rw [length_simData] at this
  have : 0 < A.length * B.length :=
    Nat.mul_pos (List.length_pos_iff.2 hA) (List.length_pos_iff.2 hB)
  simp_all

theorem groupSimilarity_eq_g (cb : Combiner) (sim : Nat → Nat → F) (A B : List Nat)
    (hA : A ≠ []) (hB : B ≠ []) (hA16 : A.length ≤ 65535) (hB16 : B.length ≤ 65535) :
    groupSimilarity cb sim A B = .ok (combineWith cb A.length B.length
      (A.map fun a => gmax (B.map (sim a))) (B.map fun b => gmax (A.map fun a => sim a b))) := by
  have hne := simData_ne_nil sim A B hA hB
  have hrm : rowMaxes ⟨A.length, B.length, simData sim A B⟩ =
      some (A.map fun a => gmax (B.map (sim a))) := by
    simp only [rowMaxes, rowList_simData sim A B hB, Option.bind_some]
    rw [maxes_map_g (fun a => simRow sim a B) A (by
      intro a _ h
      have := congrArg List.length h
      rw [length_simRow] at this
      simp at this
      exact hB this)]
    simp [simRow_eq_map]
  have hcm : colMaxes ⟨A.length, B.length, simData sim A B⟩ =
      some (B.map fun b => gmax (A.map fun a => sim a b)) := by
    simp only [colMaxes, colList_simData]
    rw [maxes_map_g (fun b => A.map fun a => sim a b) B (by
      intro b _ h
      simp at h
      exact hA h)]
  unfold groupSimilarity calculate
  have he : Matrix.isEmpty (⟨A.length, B.length, simData sim A B⟩ : Matrix F) = false := by
    simp [Matrix.isEmpty, hne]
  rw [he]
  simp only [Bool.false_eq_true, if_false, combine, fitsU16, hrm, hcm]
  simp [hA16, hB16]

theorem groupSimilarity_empty_g (cb : Combiner) (sim : Nat → Nat → F) (A B : List Nat)
    (h : A = [] ∨ B = []) : groupSimilarity cb sim A B = .ok (some (Num.ofNat 0)) := by
  have hd : simData sim A B = [] := by
    rcases h with rfl | rfl
    · rfl
    · exact simData_nil_right sim A
  simp [groupSimilarity, calculate, Matrix.isEmpty, hd]

/-- beyond the `u16` guard the code panics, whatever the numeric type -/
theorem groupSimilarity_panic_g (cb : Combiner) (sim : Nat → Nat → F) (A B : List Nat)
    (hA : A ≠ []) (hB : B ≠ []) (h16 : ¬ (A.length ≤ 65535 ∧ B.length ≤ 65535)) :
    groupSimilarity cb sim A B = .panic := by
  have hne := simData_ne_nil sim A B hA hB
  have hf : (!fitsU16 A.length || !fitsU16 B.length) = true := by
    simp only [fitsU16, Bool.or_eq_true, Bool.not_eq_true', decide_eq_false_iff_not]
    by_cases h1 : A.length ≤ 65535
    · right; exact fun h2 => h16 ⟨h1, h2⟩
    · left; exact h1
  simp [groupSimilarity, calculate, Matrix.isEmpty, hne, combine, hf]

/-- the caching adaptor is transparent for every numeric instance -/
theorem runCached_eq_g (cb : Combiner) (sim : Nat → Nat → F) (qs : List (List Nat × List Nat))
    (memo : Memo F) (h : MemoOK sim memo) : runCached cb sim qs memo = runPlain cb sim qs := by
  induction qs generalizing memo with
  | nil => rfl
  | cons q qs ih =>
    obtain ⟨h1, h2⟩ := simDataM_spec sim q.2 q.1 memo h
    simp only [runCached, runPlain, groupSimilarityM, groupSimilarity]
    rw [h1, ih _ h2]

/-- exchanging the roles of rows and columns, for EVERY numeric instance whose `+` and `f32::max`
are commutative - instances with NaN values included (no order law is used) -/
theorem combineWith_swap_g (hadd : ∀ a b : F, Num.add a b = Num.add b a)
    (hmax : ∀ a b : F, fmax a b = fmax b a) (cb : Combiner) (r c : Nat) (rm cm : List F) :
    combineWith cb c r cm rm = combineWith cb r c rm cm := by
  cases cb
  · simp only [combineWith, funSimAvg]
    cases h1 : (Num.div? (sum rm) (Num.ofNat r) : Option F) <;>
      cases h2 : (Num.div? (sum cm) (Num.ofNat c) : Option F) <;>
      simp only [Option.bind_some, Option.bind_none]
    rw [hadd]
  · simp only [combineWith, funSimMax]
    cases h1 : (Num.div? (sum rm) (Num.ofNat r) : Option F) <;>
      cases h2 : (Num.div? (sum cm) (Num.ofNat c) : Option F) <;>
      simp only [Option.bind_some, Option.bind_none, Option.map_some, Option.map_none]
    rw [hmax]
  · simp only [combineWith, bma]
    rw [hadd (sum cm), hadd (Num.ofNat c)]

/-- argument order, for every such instance: the matrix of `(B, A)` is the transpose of the matrix
of `(A, B)`, so each row of the one IS a column of the other, element order included - the
comparison-based maxima (which depend on the position of a NaN) are computed on identical lists -/
theorem groupSimilarity_symm_g (hadd : ∀ a b : F, Num.add a b = Num.add b a)
    (hmax : ∀ a b : F, fmax a b = fmax b a) (cb : Combiner) (sim : Nat → Nat → F)
    (hs : ∀ x y, sim x y = sim y x) (A B : List Nat) :
    groupSimilarity cb sim A B = groupSimilarity cb sim B A := by
  by_cases hA : A = []
  · rw [groupSimilarity_empty_g cb sim A B (Or.inl hA), groupSimilarity_empty_g cb sim B A (Or.inr hA)]
  by_cases hB : B = []
  · rw [groupSimilarity_empty_g cb sim A B (Or.inr hB), groupSimilarity_empty_g cb sim B A (Or.inl hB)]
  by_cases h16 : A.length ≤ 65535 ∧ B.length ≤ 65535
  · rw [groupSimilarity_eq_g cb sim A B hA hB h16.1 h16.2,
      groupSimilarity_eq_g cb sim B A hB hA h16.2 h16.1,
      combineWith_swap_g hadd hmax cb A.length B.length]
    have h1 : (A.map fun a => gmax (B.map (sim a))) = A.map fun a => gmax (B.map fun b => sim b a) := by
      apply List.map_congr_left; intro a _; congr 1; apply List.map_congr_left; intro b _; exact hs a b
    have h2 : (B.map fun b => gmax (A.map fun a => sim a b)) = B.map fun b => gmax (A.map (sim b)) := by
      apply List.map_congr_left; intro b _; congr 1; apply List.map_congr_left; intro a _; exact hs a b
    rw [h1, h2]
  · rw [groupSimilarity_panic_g cb sim A B hA hB h16,
      groupSimilarity_panic_g cb sim B A hB hA (fun h => h16 ⟨h.2, h.1⟩)]

end generic

/-! ### an arithmetic with a NaN (non-vacuity of the instance-independent statements of C05) -/

/-- a small arithmetic WITH a NaN (`none`): absorbing for the operations, every comparison with it
is false -/
def nanNum : Num (Option ℚ) where
  ofNat := fun n => some (n : ℚ)
  add := fun a b => a.bind fun x => b.map fun y => x + y
  sub := fun a b => a.bind fun x => b.map fun y => x - y
  mul := fun a b => a.bind fun x => b.map fun y => x * y
  div? := fun a b => if b = some 0 then none else some (a.bind fun x => b.map fun y => x / y)
  log := fun _ => none
  exp := fun _ => none
  neg := fun a => a.map fun x => -x
  isZero := fun a => decide (a = some 0)
  lt := fun a b => match a, b with
    | some x, some y => decide (x < y)
    | _, _ => false
  isNaN := fun a => a.isNone

theorem nanNum_add (a b : Option ℚ) :
    @Num.add _ nanNum a b = a.bind fun x => b.map fun y => x + y := rfl
theorem nanNum_lt_some (x y : ℚ) : @Num.lt _ nanNum (some x) (some y) = decide (x < y) := rfl
theorem nanNum_lt_none_left (b : Option ℚ) : @Num.lt _ nanNum none b = false := rfl
theorem nanNum_lt_none_right (a : Option ℚ) : @Num.lt _ nanNum a none = false := by cases a <;> rfl
theorem nanNum_isNaN (a : Option ℚ) : @Num.isNaN _ nanNum a = a.isNone := rfl
theorem nanNum_ofNat (n : ℕ) : @Num.ofNat _ nanNum n = some (n : ℚ) := rfl
theorem nanNum_div? (a b : Option ℚ) : @Num.div? _ nanNum a b =
    if b = some 0 then none else some (a.bind fun x => b.map fun y => x / y) := rfl


variable {R : Rounding}

/-! ### maxima: exact -/

theorem maxGoR_mem (a : RVal R) (l : List (RVal R)) : maxGo a l = a ∨ maxGo a l ∈ l := by
  induction l generalizing a with
  | nil => left; rfl
  | cons b bs ih =>
    simp only [maxGo]
    rcases ih (if Num.lt b a then a else b) with h | h
    · by_cases hlt : Num.lt b a = true
      · left; rw [h, if_pos hlt]
      · right; rw [h, if_neg hlt]; simp
    · right; exact List.mem_cons_of_mem _ h

theorem gmaxR_mem (l : List (RVal R)) (h : l ≠ []) : gmax l ∈ l := by
  cases l with
  | nil => exact absurd rfl h
  | cons x xs =>
    rcases maxGoR_mem x xs with h | h
    · simp [gmax, h]
    · simp [gmax, h]

theorem le_maxGoR (a : RVal R) (l : List (RVal R)) : a.v ≤ (maxGo a l).v := by
  induction l generalizing a with
  | nil => simp [maxGo]
  | cons b bs ih =>
    simp only [maxGo]
    refine le_trans ?_ (ih _)
    simp only [NumR.lt_eq, decide_eq_true_eq]
    split
    · exact le_refl _
    · rename_i h; exact not_lt.1 h

theorem mem_le_maxGoR (a : RVal R) (l : List (RVal R)) (x : RVal R) (hx : x ∈ l) :
    x.v ≤ (maxGo a l).v := by
  induction l generalizing a with
  | nil => simp at hx
  | cons b bs ih =>
    simp only [maxGo]
    rcases List.mem_cons.1 hx with rfl | h
    · refine le_trans ?_ (le_maxGoR _ bs)
      simp only [NumR.lt_eq, decide_eq_true_eq]
      split
      · rename_i h; exact h.le
      · exact le_refl _
    · exact ih _ h

/-- the maximum the code computes is the greatest element, exactly, under every rounding -/
theorem gmaxR_isGreatest (l : List (RVal R)) (h : l ≠ []) :
    gmax l ∈ l ∧ ∀ x ∈ l, x.v ≤ (gmax l).v := by
  refine ⟨gmaxR_mem l h, ?_⟩
  cases l with
  | nil => exact absurd rfl h
  | cons y ys =>
    intro x hx
    rcases List.mem_cons.1 hx with rfl | hx
    · exact le_maxGoR _ ys
    · exact mem_le_maxGoR _ ys x hx

/-! ### rounded sums -/

theorem sumGoR_nonneg (acc : RVal R) (hacc : 0 ≤ acc.v) (l : List (RVal R))
    (hl : ∀ x ∈ l, 0 ≤ x.v) : 0 ≤ (sumGo acc l).v := by
  induction l generalizing acc with
  | nil => simpa [sumGo] using hacc
  | cons x xs ih =>
    simp only [sumGo]
    exact ih _ (NumR.add_nonneg hacc (hl x (by simp))) (fun y hy => hl y (by simp [hy]))

theorem sumR_nonneg (l : List (RVal R)) (hl : ∀ x ∈ l, 0 ≤ x.v) : 0 ≤ (sum l).v :=
  sumGoR_nonneg _ (by simp) l hl

/-- the rounded partial sums of numbers ≤ 1 never exceed the number of summands (an integer
below `2^24`, hence representable) -/
theorem sumGoR_le (acc : RVal R) (k : Nat) (hacc : acc.v ≤ k) (l : List (RVal R))
    (hl : ∀ x ∈ l, x.v ≤ 1) (hk : k + l.length ≤ 2 ^ 24) : (sumGo acc l).v ≤ (k + l.length : Nat) := by
  induction l generalizing acc k with
  | nil => simpa [sumGo] using hacc
  | cons x xs ih =>
    simp only [sumGo, List.length_cons] at hk ⊢
    have h1 : (Num.add acc x).v ≤ ((k + 1 : Nat) : ℝ) := by
      simp only [add_v]
      apply R.rnd_le_nat (by omega)
      have := hl x (by simp)
      push_cast; linarith
    have := ih (Num.add acc x) (k + 1) h1 (fun y hy => hl y (by simp [hy])) (by omega)
    have e : k + 1 + xs.length = k + (xs.length + 1) := by omega
    rwa [e] at this

theorem sumR_le (l : List (RVal R)) (hl : ∀ x ∈ l, x.v ≤ 1) (hk : l.length ≤ 2 ^ 24) :
    (sum l).v ≤ l.length := by
  have := sumGoR_le (R := R) (Num.ofNat 0) 0 (by simp) l hl (by omega)
  simpa [sum] using this

/-! ### the combiners -/

theorem fmaxR_comm (a b : RVal R) : fmax a b = fmax b a := by
  simp only [fmax, NumR.isNaN_eq, Bool.false_eq_true, if_false, NumR.lt_eq, decide_eq_true_eq]
  by_cases h1 : a.v < b.v
  · have h2 : ¬ b.v < a.v := not_lt.2 h1.le
    simp [h1, h2]
  · by_cases h2 : b.v < a.v
    · simp [h1, h2]
    · simp only [h1, h2, if_false]
      exact RVal.ext' (le_antisymm (not_lt.1 h2) (not_lt.1 h1))

theorem fmaxR_cases (a b : RVal R) : fmax a b = a ∨ fmax a b = b := by
  simp only [fmax, NumR.isNaN_eq, Bool.false_eq_true, if_false]
  split
  · right; rfl
  · left; rfl

/-- exchanging the roles of rows and columns does not change any of the three combinations:
rounded `+` is commutative, `max` compares -/
theorem combineWithR_swap (cb : Combiner) (r c : Nat) (rm cm : List (RVal R)) :
    combineWith cb c r cm rm = combineWith cb r c rm cm := by
  cases cb
  · simp only [combineWith, funSimAvg]
    cases h1 : (Num.div? (sum rm) (Num.ofNat r) : Option (RVal R)) <;>
      cases h2 : (Num.div? (sum cm) (Num.ofNat c) : Option (RVal R)) <;>
      simp [NumR.add_comm]
  · simp only [combineWith, funSimMax]
    cases h1 : (Num.div? (sum rm) (Num.ofNat r) : Option (RVal R)) <;>
      cases h2 : (Num.div? (sum cm) (Num.ofNat c) : Option (RVal R)) <;>
      simp [fmaxR_comm]
  · simp only [combineWith, bma]
    rw [NumR.add_comm (sum cm), NumR.add_comm (Num.ofNat c)]

/-- a rounded mean `rnd (Σ / rnd n)` of `n ≥ 1` values: defined; ≥ 0 if all are; ≤ 1 if all are -/
theorem meanR (n : Nat) (l : List (RVal R)) (hn : 0 < n) (hn16 : n ≤ 65535) (hlen : l.length = n) :
    ∃ q : RVal R, Num.div? (sum l) (Num.ofNat n) = some q ∧
      ((∀ x ∈ l, 0 ≤ x.v) → 0 ≤ q.v) ∧ ((∀ x ∈ l, x.v ≤ 1) → q.v ≤ 1) := by
  have e : (Num.ofNat n : RVal R).v = n := by simp only [ofNat_v]; exact R.natCast n (by omega)
  have hpos : (0 : ℝ) < n := by exact_mod_cast hn
  refine ⟨_, div?_of_ne _ (by rw [e]; exact ne_of_gt hpos), ?_, ?_⟩
  · intro h0
    exact R.rnd_nonneg (div_nonneg (sumR_nonneg l h0) (by rw [e]; exact hpos.le))
  · intro h1
    apply R.rnd_le_one
    rw [e, div_le_one hpos]
    have := sumR_le l h1 (by omega)
    rwa [hlen] at this

/-- all three combiners on `r` row maxima and `c` column maxima, `1 ≤ r, c ≤ 65535`: no zero
denominator; the result is ≥ 0 if all maxima are, ≤ 1 if all maxima are -/
theorem combineWithR_defined_range (cb : Combiner) (r c : Nat) (rm cm : List (RVal R))
    (hr : 0 < r) (hc : 0 < c) (hr16 : r ≤ 65535) (hc16 : c ≤ 65535)
    (hrl : rm.length = r) (hcl : cm.length = c) :
    ∃ v : RVal R, combineWith cb r c rm cm = some v ∧
      ((∀ x ∈ rm, 0 ≤ x.v) → (∀ x ∈ cm, 0 ≤ x.v) → 0 ≤ v.v) ∧
      ((∀ x ∈ rm, x.v ≤ 1) → (∀ x ∈ cm, x.v ≤ 1) → v.v ≤ 1) := by
  obtain ⟨x, hx, hx0, hx1⟩ := meanR r rm hr hr16 hrl
  obtain ⟨y, hy, hy0, hy1⟩ := meanR c cm hc hc16 hcl
  have er : (Num.ofNat r : RVal R).v = r := by simp only [ofNat_v]; exact R.natCast r (by omega)
  have ec : (Num.ofNat c : RVal R).v = c := by simp only [ofNat_v]; exact R.natCast c (by omega)
  have hrp : (0 : ℝ) < r := by exact_mod_cast hr
  have hcp : (0 : ℝ) < c := by exact_mod_cast hc
  cases cb
  · -- funSimAvg
    have h2 : (Num.ofNat 2 : RVal R).v ≠ 0 := by simp
    refine ⟨_, by simp only [combineWith, funSimAvg, hx, hy, Option.bind_some]; exact div?_of_ne _ h2, ?_, ?_⟩
    · intro a0 b0
      exact R.rnd_nonneg (div_nonneg (NumR.add_nonneg (hx0 a0) (hy0 b0)) (by simp))
    · intro a1 b1
      apply R.rnd_le_one
      rw [ofNat_two_v, div_le_one (by norm_num)]
      simp only [add_v]
      apply R.rnd_le_two
      linarith [hx1 a1, hy1 b1]
  · -- funSimMax
    refine ⟨_, by simp only [combineWith, funSimMax, hx, hy, Option.bind_some, Option.map_some]; rfl, ?_, ?_⟩
    · intro a0 b0
      rcases fmaxR_cases x y with h | h <;> rw [h]
      · exact hx0 a0
      · exact hy0 b0
    · intro a1 b1
      rcases fmaxR_cases x y with h | h <;> rw [h]
      · exact hx1 a1
      · exact hy1 b1
  · -- bma
    have hd : (1 : ℝ) ≤ (Num.add (Num.ofNat r) (Num.ofNat c) : RVal R).v := by
      simp only [add_v, er, ec]
      apply R.one_le_rnd
      have : (1 : ℝ) ≤ r := by exact_mod_cast hr
      linarith
    have hpos : (0 : ℝ) < (Num.add (Num.ofNat r) (Num.ofNat c) : RVal R).v := by linarith
    refine ⟨_, by simp only [combineWith, bma]; exact div?_of_ne _ (ne_of_gt hpos), ?_, ?_⟩
    · intro a0 b0
      exact R.rnd_nonneg (div_nonneg (NumR.add_nonneg (sumR_nonneg rm a0) (sumR_nonneg cm b0)) hpos.le)
    · intro a1 b1
      apply R.rnd_le_one
      rw [div_le_one hpos]
      simp only [add_v, er, ec]
      apply R.mono
      have s1 := sumR_le rm a1 (by omega)
      have s2 := sumR_le cm b1 (by omega)
      rw [hrl] at s1; rw [hcl] at s2
      linarith

end Combine
end Hpo
