import HpoModel.CombineFast
/-!
`Combine.calculateOneRow` (closed form run by the driver for huge one-row matrices) is
`Combine.calculate` on the `1 × n` matrix.
-/
namespace Hpo
open Matrix

theorem stepGo_of_le {F : Type} (c : Nat) : ∀ (l : List F) (k : Nat), l.length ≤ k → stepGo c k l = [] := by
  intro l
  induction l with
  | nil => intro k _; cases k <;> rfl
  | cons x xs ih =>
    intro k hk
    cases k with
    | zero => simp at hk
    | succ k => simp only [stepGo]; exact ih k (by simpa using hk)

/-- with a step of at least the length, `skip(j).step_by(c)` yields the single element `j` -/
theorem stepGo_single {F : Type} (c : Nat) : ∀ (l : List F) (j : Nat) (hj : j < l.length), l.length ≤ c →
    stepGo c j l = [l[j]] := by
  intro l
  induction l with
  | nil => intro j hj; simp at hj
  | cons x xs ih =>
    intro j hj hc
    cases j with
    | zero =>
      simp only [stepGo, List.getElem_cons_zero]
      rw [stepGo_of_le c xs (c - 1) (by simp at hc; omega)]
    | succ j =>
      simp only [stepGo, List.getElem_cons_succ]
      exact ih j (by simpa using hj) (by simp at hc; omega)

theorem colsGo_one_row {F : Type} (m : Matrix F) (hc : m.cols = m.data.length) :
    ∀ (n j : Nat), j + n ≤ m.data.length →
      colsGo m n j = ((m.data.drop j).take n).map fun x => [x] := by
  intro n
  induction n with
  | zero => intro j _; simp [colsGo]
  | succ n ih =>
    intro j hj
    have hjl : j < m.data.length := by omega
    simp only [colsGo]
    rw [ih (j + 1) (by omega), stepGo_single m.cols m.data j hjl (by omega)]
    rw [List.drop_eq_getElem_cons hjl, List.take_succ_cons, List.map_cons]

theorem colList_one_row {F : Type} (m : Matrix F) (hc : m.cols = m.data.length) :
    m.colList = m.data.map fun x => [x] := by
  unfold colList
  rw [colsGo_one_row m hc m.cols 0 (by omega)]
  simp [hc]

theorem rowList_one_row {F : Type} (m : Matrix F) (hr : m.rows = 1) (hc : m.cols = m.data.length)
    (hne : m.data ≠ []) : m.rowList = some [m.data] := by
  have hpos : 0 < m.data.length := List.length_pos_iff.2 hne
  unfold rowList
  rw [hr, Nat.one_mul]
  obtain ⟨n, hn⟩ : ∃ n, m.cols = n + 1 := ⟨m.cols - 1, by omega⟩
  rw [hn]
  simp only [rowsGo, hr, Nat.one_mul]
  rw [if_neg (by omega), if_neg (by omega)]
  rw [if_pos (by omega)]
  simp [hc]

namespace Combine
variable {F : Type} [Num F]

theorem maxes_singletons : ∀ l : List F, maxes (l.map fun x => [x]) = some l := by
  intro l
  induction l with
  | nil => rfl
  | cons x xs ih => simp [maxes, reduceMax, maxGo, ih]

/-- **The driver's closed form is the model.** -/
theorem calculateOneRow_eq (cb : Combiner) (data : List F) :
    calculateOneRow cb data = calculate cb { rows := 1, cols := data.length, data := data } := by
  cases data with
  | nil => simp [calculateOneRow, calculate, Matrix.isEmpty]
  | cons x xs =>
    have hrl := rowList_one_row { rows := 1, cols := (x :: xs).length, data := x :: xs } rfl rfl (by simp)
    have hcl := colList_one_row { rows := 1, cols := (x :: xs).length, data := x :: xs } rfl
    simp only [List.length_cons] at hrl hcl
    simp only [calculateOneRow, calculate, Matrix.isEmpty, List.isEmpty_cons, Bool.false_eq_true, if_false,
      combine, rowMaxes, colMaxes, hrl, hcl, maxes_singletons, Option.bind_some, maxes, reduceMax,
      Option.map_some, List.length_cons]
    have h1 : fitsU16 1 = true := by decide
    simp only [h1, Bool.not_true, Bool.false_or]

end Combine
end Hpo
