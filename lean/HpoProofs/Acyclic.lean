import Mathlib.Logic.Relation
import HpoProofs.Arena
/-!
A finite irreflexive is_a relation has a rank function bounded by the number of terms.

`par j` = direct parents of `j`; every edge starts at and ends in one of the `n` ids of `ids`
(`hsrc`, `htgt`). If no id reaches itself (`TransGen` irreflexive) then
`height n j` (longest upward chain, computed with fuel `n`) strictly decreases from child to parent
and is `< n` (pigeonhole on duplicate-free chains).
-/
namespace Hpo
open Relation

section
variable (par : Nat → List Nat)

/-- `l` is an upward chain: each element is a direct parent of the previous one -/
def UpChain : List Nat → Prop
  | [] => True
  | [_] => True
  | a :: b :: rest => b ∈ par a ∧ UpChain (b :: rest)

theorem upChain_tail {a : Nat} {l : List Nat} (h : UpChain par (a :: l)) : UpChain par l := by
  cases l with
  | nil => trivial
  | cons b rest => exact h.2

/-- every later element of a chain is reachable from the head -/
theorem upChain_reach {a : Nat} {l : List Nat} (h : UpChain par (a :: l)) :
    ∀ x ∈ l, TransGen (fun c p => p ∈ par c) a x := by
  induction l generalizing a with
  | nil => intro x hx; simp at hx
  | cons b rest ih =>
    intro x hx
    rcases List.mem_cons.1 hx with rfl | hx
    · exact TransGen.single h.1
    · exact TransGen.trans (TransGen.single h.1) (ih h.2 x hx)

/-- chains of an irreflexive relation have no repeated node -/
theorem upChain_nodup (hirr : ∀ j, ¬ TransGen (fun c p => p ∈ par c) j j) :
    ∀ l, UpChain par l → l.Nodup := by
  intro l
  induction l with
  | nil => intro _; exact List.nodup_nil
  | cons a l ih =>
    intro h
    rw [List.nodup_cons]
    refine ⟨?_, ih (upChain_tail par h)⟩
    intro ha
    exact hirr a (upChain_reach par h a ha)

/-- longest upward chain from `j`, explored to depth `fuel` -/
def height : Nat → Nat → Nat
  | 0, _ => 0
  | fuel + 1, j => ((par j).map (fun p => height fuel p + 1)).foldl max 0

theorem foldl_max_ge (l : List Nat) (a : Nat) : a ≤ l.foldl max a := by
  induction l generalizing a with
  | nil => exact Nat.le_refl a
  | cons x xs ih => exact Nat.le_trans (Nat.le_max_left a x) (ih (max a x))

theorem foldl_max_mem_le (l : List Nat) (a : Nat) : ∀ x ∈ l, x ≤ l.foldl max a := by
  induction l generalizing a with
  | nil => intro x hx; simp at hx
  | cons y ys ih =>
    intro x hx
    rcases List.mem_cons.1 hx with rfl | hx
    · exact Nat.le_trans (Nat.le_max_right a x) (foldl_max_ge ys (max a x))
    · exact ih (max a y) x hx

theorem foldl_max_cases (l : List Nat) (a : Nat) : l.foldl max a = a ∨ l.foldl max a ∈ l := by
  induction l generalizing a with
  | nil => left; rfl
  | cons y ys ih =>
    simp only [List.foldl_cons]
    rcases ih (max a y) with h | h
    · rw [h]
      rcases Nat.le_total a y with hay | hay
      · right; rw [Nat.max_eq_right hay]; simp
      · left; exact Nat.max_eq_left hay
    · right; exact List.mem_cons_of_mem _ h

/-- a chain with `k` edges from `j` is witnessed by `height` when the fuel suffices -/
theorem height_ge_of_chain : ∀ (fuel : Nat) (j : Nat) (l : List Nat),
    UpChain par (j :: l) → l.length ≤ fuel → l.length ≤ height par fuel j := by
  intro fuel
  induction fuel with
  | zero => intro j l _ hl; have : l.length = 0 := by omega
            omega
  | succ f ih =>
    intro j l h hl
    cases l with
    | nil => exact Nat.zero_le _
    | cons b rest =>
      have h1 := ih b rest h.2 (by simpa using hl)
      have : height par f b + 1 ∈ (par j).map (fun p => height par f p + 1) :=
        List.mem_map.2 ⟨b, h.1, rfl⟩
      have := foldl_max_mem_le _ 0 _ this
      simp only [height, List.length_cons]
      omega

/-- `height` is realised by an actual chain -/
theorem chain_of_height : ∀ (fuel : Nat) (j : Nat),
    ∃ l, UpChain par (j :: l) ∧ l.length = height par fuel j := by
  intro fuel
  induction fuel with
  | zero => intro j; exact ⟨[], trivial, rfl⟩
  | succ f ih =>
    intro j
    simp only [height]
    rcases foldl_max_cases ((par j).map (fun p => height par f p + 1)) 0 with h | h
    · exact ⟨[], trivial, by rw [h]; rfl⟩
    · obtain ⟨p, hp, hpe⟩ := List.mem_map.1 h
      obtain ⟨l, hl, hlen⟩ := ih p
      refine ⟨p :: l, ⟨hp, hl⟩, ?_⟩
      rw [← hpe]; simp [hlen]

end

/-- **Bounded rank from irreflexivity.** If every edge starts and ends in `ids` (`n` distinct ids)
and no id reaches itself, `height n` strictly decreases from child to parent and stays below `n`. -/
theorem rank_of_irreflexive (par : Nat → List Nat) (ids : List Nat)
    (hsrc : ∀ c p, p ∈ par c → c ∈ ids) (htgt : ∀ c p, p ∈ par c → p ∈ ids)
    (hirr : ∀ j, ¬ TransGen (fun c p => p ∈ par c) j j) :
    (∀ c p, p ∈ par c → height par ids.length p < height par ids.length c) ∧
    (∀ j, height par ids.length j < ids.length + 1) := by
  -- every chain with at least one edge lives inside `ids`, hence has at most `n` nodes
  have bound : ∀ j l, UpChain par (j :: l) → l ≠ [] → (j :: l).length ≤ ids.length := by
    intro j l h hne
    have hnd := upChain_nodup par hirr _ h
    apply List.Nodup.length_le_of_subset hnd
    intro x hx
    -- x is the head (source of the first edge) or a later node (target of an edge)
    have aux : ∀ (a : Nat) (m : List Nat), UpChain par (a :: m) → ∀ y ∈ m, y ∈ ids := by
      intro a m
      induction m generalizing a with
      | nil => intro _ y hy; simp at hy
      | cons b rest ihm =>
        intro hc y hy
        rcases List.mem_cons.1 hy with rfl | hy
        · exact htgt a y hc.1
        · exact ihm b hc.2 y hy
    rcases List.mem_cons.1 hx with rfl | hx
    · cases l with
      | nil => exact absurd rfl hne
      | cons b rest => exact hsrc x b h.1
    · exact aux j l h x hx
  have hlt : ∀ j, height par ids.length j < ids.length + 1 := by
    intro j
    obtain ⟨l, hl, hlen⟩ := chain_of_height par ids.length j
    by_cases hne : l = []
    · rw [← hlen, hne]; simp
    · have := bound j l hl hne
      simp only [List.length_cons] at this
      omega
  refine ⟨?_, hlt⟩
  intro c p hp
  obtain ⟨l, hl, hlen⟩ := chain_of_height par ids.length p
  have hc : UpChain par (c :: p :: l) := ⟨hp, hl⟩
  have hb := bound c (p :: l) hc (by simp)
  simp only [List.length_cons] at hb
  have := height_ge_of_chain par ids.length c (p :: l) hc (by simp only [List.length_cons]; omega)
  simp only [List.length_cons] at this
  omega

end Hpo
