import HpoProofs.Linkage
/-!
Helper lemmas for C17, second part: the VALUES written by `cluster_set_unions`, the leaf set of
every index of the dendrogram (`leaves`), the invariant that maps every live index to its leaf set
(`LeafInv`), the initial distances as values (`init_dmGet`) and the invariant `DistInv R` ("the
stored distance of two live entries is in relation `R` to their leaf sets") that yields the closed
forms of single and complete linkage.
-/
set_option linter.unusedSimpArgs false
set_option linter.unusedVariables false
namespace Hpo
namespace Linkage
variable {F : Type}

/-! ### values written by `cluster_set_unions` -/

theorem getElem?_takeTwo (sets : List (Option (List Nat))) (a b i : Nat) (ha : i ≠ a) (hb : i ≠ b) :
    (takeTwo sets a b)[i]? = sets[i]? := by
  unfold takeTwo
  rw [List.getElem?_set_ne (Ne.symm hb), List.getElem?_set_ne (Ne.symm ha)]

/-- values written by the inner loop of `cluster_set_unions`, when the distances are the callback's
answers `f (m, setᵢ)` for the live entries in index order (followed by anything): every other key
keeps its value and the key `(idx, last)` of a live index gets the answer for its own set -/
theorem unionRow_vals (last : Nat) (f : List Nat × List Nat → F) (m : List Nat)
    (tail : List (Option (List Nat))) (rest : List (Option (List Nat))) (idx : Nat) (dm dm' : DM F)
    (h : unionRow last rest idx ((rowPairs m (rest ++ tail)).map f) dm = some dm') :
    (∀ q : Nat × Nat, (q.2 ≠ last ∨ q.1 < idx) → dmGet dm' q = dmGet dm q) ∧
    (∀ p x, rest[p]? = some (some x) → dmGet dm' (idx + p, last) = some (f (m, x))) := by
  induction rest generalizing idx dm with
  | nil =>
    simp only [unionRow, Option.some.injEq] at h
    subst h
    exact ⟨fun _ _ => rfl, by simp⟩
  | cons s r ih =>
    cases s with
    | none =>
      simp only [List.cons_append, rowPairs, unionRow] at h
      obtain ⟨i1, i2⟩ := ih (idx + 1) dm h
      refine ⟨fun q hq => i1 q (by omega), ?_⟩
      intro p x hp
      cases p with
      | zero => simp at hp
      | succ p =>
        simp only [List.getElem?_cons_succ] at hp
        have := i2 p x hp
        rwa [show idx + (p + 1) = idx + 1 + p by omega]
    | some y =>
      simp only [List.cons_append, rowPairs, List.map_cons, unionRow] at h
      obtain ⟨i1, i2⟩ := ih (idx + 1) _ h
      constructor
      · intro q hq
        rw [i1 q (by omega), dmGet_dmInsert]
        have : (idx, last) ≠ q := by rintro rfl; simp at hq
        simp [this]
      · intro p x hp
        cases p with
        | zero =>
          simp only [List.getElem?_cons_zero, Option.some.injEq] at hp
          subst hp
          rw [Nat.add_zero, i1 (idx, last) (Or.inr (by simp)), dmGet_dmInsert]
          simp
        | succ p =>
          simp only [List.getElem?_cons_succ] at hp
          have := i2 p x hp
          rwa [show idx + (p + 1) = idx + 1 + p by omega]

/-- one iteration of `cluster_set_unions`, with the values -/
theorem unionStep_update (lt : F → F → Bool) (d : List Nat → List Nat → F) (s s' : State F)
    (h : unionStep lt d s = some s') :
    ∃ a b dist x y, closest lt s.dm = some ((a, b), dist) ∧
      (s.sets[a]?).join = some x ∧ (s.sets[b]?).join = some y ∧
      s'.sets = takeTwo s.sets a b ++ [some (Group.insertAll x y)] ∧
      s'.log = s.log ++ [rowPairs (Group.insertAll x y)
        (takeTwo s.sets a b ++ [some (Group.insertAll x y)])] ∧
      (∀ i si, s.sets[i]? = some (some si) → i ≠ a → i ≠ b →
        dmGet s'.dm (i, s.sets.length) = some (d (Group.insertAll x y) si)) ∧
      (∀ q : Nat × Nat, q.1 ≠ a → q.1 ≠ b → q.2 ≠ a → q.2 ≠ b → q.2 ≠ s.sets.length →
        dmGet s'.dm q = dmGet s.dm q) := by
  unfold unionStep at h
  split at h
  · cases h
  · rename_i e he
    split at h
    · cases h
    · split at h
      · split at h
        · cases h
        · rename_i mm hm
          split at h
          · cases h
          · rename_i dm1 hr
            cases h
            obtain ⟨⟨a, b⟩, dist⟩ := e
            simp only at hm hr ⊢
            unfold mergeSets at hm
            split at hm
            · rename_i x y hx hy
              cases hm
              rw [combosLast_append_some] at hr
              obtain ⟨v1, v2⟩ := unionRow_vals s.sets.length (fun p => d p.1 p.2)
                (Group.insertAll x y) [some (Group.insertAll x y)] (takeTwo s.sets a b) 0
                (dmRetain a b s.dm) dm1 hr
              refine ⟨a, b, dist, x, y, he, hx, hy, rfl, by rw [combosLast_append_some], ?_, ?_⟩
              · intro i si hi hia hib
                have := v2 i si (by rw [getElem?_takeTwo _ _ _ _ hia hib]; exact hi)
                simpa using this
              · intro q h1 h2 h3 h4 h5
                rw [v1 q (Or.inl h5), dmGet_dmRetain, if_pos ⟨h1, h2, h3, h4⟩]
            · cases hm
      · cases h

/-! ### leaf sets -/

/-- leaf set of index `i` for the merges in REVERSE push order (newest first) -/
def leavesRev (n : Nat) : List (Cluster F) → Nat → List Nat
  | [], i => if i < n then [i] else []
  | c :: older, i =>
    if i = n + older.length then leavesRev n older c.lhs ++ leavesRev n older c.rhs
    else leavesRev n older i

/-- the inputs below index `i` of the dendrogram `cl` over `n` inputs: `[i]` for an input, the
leaves of `lhs` followed by the leaves of `rhs` for the cluster `i = n + k` created by merge `k` -/
def leaves (n : Nat) (cl : List (Cluster F)) (i : Nat) : List Nat := leavesRev n cl.reverse i

theorem leaves_nil (n i : Nat) : leaves n ([] : List (Cluster F)) i = if i < n then [i] else [] := by
  simp [leaves, leavesRev]

theorem leaves_snoc (n : Nat) (cl : List (Cluster F)) (c : Cluster F) (i : Nat) :
    leaves n (cl ++ [c]) i =
      if i = n + cl.length then leaves n cl c.lhs ++ leaves n cl c.rhs else leaves n cl i := by
  simp [leaves, leavesRev]

theorem leavesRev_lt (n : Nat) (l : List (Cluster F)) (i x : Nat) (h : x ∈ leavesRev n l i) : x < n := by
  induction l generalizing i with
  | nil =>
    simp only [leavesRev] at h
    split at h
    · simp at h; omega
    · simp at h
  | cons c r ih =>
    simp only [leavesRev] at h
    split at h
    · rcases List.mem_append.1 h with h | h
      · exact ih _ h
      · exact ih _ h
    · exact ih _ h

theorem leaves_lt (n : Nat) (cl : List (Cluster F)) (i x : Nat) (h : x ∈ leaves n cl i) : x < n :=
  leavesRev_lt n _ i x h

theorem leavesRev_input (n : Nat) (l : List (Cluster F)) (i : Nat) (h : i < n) :
    leavesRev n l i = [i] := by
  induction l with
  | nil => simp [leavesRev, h]
  | cons c r ih =>
    have : i ≠ n + r.length := by omega
    simp only [leavesRev, if_neg this, ih]

theorem leaves_input (n : Nat) (cl : List (Cluster F)) (i : Nat) (h : i < n) : leaves n cl i = [i] :=
  leavesRev_input n _ i h

theorem leavesRev_append (n : Nat) (r older : List (Cluster F)) (i : Nat) (h : i < n + older.length) :
    leavesRev n (r ++ older) i = leavesRev n older i := by
  induction r with
  | nil => rfl
  | cons c r ih =>
    have : i ≠ n + (r ++ older).length := by simp; omega
    simp only [List.cons_append, leavesRev, if_neg this]; exact ih

/-- later merges do not change the leaf set of an index that exists already -/
theorem leaves_append (n : Nat) (cl l2 : List (Cluster F)) (i : Nat) (h : i < n + cl.length) :
    leaves n (cl ++ l2) i = leaves n cl i := by
  unfold leaves
  rw [List.reverse_append]
  exact leavesRev_append n _ _ i (by simpa using h)

theorem leaves_take (n : Nat) (cl : List (Cluster F)) (k i : Nat) (h : i < n + k) :
    leaves n (cl.take k) i = leaves n cl i := by
  by_cases hk : k ≤ cl.length
  · conv_rhs => rw [← List.take_append_drop k cl]
    rw [leaves_append]
    rw [List.length_take]; omega
  · rw [List.take_of_length_le (by omega)]

/-- the defining equation of `leaves` in a dendrogram whose merges only address earlier entries -/
theorem leaves_cluster (n : Nat) (cl : List (Cluster F)) (k : Nat) (hk : k < cl.length)
    (hl : cl[k].lhs < n + k) (hr : cl[k].rhs < n + k) :
    leaves n cl (n + k) = leaves n cl cl[k].lhs ++ leaves n cl cl[k].rhs := by
  rw [← leaves_take n cl (k + 1) (n + k) (by omega), List.take_succ_eq_append_getElem hk, leaves_snoc,
    if_pos (by rw [List.length_take]; omega), leaves_take n cl k _ hl, leaves_take n cl k _ hr]

/-! ### the invariant: live index ↦ leaf set -/

structure LeafInv (s : State F) : Prop where
  cover : ∀ x, x < s.n → ∃ i, isLive s.sets i = true ∧ x ∈ leaves s.n s.clusters i
  disj : ∀ i j x, isLive s.sets i = true → isLive s.sets j = true →
    x ∈ leaves s.n s.clusters i → x ∈ leaves s.n s.clusters j → i = j
  nodup : ∀ i, isLive s.sets i = true → (leaves s.n s.clusters i).Nodup
  size : ∀ i, isLive s.sets i = true → (leaves s.n s.clusters i).length = sz s.n s.clusters i
  nonempty : ∀ i, isLive s.sets i = true → leaves s.n s.clusters i ≠ []

theorem leafInv_init (d : List Nat → List Nat → F) (members : List (List Nat)) :
    LeafInv (init d members) := by
  have hlive : ∀ i, isLive (init d members).sets i = true ↔ i < members.length := by
    intro i
    have := isLive_map_some members i
    simp only [init] at this ⊢
    rw [this]; simp
  have hlv : ∀ i, i < members.length →
      leaves (init d members).n (init d members).clusters i = [i] := by
    intro i hi
    simp only [init]
    exact leaves_input _ _ _ hi
  refine ⟨?_, ?_, ?_, ?_, ?_⟩
  · intro x hx
    have hx' : x < members.length := by simpa [init] using hx
    exact ⟨x, (hlive x).2 hx', by rw [hlv x hx']; simp⟩
  · intro i j x hi hj h1 h2
    rw [hlv i ((hlive i).1 hi)] at h1
    rw [hlv j ((hlive j).1 hj)] at h2
    simp at h1 h2; omega
  · intro i hi
    rw [hlv i ((hlive i).1 hi)]; simp
  · intro i hi
    have := (hlive i).1 hi
    rw [hlv i this]
    simp [sz, sizeOf, init, this]
  · intro i hi
    rw [hlv i ((hlive i).1 hi)]; simp

/-- the facts about one merge that both invariants below use -/
theorem step_facts {lt : F → F → Bool} {s s' : State F} (hi : Inv s) (hs : Step lt s s') :
    ∃ a b d, closest lt s.dm = some ((a, b), d) ∧ a < b ∧ isLive s.sets a = true ∧
      isLive s.sets b = true ∧ s'.n = s.n ∧
      (∀ i, isLive s'.sets i = true ↔
        (isLive s.sets i = true ∧ i ≠ a ∧ i ≠ b) ∨ i = s.sets.length) ∧
      (∀ i, leaves s'.n s'.clusters i =
        if i = s.sets.length then leaves s.n s.clusters a ++ leaves s.n s.clusters b
        else leaves s.n s.clusters i) ∧
      (∀ i, i < s.sets.length → sz s'.n s'.clusters i = sz s.n s.clusters i) ∧
      sz s'.n s'.clusters s.sets.length = sz s.n s.clusters a + sz s.n s.clusters b := by
  obtain ⟨a, b, d, c, hcl, hmk, hcs, hn, hlen, hlive, hkeys, hnd⟩ := hs
  obtain ⟨hca, hcb, _, hcsz⟩ := mkCluster_fields hmk
  have hmem := closest_mem lt s.dm _ hcl
  obtain ⟨hab, hla, hlb⟩ := (hi.keys.2 (a, b)).1 (mem_keys_of_mem hmem)
  simp only at hab hla hlb
  refine ⟨a, b, d, hcl, hab, hla, hlb, hn, ?_, ?_, ?_, ?_⟩
  · intro i
    rw [hlive i]
    simp only [Bool.or_eq_true, Bool.and_eq_true, bne_iff_ne, ne_eq, beq_iff_eq, and_assoc]
  · intro i
    rw [hn, hcs, leaves_snoc, hca, hcb, hi.len]
  · intro i hil
    rw [hn, hcs]
    exact sz_append _ _ _ _ (by rw [← hi.len]; exact hil)
  · rw [hn, hcs, hi.len, sz_new, hcsz]

theorem LeafInv.step {lt : F → F → Bool} {s s' : State F} (hi : Inv s) (hl : LeafInv s)
    (hs : Step lt s s') : LeafInv s' := by
  obtain ⟨a, b, d, hcl, hab, hla, hlb, hn, hlive, hlv, hsz, hsznew⟩ := step_facts hi hs
  have hold : ∀ i, isLive s.sets i = true → i ≠ s.sets.length := by
    intro i h; have := isLive_lt h; omega
  have hfresh : ∀ j x, isLive s.sets j = true → j ≠ a → j ≠ b → x ∈ leaves s.n s.clusters j →
      x ∉ leaves s.n s.clusters a ++ leaves s.n s.clusters b := by
    intro j x hj hja hjb hx hc
    rcases List.mem_append.1 hc with h | h
    · exact hja (hl.disj j a x hj hla hx h)
    · exact hjb (hl.disj j b x hj hlb hx h)
  refine ⟨?_, ?_, ?_, ?_, ?_⟩
  · intro x hx
    rw [hn] at hx
    obtain ⟨i, hil, hxi⟩ := hl.cover x hx
    by_cases hia : i = a
    · subst hia
      exact ⟨s.sets.length, (hlive _).2 (Or.inr rfl), by rw [hlv, if_pos rfl]; simp [hxi]⟩
    · by_cases hib : i = b
      · subst hib
        exact ⟨s.sets.length, (hlive _).2 (Or.inr rfl), by rw [hlv, if_pos rfl]; simp [hxi]⟩
      · exact ⟨i, (hlive _).2 (Or.inl ⟨hil, hia, hib⟩), by rw [hlv, if_neg (hold i hil)]; exact hxi⟩
  · intro i j x hi' hj' h1 h2
    rw [hlv] at h1 h2
    rcases (hlive i).1 hi' with ⟨hil, hia, hib⟩ | rfl
    · rw [if_neg (hold i hil)] at h1
      rcases (hlive j).1 hj' with ⟨hjl, hja, hjb⟩ | rfl
      · rw [if_neg (hold j hjl)] at h2
        exact hl.disj i j x hil hjl h1 h2
      · rw [if_pos rfl] at h2
        exact absurd h2 (hfresh i x hil hia hib h1)
    · rw [if_pos rfl] at h1
      rcases (hlive j).1 hj' with ⟨hjl, hja, hjb⟩ | rfl
      · rw [if_neg (hold j hjl)] at h2
        exact absurd h1 (hfresh j x hjl hja hjb h2)
      · rfl
  · intro i hi'
    rw [hlv]
    rcases (hlive i).1 hi' with ⟨hil, hia, hib⟩ | rfl
    · rw [if_neg (hold i hil)]; exact hl.nodup i hil
    · rw [if_pos rfl]
      apply List.Nodup.append (hl.nodup a hla) (hl.nodup b hlb)
      intro x h1 h2
      have := hl.disj a b x hla hlb h1 h2
      omega
  · intro i hi'
    rw [hlv]
    rcases (hlive i).1 hi' with ⟨hil, hia, hib⟩ | rfl
    · rw [if_neg (hold i hil), hsz i (isLive_lt hil)]; exact hl.size i hil
    · rw [if_pos rfl, List.length_append, hl.size a hla, hl.size b hlb, hsznew]
  · intro i hi'
    rw [hlv]
    rcases (hlive i).1 hi' with ⟨hil, hia, hib⟩ | rfl
    · rw [if_neg (hold i hil)]; exact hl.nonempty i hil
    · rw [if_pos rfl]
      intro hc
      exact hl.nonempty a hla (List.append_eq_nil_iff.1 hc).1

/-! ### carrying a predicate through the loop -/

theorem run_pred (lt : F → F → Bool) (step : State F → Option (State F))
    (hstep : ∀ s, Inv s → s.dm ≠ [] → ∃ s', step s = some s' ∧ Step lt s s')
    (P : State F → Prop)
    (hP : ∀ s s', Inv s → P s → step s = some s' → Step lt s s' → P s')
    (fuel : Nat) (s sf : State F) (hi : Inv s) (hp : P s) (hrun : run step fuel s = some sf) :
    P sf := by
  induction fuel generalizing s with
  | zero => simp [run] at hrun
  | succ fuel ih =>
    by_cases he : s.dm = []
    · have : sf = s := by simpa [run, he] using hrun.symm
      subst this; exact hp
    · obtain ⟨s', hs', hst⟩ := hstep s hi he
      have hne : s.dm.isEmpty = false := by
        cases hd : s.dm with
        | nil => exact absurd hd he
        | cons _ _ => rfl
      have hrun' : run step fuel s' = some sf := by simpa [run, hne, hs'] using hrun
      exact ih s' (hi.step hst) (hP s s' hi hp hs' hst) hrun'

theorem trace_pred (lt : F → F → Bool) (step : State F → Option (State F))
    (hstep : ∀ s, Inv s → s.dm ≠ [] → ∃ s', step s = some s' ∧ Step lt s s')
    (P : State F → Prop)
    (hP : ∀ s s', Inv s → P s → step s = some s' → Step lt s s' → P s')
    (fuel : Nat) (s : State F) (hi : Inv s) (hp : P s) (k : Nat) (sk : State F)
    (hk : (trace step fuel s)[k]? = some sk) : P sk := by
  induction fuel generalizing s k with
  | zero => simp [trace] at hk
  | succ fuel ih =>
    by_cases he : s.dm = []
    · simp [trace, he] at hk
    · obtain ⟨s', hs', hst⟩ := hstep s hi he
      have hne : s.dm.isEmpty = false := by
        cases hd : s.dm with
        | nil => exact absurd hd he
        | cons _ _ => rfl
      have htr : trace step (fuel + 1) s = s :: trace step fuel s' := by simp [trace, hne, hs']
      rw [htr] at hk
      cases k with
      | zero =>
        simp only [List.getElem?_cons_zero, Option.some.injEq] at hk
        subst hk; exact hp
      | succ k =>
        simp only [List.getElem?_cons_succ] at hk
        exact ih s' (hi.step hst) (hP s s' hi hp hs' hst) k hk

/-! ### the initial distances as values -/

theorem zipInsert_not_mem (dm : DM F) (ks : List (Nat × Nat)) (vs : List F) (q : Nat × Nat)
    (h : q ∉ ks) : dmGet (zipInsert dm ks vs) q = dmGet dm q := by
  induction ks generalizing dm vs with
  | nil => simp [zipInsert]
  | cons k ks ih =>
    cases vs with
    | nil => simp [zipInsert]
    | cons v vs =>
      simp only [List.mem_cons, not_or] at h
      simp only [zipInsert]
      rw [ih _ _ h.2, dmGet_dmInsert, if_neg (Ne.symm h.1)]

theorem zipInsert_map (dm : DM F) (ks : List (Nat × Nat)) (φ : Nat × Nat → F) (hn : ks.Nodup)
    (q : Nat × Nat) (h : q ∈ ks) : dmGet (zipInsert dm ks (ks.map φ)) q = some (φ q) := by
  induction ks generalizing dm with
  | nil => cases h
  | cons k ks ih =>
    simp only [List.nodup_cons] at hn
    simp only [List.map_cons, zipInsert]
    by_cases hq : q = k
    · subst hq
      rw [zipInsert_not_mem _ _ _ _ hn.1, dmGet_dmInsert]; simp
    · rcases List.mem_cons.1 h with h | h
      · exact absurd h hq
      · exact ih _ hn.2 h

theorem pairsLex_map {α β : Type} (f : α → β) (l : List α) :
    pairsLex (l.map f) = (pairsLex l).map (fun p => (f p.1, f p.2)) := by
  induction l with
  | nil => simp [pairsLex]
  | cons x r ih => simp [pairsLex, ih, Function.comp_def]

theorem map_range_getD (l : List (List Nat)) :
    (List.range l.length).map (fun i => l[i]?.getD []) = l := by
  apply List.ext_getElem (by simp)
  intro i h1 h2
  simp [h2]

/-- the matrix of `Linkage::new`: the entry `(i, j)`, `i < j < n`, is the callback's answer for the
`i`-th and the `j`-th input -/
theorem init_dmGet (d : List Nat → List Nat → F) (members : List (List Nat)) (i j : Nat)
    (hij : i < j) (hj : j < members.length) :
    dmGet (init d members).dm (i, j) = some (d (members[i]?.getD []) (members[j]?.getD [])) := by
  have e : combos (members.map some)
      = (indexPairs members.length).map
          (fun q => ((members[q.1]?.getD [], members[q.2]?.getD []) : List Nat × List Nat)) := by
    rw [combos_map_some, indexPairs_eq]
    conv_lhs => rw [← map_range_getD members]
    rw [pairsLex_map]
  simp only [init]
  rw [e, List.map_map]
  exact zipInsert_map [] (indexPairs members.length) _ (nodup_indexPairs _) (i, j)
    ((mem_indexPairs _ _).2 ⟨hij, hj⟩)

/-! ### closed forms of `arithmetic_cluster` -/

/-- every stored distance of two live entries is in relation `R` to the two leaf sets -/
def DistInv (R : F → List Nat → List Nat → Prop) (s : State F) : Prop :=
  ∀ i j, i < j → isLive s.sets i = true → isLive s.sets j = true →
    ∃ v, dmGet s.dm (i, j) = some v ∧ R v (leaves s.n s.clusters i) (leaves s.n s.clusters j)

theorem distInv_keyOf {R : F → List Nat → List Nat → Prop} (hsymm : ∀ v A B, R v A B → R v B A)
    {s : State F} (hd : DistInv R s) (i c : Nat) (hi : isLive s.sets i = true)
    (hc : isLive s.sets c = true) (hne : i ≠ c) (v : F) (hv : dmGet s.dm (keyOf i c) = some v) :
    R v (leaves s.n s.clusters i) (leaves s.n s.clusters c) := by
  unfold keyOf at hv
  split at hv
  · rename_i hlt
    obtain ⟨w, hw, hR⟩ := hd i c hlt hi hc
    rw [hw] at hv; cases hv; exact hR
  · obtain ⟨w, hw, hR⟩ := hd c i (by omega) hc hi
    rw [hw] at hv; cases hv; exact hsymm _ _ _ hR

/-- `DistInv R` is kept by one iteration of `arithmetic_cluster(comb)` when `comb` turns the
`R`-values for two leaf sets into the `R`-value for their concatenation -/
theorem DistInv.arith (lt : F → F → Bool) (comb : F → F → F) (R : F → List Nat → List Nat → Prop)
    (hsymm : ∀ v A B, R v A B → R v B A)
    (hcomb : ∀ v1 v2 A B1 B2, R v1 A B1 → R v2 A B2 → R (comb v1 v2) A (B1 ++ B2))
    (s s' : State F) (hi : Inv s) (hd : DistInv R s) (h : arithStep lt comb s = some s')
    (hs : Step lt s s') : DistInv R s' := by
  obtain ⟨a, b, d, hcl, hab, hla, hlb, hn, hlive, hlv, _, _⟩ := step_facts hi hs
  obtain ⟨a', b', d', hcl', hnew, hkeep⟩ := arithStep_update lt comb s s' h
  rw [hcl] at hcl'
  cases hcl'
  have hold : ∀ i, isLive s.sets i = true → i ≠ s.sets.length := by
    intro i h; have := isLive_lt h; omega
  intro i j hij hli hlj
  rw [hlv i, hlv j]
  rcases (hlive j).1 hlj with ⟨hjl, hja, hjb⟩ | rfl
  · have hjlt := isLive_lt hjl
    rcases (hlive i).1 hli with ⟨hil, hia, hib⟩ | rfl
    · obtain ⟨v, hv, hR⟩ := hd i j hij hil hjl
      refine ⟨v, ?_, ?_⟩
      · rw [hkeep (i, j) hia hib hja hjb (by simp only; omega)]; exact hv
      · rw [if_neg (hold i hil), if_neg (hold j hjl)]; exact hR
    · omega
  · rcases (hlive i).1 hli with ⟨hil, hia, hib⟩ | rfl
    · obtain ⟨v1, v2, g1, g2, g3⟩ := hnew i hil hia hib
      refine ⟨comb v1 v2, g3, ?_⟩
      rw [if_neg (hold i hil), if_pos rfl]
      exact hcomb _ _ _ _ _ (distInv_keyOf hsymm hd i a hil hla hia v1 g1)
        (distInv_keyOf hsymm hd i b hil hlb hib v2 g2)
    · omega

/-- the distance of two inputs: the callback's answer for the pair in input order (the pair
`(smaller index, larger index)`, the only order in which `Linkage::new` asks) -/
def leafDist (d : List Nat → List Nat → F) (members : List (List Nat)) (a b : Nat) : F :=
  d (members[(keyOf a b).1]?.getD []) (members[(keyOf a b).2]?.getD [])

theorem keyOf_comm (a b : Nat) : keyOf a b = keyOf b a := by
  unfold keyOf
  by_cases h1 : a < b
  · have : ¬ b < a := by omega
    simp [h1, this]
  · by_cases h2 : b < a
    · simp [h1, h2]
    · have : a = b := by omega
      subst this; simp

theorem leafDist_comm (d : List Nat → List Nat → F) (members : List (List Nat)) (a b : Nat) :
    leafDist d members a b = leafDist d members b a := by
  unfold leafDist; rw [keyOf_comm]

/-- for a symmetric callback `leafDist` is just the callback on the two inputs -/
theorem leafDist_of_symm (d : List Nat → List Nat → F) (hd : ∀ x y, d x y = d y x)
    (members : List (List Nat)) (a b : Nat) :
    leafDist d members a b = d (members[a]?.getD []) (members[b]?.getD []) := by
  unfold leafDist keyOf
  split
  · rfl
  · exact hd _ _

/-- `v` is a least element (w.r.t. the strict comparison `lt`) of the distances `D a b`,
`a ∈ A`, `b ∈ B`: it is one of them and none is smaller -/
def IsMinOver (lt : F → F → Bool) (D : Nat → Nat → F) (v : F) (A B : List Nat) : Prop :=
  (∃ a ∈ A, ∃ b ∈ B, v = D a b) ∧ ∀ a ∈ A, ∀ b ∈ B, lt (D a b) v = false

theorem IsMinOver.symm {lt : F → F → Bool} {D : Nat → Nat → F} (hD : ∀ a b, D a b = D b a)
    (v : F) (A B : List Nat) (h : IsMinOver lt D v A B) : IsMinOver lt D v B A := by
  obtain ⟨⟨a, ha, b, hb, e⟩, h2⟩ := h
  refine ⟨⟨b, hb, a, ha, by rw [e, hD]⟩, ?_⟩
  intro b hb a ha
  rw [hD]; exact h2 a ha b hb

/-- `f32_min` of two minima is the minimum over the concatenation -/
theorem IsMinOver.fmin {lt : F → F → Bool} {D : Nat → Nat → F}
    (htrans : ∀ a b c, lt a b = true → lt b c = true → lt a c = true)
    (htot : ∀ a b, lt a b = true ∨ a = b ∨ lt b a = true)
    (v1 v2 : F) (A B1 B2 : List Nat) (h1 : IsMinOver lt D v1 A B1) (h2 : IsMinOver lt D v2 A B2) :
    IsMinOver lt D (fmin lt v1 v2) A (B1 ++ B2) := by
  obtain ⟨⟨a1, ha1, b1, hb1, e1⟩, m1⟩ := h1
  obtain ⟨⟨a2, ha2, b2, hb2, e2⟩, m2⟩ := h2
  unfold Linkage.fmin
  by_cases hlt : lt v1 v2 = true
  · rw [if_pos hlt]
    refine ⟨⟨a1, ha1, b1, List.mem_append_left _ hb1, e1⟩, ?_⟩
    intro a ha b hb
    rcases List.mem_append.1 hb with hb | hb
    · exact m1 a ha b hb
    · have := m2 a ha b hb
      cases hc : lt (D a b) v1
      · rfl
      · rw [htrans _ _ _ hc hlt] at this; cases this
  · rw [if_neg hlt]
    refine ⟨⟨a2, ha2, b2, List.mem_append_right _ hb2, e2⟩, ?_⟩
    intro a ha b hb
    rcases List.mem_append.1 hb with hb | hb
    · have := m1 a ha b hb
      cases hc : lt (D a b) v2
      · rfl
      · exfalso
        rcases htot v1 v2 with h | h | h
        · exact hlt h
        · rw [h] at this; rw [this] at hc; cases hc
        · rw [htrans _ _ _ hc h] at this; cases this
    · exact m2 a ha b hb

/-- `f32_max` is `f32_min` for the reversed comparison -/
theorem fmax_eq_fmin_flip (lt : F → F → Bool) (v1 v2 : F) :
    fmax lt v1 v2 = fmin (fun x y => lt y x) v1 v2 := rfl

/-- the initial matrix holds the input distances (`IsMinOver` of singletons) -/
theorem distInv_init (lt : F → F → Bool) (hirr : ∀ a, lt a a = false)
    (d : List Nat → List Nat → F) (members : List (List Nat)) :
    DistInv (IsMinOver lt (leafDist d members)) (init d members) := by
  intro i j hij hi hj
  have hj' : j < members.length := by
    have := isLive_lt hj; simpa [init] using this
  have hli : leaves (init d members).n (init d members).clusters i = [i] :=
    leaves_input _ _ _ (by simp only [init]; omega)
  have hlj : leaves (init d members).n (init d members).clusters j = [j] :=
    leaves_input _ _ _ (by simp only [init]; omega)
  refine ⟨_, init_dmGet d members i j hij hj', ?_⟩
  rw [hli, hlj]
  have e : leafDist d members i j = d (members[i]?.getD []) (members[j]?.getD []) := by
    unfold leafDist keyOf; rw [if_pos hij]
  refine ⟨⟨i, by simp, j, by simp, e.symm⟩, ?_⟩
  intro a ha b hb
  simp only [List.mem_singleton] at ha hb
  subst ha; subst hb
  rw [e]; exact hirr _

/-- closed form of `arithmetic_cluster(f32_min)` carried through a whole run: in every state in
which a merge is performed, the stored distance of two live entries is the least input distance
between their leaf sets -/
theorem trace_closed_form (lt : F → F → Bool) (cmp : F → F → Bool) (hirr : ∀ a, cmp a a = false)
    (htrans : ∀ a b c, cmp a b = true → cmp b c = true → cmp a c = true)
    (htot : ∀ a b, cmp a b = true ∨ a = b ∨ cmp b a = true)
    (d : List Nat → List Nat → F) (members : List (List Nat)) (k : Nat) (sk : State F)
    (hk : (trace (arithStep lt (fmin cmp)) (members.length + 1) (init d members))[k]? = some sk) :
    DistInv (IsMinOver cmp (leafDist d members)) sk := by
  refine trace_pred lt (arithStep lt (fmin cmp))
    (fun s hs hne => arithStep_step lt _ s hs.keys hs.len hne)
    (DistInv (IsMinOver cmp (leafDist d members))) ?_ (members.length + 1) (init d members)
    (inv_init d members) (distInv_init cmp hirr d members) k sk hk
  intro s s' hi hp hs hst
  exact DistInv.arith lt (fmin cmp) _ (IsMinOver.symm (leafDist_comm d members))
    (IsMinOver.fmin htrans htot) s s' hi hp hs hst

/-- closed form for a method whose step is `arithmetic_cluster(f32_min)` w.r.t. a strict linear
comparison `cmp` (single linkage: `cmp = lt`; complete linkage: `cmp` = reversed `lt`): in the state
before the `k`-th merge every stored distance is the `cmp`-least input distance between the two leaf
sets (leaf sets read off the FINAL dendrogram), and so is the recorded distance of the `k`-th merge -/
theorem closed_form (m : Method) (lt cmp : F → F → Bool) (mean : F → F → F)
    (d : List Nat → List Nat → F) (hm : stepOf m lt mean d = arithStep lt (fmin cmp))
    (hirr : ∀ a, cmp a a = false)
    (htrans : ∀ a b c, cmp a b = true → cmp b c = true → cmp a c = true)
    (htot : ∀ a b, cmp a b = true ∨ a = b ∨ cmp b a = true)
    (members : List (List Nat)) (sf : State F) (h : cluster m lt mean d members = some sf)
    (k : Nat) (sk : State F)
    (hk : (trace (stepOf m lt mean d) (members.length + 1) (init d members))[k]? = some sk) :
    (∀ i j, i < j → isLive sk.sets i = true → isLive sk.sets j = true →
      ∃ v, dmGet sk.dm (i, j) = some v ∧
        IsMinOver cmp (leafDist d members) v (leaves members.length sf.clusters i)
          (leaves members.length sf.clusters j)) ∧
    ∃ c, sf.clusters[k]? = some c ∧
      IsMinOver cmp (leafDist d members) c.dist (leaves members.length sf.clusters c.lhs)
        (leaves members.length sf.clusters c.rhs) := by
  have hi := inv_init d members
  have hcard : (liveSet (init d members).sets).card < members.length + 1 := by
    have := hi.card; simp only [init, List.length_nil, Nat.add_zero] at this ⊢; omega
  obtain ⟨h1, h2, h3, c, h4, h5⟩ := trace_spec lt (stepOf m lt mean d)
    (fun s hs hne => stepOf_step m lt mean d s hs hne) (stepOf_log m lt mean d)
    (members.length + 1) (init d members) sf hi hcard h k sk hk
  simp only [init, List.length_nil, Nat.zero_add] at h2 h3 h4
  have hD : DistInv (IsMinOver cmp (leafDist d members)) sk := by
    rw [hm] at hk
    exact trace_closed_form lt cmp hirr htrans htot d members k sk hk
  have hklt : k < sf.clusters.length := by
    by_contra hc
    rw [List.getElem?_eq_none (by omega)] at h4; cases h4
  have hlen : sk.sets.length = members.length + k := by
    rw [h1.len, h2, h3, List.length_take]; omega
  have hlv : ∀ i, isLive sk.sets i = true →
      leaves sk.n sk.clusters i = leaves members.length sf.clusters i := by
    intro i hi
    have := isLive_lt hi
    rw [h2, h3]
    exact leaves_take _ _ _ _ (by omega)
  have hall : ∀ i j, i < j → isLive sk.sets i = true → isLive sk.sets j = true →
      ∃ v, dmGet sk.dm (i, j) = some v ∧
        IsMinOver cmp (leafDist d members) v (leaves members.length sf.clusters i)
          (leaves members.length sf.clusters j) := by
    intro i j hij hi hj
    obtain ⟨v, hv, hR⟩ := hD i j hij hi hj
    rw [hlv i hi, hlv j hj] at hR
    exact ⟨v, hv, hR⟩
  refine ⟨hall, c, h4, ?_⟩
  have hmem := closest_mem lt sk.dm _ h5
  obtain ⟨hab, hla, hlb⟩ := (h1.keys.2 (c.lhs, c.rhs)).1 (mem_keys_of_mem hmem)
  simp only at hab hla hlb
  obtain ⟨v, hv, hR⟩ := hall c.lhs c.rhs hab hla hlb
  rw [dmGet_of_mem sk.dm h1.keys.1 _ _ hmem] at hv
  cases hv
  exact hR

/-- the single live entry of the final state — the root `2n − 2` — has all inputs as its leaves -/
theorem final_root (m : Method) (lt : F → F → Bool) (mean : F → F → F)
    (d : List Nat → List Nat → F) (members : List (List Nat)) (sf : State F)
    (h : cluster m lt mean d members = some sf) (hn : 2 ≤ members.length) :
    (leaves members.length sf.clusters (2 * members.length - 2)).Perm
      (List.range members.length) := by
  obtain ⟨sf', h1, h2, h3, h4, _⟩ := cluster_spec m lt mean d members
  rw [h] at h1; cases h1
  have hL : LeafInv sf := by
    refine run_pred lt (stepOf m lt mean d)
      (fun s hs hne => stepOf_step m lt mean d s hs hne) LeafInv ?_ (members.length + 1)
      (init d members) sf (inv_init d members) (leafInv_init d members) h
    intro s s' hi hp _ hst
    exact LeafInv.step hi hp hst
  have hc := final_count sf h2 h3
  have hm : 0 < sf.clusters.length := by omega
  have hlen : sf.sets.length = 2 * sf.n - 1 := by rw [h2.len, hc]; omega
  have hlive := final_live sf h2 h3 hm
  have hroot : isLive sf.sets (2 * members.length - 2) = true := by
    rw [hlive, hlen, h4]; omega
  have hnd := hL.nodup _ hroot
  rw [h4] at hnd
  apply (List.perm_ext_iff_of_nodup hnd List.nodup_range).2
  intro x
  rw [List.mem_range]
  constructor
  · exact leaves_lt _ _ _ _
  · intro hx
    obtain ⟨i, hi, hxi⟩ := hL.cover x (by rw [h4]; exact hx)
    have : i = 2 * members.length - 2 := by rw [(hlive i).1 hi, hlen, h4]; omega
    rw [h4, this] at hxi; exact hxi

/-! ### merges as a tree -/

theorem mem_mergedIdx (cl : List (Cluster F)) (i : Nat) :
    i ∈ mergedIdx cl ↔ ∃ k, ∃ hk : k < cl.length, cl[k].lhs = i ∨ cl[k].rhs = i := by
  induction cl with
  | nil => simp [mergedIdx]
  | cons c cs ih =>
    simp only [mergedIdx, List.mem_cons, ih]
    constructor
    · rintro (h | h | ⟨k, hk, h⟩)
      · exact ⟨0, by simp, Or.inl (by simpa using h.symm)⟩
      · exact ⟨0, by simp, Or.inr (by simpa using h.symm)⟩
      · exact ⟨k + 1, by simpa using hk, by simpa using h⟩
    · rintro ⟨k, hk, h⟩
      cases k with
      | zero =>
        simp only [List.getElem_cons_zero] at h
        rcases h with h | h
        · exact Or.inl h.symm
        · exact Or.inr (Or.inl h.symm)
      | succ k =>
        simp only [List.getElem_cons_succ] at h
        exact Or.inr (Or.inr ⟨k, by simpa using hk, h⟩)

theorem mergedIdx_unique (cl : List (Cluster F)) (hnd : (mergedIdx cl).Nodup) (i k1 k2 : Nat)
    (h1 : k1 < cl.length) (h2 : k2 < cl.length) (e1 : cl[k1].lhs = i ∨ cl[k1].rhs = i)
    (e2 : cl[k2].lhs = i ∨ cl[k2].rhs = i) : k1 = k2 := by
  induction cl generalizing k1 k2 with
  | nil => simp at h1
  | cons c cs ih =>
    simp only [mergedIdx, List.nodup_cons, List.mem_cons, not_or] at hnd
    obtain ⟨⟨_, hl⟩, hr, hnd'⟩ := hnd
    have hhead : (c.lhs = i ∨ c.rhs = i) → i ∉ mergedIdx cs := by
      rintro (h | h) <;> (rw [← h]; assumption)
    cases k1 with
    | zero =>
      cases k2 with
      | zero => rfl
      | succ k2 =>
        simp only [List.getElem_cons_zero] at e1
        simp only [List.getElem_cons_succ] at e2
        exact absurd ((mem_mergedIdx cs i).2 ⟨k2, by simpa using h2, e2⟩) (hhead e1)
    | succ k1 =>
      cases k2 with
      | zero =>
        simp only [List.getElem_cons_zero] at e2
        simp only [List.getElem_cons_succ] at e1
        exact absurd ((mem_mergedIdx cs i).2 ⟨k1, by simpa using h1, e1⟩) (hhead e2)
      | succ k2 =>
        simp only [List.getElem_cons_succ] at e1 e2
        have := ih hnd' k1 k2 (by simpa using h1) (by simpa using h2) e1 e2
        omega

/-- in a dendrogram whose merges address earlier entries only and whose recorded sizes add up,
the leaf set of every index has the recorded size -/
theorem length_leaves (n : Nat) (cl : List (Cluster F))
    (haddr : ∀ k (hk : k < cl.length), cl[k].lhs < n + k ∧ cl[k].rhs < n + k)
    (hsize : ∀ k (hk : k < cl.length), cl[k].size = sz n cl cl[k].lhs + sz n cl cl[k].rhs)
    (i : Nat) (hi : i < n + cl.length) : (leaves n cl i).length = sz n cl i := by
  induction i using Nat.strong_induction_on with
  | _ i ih =>
    by_cases hin : i < n
    · rw [leaves_input n cl i hin]
      simp [sz, sizeOf, hin]
    · have hk : i - n < cl.length := by omega
      have e : i = n + (i - n) := by omega
      obtain ⟨a1, a2⟩ := haddr (i - n) hk
      have hsz : sz n cl i = cl[i - n].size := by
        simp [sz, sizeOf, hin, List.getElem?_eq_getElem hk]
      rw [hsz, hsize (i - n) hk, ← ih _ (by omega) (by omega), ← ih _ (by omega) (by omega)]
      conv_lhs => rw [e, leaves_cluster n cl (i - n) hk a1 a2]
      rw [List.length_append]

end Linkage
end Hpo
