import Mathlib.Analysis.SpecialFunctions.Log.Basic
import HpoModel.Num
/-! The proof instance of the numeric interface: exact real arithmetic with checked division. -/
namespace Hpo

noncomputable instance instNumReal : Num ℝ where
  ofNat := fun n => (n : ℝ)
  add := (· + ·)
  sub := (· - ·)
  mul := (· * ·)
  div? a b := if b = 0 then none else some (a / b)
  log := Real.log
  exp := Real.exp
  neg := fun x => -x
  isZero := fun x => decide (x = 0)
  lt := fun a b => decide (a < b)

end Hpo
