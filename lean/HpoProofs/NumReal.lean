import Mathlib.Analysis.SpecialFunctions.Log.Basic
import HpoModel.Num
/-!
The proof instance of the numeric interface: `ℝ` with `Real.log` / `Real.exp`, checked division.
(The execution instances `Float32` / `Float` live in `HpoModel/Num.lean`.)
-/
namespace Hpo

noncomputable instance instNumReal : Num ℝ where
  ofNat := fun n => (n : ℝ)
  add := (· + ·)
  sub := (· - ·)
  mul := (· * ·)
  div? a b := if b = 0 then none else some (a / b)
  log := Real.log
  exp := Real.exp
  neg := fun x => -x
  isZero := fun x => decide (x = 0)
  lt := fun a b => decide (a < b)
  isNaN := fun _ => false

namespace NumReal

@[simp] theorem ofNat_eq (n : Nat) : (Num.ofNat n : ℝ) = (n : ℝ) := rfl
@[simp] theorem add_eq (a b : ℝ) : Num.add a b = a + b := rfl
@[simp] theorem sub_eq (a b : ℝ) : Num.sub a b = a - b := rfl
@[simp] theorem mul_eq (a b : ℝ) : Num.mul a b = a * b := rfl
@[simp] theorem neg_eq (a : ℝ) : Num.neg a = -a := rfl
@[simp] theorem log_eq (a : ℝ) : Num.log a = Real.log a := rfl
@[simp] theorem exp_eq (a : ℝ) : Num.exp a = Real.exp a := rfl
@[simp] theorem isZero_eq (a : ℝ) : Num.isZero a = decide (a = 0) := rfl
@[simp] theorem lt_eq (a b : ℝ) : Num.lt a b = decide (a < b) := rfl
@[simp] theorem isNaN_eq (a : ℝ) : Num.isNaN a = false := rfl
theorem div?_eq (a b : ℝ) : Num.div? a b = if b = 0 then none else some (a / b) := rfl

theorem div?_of_ne (a : ℝ) {b : ℝ} (h : b ≠ 0) : Num.div? a b = some (a / b) := by
  simp [div?_eq, h]

theorem div?_zero (a : ℝ) : Num.div? a (0 : ℝ) = none := by simp [div?_eq]

end NumReal
end Hpo
