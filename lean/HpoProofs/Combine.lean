import HpoProofs.NumReal
import HpoProofs.Matrix
import HpoModel.Combine
/-! Helper lemmas for C05: the pairwise matrix of `GroupSimilarity::calculate`, its rows and
columns, maxima and sums at `ℝ`, the combiners, transposition, the caching adaptor. -/
namespace Hpo
namespace Combine
open Hpo.Matrix NumReal

/-! ### the pairwise matrix (any element type) -/
section generic
variable {F : Type}

theorem simRow_eq_map (sim : Nat → Nat → F) (a : Nat) (B : List Nat) :
    simRow sim a B = B.map (sim a) := by
  induction B with
  | nil => rfl
  | cons b bs ih => simp [simRow, ih]

theorem length_simRow (sim : Nat → Nat → F) (a : Nat) (B : List Nat) :
    (simRow sim a B).length = B.length := by simp [simRow_eq_map]

theorem length_simData (sim : Nat → Nat → F) (A B : List Nat) :
    (simData sim A B).length = A.length * B.length := by
  induction A with
  | nil => simp [simData]
  | cons a as ih => simp [simData, ih, length_simRow, Nat.add_mul, Nat.add_comm]

theorem simData_nil_right (sim : Nat → Nat → F) (A : List Nat) : simData sim A [] = [] := by
  induction A with
  | nil => rfl
  | cons a as ih => simp [simData, simRow, ih]

/-- the row loop on the pairwise matrix yields one row per element of `A` -/
theorem rowsGo_simData (sim : Nat → Nat → F) (B : List Nat) (r : Nat) (hB : 0 < B.length) :
    ∀ (As : List Nat) (pre data : List F) (fuel : Nat), data = pre ++ simData sim As B →
      pre.length + As.length * B.length = r * B.length → As.length < fuel →
      rowsGo ⟨r, B.length, data⟩ fuel pre.length = some (As.map fun a => simRow sim a B) := by
  intro As
  induction As with
  | nil =>
    intro pre data fuel _ hlen hf
    obtain ⟨f, rfl⟩ : ∃ f, fuel = f + 1 := ⟨fuel - 1, by omega⟩
    simp only [List.length_nil, Nat.zero_mul, Nat.add_zero] at hlen
    simp [rowsGo, hlen]
  | cons a as ih =>
    intro pre data fuel hdata hlen hf
    obtain ⟨f, rfl⟩ : ∃ f, fuel = f + 1 := ⟨fuel - 1, by simp at hf; omega⟩
    simp only [List.length_cons, Nat.add_mul, Nat.one_mul] at hlen
    have hdl : data.length = pre.length + (B.length + as.length * B.length) := by
      rw [hdata]; simp [simData, length_simRow, length_simData]
    have h1 : ¬ pre.length ≥ r * B.length := by omega
    have h2 : ¬ pre.length + B.length > data.length := by omega
    have hd2 : data = (pre ++ simRow sim a B) ++ simData sim as B := by
      rw [hdata]; simp [simData]
    have hih := ih (pre ++ simRow sim a B) data f hd2
      (by simp [length_simRow]; omega) (by simp at hf; omega)
    have hpl : (pre ++ simRow sim a B).length = pre.length + B.length := by simp [length_simRow]
    rw [hpl] at hih
    simp only [rowsGo]
    rw [if_neg h1, if_neg h2, hih]
    have hhead : (data.drop pre.length).take B.length = simRow sim a B := by
      rw [hdata]
      simp only [simData, List.drop_left']
      rw [List.take_left' (length_simRow sim a B)]
    simp [hhead]

theorem rowList_simData (sim : Nat → Nat → F) (A B : List Nat) (hB : B ≠ []) :
    rowList ⟨A.length, B.length, simData sim A B⟩ = some (A.map fun a => simRow sim a B) := by
  have hB' : 0 < B.length := List.length_pos_iff.2 hB
  have := rowsGo_simData sim B A.length hB' A [] (simData sim A B) (A.length * B.length + 1) (by simp)
    (by simp) (by
      have : A.length ≤ A.length * B.length := Nat.le_mul_of_pos_right _ hB'
      omega)
  simpa [rowList] using this

/-- stepping over a prefix that is shorter than the remaining skip -/
theorem stepGo_append_ge (c : Nat) : ∀ (l : List F) (k : Nat) (rest : List F), l.length ≤ k →
    stepGo c k (l ++ rest) = stepGo c (k - l.length) rest := by
  intro l
  induction l with
  | nil => intro k rest _; simp
  | cons x xs ih =>
    intro k rest hk
    cases k with
    | zero => simp at hk
    | succ k =>
      simp only [List.cons_append, stepGo, List.length_cons]
      rw [ih k rest (by simpa using hk)]
      congr 1
      omega

/-- stepping over a prefix of at most `c` elements that contains the next yielded element -/
theorem stepGo_append_lt (c : Nat) : ∀ (l : List F) (k : Nat) (rest : List F), k < l.length →
    l.length ≤ k + c →
    ∃ x, l[k]? = some x ∧ stepGo c k (l ++ rest) = x :: stepGo c (c - (l.length - k)) rest := by
  intro l
  induction l with
  | nil => intro k rest hk; simp at hk
  | cons x xs ih =>
    intro k rest hk hc
    cases k with
    | zero =>
      refine ⟨x, by simp, ?_⟩
      simp only [List.cons_append, stepGo, List.length_cons]
      rw [stepGo_append_ge c xs (c - 1) rest (by simp at hc; omega)]
      congr 2
      simp at hc
      omega
    | succ k =>
      obtain ⟨y, hy, he⟩ := ih k rest (by simpa using hk) (by simp at hc; omega)
      refine ⟨y, by simpa using hy, ?_⟩
      simp only [List.cons_append, stepGo, List.length_cons, he]
      congr 2
      omega

/-- column `j` of the pairwise matrix -/
theorem stepGo_simData (sim : Nat → Nat → F) (B : List Nat) (j b : Nat) (hj : B[j]? = some b) :
    ∀ A : List Nat, stepGo B.length j (simData sim A B) = A.map fun a => sim a b := by
  have hjl : j < B.length := by
    rcases Nat.lt_or_ge j B.length with h | h
    · exact h
    · rw [List.getElem?_eq_none h] at hj; cases hj
  intro A
  induction A with
  | nil => simp [simData, stepGo]
  | cons a as ih =>
    obtain ⟨x, hx, he⟩ := stepGo_append_lt B.length (simRow sim a B) j (simData sim as B)
      (by rw [length_simRow]; exact hjl) (by rw [length_simRow]; omega)
    rw [length_simRow] at he
    have hk : B.length - (B.length - j) = j := by omega
    rw [hk, ih] at he
    have hx' : x = sim a b := by
      rw [simRow_eq_map, List.getElem?_map, hj] at hx
      simpa using hx.symm
    simp [simData, he, hx']

theorem colsGo_simData (sim : Nat → Nat → F) (A B : List Nat) :
    ∀ (Bs : List Nat) (j : Nat), B.drop j = Bs →
      colsGo ⟨A.length, B.length, simData sim A B⟩ Bs.length j =
        Bs.map fun b => A.map fun a => sim a b := by
  intro Bs
  induction Bs with
  | nil => intro j _; simp [colsGo]
  | cons b bs ih =>
    intro j hj
    have hjb : B[j]? = some b := by
      have := congrArg (fun l => l[0]?) hj
      simpa using this
    have hd : B.drop (j + 1) = bs := by
      have := congrArg (fun l => l.drop 1) hj
      simpa [List.drop_drop, Nat.add_comm] using this
    simp only [List.length_cons, colsGo, List.map_cons]
    rw [stepGo_simData sim B j b hjb A, ih (j + 1) hd]

theorem colList_simData (sim : Nat → Nat → F) (A B : List Nat) :
    colList ⟨A.length, B.length, simData sim A B⟩ = B.map fun b => A.map fun a => sim a b := by
  have := colsGo_simData sim A B B 0 (by simp)
  simpa [colList] using this

/-! ### the caching adaptor -/

/-- cache invariant: every stored value is the value of the wrapped similarity -/
def MemoOK (sim : Nat → Nat → F) (memo : Memo F) : Prop :=
  ∀ a b v, memoGet memo a b = some v → v = sim a b

theorem memoOK_nil (sim : Nat → Nat → F) : MemoOK sim [] := by
  intro a b v h; simp [memoGet] at h

theorem cachedCalc_spec (sim : Nat → Nat → F) (memo : Memo F) (a b : Nat) (h : MemoOK sim memo) :
    (cachedCalc sim memo a b).1 = sim a b ∧ MemoOK sim (cachedCalc sim memo a b).2 := by
  unfold cachedCalc
  cases hg : memoGet memo a b with
  | some v => exact ⟨h a b v hg, h⟩
  | none =>
    refine ⟨rfl, ?_⟩
    intro a' b' v hv
    simp only [memoGet] at hv
    split at hv
    · rename_i hk
      injection hv with hv
      rw [← hv, hk.1, hk.2]
    · exact h a' b' v hv

theorem simRowM_spec (sim : Nat → Nat → F) (a : Nat) : ∀ (B : List Nat) (memo : Memo F),
    MemoOK sim memo → (simRowM sim a B memo).1 = simRow sim a B ∧ MemoOK sim (simRowM sim a B memo).2 := by
  intro B
  induction B with
  | nil => intro memo h; exact ⟨rfl, h⟩
  | cons b bs ih =>
    intro memo h
    obtain ⟨h1, h2⟩ := cachedCalc_spec sim memo a b h
    obtain ⟨h3, h4⟩ := ih _ h2
    simp only [simRowM, simRow]
    exact ⟨by rw [h1, h3], h4⟩

theorem simDataM_spec (sim : Nat → Nat → F) (B : List Nat) : ∀ (A : List Nat) (memo : Memo F),
    MemoOK sim memo → (simDataM sim A B memo).1 = simData sim A B ∧ MemoOK sim (simDataM sim A B memo).2 := by
  intro A
  induction A with
  | nil => intro memo h; exact ⟨rfl, h⟩
  | cons a as ih =>
    intro memo h
    obtain ⟨h1, h2⟩ := simRowM_spec sim a B memo h
    obtain ⟨h3, h4⟩ := ih _ h2
    simp only [simDataM, simData]
    exact ⟨by rw [h1, h3], h4⟩

end generic

/-! ### maxima and sums at ℝ -/

/-- maximum of a non-empty list (0 for the empty list, never used) -/
noncomputable def lmax : List ℝ → ℝ
  | [] => 0
  | x :: xs => xs.foldl max x

theorem maxGo_eq (a : ℝ) (l : List ℝ) : maxGo a l = l.foldl max a := by
  induction l generalizing a with
  | nil => rfl
  | cons b bs ih =>
    simp only [maxGo, List.foldl_cons, ih]
    congr 1
    simp only [lt_eq, decide_eq_true_eq]
    split
    · rename_i h; rw [max_eq_left h.le]
    · rename_i h; rw [max_eq_right (not_lt.1 h)]

theorem reduceMax_eq (l : List ℝ) (h : l ≠ []) : reduceMax l = some (lmax l) := by
  cases l with
  | nil => exact absurd rfl h
  | cons x xs => simp [reduceMax, lmax, maxGo_eq]

theorem le_foldl_max (a : ℝ) (l : List ℝ) : a ≤ l.foldl max a := by
  induction l generalizing a with
  | nil => simp
  | cons b bs ih => exact le_trans (le_max_left _ _) (ih _)

theorem mem_le_foldl_max (a : ℝ) (l : List ℝ) (x : ℝ) (hx : x ∈ l) : x ≤ l.foldl max a := by
  induction l generalizing a with
  | nil => simp at hx
  | cons b bs ih =>
    rcases List.mem_cons.1 hx with rfl | h
    · exact le_trans (le_max_right _ _) (le_foldl_max _ bs)
    · exact ih _ h

theorem foldl_max_mem (a : ℝ) (l : List ℝ) : l.foldl max a = a ∨ l.foldl max a ∈ l := by
  induction l generalizing a with
  | nil => left; rfl
  | cons b bs ih =>
    simp only [List.foldl_cons]
    rcases ih (max a b) with h | h
    · rcases max_choice a b with hm | hm
      · left; rw [h, hm]
      · right; rw [h, hm]; simp
    · right; simp [h]

/-- `lmax` is the greatest element of a non-empty list -/
theorem lmax_isGreatest (l : List ℝ) (h : l ≠ []) : lmax l ∈ l ∧ ∀ x ∈ l, x ≤ lmax l := by
  cases l with
  | nil => exact absurd rfl h
  | cons x xs =>
    refine ⟨?_, ?_⟩
    · rcases foldl_max_mem x xs with h | h
      · simp [lmax, h]
      · simp [lmax, h]
    · intro y hy
      rcases List.mem_cons.1 hy with rfl | hy
      · exact le_foldl_max _ xs
      · exact mem_le_foldl_max _ xs y hy

theorem maxes_map {α : Type} (f : α → List ℝ) (l : List α) (h : ∀ a ∈ l, f a ≠ []) :
    maxes (l.map f) = some (l.map fun a => lmax (f a)) := by
  induction l with
  | nil => rfl
  | cons a as ih =>
    have h1 := reduceMax_eq (f a) (h a (by simp))
    have h2 := ih (fun x hx => h x (by simp [hx]))
    simp [maxes, h1, h2]

theorem sumGo_eq (acc : ℝ) (l : List ℝ) : sumGo acc l = acc + l.sum := by
  induction l generalizing acc with
  | nil => simp [sumGo]
  | cons x xs ih => simp [sumGo, ih, add_assoc]

theorem sum_eq (l : List ℝ) : sum l = l.sum := by simp [sum, sumGo_eq]

theorem fmax_eq (a b : ℝ) : fmax a b = max a b := by
  simp only [fmax, isNaN_eq, Bool.false_eq_true, if_false, lt_eq, decide_eq_true_eq]
  split
  · rename_i h; rw [max_eq_right h.le]
  · rename_i h; rw [max_eq_left (not_lt.1 h)]

/-! ### combiners at ℝ -/

theorem funSimAvg_eq (r c : Nat) (rm cm : List ℝ) (hr : r ≠ 0) (hc : c ≠ 0) :
    funSimAvg r c rm cm = some ((rm.sum / r + cm.sum / c) / 2) := by
  have hr' : (r : ℝ) ≠ 0 := by exact_mod_cast hr
  have hc' : (c : ℝ) ≠ 0 := by exact_mod_cast hc
  simp [funSimAvg, div?_eq, hr', hc', sum_eq]

theorem funSimMax_eq (r c : Nat) (rm cm : List ℝ) (hr : r ≠ 0) (hc : c ≠ 0) :
    funSimMax r c rm cm = some (max (rm.sum / r) (cm.sum / c)) := by
  have hr' : (r : ℝ) ≠ 0 := by exact_mod_cast hr
  have hc' : (c : ℝ) ≠ 0 := by exact_mod_cast hc
  simp [funSimMax, div?_eq, hr', hc', sum_eq, fmax_eq]

theorem bma_eq (r c : Nat) (rm cm : List ℝ) (hr : r ≠ 0) :
    bma r c rm cm = some ((rm.sum + cm.sum) / ((r : ℝ) + c)) := by
  have hpos : (0 : ℝ) < (r : ℝ) + c := by
    have : (0 : ℝ) < r := by exact_mod_cast Nat.pos_of_ne_zero hr
    have : (0 : ℝ) ≤ c := Nat.cast_nonneg c
    linarith
  simp [bma, div?_eq, hpos.ne', sum_eq]

/-- exchanging the roles of rows and columns does not change any of the three combinations -/
theorem combineWith_swap (cb : Combiner) (r c : Nat) (rm cm : List ℝ) :
    combineWith cb c r cm rm = combineWith cb r c rm cm := by
  cases cb
  · simp only [combineWith, funSimAvg]
    cases h1 : (Num.div? (sum rm) (Num.ofNat r) : Option ℝ) <;>
      cases h2 : (Num.div? (sum cm) (Num.ofNat c) : Option ℝ) <;> simp [add_comm]
  · simp only [combineWith, funSimMax]
    cases h1 : (Num.div? (sum rm) (Num.ofNat r) : Option ℝ) <;>
      cases h2 : (Num.div? (sum cm) (Num.ofNat c) : Option ℝ) <;> simp [fmax_eq, max_comm]
  · simp only [combineWith, bma, add_eq, add_comm]

/-! ### `GroupSimilarity::calculate` -/

/-- the result in terms of the row maxima and column maxima of the pairwise similarities -/
theorem groupSimilarity_eq (cb : Combiner) (sim : Nat → Nat → ℝ) (A B : List Nat)
    (hA : A ≠ []) (hB : B ≠ []) (hA16 : A.length ≤ 65535) (hB16 : B.length ≤ 65535) :
    groupSimilarity cb sim A B = .ok (combineWith cb A.length B.length
      (A.map fun a => lmax (B.map (sim a))) (B.map fun b => lmax (A.map fun a => sim a b))) := by
  have hAl : 0 < A.length := List.length_pos_iff.2 hA
  have hBl : 0 < B.length := List.length_pos_iff.2 hB
  have hne : (simData sim A B) ≠ [] := by
    intro h
    have := congrArg List.length h
    rw [length_simData] at this
    have : 0 < A.length * B.length := Nat.mul_pos hAl hBl
    simp_all
  have hrm : rowMaxes ⟨A.length, B.length, simData sim A B⟩ =
      some (A.map fun a => lmax (B.map (sim a))) := by
    simp only [rowMaxes, rowList_simData sim A B hB, Option.bind_some]
    rw [maxes_map (fun a => simRow sim a B) A (by
      intro a _ h
      have := congrArg List.length h
      rw [length_simRow] at this
      simp at this
      exact hB this)]
    simp [simRow_eq_map]
  have hcm : colMaxes ⟨A.length, B.length, simData sim A B⟩ =
      some (B.map fun b => lmax (A.map fun a => sim a b)) := by
    simp only [colMaxes, colList_simData]
    rw [maxes_map (fun b => A.map fun a => sim a b) B (by
      intro b _ h
      simp at h
      exact hA h)]
  unfold groupSimilarity calculate
  have he : Matrix.isEmpty (⟨A.length, B.length, simData sim A B⟩ : Matrix ℝ) = false := by
    simp [Matrix.isEmpty, hne]
  rw [he]
  simp only [Bool.false_eq_true, if_false, combine, fitsU16, hrm, hcm]
  simp [hA16, hB16]

theorem groupSimilarity_empty (cb : Combiner) (sim : Nat → Nat → ℝ) (A B : List Nat)
    (h : A = [] ∨ B = []) : groupSimilarity cb sim A B = .ok (some 0) := by
  have hd : simData sim A B = [] := by
    rcases h with rfl | rfl
    · rfl
    · exact simData_nil_right sim A
  simp [groupSimilarity, calculate, Matrix.isEmpty, hd]

end Combine
end Hpo
