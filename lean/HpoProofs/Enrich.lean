import HpoModel.Hypergeom
import Mathlib.Data.List.Nodup
import Mathlib.Data.List.Count
import Mathlib.Data.List.Perm.Subperm
/-!
Helper lemmas for `C06_records`: the counting maps of `calculate_counts` and the record loop of
`inner_*_enrichment`.
-/
namespace Hpo
namespace Hypergeom

def keys (m : List (Nat × Nat)) : List Nat := m.map (·.1)

theorem getC_bump (m : List (Nat × Nat)) (i j : Nat) :
    getC (bump m i) j = if i = j then some ((getC m j).getD 0 + 1) else getC m j := by
  fun_induction bump m i <;> grind [getC]

theorem keys_bump (m : List (Nat × Nat)) (i : Nat) :
    keys (bump m i) = if i ∈ keys m then keys m else keys m ++ [i] := by
  fun_induction bump m i <;> grind [keys]

theorem nodup_keys_bump (m : List (Nat × Nat)) (i : Nat) (h : (keys m).Nodup) :
    (keys (bump m i)).Nodup := by
  rw [keys_bump]
  split
  · exact h
  · rename_i hi
    exact List.Nodup.append h (List.nodup_singleton i) (by simpa using hi)

theorem getC_isSome_iff (m : List (Nat × Nat)) (j : Nat) : (getC m j).isSome ↔ j ∈ keys m := by
  fun_induction getC m j <;> grind [keys]

theorem getC_bumpAll (m : List (Nat × Nat)) (l : List Nat) (j : Nat) :
    getC (bumpAll m l) j =
      if (getC m j).isSome ∨ j ∈ l then some ((getC m j).getD 0 + l.count j) else none := by
  fun_induction bumpAll m l with
  | case1 m => cases h : getC m j <;> simp
  | case2 m i is ih =>
    rw [ih, getC_bump]
    by_cases hij : i = j
    · subst hij; simp; omega
    · have : ¬ j = i := fun h => hij h.symm
      simp [hij, this]

theorem nodup_keys_bumpAll (m : List (Nat × Nat)) (l : List Nat) (h : (keys m).Nodup) :
    (keys (bumpAll m l)).Nodup := by
  fun_induction bumpAll m l with
  | case1 m => exact h
  | case2 m i is ih => exact ih (nodup_keys_bump m i h)

theorem getC_of_mem (m : List (Nat × Nat)) (h : (keys m).Nodup) (i c : Nat) (hm : (i, c) ∈ m) :
    getC m i = some c := by
  induction m with
  | nil => cases hm
  | cons e rest ih =>
    obtain ⟨i', c'⟩ := e
    simp only [keys, List.map_cons, List.nodup_cons] at h
    rcases List.mem_cons.1 hm with heq | hmem
    · cases heq; simp [getC]
    · have hne : i' ≠ i := by
        intro he; subst he
        exact h.1 (List.mem_map.2 ⟨(i', c), hmem, rfl⟩)
      simp only [getC, hne, if_false]
      exact ih h.2 hmem

theorem mem_of_getC (m : List (Nat × Nat)) (i c : Nat) (h : getC m i = some c) : (i, c) ∈ m := by
  fun_induction getC m i <;> grind

/-- the counting map of a list of ids: exactly the ids that occur, each with its multiplicity -/
theorem getC_counts (l : List Nat) (j : Nat) :
    getC (bumpAll [] l) j = if j ∈ l then some (l.count j) else none := by
  rw [getC_bumpAll]; simp [getC]

/-- ids met while walking the terms: multiplicity = number of terms carrying the id, provided no
term lists an id twice (`HashSet` of annotation ids) -/
theorem count_flatAnn (k : Kind) (ts : List Term) (r : Nat) (h : ∀ t ∈ ts, (t.ann k).Nodup) :
    (flatAnn k ts).count r = ts.countP (fun t => decide (r ∈ t.ann k)) := by
  induction ts with
  | nil => simp [flatAnn]
  | cons t ts ih =>
    have h1 := h t (List.mem_cons_self)
    have h2 : ∀ t' ∈ ts, (t'.ann k).Nodup := fun t' ht' => h t' (List.mem_cons_of_mem _ ht')
    rw [flatAnn, List.count_append, ih h2, List.countP_cons]
    by_cases hr : r ∈ t.ann k
    · rw [List.count_eq_one_of_mem h1 hr]; simp [hr]; omega
    · rw [List.count_eq_zero_of_not_mem hr]; simp [hr]

theorem mem_flatAnn (k : Kind) (ts : List Term) (r : Nat) :
    r ∈ flatAnn k ts ↔ ∃ t ∈ ts, r ∈ t.ann k := by
  induction ts with
  | nil => simp [flatAnn]
  | cons t ts ih => simp [flatAnn, ih]

/-- what the record loop returns when no lookup fails: one record per entry with a positive count -/
def expected (bg : List (Nat × Nat)) : List (Nat × Nat) → List Enr
  | [] => []
  | (id, c) :: rest =>
    if c = 0 then expected bg rest
    else { id := id, count := c, K := (getC bg id).getD 0 } :: expected bg rest

theorem inner_eq (N n : Nat) (bg sc : List (Nat × Nat)) (hn : n ≤ N)
    (h : ∀ e ∈ sc, e.2 ≠ 0 → ∃ K, getC bg e.1 = some K ∧ K ≤ N) :
    inner N n bg sc = .ok (expected bg sc) := by
  induction sc with
  | nil => simp [inner, expected]
  | cons e rest ih =>
    obtain ⟨id, c⟩ := e
    have ih' := ih (fun e he => h e (List.mem_cons_of_mem _ he))
    by_cases hc : c = 0
    · simp [inner, expected, hc, ih']
    · obtain ⟨K, hK, hKN⟩ := h (id, c) (List.mem_cons_self) hc
      have hv : validParams N K n = true := by
        simp [validParams]; omega
      simp [inner, expected, hc, hK, hv, ih']

theorem mem_expected (bg sc : List (Nat × Nat)) (e : Enr) :
    e ∈ expected bg sc ↔ ∃ c, (e.id, c) ∈ sc ∧ c ≠ 0 ∧ e.count = c ∧ e.K = (getC bg e.id).getD 0 := by
  induction sc with
  | nil => simp [expected]
  | cons x rest ih =>
    obtain ⟨id, c⟩ := x
    by_cases hc : c = 0
    · simp only [expected, hc, if_true, ih, List.mem_cons]
      constructor
      · rintro ⟨c', h1, h2⟩; exact ⟨c', Or.inr h1, h2⟩
      · rintro ⟨c', h1 | h1, h2⟩
        · cases h1; exact absurd rfl h2.1
        · exact ⟨c', h1, h2⟩
    · simp only [expected, hc, if_false, List.mem_cons, ih]
      constructor
      · rintro (h | ⟨c', h1, h2⟩)
        · subst h; exact ⟨c, Or.inl rfl, hc, rfl, rfl⟩
        · exact ⟨c', Or.inr h1, h2⟩
      · rintro ⟨c', h1 | h1, h2, h3, h4⟩
        · left; cases h1; cases e; simp_all
        · exact Or.inr ⟨c', h1, h2, h3, h4⟩

theorem ids_expected_sublist (bg sc : List (Nat × Nat)) :
    ((expected bg sc).map (·.id)).Sublist (keys sc) := by
  induction sc with
  | nil => simp [expected, keys]
  | cons x rest ih =>
    obtain ⟨id, c⟩ := x
    by_cases hc : c = 0
    · simp only [expected, hc, if_true, keys, List.map_cons]
      exact List.Sublist.cons _ ih
    · simp only [expected, hc, if_false, keys, List.map_cons]
      exact List.Sublist.cons_cons _ ih

/-- facts about one entry of the sample's counting map -/
theorem counts_entry (k : Kind) (ts : List Term) (hann : ∀ t ∈ ts, (t.ann k).Nodup) (i c : Nat)
    (h : (i, c) ∈ bumpAll [] (flatAnn k ts)) :
    i ∈ flatAnn k ts ∧ c = ts.countP (fun t => decide (i ∈ t.ann k)) := by
  have hk : (keys (bumpAll [] (flatAnn k ts))).Nodup :=
    nodup_keys_bumpAll [] _ (by simp [keys])
  have hg := getC_of_mem _ hk i c h
  rw [getC_counts] at hg
  by_cases hm : i ∈ flatAnn k ts
  · rw [if_pos hm] at hg
    refine ⟨hm, ?_⟩
    rw [← count_flatAnn k ts i hann]
    exact (Option.some.inj hg).symm
  · rw [if_neg hm] at hg; cases hg

theorem enrichment_records (k : Kind) (bg sample : List Term)
    (hsub : sample ⊆ bg) (hnd : sample.Nodup) (hann : ∀ t ∈ bg, (t.ann k).Nodup) :
    ∃ recs, enrichment k bg sample = .ok recs ∧
      (recs.map (·.id)).Nodup ∧
      (∀ r, r ∈ recs.map (·.id) ↔ ∃ t ∈ sample, r ∈ t.ann k) ∧
      ∀ e ∈ recs,
        e.count = sample.countP (fun t => decide (e.id ∈ t.ann k)) ∧
        e.K = bg.countP (fun t => decide (e.id ∈ t.ann k)) ∧
        0 < e.count ∧ e.count ≤ e.K ∧ e.count ≤ sample.length ∧ e.K ≤ bg.length ∧
        sample.length ≤ bg.length := by
  have hsp : sample.Subperm bg := hnd.subperm hsub
  have hlen : sample.length ≤ bg.length := hsp.length_le
  have hannS : ∀ t ∈ sample, (t.ann k).Nodup := fun t ht => hann t (hsub ht)
  have hbgC : ∀ i, i ∈ flatAnn k sample →
      getC (bumpAll [] (flatAnn k bg)) i = some (bg.countP (fun t => decide (i ∈ t.ann k))) := by
    intro i hi
    have : i ∈ flatAnn k bg := by
      obtain ⟨t, ht, hr⟩ := (mem_flatAnn k sample i).1 hi
      exact (mem_flatAnn k bg i).2 ⟨t, hsub ht, hr⟩
    rw [getC_counts, if_pos this, count_flatAnn k bg i hann]
  have hkeys : (keys (bumpAll [] (flatAnn k sample))).Nodup :=
    nodup_keys_bumpAll [] _ (by simp [keys])
  refine ⟨expected (bumpAll [] (flatAnn k bg)) (bumpAll [] (flatAnn k sample)), ?_, ?_, ?_, ?_⟩
  · unfold enrichment calculateCounts
    apply inner_eq _ _ _ _ hlen
    intro e he _
    obtain ⟨i, c⟩ := e
    obtain ⟨hi, _⟩ := counts_entry k sample hannS i c he
    exact ⟨_, hbgC i hi, List.countP_le_length⟩
  · exact List.Nodup.sublist (ids_expected_sublist _ _) hkeys
  · intro r
    rw [← mem_flatAnn]
    constructor
    · intro hr
      obtain ⟨e, he, rfl⟩ := List.mem_map.1 hr
      obtain ⟨c, hc, _⟩ := (mem_expected _ _ e).1 he
      exact (counts_entry k sample hannS e.id c hc).1
    · intro hr
      have hg : getC (bumpAll [] (flatAnn k sample)) r = some ((flatAnn k sample).count r) := by
        rw [getC_counts, if_pos hr]
      have hm := mem_of_getC _ _ _ hg
      have hpos : (flatAnn k sample).count r ≠ 0 := by
        have := List.count_pos_iff.2 hr; omega
      apply List.mem_map.2
      refine ⟨{ id := r, count := (flatAnn k sample).count r,
                K := (getC (bumpAll [] (flatAnn k bg)) r).getD 0 }, ?_, rfl⟩
      exact (mem_expected _ _ _).2 ⟨_, hm, hpos, rfl, rfl⟩
  · intro e he
    obtain ⟨c, hc, hc0, hcount, hK⟩ := (mem_expected _ _ e).1 he
    obtain ⟨hi, hceq⟩ := counts_entry k sample hannS e.id c hc
    rw [hbgC e.id hi] at hK
    simp only [Option.getD_some] at hK
    have h1 : e.count = sample.countP (fun t => decide (e.id ∈ t.ann k)) := by rw [hcount, hceq]
    have h2 : sample.countP (fun t => decide (e.id ∈ t.ann k))
        ≤ bg.countP (fun t => decide (e.id ∈ t.ann k)) := hsp.countP_le _
    refine ⟨h1, hK, by omega, by omega, ?_, ?_, hlen⟩
    · rw [h1]; exact List.countP_le_length
    · rw [hK]; exact List.countP_le_length

end Hypergeom
end Hpo
